package main

import (
	"fmt"
	"os"

	"ndndcheck/core"

	"golang.org/x/tools/go/ssa"
)

func main() {
	p, err := core.Load(os.Args[1], nil)
	if err != nil {
		panic(err)
	}
	fn := p.Func(os.Args[2], os.Args[3], os.Args[4])
	for _, b := range fn.Blocks {
		if iff, ok := b.Instrs[len(b.Instrs)-1].(*ssa.If); ok {
			fmt.Printf("b%d %s: if %s (%T) -> b%d / b%d\n", b.Index, p.Pos(iff.Pos()), iff.Cond.String(), iff.Cond, b.Succs[0].Index, b.Succs[1].Index)
			if bo, ok := iff.Cond.(*ssa.BinOp); ok {
				fmt.Printf("      X=%s (%T) Y=%s\n", bo.X.String(), bo.X, bo.Y.String())
			}
		}
	}
}
