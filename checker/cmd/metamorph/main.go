// metamorph rewrites a scratch copy of the repository with one mechanical,
// behaviour-preserving transformation applied at every site it matches. The checker is
// then run on the copy: every alarm is a false alarm (a rule that depends on the way a
// condition is written). Maintenance tool; never run on /repo itself.
//
//	metamorph -mode swap|ifelse|demorgan|all -dir <copy-of-repo> [-pkgs fw,std,dv]
//
// swap:     x op y  =>  y op' x   for comparisons whose operands are both free of calls
//
//	other than len/cap and method calls without arguments (pure accessors)
//
// ifelse:   if c {A} else {B}  =>  if !c {B} else {A}   (no init statement, else is a block)
// wrap:     func F(args) R { body }  =>  func F(args) R { return FImpl__(args) } + func FImpl__(args) R { body }
// demorgan: if a && b {…}  =>  if !(!a || !b) {…}  (and the dual), condition of an if only
package main

import (
	"bytes"
	"flag"
	"fmt"
	"go/ast"
	"go/format"
	"go/parser"
	"go/token"
	"os"
	"path/filepath"
	"strings"
)

var mode = flag.String("mode", "swap", "swap|ifelse|demorgan")
var dir = flag.String("dir", "", "scratch copy of the repository")
var pkgs = flag.String("pkgs", "fw,std,dv", "top-level directories to rewrite")
var only = flag.String("only", "", "wrap mode: comma-separated function names to split (default: every function)")

func mirror(op token.Token) (token.Token, bool) {
	switch op {
	case token.LSS:
		return token.GTR, true
	case token.GTR:
		return token.LSS, true
	case token.LEQ:
		return token.GEQ, true
	case token.GEQ:
		return token.LEQ, true
	case token.EQL, token.NEQ:
		return op, true
	}
	return op, false
}

// pure: no call other than len/cap/conversions-like single-arg builtins and zero-argument method calls
func pure(e ast.Expr) bool {
	ok := true
	ast.Inspect(e, func(n ast.Node) bool {
		switch x := n.(type) {
		case *ast.CallExpr:
			if id, isID := x.Fun.(*ast.Ident); isID && (id.Name == "len" || id.Name == "cap" || id.Name == "int" || id.Name == "uint64" || id.Name == "int64" || id.Name == "uint" || id.Name == "uint32") {
				return true
			}
			if _, isSel := x.Fun.(*ast.SelectorExpr); isSel && len(x.Args) == 0 {
				return true
			}
			ok = false
		case *ast.FuncLit:
			ok = false
		case *ast.UnaryExpr:
			if x.Op == token.ARROW {
				ok = false
			}
		}
		return ok
	})
	return ok
}

func isConstLike(e ast.Expr) bool {
	switch x := e.(type) {
	case *ast.BasicLit:
		return true
	case *ast.Ident:
		return x.Name == "nil" || x.Name == "true" || x.Name == "false"
	case *ast.ParenExpr:
		return isConstLike(x.X)
	case *ast.UnaryExpr:
		return isConstLike(x.X)
	}
	return false
}

func not(e ast.Expr) ast.Expr {
	if p, ok := e.(*ast.ParenExpr); ok {
		return not(p.X)
	}
	if u, ok := e.(*ast.UnaryExpr); ok && u.Op == token.NOT {
		return u.X
	}
	if b, ok := e.(*ast.BinaryExpr); ok {
		var neg token.Token
		switch b.Op {
		case token.EQL:
			neg = token.NEQ
		case token.NEQ:
			neg = token.EQL
		}
		// ordered comparisons are negated with ! (floats: !(a<b) is not a>=b for NaN)
		if neg != 0 {
			return &ast.BinaryExpr{X: b.X, Op: neg, Y: b.Y}
		}
	}
	switch e.(type) {
	case *ast.Ident, *ast.CallExpr, *ast.SelectorExpr, *ast.IndexExpr:
		return &ast.UnaryExpr{Op: token.NOT, X: e}
	}
	return &ast.UnaryExpr{Op: token.NOT, X: &ast.ParenExpr{X: e}}
}

func main() {
	flag.Parse()
	if *dir == "" || strings.HasPrefix(*dir, "/repo") && (*dir == "/repo" || strings.HasPrefix(*dir, "/repo/")) {
		fmt.Fprintln(os.Stderr, "need -dir <scratch copy> (never /repo)")
		os.Exit(2)
	}
	n, files := 0, 0
	for _, top := range strings.Split(*pkgs, ",") {
		filepath.Walk(filepath.Join(*dir, top), func(path string, info os.FileInfo, err error) error {
			if err != nil || info.IsDir() || !strings.HasSuffix(path, ".go") || strings.HasSuffix(path, "_test.go") || strings.HasPrefix(info.Name(), "zz_generated") {
				return nil
			}
			fset := token.NewFileSet()
			f, err := parser.ParseFile(fset, path, nil, parser.ParseComments)
			if err != nil {
				return nil
			}
			changed := 0
			ast.Inspect(f, func(nd ast.Node) bool {
				switch x := nd.(type) {
				case *ast.BinaryExpr:
					if *mode != "swap" {
						return true
					}
					if m, ok := mirror(x.Op); ok && !isConstLike(x.X) && !isConstLike(x.Y) && pure(x.X) && pure(x.Y) {
						x.X, x.Y, x.Op = x.Y, x.X, m
						changed++
					}
				case *ast.IfStmt:
					switch *mode {
					case "ifelse":
						if els, ok := x.Else.(*ast.BlockStmt); ok && x.Init == nil && pure(x.Cond) {
							x.Cond = not(x.Cond)
							x.Body, x.Else = els, x.Body
							changed++
						}
					case "demorgan":
						if b, ok := x.Cond.(*ast.BinaryExpr); ok && (b.Op == token.LAND || b.Op == token.LOR) {
							op := token.LOR
							if b.Op == token.LOR {
								op = token.LAND
							}
							x.Cond = &ast.UnaryExpr{Op: token.NOT, X: &ast.ParenExpr{X: &ast.BinaryExpr{X: not(b.X), Op: op, Y: not(b.Y)}}}
							changed++
						}
					}
				}
				return true
			})
			if *mode == "wrap" {
				var decls []ast.Decl
				for _, d := range f.Decls {
					decls = append(decls, d)
					fd, ok := d.(*ast.FuncDecl)
					if !ok || fd.Body == nil || fd.Name.Name == "init" || fd.Name.Name == "main" || fd.Name.Name == "_" || (fd.Type.TypeParams != nil && len(fd.Type.TypeParams.List) > 0) {
						continue
					}
					if *only != "" && !strings.Contains(","+*only+",", ","+fd.Name.Name+",") {
						continue
					}
					// name every parameter (and the receiver)
					k := 0
					var args []ast.Expr
					variadic := false
					if fd.Type.Params != nil {
						for _, fl := range fd.Type.Params.List {
							if len(fl.Names) == 0 {
								fl.Names = []*ast.Ident{ast.NewIdent(fmt.Sprintf("p%d__", k))}
								k++
							}
							for _, nm := range fl.Names {
								if nm.Name == "_" {
									nm.Name = fmt.Sprintf("p%d__", k)
									k++
								}
								args = append(args, ast.NewIdent(nm.Name))
							}
							if _, isEl := fl.Type.(*ast.Ellipsis); isEl {
								variadic = true
							}
						}
					}
					var fun ast.Expr = ast.NewIdent(fd.Name.Name + "Impl__")
					if fd.Recv != nil && len(fd.Recv.List) == 1 {
						r := fd.Recv.List[0]
						if len(r.Names) == 0 || r.Names[0].Name == "_" {
							r.Names = []*ast.Ident{ast.NewIdent("recv__")}
						}
						fun = &ast.SelectorExpr{X: ast.NewIdent(r.Names[0].Name), Sel: ast.NewIdent(fd.Name.Name + "Impl__")}
					}
					call := &ast.CallExpr{Fun: fun, Args: args}
					if variadic {
						call.Ellipsis = 1
					}
					var st ast.Stmt = &ast.ExprStmt{X: call}
					if fd.Type.Results != nil && len(fd.Type.Results.List) > 0 {
						st = &ast.ReturnStmt{Results: []ast.Expr{call}}
					}
					wrapper := &ast.FuncDecl{Recv: fd.Recv, Name: ast.NewIdent(fd.Name.Name), Type: fd.Type, Body: &ast.BlockStmt{List: []ast.Stmt{st}}}
					fd.Name = ast.NewIdent(fd.Name.Name + "Impl__")
					decls = append(decls, wrapper)
					changed++
				}
				f.Decls = decls
			}
			if changed == 0 {
				return nil
			}
			var buf bytes.Buffer
			if err := format.Node(&buf, fset, f); err != nil {
				fmt.Fprintln(os.Stderr, "format:", path, err)
				return nil
			}
			os.WriteFile(path, buf.Bytes(), info.Mode())
			n += changed
			files++
			return nil
		})
	}
	fmt.Printf("metamorph %s: %d sites in %d files\n", *mode, n, files)
}
