// ndndcheck decides the structural rules of one property on /repo's working tree.
package main

import (
	"encoding/json"
	"flag"
	"fmt"
	"os"
	"path/filepath"
	"runtime/debug"
	"sort"
	"strconv"
	"strings"
	"time"

	"ndndcheck/core"
	"ndndcheck/props"
)

var table = map[string]func(*core.Ctx){
	"C01": props.C01,
	"C02": props.C02,
	"C03": props.C03,
	"C04": props.C04,
	"C05": props.C05,
	"C06": props.C06,
	"C07": props.C07,
	"C08": props.C08,
	"C09": props.C09,
	"C10": props.C10,
	"C11": props.C11,
	"C12": props.C12,
	"C13": props.C13,
	"C14": props.C14,
	"C15": props.C15,
	"C16": props.C16,
	"C17": props.C17,
	"C18": props.C18,
	"C19": props.C19,
	"C20": props.C20,
}

func main() {
	prop := flag.String("prop", "", "property id (C01..C20)")
	tier := flag.String("tier", "quick", "quick|thorough")
	repo := flag.String("repo", "/repo", "repository root to analyse")
	verif := flag.String("verif", "/verif", "verif root (known_findings.json, evidence/)")
	list := flag.Bool("list", false, "list implemented properties")
	canaryTotal := flag.Int("canary-total", -1, "thorough tier: number of canary variants run by the wrapper")
	canaryFired := flag.Int("canary-fired", 0, "thorough tier: number of canaries on which the expected rule fired")
	canaryFailed := flag.String("canary-failed", "", "thorough tier: canaries that did not fire (rule has gone blind)")
	dumpAnchors := flag.String("dump-anchors", "", "run every property and write the fingerprints of all functions looked up by name to this file (maintenance: regenerates anchors.json)")
	sweep := flag.String("sweep", "", "maintenance (seed / refactoring sweeps): comma-separated property ids or 'all'; loads -repo once, runs those rule tables and prints their VIOLATION:/UNDECIDED: lines; writes no evidence and is not a registered check")
	dumpOpt := flag.String("dump-optderef", "", "maintenance: list optional-element dereferences in these comma-separated packages")
	flag.Parse()
	if *dumpOpt == "hashtables" {
		p, err := core.Load(*repo, nil)
		if err != nil {
			fmt.Fprintln(os.Stderr, err)
			os.Exit(2)
		}
		props.DumpHashTables(p)
		return
	}
	if *dumpOpt == "explore" {
		p, err := core.Load(*repo, nil)
		if err != nil {
			fmt.Fprintln(os.Stderr, err)
			os.Exit(2)
		}
		props.DumpExplore(p)
		return
	}
	if *dumpOpt != "" {
		p, err := core.Load(*repo, nil)
		if err != nil {
			fmt.Fprintln(os.Stderr, err)
			os.Exit(2)
		}
		props.DumpOptDerefs(p, strings.Split(*dumpOpt, ","))
		return
	}
	if *dumpAnchors != "" {
		p, err := core.Load(*repo, nil)
		if err != nil {
			fmt.Fprintln(os.Stderr, err)
			os.Exit(2)
		}
		p.Lookups = map[string]bool{}
		for _, run := range table {
			func() {
				defer func() { recover() }()
				run(core.NewCtx(p, "x", "quick"))
			}()
		}
		out := map[string]core.AnchorPrint{}
		var keys []string
		for k := range p.Lookups {
			keys = append(keys, k)
		}
		p.Lookups = nil
		for _, k := range keys {
			parts := strings.SplitN(k, "|", 3)
			if parts[1] == "" || parts[1] == "*" {
				// a callee named without its receiver: every unexported method / function of that name
				for _, f := range p.FuncsIn(core.ModPath + "/" + parts[0]) {
					if f.Parent() == nil && f.Name() == parts[2] && f.Blocks != nil && (f.Object() == nil || !f.Object().Exported()) {
						id := core.FuncID(f)
						out[parts[0]+"|"+id.Recv+"|"+parts[2]] = core.Fingerprint(f)
					}
				}
				continue
			}
			if f := p.Func(parts[0], parts[1], parts[2]); f != nil && f.Blocks != nil && (f.Object() == nil || !f.Object().Exported()) {
				out[k] = core.Fingerprint(f)
			}
		}
		b, _ := json.MarshalIndent(out, "", " ")
		os.WriteFile(*dumpAnchors, append(b, '\n'), 0o644)
		fb, _ := json.MarshalIndent(p.StructPrints(), "", " ")
		os.WriteFile(strings.TrimSuffix(*dumpAnchors, "anchors.json")+"fields.json", append(fb, '\n'), 0o644)
		fmt.Printf("%d unexported anchors fingerprinted\n", len(out))
		return
	}
	if *sweep != "" {
		os.Exit(runSweep(*sweep, *repo, *verif))
	}
	if *list {
		var ids []string
		for k := range table {
			ids = append(ids, k)
		}
		sort.Strings(ids)
		for _, k := range ids {
			fmt.Println(k)
		}
		return
	}
	run, ok := table[*prop]
	if !ok {
		fmt.Fprintf(os.Stderr, "unknown property %q\n", *prop)
		os.Exit(2)
	}
	seed, _ := strconv.ParseInt(os.Getenv("VERIF_SEED"), 10, 64)
	start := time.Now()
	fail := func(what string) {
		// an analysis that cannot be carried out is a failure of the check, never a pass
		dir := filepath.Join(*verif, "evidence", *prop+".violations")
		os.MkdirAll(dir, 0o755)
		path := filepath.Join(dir, "undecided.json")
		os.WriteFile(path, []byte(fmt.Sprintf("{\"property\":%q,\"status\":\"undecided\",\"detail\":%q}\n", *prop, what)), 0o644)
		ev := fmt.Sprintf("{\"property_id\":%q,\"tier\":%q,\"seed\":%d,\"level\":\"other\",\"coverage\":{\"explanation\":%q,\"evaluations\":0,\"distinct_nontrivial\":0},\"wall_s\":%f,\"violations\":1}\n",
			*prop, *tier, seed, "analysis could not be carried out: "+what, time.Since(start).Seconds())
		os.WriteFile(filepath.Join(*verif, "evidence", *prop+".json"), []byte(ev), 0o644)
		fmt.Printf("UNDECIDED: %s %s\n", *prop, what)
		fmt.Printf("VIOLATION property=%s replay=%s\n", *prop, path)
		os.Exit(1)
	}
	defer func() {
		if r := recover(); r != nil {
			fail(fmt.Sprintf("checker panic: %v\n%s", r, debug.Stack()))
		}
	}()
	p, err := core.Load(*repo, nil)
	if err != nil {
		fail(err.Error())
	}
	if len(p.All) < 40 {
		fail(fmt.Sprintf("only %d packages loaded", len(p.All)))
	}
	if b, err := os.ReadFile(filepath.Join(*verif, "anchors.json")); err == nil {
		if err := json.Unmarshal(b, &p.Anchors); err != nil {
			fail("anchors.json unreadable: " + err.Error())
		}
		p.ResolveAnchors()
		if fb, err := os.ReadFile(filepath.Join(*verif, "fields.json")); err == nil {
			if err := json.Unmarshal(fb, &p.Structs); err != nil {
				fail("fields.json unreadable: " + err.Error())
			}
			p.ResolveFields()
		}
	}
	known, err := core.LoadKnown(filepath.Join(*verif, "known_findings.json"))
	if err != nil {
		fail("known_findings.json unreadable: " + err.Error())
	}
	ctx := core.NewCtx(p, *prop, *tier)
	run(ctx)
	if len(p.Relocated) > 0 {
		var rs []string
		for k, v := range p.Relocated {
			rs = append(rs, strings.ReplaceAll(k, "|", ".")+" => "+v)
		}
		sort.Strings(rs)
		ctx.Extra["anchors_found_under_a_new_name"] = rs
	}
	if *tier == "thorough" {
		// the same rules under every build configuration that changes the file set
		configs := []string{"linux/amd64"}
		have := map[string]core.Status{}
		for _, o := range ctx.Obls {
			have[o.Key] = o.Status
		}
		for _, cfg := range [][2]string{{"darwin", "amd64"}, {"windows", "amd64"}} {
			p2, err := core.Load(*repo, []string{"GOOS=" + cfg[0], "GOARCH=" + cfg[1], "CGO_ENABLED=0"})
			name := cfg[0] + "/" + cfg[1]
			if err != nil {
				configs = append(configs, name+" (skipped: "+err.Error()+")")
				continue
			}
			p2.Anchors = p.Anchors
			p2.ResolveAnchors()
			p2.Structs = p.Structs
			p2.ResolveFields()
			c2 := core.NewCtx(p2, *prop, *tier)
			run(c2)
			added := 0
			for _, o := range c2.Obls {
				if st, ok := have[o.Key]; ok && st == o.Status {
					continue
				}
				o.Detail = "[" + name + "] " + o.Detail
				ctx.Obls = append(ctx.Obls, o)
				have[o.Key] = o.Status
				added++
			}
			configs = append(configs, fmt.Sprintf("%s (%d obligations, %d differing from linux/amd64)", name, len(c2.Obls), added))
			p2 = nil
			debug.FreeOSMemory()
		}
		core.Current = p
		ctx.Extra["build_configurations"] = configs
		if *canaryTotal >= 0 {
			ctx.Extra["canaries_total"] = *canaryTotal
			ctx.Extra["canaries_fired"] = *canaryFired
			if *canaryFailed != "" {
				ctx.Und("canary", "blind:"+*canaryFailed, "-", "one-instance-broken variants on which the expected rule did not fire: "+*canaryFailed)
			} else {
				ctx.Ok("canary", "all-fired", "-", fmt.Sprintf("%d/%d one-instance-broken variants of /repo were reported by the expected rule", *canaryFired, *canaryTotal))
			}
		}
	}
	os.Exit(ctx.Finish(*verif, known, start, seed))
}

// runSweep runs several rule tables on one loaded program (maintenance only: the sweeps over
// seeded changes and refactorings; the registered checks always run one property per process).
func runSweep(which, repo, verif string) int {
	var ids []string
	if which == "all" {
		for k := range table {
			ids = append(ids, k)
		}
	} else {
		ids = strings.Split(which, ",")
	}
	sort.Strings(ids)
	p, err := core.Load(repo, nil)
	if err != nil || len(p.All) < 40 {
		fmt.Printf("UNDECIDED: ALL load:failed at -: %v\n", err)
		return 1
	}
	if b, err := os.ReadFile(filepath.Join(verif, "anchors.json")); err == nil {
		json.Unmarshal(b, &p.Anchors)
		p.ResolveAnchors()
		if fb, err := os.ReadFile(filepath.Join(verif, "fields.json")); err == nil {
			json.Unmarshal(fb, &p.Structs)
			p.ResolveFields()
		}
	}
	known, err := core.LoadKnown(filepath.Join(verif, "known_findings.json"))
	if err != nil {
		fmt.Printf("UNDECIDED: ALL known_findings:unreadable at -: %v\n", err)
		return 1
	}
	rc := 0
	for _, id := range ids {
		run, ok := table[id]
		if !ok {
			continue
		}
		func() {
			defer func() {
				if r := recover(); r != nil {
					fmt.Printf("UNDECIDED: %s checker:panic at -: %v\n", id, r)
					rc = 1
				}
			}()
			ctx := core.NewCtx(p, id, "quick")
			run(ctx)
			if ctx.PrintBad(known) > 0 {
				rc = 1
			}
		}()
	}
	return rc
}
