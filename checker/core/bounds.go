package core

import (
	"fmt"
	"go/token"
	"go/types"

	"golang.org/x/tools/go/ssa"
)

// IndexSink describes an index operation a[i] found in a function.
type IndexSink struct {
	Instr     ssa.Instruction
	Container ssa.Value
	Index     ssa.Value
}

// IndexSinks lists the index operations of fn on slices, arrays-by-pointer and strings
// (not map lookups).
func IndexSinks(fn *ssa.Function) []IndexSink {
	var out []IndexSink
	Instrs(fn, func(in ssa.Instruction) {
		switch x := in.(type) {
		case *ssa.IndexAddr:
			if _, isArr := deref(x.X.Type()).Underlying().(*types.Array); isArr {
				if _, isPtr := x.X.Type().Underlying().(*types.Pointer); isPtr {
					return // local fixed-size arrays (varargs, literals)
				}
			}
			out = append(out, IndexSink{in, x.X, x.Index})
		case *ssa.Lookup:
			if b, ok := x.X.Type().Underlying().(*types.Basic); ok && b.Info()&types.IsString != 0 {
				out = append(out, IndexSink{in, x.X, x.Index})
			}
		case *ssa.Index:
			out = append(out, IndexSink{in, x.X, x.Index})
		}
	})
	return out
}

// impliesLenGreater reports whether "len op m" implies len > k.
func impliesLenGreater(op token.Token, m, k int64) bool {
	switch op {
	case token.GTR:
		return m >= k
	case token.GEQ:
		return m >= k+1
	case token.EQL:
		return m > k
	case token.NEQ:
		return m == 0 && k == 0
	}
	return false
}

// atomLenGreater: "len(x) > k" for container x (by provenance).
func atomLenGreater(x ssa.Value, k int64) *Atom {
	return &Atom{Name: fmt.Sprintf("len(x)>%d", k), Match: func(cond ssa.Value) (int, int) {
		op, a, b, ok := Cmp(cond)
		if !ok {
			return 0, 0
		}
		l, isLen := LenOf(a)
		m, isC := ConstInt(b)
		if !isLen || !isC {
			l, isLen = LenOf(b)
			m, isC = ConstInt(a)
			op = Swap(op)
		}
		if !isLen || !isC || !Same(l, x) {
			return 0, 0
		}
		t, f := 0, 0
		if impliesLenGreater(op, m, k) {
			t = 1
		}
		if impliesLenGreater(negate(op), m, k) {
			f = 1
		}
		return t, f
	}}
}

// atomIndexLess: "v < len(x)" for index value v.
func atomIndexLess(v, x ssa.Value) *Atom {
	return &Atom{Name: "i<len(x)", Match: func(cond ssa.Value) (int, int) {
		op, a, b, ok := Cmp(cond)
		if !ok {
			return 0, 0
		}
		// normalise to  v op len(x)
		if StripConv(b) == StripConv(v) && StripConv(a) != StripConv(v) {
			a, b = b, a
			op = Swap(op)
		}
		l, isLen := LenOf(b)
		okBound := isLen && Same(l, x)
		if ms, isMake := Strip(x).(*ssa.MakeSlice); isMake && !okBound {
			// x = make([]T, n): i < n bounds the index
			okBound = StripConv(ms.Len) == StripConv(b)
		}
		if !okBound || StripConv(a) != StripConv(v) {
			return 0, 0
		}
		t, f := 0, 0
		if op == token.LSS {
			t = 1
		}
		if negate(op) == token.LSS {
			f = 1
		}
		return t, f
	}}
}

// GuardVerdict is the result of IndexGuarded.
type GuardVerdict struct {
	Decided bool   // the index form is one the rule understands
	OK      bool   // a dominating guard was found
	Form    string // description of the index form
	Need    string // the guard that is required
}

// IndexGuarded decides, for the recognised index forms, whether a dominating length
// guard exists in fn:
//
//	x[k]          needs len(x) > k      (k constant)
//	x[len(x)-c]   needs len(x) > c-1    (c constant ≥ 1)
//	x[i]          needs i < len(x), or i is the index of a range loop over x
//
// splitResult lets the caller declare containers known to be non-empty (results of
// strings.Split with a non-empty separator have at least one element).
func IndexGuarded(fn *ssa.Function, s IndexSink, nonEmpty func(ssa.Value) bool) GuardVerdict {
	x := Strip(s.Container)
	idx := StripConv(s.Index)
	if k, ok := ConstInt(idx); ok {
		v := GuardVerdict{Decided: true, Form: fmt.Sprintf("x[%d]", k), Need: fmt.Sprintf("len(x) > %d", k)}
		if k == 0 && nonEmpty != nil && nonEmpty(x) {
			v.OK = true
			return v
		}
		if k < 0 {
			return v
		}
		g := Gate(fn, []ssa.Instruction{s.Instr}, Lit{A: atomLenGreater(x, k), Want: true})
		v.OK = g.OK && g.PassEdges > 0
		return v
	}
	if b, ok := idx.(*ssa.BinOp); ok && b.Op == token.SUB {
		if c, isC := ConstInt(b.Y); isC && c >= 1 {
			if l, isLen := LenOf(b.X); isLen && Same(l, x) {
				v := GuardVerdict{Decided: true, Form: fmt.Sprintf("x[len(x)-%d]", c), Need: fmt.Sprintf("len(x) > %d", c-1)}
				if c == 1 && nonEmpty != nil && nonEmpty(x) {
					v.OK = true
					return v
				}
				g := Gate(fn, []ssa.Instruction{s.Instr}, Lit{A: atomLenGreater(x, c-1), Want: true})
				v.OK = g.OK && g.PassEdges > 0
				return v
			}
		}
	}
	// variable index
	if phi, ok := idx.(*ssa.Phi); ok || isRangeIndex(idx, x) {
		_ = phi
		v := GuardVerdict{Decided: true, Form: "x[i]", Need: "i < len(x)"}
		if isRangeIndex(idx, x) {
			v.OK = true
			return v
		}
		g := Gate(fn, []ssa.Instruction{s.Instr}, Lit{A: atomIndexLess(idx, x), Want: true})
		v.OK = g.OK && g.PassEdges > 0
		return v
	}
	return GuardVerdict{Decided: false, Form: "x[<expr>]"}
}

// isRangeIndex: idx is the induction variable of a "for i := range x" loop lowered by
// go/ssa (t = phi[-1, t+1]; cond t+1 < len(x)), or the key of a range over a string.
func isRangeIndex(idx, x ssa.Value) bool {
	if e, ok := idx.(*ssa.Extract); ok {
		if nx, ok := e.Tuple.(*ssa.Next); ok && e.Index == 1 {
			if rg, ok := nx.Iter.(*ssa.Range); ok && Same(rg.X, x) {
				return true
			}
		}
	}
	b, ok := idx.(*ssa.BinOp)
	if !ok || b.Op != token.ADD {
		return false
	}
	if k, isC := ConstInt(b.Y); !isC || k != 1 {
		return false
	}
	phi, ok := b.X.(*ssa.Phi)
	if !ok || phi.Comment != "rangeindex" {
		return false
	}
	// the loop condition compares idx with len(x)
	for _, r := range Refs(idx) {
		if c, ok := r.(*ssa.BinOp); ok && c.Op == token.LSS && c.X == idx {
			if l, isLen := LenOf(c.Y); isLen && Same(l, x) {
				return true
			}
		}
	}
	return false
}

// AtomLenGreater exports the "len(x) > k" atom.
func AtomLenGreater(x ssa.Value, k int64) *Atom { return atomLenGreater(x, k) }
