package core

import (
	"go/constant"
	"go/token"
	"go/types"
	"strings"

	"golang.org/x/tools/go/ssa"
)

// Current is the program being analysed (one per process); it lets value identity see
// through the boundary of a private helper.
var Current *Prog

// ctxRoot is the root function of the rule being evaluated (set by the Deep primitives):
// a helper shared by several callers has exactly one call site INSIDE the body of that
// root more often than it has one in the whole program.
var ctxRoot *ssa.Function

// WithRoot sets the context root and returns the function that restores the previous one.
func WithRoot(fn *ssa.Function) func() {
	old := ctxRoot
	ctxRoot = fn
	return func() { ctxRoot = old }
}

// helperOK: cal can be regarded as part of the body of its callers: an unexported
// function/method (or closure, or instantiation) of a repo package that is not used as a
// value and cannot be reached through an interface.
func helperOK(cal *ssa.Function) bool {
	p := Current
	if p == nil || cal == nil || cal.Blocks == nil {
		return false
	}
	if v, ok := p.helperOK[cal]; ok {
		return v
	}
	res := false
	defer func() { p.helperOK[cal] = res }()
	if cal.Parent() == nil && (cal.Object() == nil || cal.Object().Exported()) {
		return false
	}
	if cal.Referrers() != nil {
		for _, r := range *cal.Referrers() {
			if _, ok := r.(ssa.CallInstruction); !ok {
				return false
			}
		}
	}
	if cal.Signature.Recv() != nil {
		for _, ci := range p.invokers[cal.Name()] {
			it, ok := ci.Common().Value.Type().Underlying().(*types.Interface)
			if !ok {
				continue
			}
			rt := cal.Signature.Recv().Type()
			if types.Implements(rt, it) || types.Implements(types.NewPointer(deref(rt)), it) {
				return false
			}
		}
	}
	res = true
	return true
}

// privateCallSite: the call site through which fn's parameters are bound: the only static
// call site inside the body of the context root when there is one, else the only static
// call site in the program. nil when fn is not a helper in that sense.
func privateCallSite(fn *ssa.Function) ssa.CallInstruction {
	p := Current
	if p == nil || !helperOK(fn) {
		return nil
	}
	pick := func(sites []ssa.CallInstruction) ssa.CallInstruction {
		if len(sites) != 1 {
			return nil
		}
		if _, isGo := sites[0].(*ssa.Go); isGo {
			return nil
		}
		if _, isDefer := sites[0].(*ssa.Defer); isDefer {
			return nil
		}
		if sites[0].Parent() == fn {
			return nil // recursion
		}
		return sites[0]
	}
	if ctxRoot != nil && ctxRoot != fn {
		set := Reach(ctxRoot)
		if inSet(set, fn) {
			var in []ssa.CallInstruction
			for _, cs := range p.callers[fn] {
				if inSet(set, cs.Parent()) && cs.Parent() != fn {
					in = append(in, cs)
				}
			}
			if cs := pick(in); cs != nil {
				return cs
			}
		}
	}
	return pick(p.callers[fn])
}

// resolveOnce maps a value to the value it is across a private boundary: a parameter of a
// private helper to the argument of its only call site, a free variable of a closure
// created once to its binding (the cell), the result of a call to a private helper with
// one return to the returned value. ok=false when v is not of such a kind.
func resolveOnce(v ssa.Value) (ssa.Value, bool) {
	switch x := v.(type) {
	case *ssa.Parameter:
		if a, ok := paramBind[x]; ok {
			return a, true
		}
		fn := x.Parent()
		cs := privateCallSite(fn)
		if cs == nil {
			return nil, false
		}
		for i, p := range fn.Params {
			if p == x && i < len(cs.Common().Args) {
				return cs.Common().Args[i], true
			}
		}
	case *ssa.FreeVar:
		fn := x.Parent()
		if fn.Referrers() == nil {
			return nil, false
		}
		var mcs []*ssa.MakeClosure
		for _, r := range *fn.Referrers() {
			if mc, ok := r.(*ssa.MakeClosure); ok {
				mcs = append(mcs, mc)
			}
		}
		if len(mcs) != 1 {
			return nil, false
		}
		for i, fv := range fn.FreeVars {
			if fv == x && i < len(mcs[0].Bindings) {
				return mcs[0].Bindings[i], true
			}
		}
	case *ssa.UnOp:
		// a load of a cell that is written exactly once (a captured or address-taken
		// parameter / local that is never reassigned) is the value written
		if x.Op != token.MUL {
			return nil, false
		}
		var cell ssa.Value = x.X
		if fv, ok := cell.(*ssa.FreeVar); ok {
			r, ok := resolveOnce(fv)
			if !ok {
				return nil, false
			}
			cell = r
		}
		al, ok := cell.(*ssa.Alloc)
		if !ok {
			return nil, false
		}
		var val ssa.Value
		n := 0
		escapes := false
		var visit func(v ssa.Value)
		visit = func(v ssa.Value) {
			for _, r := range Refs(v) {
				switch y := r.(type) {
				case *ssa.Store:
					if y.Addr == v {
						n++
						val = y.Val
					} else {
						escapes = true
					}
				case *ssa.MakeClosure:
					fn := y.Fn.(*ssa.Function)
					for i, b := range y.Bindings {
						if b == v && i < len(fn.FreeVars) {
							visit(fn.FreeVars[i])
						}
					}
				case *ssa.UnOp, *ssa.DebugRef:
				default:
					escapes = true
				}
			}
		}
		visit(al)
		if n == 1 && !escapes && val != nil {
			return val, true
		}
		return nil, false
	case *ssa.Call:
		cal := x.Call.StaticCallee()
		if cal == nil || privateCallSite(cal) != ssa.CallInstruction(x) || cal.Signature.Results().Len() != 1 {
			return nil, false
		}
		return uniqueResult(cal, 0)
	case *ssa.Extract:
		cl, ok := x.Tuple.(*ssa.Call)
		if !ok {
			return nil, false
		}
		cal := cl.Call.StaticCallee()
		if cal == nil || privateCallSite(cal) != ssa.CallInstruction(cl) {
			return nil, false
		}
		return uniqueResult(cal, x.Index)
	}
	return nil, false
}

// uniqueResult: every return of fn yields the same SSA value as result idx.
func uniqueResult(fn *ssa.Function, idx int) (ssa.Value, bool) {
	var ret ssa.Value
	ok := true
	n, nNil := 0, 0
	_ = nNil
	Instrs(fn, func(in ssa.Instruction) {
		r, isR := in.(*ssa.Return)
		if !isR || in.Block() == fn.Recover {
			return
		}
		if idx >= len(r.Results) {
			ok = false
			return
		}
		v := Strip(r.Results[idx])
		n++
		// "nothing" results (nil) do not take part: the helper yields V or nothing
		if IsNilConst(v) {
			nNil++
			return
		}
		if ret == nil {
			ret = v
		} else if ret != v {
			ok = false
		}
	})
	if ok && n > 0 && ret != nil {
		return ret, true
	}
	return nil, false
}

// Resolve applies resolveOnce repeatedly (bounded).
func Resolve(v ssa.Value) ssa.Value {
	for i := 0; i < 4; i++ {
		v = Strip(v)
		r, ok := resolveOnce(v)
		if !ok {
			return v
		}
		v = r
	}
	return Strip(v)
}

// Reach returns fn, its closures, and — transitively, to depth 3 — the helpers it calls
// (unexported functions and methods of the same package that are not used as values and
// not reachable through an interface): "the body of fn as a maintainer may have split it".
func Reach(fn *ssa.Function) []*ssa.Function {
	if fn == nil {
		return nil
	}
	if Current != nil {
		if v, ok := Current.reach[fn]; ok {
			return v
		}
	}
	seen := map[*ssa.Function]bool{}
	var out []*ssa.Function
	var visit func(f *ssa.Function, d int)
	visit = func(f *ssa.Function, d int) {
		if f == nil || seen[f] || f.Blocks == nil {
			return
		}
		seen[f] = true
		out = append(out, f)
		for _, a := range f.AnonFuncs {
			visit(a, d)
		}
		if d >= 3 {
			return
		}
		Instrs(f, func(in ssa.Instruction) {
			ci, ok := in.(ssa.CallInstruction)
			if !ok {
				return
			}
			if _, isGo := in.(*ssa.Go); isGo {
				return
			}
			cal := ci.Common().StaticCallee()
			if cal == nil || cal.Blocks == nil || seen[cal] || cal == fn {
				return
			}
			if !samePkg(cal, fn) || !helperOK(cal) {
				return
			}
			if globalUniqueSite(cal) == ci || smallSharedHelper(cal) {
				visit(cal, d+1)
			}
		})
	}
	visit(fn, 0)
	if Current != nil {
		Current.reach[fn] = out
	}
	return out
}

// globalUniqueSite: the only static call site of cal in the program (nil if several).
func globalUniqueSite(cal *ssa.Function) ssa.CallInstruction {
	sites := Current.callers[cal]
	if len(sites) != 1 || sites[0].Parent() == cal {
		return nil
	}
	return sites[0]
}

// smallSharedHelper: a helper with several call sites is still taken as part of each
// caller's body when it is small, not recursive, and not itself a function the rule
// tables look up by name (those are analysed as units of their own).
func smallSharedHelper(cal *ssa.Function) bool {
	p := Current
	if cal.Parent() != nil {
		return true
	}
	n := 0
	rec := false
	Instrs(cal, func(in ssa.Instruction) {
		n++
		if ci, ok := in.(ssa.CallInstruction); ok && ci.Common().StaticCallee() == cal {
			rec = true
		}
	})
	if rec || n > 60 {
		return false
	}
	for k := range p.Anchors {
		if strings.HasSuffix(k, "|"+cal.Name()) {
			return false
		}
	}
	return true
}

func samePkg(a, b *ssa.Function) bool {
	pa, pb := pkgOf(a), pkgOf(b)
	return pa != nil && pa == pb
}

func pkgOf(f *ssa.Function) *ssa.Package {
	for f.Parent() != nil {
		f = f.Parent()
	}
	if f.Pkg != nil {
		return f.Pkg
	}
	if o := f.Origin(); o != nil {
		return o.Pkg
	}
	return nil
}

// InstrsDeep visits the instructions of Reach(fn).
func InstrsDeep(fn *ssa.Function, f func(ssa.Instruction)) {
	defer WithRoot(fn)()
	for _, g := range Reach(fn) {
		Instrs(g, f)
	}
}

// FindCallsDeep is FindCalls over Reach(fn).
func FindCallsDeep(fn *ssa.Function, ids ...CalleeID) []ssa.CallInstruction {
	var out []ssa.CallInstruction
	for _, g := range Reach(fn) {
		out = append(out, FindCalls(g, ids...)...)
	}
	return out
}

func inSet(fs []*ssa.Function, f *ssa.Function) bool {
	for _, g := range fs {
		if g == f {
			return true
		}
	}
	return false
}

// callSitesIn returns the call sites of g located in functions of set.
func callSitesIn(g *ssa.Function, set []*ssa.Function) []ssa.Instruction {
	var out []ssa.Instruction
	if Current == nil {
		return nil
	}
	for _, cs := range Current.callers[g] {
		if inSet(set, cs.Parent()) {
			out = append(out, cs)
		}
	}
	// a closure: the instruction that calls (or creates) it
	if g.Parent() != nil && g.Referrers() != nil {
		for _, r := range *g.Referrers() {
			if mc, ok := r.(*ssa.MakeClosure); ok && inSet(set, mc.Parent()) {
				called := false
				for _, r2 := range Refs(mc) {
					if ci, ok := r2.(ssa.CallInstruction); ok && ci.Common().Value == ssa.Value(mc) {
						out = append(out, ci)
						called = true
					}
				}
				if !called {
					out = append(out, mc) // stored / passed on: treated as reachable where it is created
				}
			}
		}
	}
	return out
}

// GateDeep is Gate for a root function whose body may have been split into private
// helpers: effects may sit in any function of Reach(root). An effect is guarded if it is
// unreachable (with the pass edges removed) inside its own function, or else if every call
// site of that function is guarded in turn, up to root.
func GateDeep(root *ssa.Function, effects []ssa.Instruction, pass ...Lit) GateResult {
	defer WithRoot(root)()
	set := Reach(root)
	res := GateResult{OK: true, PerLit: make([]int, len(pass))}
	counted := map[*ssa.Function]bool{}
	var check func(effs []ssa.Instruction, depth int)
	check = func(effs []ssa.Instruction, depth int) {
		by := map[*ssa.Function][]ssa.Instruction{}
		var order []*ssa.Function
		for _, e := range effs {
			f := e.Parent()
			if _, ok := by[f]; !ok {
				order = append(order, f)
			}
			by[f] = append(by[f], e)
		}
		for _, f := range order {
			r := Gate(f, by[f], pass...)
			if !counted[f] {
				counted[f] = true
				res.PassEdges += r.PassEdges
				for i := range r.PerLit {
					if i < len(res.PerLit) {
						res.PerLit[i] += r.PerLit[i]
					}
				}
			}
			if r.OK {
				continue
			}
			// "filtering producer": the effect uses a value handed out by a helper that
			// returns nothing (nil) on the paths to be dropped, and the effect is reached
			// only when that value is not nil — then the gate is the helper's
			if viaProducer(f, by[f], pass, &res) {
				continue
			}
			if f == root || depth > 4 {
				res.OK = false
				if res.Path == nil {
					res.Path = r.Path
				}
				continue
			}
			sites := callSitesIn(f, set)
			if len(sites) == 0 {
				res.OK = false
				if res.Path == nil {
					res.Path = r.Path
				}
				continue
			}
			check(sites, depth+1)
		}
	}
	if len(effects) > 0 {
		check(effects, 0)
	}
	// literals may also be asserted only above: count the pass edges of every function on
	// the way even when the lower level already sufficed
	for _, f := range set {
		if counted[f] {
			continue
		}
		_, per := CutEdges(f, pass...)
		for i := range per {
			if i < len(res.PerLit) {
				res.PerLit[i] += per[i]
				res.PassEdges += per[i]
			}
		}
		counted[f] = true
	}
	return res
}

// mustExec: every path through h from its entry to a normal return executes an
// instruction satisfying isB (a helper that "does B").
func mustExec(h *ssa.Function, isB func(ssa.Instruction) bool, depth int) bool {
	if h == nil || h.Blocks == nil || depth > 3 {
		return false
	}
	return MustFollow(h, Point{h.Blocks[0], 0}, deepB(isB, depth+1), nil).OK
}

// deepB widens isB to calls of private helpers that must execute B.
func deepB(isB func(ssa.Instruction) bool, depth int) func(ssa.Instruction) bool {
	return func(x ssa.Instruction) bool {
		if isB(x) {
			return true
		}
		ci, ok := x.(ssa.CallInstruction)
		if !ok {
			return false
		}
		if _, isGo := x.(*ssa.Go); isGo {
			return false
		}
		cal := ci.Common().StaticCallee()
		if cal == nil || cal.Blocks == nil || !helperOK(cal) || cal == x.Parent() {
			return false
		}
		return mustExec(cal, isB, depth)
	}
}

// MustFollowDeep is MustFollow across private helpers: B may be executed by a helper
// called after start, and when start lies in a helper of root the obligation continues
// after each call site of that helper.
func MustFollowDeep(root *ssa.Function, start Point, isB func(ssa.Instruction) bool, stop func(ssa.Instruction) bool) FollowResult {
	return mustFollowDeep(root, start, isB, stop, nil, false)
}

// MustFollowCutDeep is MustFollowDeep that never takes an edge of cut (edges of any
// function of Reach(root), e.g. from CutEdgesDeep).
// A helper called on the way counts as B when each of its paths executes B, takes a cut
// edge or ends at a stop instruction (its failing returns): the caller of such a helper is
// expected to propagate the failure.
func MustFollowCutDeep(root *ssa.Function, start Point, isB func(ssa.Instruction) bool, stop func(ssa.Instruction) bool, cut map[Edge]bool) FollowResult {
	return mustFollowDeep(root, start, isB, stop, cut, true)
}

func mustFollowDeep(root *ssa.Function, start Point, isB func(ssa.Instruction) bool, stop func(ssa.Instruction) bool, cut map[Edge]bool, stopInHelpers bool) FollowResult {
	defer WithRoot(root)()
	set := Reach(root)
	b0 := deepB(isB, 0)
	if stopInHelpers {
		var mk func(depth int) func(ssa.Instruction) bool
		mk = func(depth int) func(ssa.Instruction) bool {
			return func(x ssa.Instruction) bool {
				if isB(x) {
					return true
				}
				ci, ok := x.(*ssa.Call)
				if !ok || depth > 2 {
					return false
				}
				cal := ci.Call.StaticCallee()
				if cal == nil || cal.Blocks == nil || !helperOK(cal) || cal == x.Parent() {
					return false
				}
				return MustFollowCut(cal, Point{cal.Blocks[0], 0}, mk(depth+1), stop, cut).OK
			}
		}
		b0 = mk(0)
	}
	var follow func(pt Point, depth int) FollowResult
	follow = func(pt Point, depth int) FollowResult {
		f := pt.Block.Parent()
		r := MustFollowCut(f, pt, b0, stop, cut)
		if r.OK || f == root || depth > 4 {
			return r
		}
		sites := callSitesIn(f, set)
		if len(sites) == 0 {
			return r
		}
		for _, cs := range sites {
			if _, isMC := cs.(*ssa.MakeClosure); isMC {
				return r
			}
			if rr := follow(After(cs), depth+1); !rr.OK {
				return rr
			}
		}
		return FollowResult{OK: true}
	}
	return follow(start, 0)
}

// PrecedesDeep: on every path from root's entry to x an instruction satisfying isA is
// executed first — in x's own function, by a private helper called there, or before the
// call sites of x's function.
func PrecedesDeep(root *ssa.Function, x ssa.Instruction, isA func(ssa.Instruction) bool) bool {
	defer WithRoot(root)()
	set := Reach(root)
	var prec func(x ssa.Instruction, depth int) bool
	prec = func(x ssa.Instruction, depth int) bool {
		f := x.Parent()
		if Precedes(f, x, deepB(isA, 0)) {
			return true
		}
		if f == root || depth > 4 {
			return false
		}
		sites := callSitesIn(f, set)
		if len(sites) == 0 {
			return false
		}
		for _, cs := range sites {
			if !prec(cs, depth+1) {
				return false
			}
		}
		return true
	}
	return prec(x, 0)
}

// FieldNamed reports whether the struct field accessed by fa has one of the given names.
func FieldNamed(fa *ssa.FieldAddr, names ...string) bool {
	_, f := FieldAddrName(fa)
	for _, n := range names {
		if f == n {
			return true
		}
	}
	return false
}

// BaseName is the function's name without type arguments.
func BaseName(f *ssa.Function) string {
	if o := f.Origin(); o != nil {
		return o.Name()
	}
	n := f.Name()
	if i := strings.IndexByte(n, '['); i > 0 {
		return n[:i]
	}
	return n
}

var _ = token.ADD

// chainUp returns in, the call site of in's function, the call site of that one's
// function, … up to root (private helpers have one call site each).
func chainUp(root *ssa.Function, in ssa.Instruction) []ssa.Instruction {
	set := Reach(root)
	out := []ssa.Instruction{in}
	for i := 0; i < 6; i++ {
		f := out[len(out)-1].Parent()
		if f == root {
			break
		}
		sites := callSitesIn(f, set)
		if len(sites) != 1 {
			break
		}
		out = append(out, sites[0])
	}
	return out
}

// CommonFrame lifts a and b (instructions anywhere in Reach(root)) to instructions of one
// function: the instruction itself or the call through which it is executed.
func CommonFrame(root *ssa.Function, a, b ssa.Instruction) (ssa.Instruction, ssa.Instruction, bool) {
	ca, cb := chainUp(root, a), chainUp(root, b)
	for _, x := range ca {
		for _, y := range cb {
			if x.Parent() == y.Parent() {
				return x, y, true
			}
		}
	}
	return nil, nil, false
}

// ReachableAfterDeep: target can execute after `from` has executed (both anywhere in
// Reach(root)).
func ReachableAfterDeep(root *ssa.Function, from, target ssa.Instruction) bool {
	x, y, ok := CommonFrame(root, from, target)
	if !ok {
		return true // unknown relation: assume reachable
	}
	if x == y {
		// both inside the same call: order is decided inside (different helpers of one call cannot happen)
		return true
	}
	return ReachInstrFrom(After(x), y, AfterCallCuts(from, x), nil) != nil
}

// AfterCallCuts: `from` lies in a helper that returns a boolean, and cs is the call
// through which it runs. When every return the helper can reach after `from` yields the
// same constant, the caller's branch on the call result is decided once `from` has run:
// the edges of the other outcome are returned (to be cut). The Go idiom is
// `if cond && t.tryServe(...) { return }` with the effect on the helper's true path only.
func AfterCallCuts(from, cs ssa.Instruction) map[Edge]bool {
	cut, _ := afterCallCuts(from, cs, nil)
	return cut
}

// afterCallCuts is AfterCallCuts restricted to the returns the helper can reach after
// `from` WITHOUT executing an instruction satisfying avoid (the paths on which an obligation
// is still open). none reports that no return can be reached that way at all.
func afterCallCuts(from, cs ssa.Instruction, avoid func(ssa.Instruction) bool) (cuts map[Edge]bool, none bool) {
	if from == cs || from.Parent() == cs.Parent() {
		return nil, false
	}
	cv, ok := cs.(*ssa.Call)
	if !ok || cv.Call.StaticCallee() != from.Parent() {
		return nil, false
	}
	h := from.Parent()
	if h.Signature.Results().Len() != 1 {
		return nil, false
	}
	var val, have bool
	same := true
	anyReturn := false
	Instrs(h, func(in ssa.Instruction) {
		r, ok := in.(*ssa.Return)
		if !ok || len(r.Results) != 1 || !same || in.Block() == h.Recover {
			return
		}
		if ReachInstrFrom(After(from), r, nil, avoid) == nil {
			return
		}
		anyReturn = true
		b, isB := ConstBool(Strip(r.Results[0]))
		if !isB || (have && b != val) {
			same = false
			return
		}
		val, have = b, true
	})
	if !anyReturn {
		return nil, true
	}
	if !same || !have {
		return nil, false
	}
	cut := map[Edge]bool{}
	for _, b := range cs.Parent().Blocks {
		if len(b.Instrs) == 0 {
			continue
		}
		iff, ok := b.Instrs[len(b.Instrs)-1].(*ssa.If)
		if !ok {
			continue
		}
		c, neg := StripNot(iff.Cond)
		if Strip(c) != ssa.Value(cv) {
			continue
		}
		// cut the edge taken when the call yields !val; Succs[0] is taken when the
		// condition is true, i.e. when the call yields !neg
		idx := 1
		if neg == val {
			idx = 0
		}
		cut[Edge{b, b.Succs[idx]}] = true
	}
	return cut, false
}

// RootOf follows the private call sites upwards: the outermost function of which fn is
// (transitively) a private helper.
func RootOf(fn *ssa.Function) *ssa.Function {
	for i := 0; i < 4; i++ {
		if isAnchor(fn) {
			return fn // a function the rule tables name is a root of its own
		}
		cs := privateCallSite(fn)
		if cs == nil {
			if fn.Parent() != nil {
				// a closure: its parent is the frame
				fn = fn.Parent()
				continue
			}
			return fn
		}
		fn = cs.Parent()
	}
	return fn
}

// paramBind: parameter bindings of the predicate helper whose body is being matched in
// place of a call to it (see ExpandCond).
var paramBind = map[*ssa.Parameter]ssa.Value{}

// ExpandCond: when a branch condition is a call to a small predicate helper of the
// repository (unexported, one return, boolean result — e.g. `isLocalhost(name)` extracted
// from a repeated test), the condition that matters is the expression the helper returns,
// with its parameters bound to the arguments of THIS call. It returns that expression and
// a function that removes the bindings again; (v, no-op) when v is not such a call.
func ExpandCond(v ssa.Value) (ssa.Value, func()) {
	noop := func() {}
	cl, ok := Strip(v).(*ssa.Call)
	if !ok {
		return v, noop
	}
	cal := cl.Call.StaticCallee()
	if cal == nil && !cl.Call.IsInvoke() {
		// a predicate handed in as an argument (`collect(func(e) bool {…})` … `if keep(e)`):
		// the function literal bound to that parameter at the helper's call site
		switch f := Resolve(cl.Call.Value).(type) {
		case *ssa.Function:
			if f.Parent() != nil {
				cal = f
			}
		case *ssa.MakeClosure:
			cal, _ = f.Fn.(*ssa.Function)
		}
		if cal != nil && (cal.Blocks == nil || cal.Parent() == nil) {
			cal = nil
		}
	}
	if cal == nil || (cal.Parent() == nil && !helperOK(cal)) || cal.Signature.Results().Len() != 1 {
		return v, noop
	}
	if b, ok := cal.Signature.Results().At(0).Type().Underlying().(*types.Basic); !ok || b.Kind() != types.Bool {
		return v, noop
	}
	n := 0
	Instrs(cal, func(in ssa.Instruction) { n++ })
	if n > 40 {
		return v, noop
	}
	ret, ok := uniqueResult(cal, 0)
	if !ok {
		return v, noop
	}
	var bound []*ssa.Parameter
	for i, p := range cal.Params {
		if i < len(cl.Call.Args) {
			if _, dup := paramBind[p]; !dup {
				paramBind[p] = cl.Call.Args[i]
				bound = append(bound, p)
			}
		}
	}
	return ret, func() {
		for _, p := range bound {
			delete(paramBind, p)
		}
	}
}

// isAnchor: fn is one of the unexported functions the rule tables look up by name.
func isAnchor(fn *ssa.Function) bool {
	if Current == nil || fn.Parent() != nil {
		return false
	}
	r := ""
	if fn.Signature.Recv() != nil {
		r = namedName(deref(fn.Signature.Recv().Type()))
	}
	pk := pkgOf(fn)
	if pk == nil {
		return false
	}
	key := strings.TrimPrefix(pk.Pkg.Path(), ModPath+"/") + "|" + r + "|" + fn.Name()
	_, ok := Current.Anchors[key]
	return ok
}

// ReturnedValues: when v is the result (or a component of the result) of a call to a
// helper of the repository, the values that helper can return there (nil constants
// excluded); otherwise v itself.
func ReturnedValues(v ssa.Value) []ssa.Value {
	v = Strip(v)
	var cl *ssa.Call
	idx := 0
	switch x := v.(type) {
	case *ssa.Call:
		cl = x
	case *ssa.Extract:
		c, ok := x.Tuple.(*ssa.Call)
		if !ok {
			return []ssa.Value{v}
		}
		cl, idx = c, x.Index
	default:
		return []ssa.Value{v}
	}
	cal := cl.Call.StaticCallee()
	if cal == nil || !helperOK(cal) {
		return []ssa.Value{v}
	}
	var out []ssa.Value
	Instrs(cal, func(in ssa.Instruction) {
		if r, ok := in.(*ssa.Return); ok && idx < len(r.Results) && in.Block() != cal.Recover {
			if !IsNilConst(r.Results[idx]) {
				out = append(out, r.Results[idx])
			}
		}
	})
	if len(out) == 0 {
		return []ssa.Value{v}
	}
	return out
}

// CutEdgesDeep is CutEdges over every function of Reach(root).
func CutEdgesDeep(root *ssa.Function, lits ...Lit) (map[Edge]bool, []int) {
	defer WithRoot(root)()
	cut := map[Edge]bool{}
	per := make([]int, len(lits))
	for _, f := range Reach(root) {
		c, p := CutEdges(f, lits...)
		for e := range c {
			cut[e] = true
		}
		for i := range p {
			per[i] += p[i]
		}
	}
	return cut, per
}

// EdgeFactsDeep is EdgeFacts over every function of Reach(root).
func EdgeFactsDeep(root *ssa.Function, atoms ...*Atom) []EdgeFact {
	defer WithRoot(root)()
	var out []EdgeFact
	for _, f := range Reach(root) {
		out = append(out, EdgeFacts(f, atoms...)...)
	}
	return out
}

// viaProducer: every effect in effs uses (as receiver or argument of its call) the result
// of a helper call c such that (1) the effect is unreachable unless that result is
// non-nil, and (2) inside the helper every non-nil return is guarded by the pass
// literals. Pass-edge counts of the helper are added to res.
func viaProducer(f *ssa.Function, effs []ssa.Instruction, pass []Lit, res *GateResult) bool {
	for _, e := range effs {
		var cands []ssa.Value
		if ci, ok := e.(ssa.CallInstruction); ok {
			if ci.Common().IsInvoke() {
				cands = append(cands, ci.Common().Value)
			}
			cands = append(cands, ci.Common().Args...)
		}
		// any other effect (a return, a store): every helper result of the function is a
		// candidate — what matters is (1) and (2), not how the effect uses the value
		Instrs(f, func(in ssa.Instruction) {
			if cl, ok := in.(*ssa.Call); ok && cl.Call.StaticCallee() != nil && ssa.Instruction(cl) != e {
				cands = append(cands, cl)
			}
		})
		guarded := false
		for _, v := range cands {
			cl, isCall := Strip(v).(*ssa.Call)
			if !isCall {
				continue
			}
			h := cl.Call.StaticCallee()
			if h == nil || !helperOK(h) || h == f {
				continue
			}
			nn := &Atom{Name: "producer-result!=nil", Match: func(cond ssa.Value) (int, int) {
				op, x, y, ok := Cmp(cond)
				if !ok || (op != token.EQL && op != token.NEQ) || !IsNilConst(y) || Strip(x) != ssa.Value(cl) {
					return 0, 0
				}
				return Iff(op == token.NEQ)
			}}
			g := Gate(f, []ssa.Instruction{e}, Lit{A: nn, Want: true})
			if !g.OK || g.PassEdges == 0 {
				continue
			}
			var rets []ssa.Instruction
			Instrs(h, func(in ssa.Instruction) {
				if r, ok := in.(*ssa.Return); ok && len(r.Results) >= 1 && in.Block() != h.Recover && !IsNilConst(r.Results[0]) {
					rets = append(rets, r)
				}
			})
			if len(rets) == 0 {
				continue
			}
			// parameters of the helper are the arguments of this call
			var bound []*ssa.Parameter
			for i, p := range h.Params {
				if i < len(cl.Call.Args) {
					if _, dup := paramBind[p]; !dup {
						paramBind[p] = cl.Call.Args[i]
						bound = append(bound, p)
					}
				}
			}
			r2 := Gate(h, rets, pass...)
			for _, p := range bound {
				delete(paramBind, p)
			}
			if r2.OK {
				guarded = true
				res.PassEdges += r2.PassEdges
				for i := range r2.PerLit {
					if i < len(res.PerLit) {
						res.PerLit[i] += r2.PerLit[i]
					}
				}
				break
			}
		}
		if !guarded {
			return false
		}
	}
	return len(effs) > 0
}

// predicateEdges: the branch `if helper(...)` (or `helper(...) == K`) on a private
// predicate helper of the repository is a pass edge for the outcome that the helper can
// only produce through pass edges of its own: every return that may yield that outcome is
// unreachable in the helper once its pass edges (with the parameters bound to the
// arguments of this call) are removed. `if reason := t.loopReason(...); reason != ""`,
// `if entry != nil && t.tryServe(...) { return }`.
var predicateDepth int

func predicateEdges(f *ssa.Function, pass []Lit) (cut map[Edge]bool, perLit []int, passEdges int) {
	perLit = make([]int, len(pass))
	if Current == nil || predicateDepth >= 2 {
		return nil, perLit, 0
	}
	predicateDepth++
	defer func() { predicateDepth-- }()
	for _, b := range f.Blocks {
		if len(b.Instrs) == 0 {
			continue
		}
		iff, ok := b.Instrs[len(b.Instrs)-1].(*ssa.If)
		if !ok {
			continue
		}
		// the condition: a boolean helper call, or helper(...) ==/!= constant
		cond, neg := StripNot(iff.Cond)
		var cl *ssa.Call
		ridx := 0
		var konst *ssa.Const // nil: boolean call, compared with true
		asCall := func(v ssa.Value) (*ssa.Call, int, bool) {
			switch y := Strip(v).(type) {
			case *ssa.Call:
				return y, 0, y.Call.Signature().Results().Len() == 1
			case *ssa.Extract:
				if c, ok := y.Tuple.(*ssa.Call); ok {
					return c, y.Index, true // one component of (value, ok)
				}
			}
			return nil, 0, false
		}
		if c, i, ok := asCall(cond); ok {
			cl, ridx = c, i
		} else if op, x, y, okC := Cmp(cond); okC && (op == token.EQL || op == token.NEQ) {
			c, i, ok1 := asCall(x)
			k, ok2 := Strip(y).(*ssa.Const)
			if ok1 && ok2 {
				cl, ridx, konst = c, i, k
				neg = op == token.NEQ // Cmp already folded the negations into op
			}
		}
		if cl == nil {
			continue
		}
		h := cl.Call.StaticCallee()
		if h == nil || h.Blocks == nil || !helperOK(h) || h == f || ridx >= h.Signature.Results().Len() {
			continue
		}
		if _, ok := h.Signature.Results().At(ridx).Type().Underlying().(*types.Basic); !ok {
			continue
		}
		// does a returned constant equal the reference (true / K)?
		matches := func(v ssa.Value) (isConst, eq bool) {
			c, ok := Strip(v).(*ssa.Const)
			if !ok || c.Value == nil {
				// a string built by appending to a non-empty literal is not ""
				if bo, isB := Strip(v).(*ssa.BinOp); isB && bo.Op == token.ADD && konst != nil && konst.Value != nil &&
					konst.Value.Kind() == constant.String && constant.StringVal(konst.Value) == "" {
					for _, o := range []ssa.Value{bo.X, bo.Y} {
						if k, isK := Strip(o).(*ssa.Const); isK && k.Value != nil && k.Value.Kind() == constant.String && constant.StringVal(k.Value) != "" {
							return true, false
						}
					}
				}
				return false, false
			}
			if konst == nil {
				bv, isB := ConstBool(c)
				return isB, bv
			}
			if konst.Value == nil || c.Value.Kind() != konst.Value.Kind() {
				return false, false
			}
			return true, constant.Compare(c.Value, token.EQL, konst.Value)
		}
		for _, want := range []bool{true, false} {
			var bound []*ssa.Parameter
			for i, p := range h.Params {
				if i < len(cl.Call.Args) {
					if _, dup := paramBind[p]; !dup {
						paramBind[p] = cl.Call.Args[i]
						bound = append(bound, p)
					}
				}
			}
			var rets []ssa.Instruction
			exprLits := make([]int, len(pass))
			nExpr := 0
			Instrs(h, func(in ssa.Instruction) {
				r, ok := in.(*ssa.Return)
				if !ok || ridx >= len(r.Results) || in.Block() == h.Recover {
					return
				}
				e := r.Results[ridx]
				if isC, eq := matches(e); isC && eq != want {
					return
				}
				// a short-circuit expression returned as it is (`return a || x == y`): go/ssa
				// makes it a phi of boolean constants and the last operand; the outcome `want`
				// arrives only through the phi edges that do not carry the opposite constant,
				// and through an operand edge it asserts that operand
				if phi, isPhi := Strip(e).(*ssa.Phi); isPhi && konst == nil {
					covered, any := true, false
					for _, pe := range phi.Edges {
						if isC, eq := matches(pe); isC {
							if eq == want {
								covered = false // this constant outcome needs a gate on its path
							}
							continue
						}
						ec, eneg := StripNot(pe)
						hit := false
						for li, l := range pass {
							onT, onF := l.A.Match(ec)
							if eneg {
								onT, onF = onF, onT
							}
							w := onT
							if !want {
								w = onF
							}
							if w != 0 && (w > 0) == l.Want {
								exprLits[li]++
								hit = true
								break
							}
						}
						if !hit {
							covered = false
						}
						any = any || hit
					}
					if covered && any {
						nExpr++
						return
					}
				}
				// a boolean expression returned as it is (`return id, table.Get(id) != nil`):
				// the outcome asserts that expression
				if konst == nil {
					if _, isC := ConstBool(e); !isC {
						ec, eneg := StripNot(e)
						for li, l := range pass {
							onT, onF := l.A.Match(ec)
							if eneg {
								onT, onF = onF, onT
							}
							w := onT
							if !want {
								w = onF
							}
							if w != 0 && (w > 0) == l.Want {
								exprLits[li]++
								nExpr++
								return // this return is covered by the literal
							}
						}
					}
				}
				rets = append(rets, r)
			})
			r2 := GateResult{OK: true, PerLit: make([]int, len(pass))}
			if len(rets) > 0 {
				r2 = Gate(h, rets, pass...)
			}
			for _, p := range bound {
				delete(paramBind, p)
			}
			if len(rets) == 0 && nExpr == 0 {
				continue
			}
			if !r2.OK || (r2.PassEdges == 0 && nExpr == 0) {
				continue
			}
			for li := range exprLits {
				r2.PerLit[li] += exprLits[li]
			}
			// the edge taken when (result == reference) == want
			idx := 0
			if want == neg {
				idx = 1
			}
			if cut == nil {
				cut = map[Edge]bool{}
			}
			e := Edge{b, b.Succs[idx]}
			if !cut[e] {
				passEdges++
			}
			cut[e] = true
			for i := range r2.PerLit {
				if i < len(perLit) {
					perLit[i] += r2.PerLit[i]
				}
			}
		}
	}
	return cut, perLit, passEdges
}

// BetweenDeep: on every path that executes `from` and later `to` (both anywhere in
// Reach(root)), an instruction satisfying isA — or a helper that always executes one — runs
// in between. It holds trivially when `to` cannot execute after `from`.
func BetweenDeep(root *ssa.Function, from, to ssa.Instruction, isA func(ssa.Instruction) bool) bool {
	defer WithRoot(root)()
	ca, cb := chainUp(root, from), chainUp(root, to)
	for _, x := range ca {
		for j, y := range cb {
			if x.Parent() != y.Parent() {
				continue
			}
			if x == y {
				return false // `to` sits inside the helper that executes `from`: not decided here
			}
			// only the outcomes of the helper that are reachable from `from` without A are
			// still open in the caller (installRoute: the route was withdrawn ⇒ false)
			cuts, none := afterCallCuts(from, x, deepB(isA, 0))
			if none {
				return true
			}
			if ReachInstrFrom(After(x), y, cuts, deepB(isA, 0)) == nil {
				return true
			}
			// not in the common frame: then on the way down to `to`
			for k := j; k > 0; k-- {
				inner := cb[k-1]
				if Precedes(inner.Parent(), inner, deepB(isA, 0)) {
					return true
				}
			}
			return false
		}
	}
	return false
}
