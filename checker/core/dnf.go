package core

import (
	"go/token"
	"go/types"

	"golang.org/x/tools/go/ssa"
)

// BoolLit is one literal of a path or branch condition: Cond is true (Want) or false.
type BoolLit struct {
	Cond ssa.Value
	Want bool
	// when Cond is a comparison: its operator and operands, the operands resolved through
	// the parameters of the predicate helper the comparison was found in
	IsCmp bool
	Op    token.Token
	X, Y  ssa.Value
}

// CondDNF expands a boolean condition into disjunctive normal form: the conjunctions of
// atomic comparisons under which it is true (T) and false (F). It looks through !, through
// short-circuit values (&& / || lowered to a phi) and through calls of small predicate
// helpers of the repository with any number of returns (preferHop(a, b, c, d)): a helper
// call is true under (path to a return) ∧ (the value returned there). While the result is
// in use the helper parameters stay bound to the call's arguments (Same, FieldOf, … see
// through them); call restore when done. ok=false: v is atomic.
func CondDNF(v ssa.Value) (t, f [][]BoolLit, restore func(), ok bool) {
	var bound []*ssa.Parameter
	restore = func() {
		for _, p := range bound {
			delete(paramBind, p)
		}
	}
	var expand func(v ssa.Value, depth int) (t, f [][]BoolLit, ok bool)
	mul := func(a, b [][]BoolLit) [][]BoolLit {
		var out [][]BoolLit
		for _, x := range a {
			for _, y := range b {
				out = append(out, append(append([]BoolLit{}, x...), y...))
			}
		}
		return out
	}
	atom := func(v ssa.Value) (t, f [][]BoolLit) {
		l := BoolLit{Cond: v, Want: true}
		if op, x, y, isCmp := Cmp(v); isCmp {
			l.IsCmp, l.Op = true, op
			l.X = resolveBoundary(StripConv(x))
			l.Y = resolveBoundary(StripConv(y))
		}
		lf := l
		lf.Want = false
		return [][]BoolLit{{l}}, [][]BoolLit{{lf}}
	}
	expand = func(v ssa.Value, depth int) (t, f [][]BoolLit, ok bool) {
		v, neg := StripNot(v)
		defer func() {
			if neg {
				t, f = f, t
			}
		}()
		if depth > 3 {
			return nil, nil, false
		}
		if bt, fb, okB := boolDNF(v, 0); okB {
			// refine the literals of the short-circuit value
			conv := func(d [][]blit) [][]BoolLit {
				var out [][]BoolLit
				for _, c := range d {
					cur := [][]BoolLit{{}}
					for _, l := range c {
						lt, lf, okL := expand(l.c, depth+1)
						if !okL {
							lt, lf = atom(l.c)
						}
						if l.want {
							cur = mul(cur, lt)
						} else {
							cur = mul(cur, lf)
						}
						if len(cur) > 32 {
							return nil
						}
					}
					out = append(out, cur...)
				}
				return out
			}
			t, f = conv(bt), conv(fb)
			return t, f, t != nil && f != nil
		}
		cl, isCall := Strip(v).(*ssa.Call)
		if !isCall {
			return nil, nil, false
		}
		h := cl.Call.StaticCallee()
		if h == nil || h.Blocks == nil || !helperOK(h) || h.Signature.Results().Len() != 1 || len(h.Params) != len(cl.Call.Args) {
			return nil, nil, false
		}
		if bt, isB := h.Signature.Results().At(0).Type().Underlying().(*types.Basic); !isB || bt.Kind() != types.Bool {
			return nil, nil, false
		}
		n := 0
		Instrs(h, func(ssa.Instruction) { n++ })
		if n > 60 {
			return nil, nil, false
		}
		for i, p := range h.Params {
			if _, dup := paramBind[p]; dup {
				return nil, nil, false
			}
			paramBind[p] = cl.Call.Args[i]
			bound = append(bound, p)
		}
		// every acyclic path entry → return
		bad := false
		var walk func(b *ssa.BasicBlock, lits []BoolLit, seen map[*ssa.BasicBlock]bool)
		walk = func(b *ssa.BasicBlock, lits []BoolLit, seen map[*ssa.BasicBlock]bool) {
			if bad || seen[b] || len(t)+len(f) > 32 {
				bad = true
				return
			}
			seen[b] = true
			defer delete(seen, b)
			switch term := b.Instrs[len(b.Instrs)-1].(type) {
			case *ssa.Return:
				if len(term.Results) != 1 {
					bad = true
					return
				}
				e := term.Results[0]
				if bv, isC := ConstBool(e); isC {
					if bv {
						t = append(t, append([]BoolLit{}, lits...))
					} else {
						f = append(f, append([]BoolLit{}, lits...))
					}
					return
				}
				et, ef, okE := expand(e, depth+1)
				if !okE {
					et, ef = atom(e)
				}
				t = append(t, mul([][]BoolLit{lits}, et)...)
				f = append(f, mul([][]BoolLit{lits}, ef)...)
			case *ssa.If:
				ct, cf, okC := expand(term.Cond, depth+1)
				if !okC {
					ct, cf = atom(term.Cond)
				}
				for _, c := range ct {
					walk(b.Succs[0], append(append([]BoolLit{}, lits...), c...), seen)
				}
				for _, c := range cf {
					walk(b.Succs[1], append(append([]BoolLit{}, lits...), c...), seen)
				}
			case *ssa.Jump:
				walk(b.Succs[0], lits, seen)
			default:
				bad = true
			}
		}
		walk(h.Blocks[0], nil, map[*ssa.BasicBlock]bool{})
		for _, p := range h.Params {
			delete(paramBind, p)
		}
		bound = nil
		if bad {
			return nil, nil, false
		}
		return t, f, true
	}
	t, f, ok = expand(v, 0)
	return t, f, restore, ok
}

// ReachDNF: the path conditions, in disjunctive normal form, under which block `to` is
// reached from block `from` along acyclic paths that stay inside `within` (nil: anywhere);
// branch conditions are expanded with CondDNF. restore unbinds the helper parameters.
func ReachDNF(from, to *ssa.BasicBlock, within func(*ssa.BasicBlock) bool) (dnf [][]BoolLit, restore func(), ok bool) {
	var restores []func()
	restore = func() {
		for _, r := range restores {
			r()
		}
	}
	bad := false
	var walk func(b *ssa.BasicBlock, lits []BoolLit, seen map[*ssa.BasicBlock]bool)
	walk = func(b *ssa.BasicBlock, lits []BoolLit, seen map[*ssa.BasicBlock]bool) {
		if bad || len(dnf) > 512 {
			bad = true
			return
		}
		if b == to {
			dnf = append(dnf, append([]BoolLit{}, lits...))
			return
		}
		if seen[b] || (within != nil && !within(b)) {
			return
		}
		seen[b] = true
		defer delete(seen, b)
		if len(b.Instrs) == 0 {
			return
		}
		switch term := b.Instrs[len(b.Instrs)-1].(type) {
		case *ssa.If:
			ct, cf, r, okC := CondDNF(term.Cond)
			restores = append(restores, r)
			if !okC {
				ct, cf = AtomLits(term.Cond)
			}
			for _, c := range ct {
				walk(b.Succs[0], append(append([]BoolLit{}, lits...), c...), seen)
			}
			for _, c := range cf {
				walk(b.Succs[1], append(append([]BoolLit{}, lits...), c...), seen)
			}
		case *ssa.Jump:
			walk(b.Succs[0], lits, seen)
		}
	}
	walk(from, nil, map[*ssa.BasicBlock]bool{})
	return dnf, restore, !bad
}

// AtomLits: the one-literal formulas of an atomic condition.
func AtomLits(v ssa.Value) (t, f [][]BoolLit) {
	l := BoolLit{Cond: v, Want: true}
	if op, x, y, isCmp := Cmp(v); isCmp {
		l.IsCmp, l.Op = true, op
		l.X = resolveBoundary(StripConv(x))
		l.Y = resolveBoundary(StripConv(y))
	}
	lf := l
	lf.Want = false
	return [][]BoolLit{{l}}, [][]BoolLit{{lf}}
}

// Rel: the orderings of (X, Y) a comparison literal admits (RelAll when it is none).
func (l BoolLit) Rel() RelSet {
	if !l.IsCmp {
		return RelAll
	}
	r := relOf(l.Op)
	if !l.Want {
		r = RelAll &^ r
	}
	return r
}

// SwapRel mirrors a relation set (x?y → y?x).
func SwapRel(r RelSet) RelSet {
	var o RelSet
	if r&RelLT != 0 {
		o |= RelGT
	}
	if r&RelGT != 0 {
		o |= RelLT
	}
	if r&RelEQ != 0 {
		o |= RelEQ
	}
	return o
}
