package core

import (
	"go/token"

	"golang.org/x/tools/go/ssa"
)

// FlowPath decides whether a value satisfying isSource can flow, through phis only
// (SSA copies), to the value used at instruction use along a CFG path that takes none
// of the cut edges. It is the value-level form of Gate: "the sink receives a source
// value only on paths that pass an edge asserting the atom" holds iff FlowPath, with
// the edges asserting the atom cut, finds nothing. transfer (optional) lets the flow
// continue through a non-phi definition (return the operands the value is copied from).
func FlowPath(v ssa.Value, use ssa.Instruction, isSource func(ssa.Value) bool, cut map[Edge]bool, transfer func(ssa.Value) []ssa.Value) bool {
	return flowPath(v, use, isSource, cut, transfer, nil, false)
}

// FlowPathVia is FlowPath restricted to flows whose CFG path, between the definition of
// the source value and the use, takes at least one edge of via: "the value still arrives
// although the branch asserting X was taken after it was produced".
func FlowPathVia(v ssa.Value, use ssa.Instruction, isSource func(ssa.Value) bool, via map[Edge]bool) bool {
	return flowPath(v, use, isSource, nil, nil, via, false)
}

func flowPath(v ssa.Value, use ssa.Instruction, isSource func(ssa.Value) bool, cut map[Edge]bool, transfer func(ssa.Value) []ssa.Value, via map[Edge]bool, crossed0 bool) bool {
	type state struct {
		v       ssa.Value
		b       *ssa.BasicBlock
		entry   bool // value needed at entry (true) or at exit (false) of b
		crossed bool // a via edge lies between here and the use
	}
	found := func(crossed bool) bool { return via == nil || crossed }
	seen := map[state]bool{}
	var stack []state
	push := func(s state) {
		if !seen[s] {
			seen[s] = true
			stack = append(stack, s)
		}
	}
	defBlock := func(x ssa.Value) *ssa.BasicBlock {
		if in, ok := x.(ssa.Instruction); ok {
			return in.Block()
		}
		return nil // parameters, constants, globals: defined "before entry"
	}
	v = Strip(v)
	ub := use.Block()
	if db := defBlock(v); db == ub {
		if _, isPhi := v.(*ssa.Phi); isPhi {
			push(state{v, ub, true, crossed0})
		} else {
			// defined in the use block before the use: resolve the definition directly
			push(state{v, ub, false, crossed0})
		}
	} else {
		push(state{v, ub, true, crossed0})
	}
	for len(stack) > 0 {
		s := stack[len(stack)-1]
		stack = stack[:len(stack)-1]
		x := Strip(s.v)
		if s.entry {
			if phi, ok := x.(*ssa.Phi); ok && phi.Block() == s.b {
				for i, e := range phi.Edges {
					p := s.b.Preds[i]
					if cut[Edge{p, s.b}] {
						continue
					}
					push(state{Strip(e), p, false, s.crossed || via[Edge{p, s.b}]})
				}
				continue
			}
			for _, p := range s.b.Preds {
				if cut[Edge{p, s.b}] {
					continue
				}
				push(state{x, p, false, s.crossed || via[Edge{p, s.b}]})
			}
			continue
		}
		// needed at exit of s.b
		db := defBlock(x)
		if db != s.b {
			if db == nil {
				if isSource(x) && found(s.crossed) {
					return true
				}
				// a parameter of a private helper: the flow continues at the only call site
				if par, ok := x.(*ssa.Parameter); ok {
					if cs := privateCallSite(par.Parent()); cs != nil {
						for i, q := range par.Parent().Params {
							if q == par && i < len(cs.Common().Args) {
								if flowPath(cs.Common().Args[i], cs, isSource, cut, transfer, via, s.crossed) {
									return true
								}
							}
						}
					}
				}
				continue // parameter/constant that is not a source
			}
			push(state{x, s.b, true, s.crossed})
			continue
		}
		if _, ok := x.(*ssa.Phi); ok {
			push(state{x, s.b, true, s.crossed})
			continue
		}
		if isSource(x) && found(s.crossed) {
			return true
		}
		// the result of a helper of the repository: the flow continues at its returns
		{
			var cl *ssa.Call
			idx := 0
			switch y := x.(type) {
			case *ssa.Call:
				cl = y
			case *ssa.Extract:
				if c2, ok := y.Tuple.(*ssa.Call); ok {
					cl, idx = c2, y.Index
				}
			}
			if cl != nil {
				if cal := cl.Call.StaticCallee(); cal != nil && helperOK(cal) && privateCallSite(cal) == ssa.CallInstruction(cl) {
					found := false
					Instrs(cal, func(in ssa.Instruction) {
						if r, ok := in.(*ssa.Return); ok && idx < len(r.Results) && in.Block() != cal.Recover && !found {
							if flowPath(r.Results[idx], r, isSource, cut, transfer, via, s.crossed) {
								found = true
							}
						}
					})
					if found {
						return true
					}
					continue
				}
			}
		}
		if transfer != nil {
			for _, o := range transfer(x) {
				o = Strip(o)
				if defBlock(o) == s.b {
					if _, isPhi := o.(*ssa.Phi); isPhi {
						push(state{o, s.b, true, s.crossed})
					} else {
						push(state{o, s.b, false, s.crossed})
					}
				} else {
					push(state{o, s.b, true, s.crossed})
				}
			}
		}
	}
	return false
}

// RelSet is a subset of the three possible orderings of a pair (x, y): bit 0 "x<y",
// bit 1 "x==y", bit 2 "x>y".
type RelSet uint8

const (
	RelLT RelSet = 1 << iota
	RelEQ
	RelGT
	RelAll = RelLT | RelEQ | RelGT
)

func (r RelSet) String() string {
	s := "{"
	if r&RelLT != 0 {
		s += "<"
	}
	if r&RelEQ != 0 {
		s += "="
	}
	if r&RelGT != 0 {
		s += ">"
	}
	return s + "}"
}

func relOf(op token.Token) RelSet {
	switch op {
	case token.LSS:
		return RelLT
	case token.LEQ:
		return RelLT | RelEQ
	case token.EQL:
		return RelEQ
	case token.NEQ:
		return RelLT | RelGT
	case token.GEQ:
		return RelEQ | RelGT
	case token.GTR:
		return RelGT
	}
	return RelAll
}

// RelReach computes, path-sensitively in the single relation between x and y (as
// recognised by isX/isY on comparison operands), under which orderings of (x, y) the
// target instruction is reachable from the function entry. Comparisons of other
// values do not restrict the set.
func RelReach(fn *ssa.Function, target ssa.Instruction, isX, isY func(ssa.Value) bool) RelSet {
	type st struct {
		b *ssa.BasicBlock
		r RelSet
	}
	seen := map[st]bool{}
	queue := []st{{fn.Blocks[0], RelAll}}
	seen[queue[0]] = true
	var out RelSet
	for len(queue) > 0 {
		s := queue[0]
		queue = queue[1:]
		if s.b == target.Block() {
			out |= s.r
		}
		succRel := make([]RelSet, len(s.b.Succs))
		for i := range succRel {
			succRel[i] = s.r
		}
		if iff, ok := s.b.Instrs[len(s.b.Instrs)-1].(*ssa.If); ok {
			if op, x, y, ok := Cmp(iff.Cond); ok {
				var rel RelSet
				known := false
				if isX(StripConv(x)) && isY(StripConv(y)) {
					rel, known = relOf(op), true
				} else if isX(StripConv(y)) && isY(StripConv(x)) {
					rel, known = relOf(Swap(op)), true
				}
				if known {
					succRel[0] = s.r & rel
					succRel[1] = s.r &^ rel
				}
			}
		}
		for i, succ := range s.b.Succs {
			if succRel[i] == 0 {
				continue
			}
			n := st{succ, succRel[i]}
			if !seen[n] {
				seen[n] = true
				queue = append(queue, n)
			}
		}
	}
	return out
}

// ReachUnder is reachability that is path-sensitive in ONE predicate: it tracks along
// each path whether the atom has been asserted true, false or not at all, prunes paths
// that would assert both, and stops at blocker instructions. It returns the set of atom
// states (bit 0 unknown, bit 1 true, bit 2 false) in which target is reachable from the
// entry without executing a blocker.
func ReachUnder(fn *ssa.Function, target ssa.Instruction, a *Atom, blocker func(ssa.Instruction) bool) (states uint8) {
	const (
		U = 0
		T = 1
		F = 2
	)
	facts := map[Edge]int{}
	for _, f := range EdgeFacts(fn, a) {
		if f.Holds {
			facts[f.E] = T
		} else {
			facts[f.E] = F
		}
	}
	type st struct {
		b   *ssa.BasicBlock
		idx int
		v   int
	}
	type key struct {
		b *ssa.BasicBlock
		v int
	}
	seen := map[key]bool{{fn.Blocks[0], U}: true}
	queue := []st{{fn.Blocks[0], 0, U}}
	for len(queue) > 0 {
		s := queue[0]
		queue = queue[1:]
		blocked := false
		for i := s.idx; i < len(s.b.Instrs); i++ {
			in := s.b.Instrs[i]
			if in == target {
				states |= 1 << uint(s.v)
				blocked = true // no need to go on from here for this state
				break
			}
			if blocker != nil && blocker(in) {
				blocked = true
				break
			}
		}
		if blocked {
			continue
		}
		for _, succ := range s.b.Succs {
			v := s.v
			if f, ok := facts[Edge{s.b, succ}]; ok {
				if v != U && v != f {
					continue // contradictory path
				}
				v = f
			}
			k := key{succ, v}
			if !seen[k] {
				seen[k] = true
				queue = append(queue, st{succ, 0, v})
			}
		}
	}
	return states
}
