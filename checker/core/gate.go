package core

import (
	"fmt"
	"go/token"
	"go/types"
	"strings"

	"golang.org/x/tools/go/ssa"
)

// Atom is a semantic predicate over SSA values. Match inspects the (NOT-stripped)
// condition of a branch and reports what the condition being TRUE and being FALSE say
// about the atom: +1 the atom holds, -1 it does not hold, 0 nothing definite.
type Atom struct {
	Name  string
	Match func(cond ssa.Value) (onTrue, onFalse int)
}

// Iff is a helper for matchers whose condition is equivalent to the atom (pos) or to its
// negation (!pos).
func Iff(pos bool) (int, int) {
	if pos {
		return 1, -1
	}
	return -1, 1
}

// Lit is an atom with a wanted truth value.
type Lit struct {
	A    *Atom
	Want bool
}

// Edge is a CFG edge.
type Edge struct{ From, To *ssa.BasicBlock }

// EdgeFact says that taking edge E asserts atom A == Holds.
type EdgeFact struct {
	E     Edge
	A     *Atom
	Holds bool
}

// EdgeFacts computes, for every If of fn whose condition matches one of the atoms, the
// facts asserted by its two outgoing edges.
func EdgeFacts(fn *ssa.Function, atoms ...*Atom) []EdgeFact {
	var out []EdgeFact
	for _, b := range fn.Blocks {
		if len(b.Instrs) == 0 {
			continue
		}
		iff, ok := b.Instrs[len(b.Instrs)-1].(*ssa.If)
		if !ok {
			continue
		}
		out = append(out, blockFacts(b, iff, atoms)...)
	}
	return out
}

// blockFacts: the facts asserted by the two edges leaving the If that ends block b.
func blockFacts(b *ssa.BasicBlock, iff *ssa.If, atoms []*Atom) []EdgeFact {
	var out []EdgeFact
	{
		cond, neg := StripNot(iff.Cond)
		// a condition handed in as a boolean parameter of a helper is the expression the
		// caller computed
		if rc := resolveBoundary(cond); rc != cond {
			c2, n2 := StripNot(rc)
			cond = c2
			if n2 {
				neg = !neg
			}
		}
		{
			ec, restore := ExpandCond(cond)
			if ec != cond {
				c2, n2 := StripNot(ec)
				cond = c2
				if n2 {
					neg = !neg
				}
			}
			defer restore()
		}
		for _, a := range atoms {
			onT, onF := a.Match(cond)
			if neg {
				onT, onF = onF, onT
			}
			// Succs[0] taken when the If condition is true
			if onT != 0 {
				out = append(out, EdgeFact{Edge{b, b.Succs[0]}, a, onT > 0})
			}
			if onF != 0 {
				out = append(out, EdgeFact{Edge{b, b.Succs[1]}, a, onF > 0})
			}
		}
		// "found := slices.IndexFunc(xs, pred) >= 0" and friends: on the found edge the
		// predicate holds for the element that was found
		if pc, foundOnTrue, ok := searchFound(cond); ok {
			if neg {
				foundOnTrue = !foundOnTrue
			}
			for _, a := range atoms {
				pcc, pneg := StripNot(pc)
				onT, onF := a.Match(pcc)
				if pneg {
					onT, onF = onF, onT
				}
				_ = onF
				if onT != 0 {
					e := Edge{b, b.Succs[0]}
					if !foundOnTrue {
						e = Edge{b, b.Succs[1]}
					}
					out = append(out, EdgeFact{e, a, onT > 0})
				}
			}
		}
	}
	return out
}

// searchFound recognises the result test of a library search with a predicate closure:
// slices.IndexFunc(xs, f) >= 0 / != -1 / > -1 (found on the true edge), < 0 / == -1
// (found on the false edge), slices.ContainsFunc(xs, f). It returns the boolean expression
// the closure returns.
func searchFound(cond ssa.Value) (pred ssa.Value, foundOnTrue bool, ok bool) {
	closureCond := func(v ssa.Value) (ssa.Value, bool) {
		mc, isMC := Strip(v).(*ssa.MakeClosure)
		if !isMC {
			return nil, false
		}
		fn := mc.Fn.(*ssa.Function)
		var ret ssa.Value
		n := 0
		Instrs(fn, func(in ssa.Instruction) {
			if r, isR := in.(*ssa.Return); isR && len(r.Results) == 1 {
				n++
				ret = r.Results[0]
			}
		})
		if n != 1 {
			return nil, false
		}
		return ret, true
	}
	isSearch := func(v ssa.Value, name string) (ssa.Value, bool) {
		cl, isCall := Strip(v).(*ssa.Call)
		if !isCall {
			return nil, false
		}
		id, okID := Callee(&cl.Call)
		if !okID || id.Pkg != "slices" || !strings.HasPrefix(id.Name, name) || len(cl.Call.Args) != 2 {
			return nil, false
		}
		return closureCond(cl.Call.Args[1])
	}
	if p, ok := isSearch(cond, "ContainsFunc"); ok {
		return p, true, true
	}
	op, x, y, isCmp := Cmp(cond)
	if !isCmp {
		return nil, false, false
	}
	p, okS := isSearch(x, "IndexFunc")
	if !okS {
		return nil, false, false
	}
	k, isC := ConstInt(y)
	if !isC {
		return nil, false, false
	}
	switch {
	case (op == token.GEQ && k == 0) || (op == token.NEQ && k == -1) || (op == token.GTR && k == -1):
		return p, true, true
	case (op == token.LSS && k == 0) || (op == token.EQL && k == -1) || (op == token.LEQ && k == -1):
		return p, false, true
	}
	return nil, false, false
}

// shortCircuit decomposes a boolean VALUE built with && / || (go/ssa lowers these to a
// phi when the expression is not itself a branch condition, e.g. in `switch { case a &&
// b: }` or `ok := a || b; if ok`): it returns the operands and whether they are joined by
// AND (true) or OR (false). ok=false when v is not such a phi.
func shortCircuit(v ssa.Value) (parts []ssa.Value, and bool, ok bool) {
	phi, isPhi := Strip(v).(*ssa.Phi)
	if !isPhi || len(phi.Edges) < 2 {
		return nil, false, false
	}
	nConst, constVal := 0, false
	for _, e := range phi.Edges {
		if b, isC := ConstBool(e); isC {
			if nConst > 0 && b != constVal {
				return nil, false, false
			}
			nConst++
			constVal = b
		}
	}
	if nConst == 0 || nConst == len(phi.Edges) {
		return nil, false, false
	}
	and = !constVal // constant false edges: a && b ; constant true edges: a || b
	for i, e := range phi.Edges {
		pred := phi.Block().Preds[i]
		if _, isC := ConstBool(e); !isC {
			parts = append(parts, e)
			continue
		}
		// the operand is the condition on which pred branched to the phi's block
		iff, isIf := pred.Instrs[len(pred.Instrs)-1].(*ssa.If)
		if !isIf {
			return nil, false, false
		}
		c := iff.Cond
		onTrueEdge := pred.Succs[0] == phi.Block()
		// && : the edge carrying `false` is taken when the operand is false
		// || : the edge carrying `true`  is taken when the operand is true
		if and == onTrueEdge {
			// operand appears negated relative to the branch: wrap by marking with a NOT we cannot build;
			// give up on unusual shapes
			return nil, false, false
		}
		parts = append(parts, c)
	}
	return parts, and, true
}

// disjFact: taking edge E asserts the DISJUNCTION of the members (one per operand).
type disjFact struct {
	E       Edge
	Members [][]EdgeFact // per operand: the atom facts that operand being true/false gives
}

// edgeFactsX is EdgeFacts plus the disjunctive facts of short-circuit values.
func edgeFactsX(fn *ssa.Function, atoms ...*Atom) ([]EdgeFact, []disjFact) {
	out := EdgeFacts(fn, atoms...)
	var dis []disjFact
	for _, b := range fn.Blocks {
		if len(b.Instrs) == 0 {
			continue
		}
		iff, ok := b.Instrs[len(b.Instrs)-1].(*ssa.If)
		if !ok {
			continue
		}
		fs, d := blockShortCircuit(b, iff, atoms)
		out = append(out, fs...)
		dis = append(dis, d...)
	}
	return out, dis
}

// blit is one literal of a boolean formula: condition c is true (want) or false.
type blit struct {
	c    ssa.Value
	want bool
}

// boolDNF decomposes a boolean VALUE built from &&, || and ! (go/ssa lowers such an
// expression to a phi over the blocks of its short-circuit evaluation when it is not itself
// a branch condition: `ok := a && (b || c)`, `return e != nil && (!x || y)`,
// `switch { case a && b: }`). It returns the formula in disjunctive normal form twice: the
// conjunctions of literals under which v is true, and those under which it is false.
// ok=false when v is not such a value (the caller treats it as one atom).
func boolDNF(v ssa.Value, depth int) (t, f [][]blit, ok bool) {
	v, neg := StripNot(v)
	phi, isPhi := v.(*ssa.Phi)
	if !isPhi || depth > 2 || len(phi.Edges) < 2 {
		return nil, nil, false
	}
	if bt, isB := phi.Type().Underlying().(*types.Basic); !isB || bt.Kind() != types.Bool {
		return nil, nil, false
	}
	blk := phi.Block()
	start := blk.Idom()
	if start == nil {
		return nil, nil, false
	}
	// every path start → blk; the blocks in between are the expression's own (they hold
	// nothing but the operands), so a path is a conjunction of branch decisions
	type path struct {
		lits []blit
		pred *ssa.BasicBlock
	}
	var paths []path
	bad := false
	var walk func(b *ssa.BasicBlock, lits []blit, seen map[*ssa.BasicBlock]bool)
	walk = func(b *ssa.BasicBlock, lits []blit, seen map[*ssa.BasicBlock]bool) {
		if bad || len(paths) > 16 || seen[b] {
			bad = true
			return
		}
		seen[b] = true
		defer delete(seen, b)
		if len(b.Instrs) == 0 {
			bad = true
			return
		}
		switch term := b.Instrs[len(b.Instrs)-1].(type) {
		case *ssa.If:
			if b.Succs[0] == b.Succs[1] {
				bad = true
				return
			}
			for i, s := range b.Succs {
				l2 := append(append([]blit{}, lits...), blit{term.Cond, i == 0})
				if s == blk {
					paths = append(paths, path{l2, b})
				} else if start.Dominates(s) && s != start {
					walk(s, l2, seen)
				} else {
					bad = true
				}
			}
		case *ssa.Jump:
			s := b.Succs[0]
			if s == blk {
				paths = append(paths, path{append([]blit{}, lits...), b})
			} else if start.Dominates(s) && s != start {
				walk(s, lits, seen)
			} else {
				bad = true
			}
		default:
			bad = true
		}
	}
	walk(start, nil, map[*ssa.BasicBlock]bool{})
	if bad || len(paths) < 2 {
		return nil, nil, false
	}
	hasConst := false
	for _, pa := range paths {
		// the value the phi takes when entered from this predecessor
		var e ssa.Value
		for i, pr := range blk.Preds {
			if pr == pa.pred {
				e = phi.Edges[i]
			}
		}
		if e == nil {
			return nil, nil, false
		}
		if bv, isC := ConstBool(e); isC {
			hasConst = true
			if bv {
				t = append(t, pa.lits)
			} else {
				f = append(f, pa.lits)
			}
			continue
		}
		if st, sf, okS := boolDNF(e, depth+1); okS {
			for _, c := range st {
				t = append(t, append(append([]blit{}, pa.lits...), c...))
			}
			for _, c := range sf {
				f = append(f, append(append([]blit{}, pa.lits...), c...))
			}
			continue
		}
		t = append(t, append(append([]blit{}, pa.lits...), blit{e, true}))
		f = append(f, append(append([]blit{}, pa.lits...), blit{e, false}))
	}
	if !hasConst || len(t) > 16 || len(f) > 16 {
		return nil, nil, false // a plain merge of values, not a short-circuit expression
	}
	if neg {
		t, f = f, t
	}
	return t, f, true
}

// blockShortCircuit: the facts the two edges of `if v` assert when v is a short-circuit
// value: a literal that occurs in every conjunction of the edge's formula is a plain fact;
// the formula itself is a disjunctive fact with one member per conjunction.
func blockShortCircuit(b *ssa.BasicBlock, iff *ssa.If, atoms []*Atom) ([]EdgeFact, []disjFact) {
	var out []EdgeFact
	cond, neg := StripNot(iff.Cond)
	if rc := resolveBoundary(cond); rc != cond {
		c2, n2 := StripNot(rc)
		cond = c2
		if n2 {
			neg = !neg
		}
	}
	ec, restore := ExpandCond(cond)
	defer restore()
	if ec != cond {
		c2, n2 := StripNot(ec)
		cond = c2
		if n2 {
			neg = !neg
		}
	}
	t, f, ok := boolDNF(cond, 0)
	if !ok {
		return nil, nil
	}
	if neg {
		t, f = f, t
	}
	var dis []disjFact
	for side, dnf := range [][][]blit{t, f} {
		if len(dnf) == 0 {
			continue
		}
		e := Edge{b, b.Succs[side]}
		d := disjFact{E: e}
		// per atom: the value it takes in each conjunction (0 = not mentioned)
		common := make([]int, len(atoms))
		for ci, conj := range dnf {
			var members []EdgeFact
			val := make([]int, len(atoms))
			for _, l := range conj {
				pc, pneg := StripNot(l.c)
				if rc := resolveBoundary(pc); rc != pc {
					c2, n2 := StripNot(rc)
					pc = c2
					if n2 {
						pneg = !pneg
					}
				}
				for ai, a := range atoms {
					onT, onF := a.Match(pc)
					if pneg {
						onT, onF = onF, onT
					}
					w := onT
					if !l.want {
						w = onF
					}
					if w != 0 {
						members = append(members, EdgeFact{e, a, w > 0})
						if val[ai] == 0 {
							val[ai] = w
						} else if (val[ai] > 0) != (w > 0) {
							val[ai] = 2 // contradictory inside one conjunction: ignore
						}
					}
				}
			}
			d.Members = append(d.Members, members)
			for ai := range atoms {
				v := val[ai]
				if v == 2 {
					v = 0
				}
				if ci == 0 {
					common[ai] = v
				} else if common[ai] != 0 && (v == 0 || (v > 0) != (common[ai] > 0)) {
					common[ai] = 0
				}
			}
		}
		for ai, a := range atoms {
			if common[ai] != 0 {
				out = append(out, EdgeFact{e, a, common[ai] > 0})
			}
		}
		if len(dnf) > 1 {
			dis = append(dis, d)
		}
	}
	return out, dis
}

// GateResult is the outcome of a gate check.
type GateResult struct {
	OK        bool
	Path      []*ssa.BasicBlock // a path entry → effect avoiding all pass edges (when !OK)
	PassEdges int               // number of pass edges found
	PerLit    []int             // pass edges per literal
}

// Gate decides: with every edge asserting one of the pass literals removed, is any of
// the effect instructions reachable from the function entry? It must not be.
//
//	drop gate  a1∧…∧an ⇒ ¬effect : pass literals (ai,false)
//	enter gate effect ⇒ a1∨…∨an : pass literals (ai,true)
func Gate(fn *ssa.Function, effects []ssa.Instruction, pass ...Lit) GateResult {
	atoms := make([]*Atom, len(pass))
	for i, l := range pass {
		atoms[i] = l.A
	}
	facts, dis := edgeFactsX(fn, atoms...)
	cut := map[Edge]bool{}
	res := GateResult{PerLit: make([]int, len(pass))}
	for _, f := range facts {
		for i, l := range pass {
			if f.A == l.A && f.Holds == l.Want {
				if !cut[f.E] {
					res.PassEdges++
				}
				cut[f.E] = true
				res.PerLit[i]++
			}
		}
	}
	// an edge asserting a disjunction is a pass edge when every disjunct is a pass literal
	for _, d := range dis {
		all := len(d.Members) > 0
		var hit []int
		for _, ms := range d.Members {
			okM := false
			for _, f := range ms {
				for i, l := range pass {
					if f.A == l.A && f.Holds == l.Want {
						okM = true
						hit = append(hit, i)
					}
				}
			}
			if !okM {
				all = false
			}
		}
		if all {
			if !cut[d.E] {
				res.PassEdges++
			}
			cut[d.E] = true
			for _, i := range hit {
				res.PerLit[i]++
			}
		}
	}
	// the outcome of a predicate helper that it can only produce through pass edges
	if pc, per, n := predicateEdges(fn, pass); len(pc) > 0 {
		for e := range pc {
			if !cut[e] {
				cut[e] = true
			}
		}
		res.PassEdges += n
		for i := range per {
			res.PerLit[i] += per[i]
		}
	}
	target := map[*ssa.BasicBlock]bool{}
	for _, e := range effects {
		target[e.Block()] = true
	}
	for e := range FlagCuts(fn, effects) {
		cut[e] = true
	}
	path := ReachAvoiding(fn, fn.Blocks[0], target, cut)
	res.OK = path == nil
	res.Path = path
	return res
}

// ReachAvoiding returns a block path from start to any target block that uses no cut
// edge, or nil when none exists.
func ReachAvoiding(fn *ssa.Function, start *ssa.BasicBlock, target map[*ssa.BasicBlock]bool, cut map[Edge]bool) []*ssa.BasicBlock {
	prev := map[*ssa.BasicBlock]*ssa.BasicBlock{start: nil}
	queue := []*ssa.BasicBlock{start}
	for len(queue) > 0 {
		b := queue[0]
		queue = queue[1:]
		if target[b] {
			var path []*ssa.BasicBlock
			for x := b; x != nil; x = prev[x] {
				path = append([]*ssa.BasicBlock{x}, path...)
			}
			return path
		}
		for _, s := range b.Succs {
			if cut[Edge{b, s}] {
				continue
			}
			if _, seen := prev[s]; seen {
				continue
			}
			prev[s] = b
			queue = append(queue, s)
		}
	}
	return nil
}

// PathString renders a block path with source lines.
func (p *Prog) PathString(path []*ssa.BasicBlock) string {
	var parts []string
	for _, b := range path {
		line := "?"
		for _, in := range b.Instrs {
			if in.Pos().IsValid() {
				line = p.Pos(in.Pos())
				break
			}
		}
		parts = append(parts, fmt.Sprintf("b%d(%s)", b.Index, line))
	}
	return strings.Join(parts, " -> ")
}

// ---------------------------------------------------------------------------------
// E2: must-follow on all exits.

// Point is a position inside a function: before instruction Idx of Block.
type Point struct {
	Block *ssa.BasicBlock
	Idx   int
}

// After returns the point just after instruction in.
func After(in ssa.Instruction) Point {
	b := in.Block()
	for i, x := range b.Instrs {
		if x == in {
			return Point{b, i + 1}
		}
	}
	return Point{b, len(b.Instrs)}
}

// FollowResult is the outcome of MustFollow.
type FollowResult struct {
	OK   bool
	Exit ssa.Instruction // offending exit when !OK
	Path []*ssa.BasicBlock
}

// MustFollow decides whether every path from start to a normal function exit (Return;
// Panic exits are ignored) executes an instruction satisfying isB. Deferred calls
// satisfying isB that are registered on every path before start count at every exit.
// stop (optional) marks additional instructions that end a path successfully (e.g. the
// back edge target of a loop when the obligation is per-iteration).
func MustFollow(fn *ssa.Function, start Point, isB func(ssa.Instruction) bool, stop func(ssa.Instruction) bool) FollowResult {
	return MustFollowCut(fn, start, isB, stop, nil)
}

// MustFollowCut is MustFollow that never takes an edge of cut (edges known to be
// infeasible under the premise of the obligation, e.g. those asserting its negation).
func MustFollowCut(fn *ssa.Function, start Point, isB func(ssa.Instruction) bool, stop func(ssa.Instruction) bool, cut map[Edge]bool) FollowResult {
	// deferred B registered before start: a Defer instruction satisfying isB in a block
	// that dominates start.Block (or earlier in the same block).
	for _, b := range fn.Blocks {
		for i, in := range b.Instrs {
			if d, ok := in.(*ssa.Defer); ok && isB(d) {
				if (b == start.Block && i < start.Idx) || (b != start.Block && b.Dominates(start.Block)) {
					return FollowResult{OK: true}
				}
			}
		}
	}
	if extra := dischargedEdges(fn, isB); len(extra) > 0 {
		merged := map[Edge]bool{}
		for e := range cut {
			merged[e] = true
		}
		for e := range extra {
			merged[e] = true
		}
		cut = merged
	}
	type st struct {
		b   *ssa.BasicBlock
		idx int
	}
	prev := map[*ssa.BasicBlock]*ssa.BasicBlock{}
	seenTop := map[*ssa.BasicBlock]bool{}
	queue := []st{{start.Block, start.Idx}}
	mkPath := func(b *ssa.BasicBlock) []*ssa.BasicBlock {
		var path []*ssa.BasicBlock
		n := 0
		for x := b; x != nil && n < 200; x = prev[x] {
			path = append([]*ssa.BasicBlock{x}, path...)
			n++
		}
		return path
	}
	for len(queue) > 0 {
		s := queue[0]
		queue = queue[1:]
		done := false
		for i := s.idx; i < len(s.b.Instrs); i++ {
			in := s.b.Instrs[i]
			if _, isDefer := in.(*ssa.Defer); !isDefer && isB(in) {
				done = true
				break
			}
			if stop != nil && stop(in) {
				done = true
				break
			}
			switch in.(type) {
			case *ssa.Return:
				return FollowResult{OK: false, Exit: in, Path: mkPath(s.b)}
			case *ssa.Panic:
				done = true
			}
			if done {
				break
			}
		}
		if done {
			continue
		}
		for _, succ := range s.b.Succs {
			if seenTop[succ] || cut[Edge{s.b, succ}] {
				continue
			}
			seenTop[succ] = true
			if _, ok := prev[succ]; !ok && succ != start.Block {
				prev[succ] = s.b
			}
			queue = append(queue, st{succ, 0})
		}
	}
	return FollowResult{OK: true}
}

// Precedes reports whether on every path from entry to instruction x an instruction
// satisfying isA is executed before (A "dominates" x at instruction granularity).
func Precedes(fn *ssa.Function, x ssa.Instruction, isA func(ssa.Instruction) bool) bool {
	// remove all A instructions' "after" parts: x must be unreachable from entry
	// without passing an A.
	type st struct {
		b   *ssa.BasicBlock
		idx int
	}
	seen := map[*ssa.BasicBlock]bool{fn.Blocks[0]: true}
	queue := []st{{fn.Blocks[0], 0}}
	for len(queue) > 0 {
		s := queue[0]
		queue = queue[1:]
		blocked := false
		for i := s.idx; i < len(s.b.Instrs); i++ {
			in := s.b.Instrs[i]
			if in == x {
				return false
			}
			if isA(in) {
				blocked = true
				break
			}
		}
		if blocked {
			continue
		}
		for _, succ := range s.b.Succs {
			if !seen[succ] {
				seen[succ] = true
				queue = append(queue, st{succ, 0})
			}
		}
	}
	return true
}

// ReachableFrom reports whether instruction target can execute after point start.
func ReachableFrom(start Point, target ssa.Instruction) bool {
	type st struct {
		b   *ssa.BasicBlock
		idx int
	}
	seen := map[*ssa.BasicBlock]bool{}
	queue := []st{{start.Block, start.Idx}}
	for len(queue) > 0 {
		s := queue[0]
		queue = queue[1:]
		for i := s.idx; i < len(s.b.Instrs); i++ {
			if s.b.Instrs[i] == target {
				return true
			}
		}
		for _, succ := range s.b.Succs {
			if !seen[succ] {
				seen[succ] = true
				queue = append(queue, st{succ, 0})
			}
		}
	}
	return false
}

// InLoop reports whether block b lies on a cycle of the CFG.
func InLoop(b *ssa.BasicBlock) bool {
	seen := map[*ssa.BasicBlock]bool{}
	queue := append([]*ssa.BasicBlock{}, b.Succs...)
	for len(queue) > 0 {
		x := queue[0]
		queue = queue[1:]
		if x == b {
			return true
		}
		if seen[x] {
			continue
		}
		seen[x] = true
		queue = append(queue, x.Succs...)
	}
	return false
}

// ReachInstr decides whether target can execute on some path from the function entry
// that uses no cut edge and does not execute a blocker instruction first. It returns
// the offending block path, or nil when target is unreachable under those constraints.
func ReachInstr(fn *ssa.Function, target ssa.Instruction, cut map[Edge]bool, blocker func(ssa.Instruction) bool) []*ssa.BasicBlock {
	return ReachInstrFrom(Point{fn.Blocks[0], 0}, target, cut, blocker)
}

// ReachInstrFrom is ReachInstr starting at an arbitrary point.
func ReachInstrFrom(start Point, target ssa.Instruction, cut map[Edge]bool, blocker func(ssa.Instruction) bool) []*ssa.BasicBlock {
	type st struct {
		b   *ssa.BasicBlock
		idx int
	}
	prev := map[*ssa.BasicBlock]*ssa.BasicBlock{}
	seen := map[*ssa.BasicBlock]bool{}
	queue := []st{{start.Block, start.Idx}}
	for len(queue) > 0 {
		s := queue[0]
		queue = queue[1:]
		blocked := false
		for i := s.idx; i < len(s.b.Instrs); i++ {
			in := s.b.Instrs[i]
			if in == target {
				var path []*ssa.BasicBlock
				for x, n := s.b, 0; x != nil && n < 300; x, n = prev[x], n+1 {
					path = append([]*ssa.BasicBlock{x}, path...)
				}
				return path
			}
			if blocker != nil && blocker(in) {
				blocked = true
				break
			}
		}
		if blocked {
			continue
		}
		for _, succ := range s.b.Succs {
			if cut[Edge{s.b, succ}] || seen[succ] {
				continue
			}
			seen[succ] = true
			if succ != start.Block {
				prev[succ] = s.b
			}
			queue = append(queue, st{succ, 0})
		}
	}
	return nil
}

// CutEdges collects the edges asserting one of the literals.
func CutEdges(fn *ssa.Function, lits ...Lit) (map[Edge]bool, []int) {
	atoms := make([]*Atom, len(lits))
	for i, l := range lits {
		atoms[i] = l.A
	}
	cut := map[Edge]bool{}
	per := make([]int, len(lits))
	facts, dis := edgeFactsX(fn, atoms...)
	for _, f := range facts {
		for i, l := range lits {
			if f.A == l.A && f.Holds == l.Want {
				cut[f.E] = true
				per[i]++
			}
		}
	}
	for _, d := range dis {
		all := len(d.Members) > 0
		var hit []int
		for _, ms := range d.Members {
			okM := false
			for _, f := range ms {
				for i, l := range lits {
					if f.A == l.A && f.Holds == l.Want {
						okM = true
						hit = append(hit, i)
					}
				}
			}
			if !okM {
				all = false
			}
		}
		if all {
			cut[d.E] = true
			for _, i := range hit {
				per[i]++
			}
		}
	}
	// the outcome of a predicate helper that it can only produce through such edges
	if pc, pper, _ := predicateEdges(fn, lits); len(pc) > 0 {
		for e := range pc {
			cut[e] = true
		}
		for i := range pper {
			per[i] += pper[i]
		}
	}
	return cut, per
}

// FlagCuts eliminates paths that are infeasible because of the "validity flag" idiom:
//
//	ok := true; if bad1 { ok = false }; if bad2 { ok = false }; if !ok { return }; effect
//
// go/ssa turns ok into a phi of boolean constants. When every effect is dominated by the
// edge asserting phi==true (resp. false) of an If on that phi, no feasible path to an
// effect enters the phi through an edge carrying the constant false (resp. true); those
// CFG edges are returned so that a path-insensitive search does not take them.
func FlagCuts(fn *ssa.Function, effects []ssa.Instruction) map[Edge]bool {
	out := map[Edge]bool{}
	for _, b := range fn.Blocks {
		if len(b.Instrs) == 0 {
			continue
		}
		iff, ok := b.Instrs[len(b.Instrs)-1].(*ssa.If)
		if !ok {
			continue
		}
		cond, neg := StripNot(iff.Cond)
		phi, ok := cond.(*ssa.Phi)
		if !ok {
			continue
		}
		for _, want := range []bool{true, false} {
			// successor taken when phi == want
			idx := 0
			if want == neg { // cond true means phi true unless negated
				idx = 1
			}
			to := b.Succs[idx]
			if len(to.Preds) != 1 { // the edge must be the only way into its target
				continue
			}
			all := len(effects) > 0
			for _, e := range effects {
				if !(to == e.Block() || to.Dominates(e.Block())) {
					all = false
				}
			}
			if !all {
				continue
			}
			seen := map[*ssa.Phi]bool{}
			var walk func(ph *ssa.Phi)
			walk = func(ph *ssa.Phi) {
				if seen[ph] {
					return
				}
				seen[ph] = true
				for i, e := range ph.Edges {
					if c, isC := ConstBool(e); isC && c != want {
						out[Edge{ph.Block().Preds[i], ph.Block()}] = true
					}
					if p2, isP := Strip(e).(*ssa.Phi); isP {
						walk(p2)
					}
				}
			}
			walk(phi)
		}
	}
	return out
}

// dischargedEdges: the branch `if helper(...)` on a boolean private helper whose every
// path to a return that can yield the outcome executes an isB instruction has its
// obligation met on that outcome's edge (`if entry != nil && t.tryServe(...) { return }`
// with the B inside tryServe, before its `return true`).
var inDischarged bool

func dischargedEdges(fn *ssa.Function, isB func(ssa.Instruction) bool) map[Edge]bool {
	if Current == nil || inDischarged {
		return nil
	}
	inDischarged = true
	defer func() { inDischarged = false }()
	var out map[Edge]bool
	for _, b := range fn.Blocks {
		if len(b.Instrs) == 0 {
			continue
		}
		iff, ok := b.Instrs[len(b.Instrs)-1].(*ssa.If)
		if !ok {
			continue
		}
		c, neg := StripNot(iff.Cond)
		cl, ok := Strip(c).(*ssa.Call)
		if !ok {
			continue
		}
		h := cl.Call.StaticCallee()
		if h == nil || h == fn || h.Blocks == nil || !helperOK(h) || h.Signature.Results().Len() != 1 {
			continue
		}
		if bt, ok := h.Signature.Results().At(0).Type().Underlying().(*types.Basic); !ok || bt.Kind() != types.Bool {
			continue
		}
		for _, want := range []bool{true, false} {
			all, n := true, 0
			Instrs(h, func(in ssa.Instruction) {
				r, ok := in.(*ssa.Return)
				if !ok || len(r.Results) != 1 || in.Block() == h.Recover || !all {
					return
				}
				if v, isC := ConstBool(r.Results[0]); isC && v != want {
					return
				}
				n++
				if ReachInstr(h, r, nil, isB) != nil {
					all = false
				}
			})
			if !all || n == 0 {
				continue
			}
			idx := 1
			if want == !neg {
				idx = 0
			}
			if out == nil {
				out = map[Edge]bool{}
			}
			out[Edge{b, b.Succs[idx]}] = true
		}
	}
	return out
}
