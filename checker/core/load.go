// Package core holds the shared machinery of the static checker: loading /repo into
// typed syntax + SSA, object resolution, the analysis engines (gate, pairing,
// provenance, ...) and the obligation/evidence/known-finding plumbing.
package core

import (
	"fmt"
	"go/ast"
	"go/token"
	"go/types"
	"os"
	"sort"
	"strings"

	"golang.org/x/tools/go/packages"
	"golang.org/x/tools/go/ssa"
	"golang.org/x/tools/go/ssa/ssautil"
)

const ModPath = "github.com/named-data/ndnd"

// Prog is the loaded program.
type Prog struct {
	Dir   string
	Fset  *token.FileSet
	Pkgs  map[string]*packages.Package // by import path (repo packages only)
	All   []*packages.Package          // repo packages, sorted
	SSA   *ssa.Program
	SPkgs map[string]*ssa.Package

	funcs      []*ssa.Function // all functions (incl. anonymous) of repo packages
	callers    map[*ssa.Function][]ssa.CallInstruction
	uniqueSite map[*ssa.Function]ssa.CallInstruction
	helperOK   map[*ssa.Function]bool
	reach      map[*ssa.Function][]*ssa.Function
	invokers   map[string][]ssa.CallInstruction // by method name

	// Anchors: fingerprints of the functions the rule tables look up by name, recorded
	// on the pinned tree (anchors.json). A function that is no longer found under its
	// name is looked for by fingerprint (an unexported function may be renamed freely).
	Anchors   map[string]AnchorPrint
	Lookups   map[string]bool   // every name looked up in this run
	Relocated map[string]string // anchor -> name it was found under
	// Structs: recorded field lists of the repo's struct types ("pkg.Type" -> fields);
	// FieldAlias: a field that was renamed since -> the name the rule tables use
	Structs    map[string][]FieldPrint
	FieldAlias map[*types.Var]string
	// RenamedName: "pkg|oldName" -> new name (so that call sites naming the old method
	// are matched too)
	RenamedName map[string]string
}

// ResolveAnchors relocates, eagerly, every recorded anchor that is no longer found under
// its name (so that call-site matching by name follows the rename as well).
func (p *Prog) ResolveAnchors() {
	var keys []string
	for k := range p.Anchors {
		keys = append(keys, k)
	}
	sort.Strings(keys)
	for _, k := range keys {
		parts := strings.SplitN(k, "|", 3)
		if p.funcByName(parts[0], parts[1], parts[2]) == nil {
			p.relocate(k, parts[0], parts[1])
		}
	}
}

// FieldPrint records one field of a struct type.
type FieldPrint struct {
	Name string `json:"name"`
	Type string `json:"type"`
}

// StructPrints lists the fields of every struct type of the repo packages that has
// unexported fields.
func (p *Prog) StructPrints() map[string][]FieldPrint {
	out := map[string][]FieldPrint{}
	for path, pk := range p.Pkgs {
		sc := pk.Types.Scope()
		for _, n := range sc.Names() {
			tn, ok := sc.Lookup(n).(*types.TypeName)
			if !ok {
				continue
			}
			st, ok := tn.Type().Underlying().(*types.Struct)
			if !ok {
				continue
			}
			var fs []FieldPrint
			unexp := false
			for i := 0; i < st.NumFields(); i++ {
				f := st.Field(i)
				if !f.Exported() {
					unexp = true
				}
				fs = append(fs, FieldPrint{f.Name(), types.TypeString(f.Type(), func(q *types.Package) string { return q.Name() })})
			}
			if unexp {
				out[strings.TrimPrefix(path, ModPath+"/")+"."+n] = fs
			}
		}
	}
	return out
}

// ResolveFields finds renamed unexported fields: a recorded field whose name is gone,
// while the struct has exactly one field of the same type whose name was not recorded.
func (p *Prog) ResolveFields() {
	p.FieldAlias = map[*types.Var]string{}
	for key, rec := range p.Structs {
		i := strings.LastIndexByte(key, '.')
		if i < 0 {
			continue
		}
		pk := p.Pkgs[ModPath+"/"+key[:i]]
		if pk == nil {
			continue
		}
		tn, ok := pk.Types.Scope().Lookup(key[i+1:]).(*types.TypeName)
		if !ok {
			continue
		}
		st, ok := tn.Type().Underlying().(*types.Struct)
		if !ok {
			continue
		}
		recorded := map[string]bool{}
		for _, f := range rec {
			recorded[f.Name] = true
		}
		cur := map[string]*types.Var{}
		for j := 0; j < st.NumFields(); j++ {
			cur[st.Field(j).Name()] = st.Field(j)
		}
		for _, f := range rec {
			if _, still := cur[f.Name]; still || (f.Name != "" && f.Name[0] >= 'A' && f.Name[0] <= 'Z') {
				continue
			}
			// same position, same type, a name that was not recorded: that is the field
			ts := func(v *types.Var) string {
				return types.TypeString(v.Type(), func(q *types.Package) string { return q.Name() })
			}
			if idx := indexOfField(rec, f.Name); idx >= 0 && idx < st.NumFields() && len(rec) == st.NumFields() {
				if v := st.Field(idx); !recorded[v.Name()] && ts(v) == f.Type {
					p.FieldAlias[v] = f.Name
					if p.Relocated == nil {
						p.Relocated = map[string]string{}
					}
					p.Relocated["field "+key+"."+f.Name] = v.Name()
					continue
				}
			}
			var cands []*types.Var
			for j := 0; j < st.NumFields(); j++ {
				v := st.Field(j)
				if recorded[v.Name()] {
					continue
				}
				if types.TypeString(v.Type(), func(q *types.Package) string { return q.Name() }) == f.Type {
					cands = append(cands, v)
				}
			}
			if len(cands) == 1 {
				p.FieldAlias[cands[0]] = f.Name
				if p.Relocated == nil {
					p.Relocated = map[string]string{}
				}
				p.Relocated["field "+key+"."+f.Name] = cands[0].Name()
			}
		}
	}
}

func indexOfField(rec []FieldPrint, name string) int {
	for i, f := range rec {
		if f.Name == name {
			return i
		}
	}
	return -1
}

// AnchorPrint is what identifies an anchor function besides its name.
type AnchorPrint struct {
	Params  int      `json:"params"`
	Results int      `json:"results"`
	Sig     string   `json:"sig"`     // parameter and result types
	Callees []string `json:"callees"` // distinct callee ids (static and interface methods), self excluded
	Callers []string `json:"callers"` // functions with a static call (or possible dynamic dispatch) to it, self excluded
}

// Fingerprint computes the AnchorPrint of fn.
func Fingerprint(fn *ssa.Function) AnchorPrint {
	set := map[string]bool{}
	self := FuncID(fn).String()
	for _, g := range WithClosures(fn) {
		Instrs(g, func(in ssa.Instruction) {
			if ci, ok := in.(ssa.CallInstruction); ok {
				if id, ok := Callee(ci.Common()); ok && id.Pkg != "builtin" && id.String() != self && id.Name != fn.Name() {
					set[id.String()] = true
				}
			}
		})
	}
	var cs []string
	for k := range set {
		cs = append(cs, k)
	}
	sort.Strings(cs)
	cset := map[string]bool{}
	if Current != nil {
		for _, ci := range Current.Callers(fn) {
			if ci.Parent() != fn && ci.Parent() != nil {
				r := ci.Parent()
				for r.Parent() != nil {
					r = r.Parent()
				}
				if r != fn {
					cset[FuncName(r)] = true
				}
			}
		}
	}
	var callers []string
	for k := range cset {
		callers = append(callers, k)
	}
	sort.Strings(callers)
	sig := types.TypeString(types.NewSignatureType(nil, nil, nil, fn.Signature.Params(), fn.Signature.Results(), fn.Signature.Variadic()), func(p *types.Package) string { return p.Name() })
	return AnchorPrint{Params: len(fn.Params), Results: fn.Signature.Results().Len(), Sig: sig, Callees: cs, Callers: callers}
}

// Load loads every package of the module at dir. Any type error in a repo package is
// returned as an error (the checks treat it as "undecided", i.e. a failure).
func Load(dir string, env []string) (*Prog, error) {
	cfg := &packages.Config{
		Mode:  packages.LoadAllSyntax,
		Dir:   dir,
		Env:   append(os.Environ(), env...),
		Tests: false,
	}
	pkgs, err := packages.Load(cfg, "./...")
	if err != nil {
		return nil, err
	}
	p := &Prog{Dir: dir, Pkgs: map[string]*packages.Package{}, SPkgs: map[string]*ssa.Package{}}
	var errs []string
	for _, pk := range pkgs {
		if pk.Fset != nil {
			p.Fset = pk.Fset
		}
		for _, e := range pk.Errors {
			errs = append(errs, pk.PkgPath+": "+e.Error())
		}
		if pk.IllTyped {
			errs = append(errs, pk.PkgPath+": ill-typed")
		}
		p.Pkgs[pk.PkgPath] = pk
		p.All = append(p.All, pk)
	}
	if len(pkgs) == 0 {
		return nil, fmt.Errorf("no packages loaded from %s", dir)
	}
	if len(errs) > 0 {
		sort.Strings(errs)
		if len(errs) > 8 {
			errs = errs[:8]
		}
		return nil, fmt.Errorf("load/type errors: %s", strings.Join(errs, "; "))
	}
	sort.Slice(p.All, func(i, j int) bool { return p.All[i].PkgPath < p.All[j].PkgPath })
	prog, spkgs := ssautil.AllPackages(pkgs, ssa.InstantiateGenerics)
	prog.Build()
	p.SSA = prog
	for i, sp := range spkgs {
		if sp != nil {
			p.SPkgs[pkgs[i].PkgPath] = sp
		}
	}
	p.index()
	return p, nil
}

func (p *Prog) index() {
	p.callers = map[*ssa.Function][]ssa.CallInstruction{}
	p.uniqueSite = map[*ssa.Function]ssa.CallInstruction{}
	p.helperOK = map[*ssa.Function]bool{}
	p.reach = map[*ssa.Function][]*ssa.Function{}
	Current = p
	p.invokers = map[string][]ssa.CallInstruction{}
	seen := map[*ssa.Function]bool{}
	var add func(f *ssa.Function)
	add = func(f *ssa.Function) {
		if f == nil || seen[f] {
			return
		}
		seen[f] = true
		if f.Blocks == nil {
			return
		}
		p.funcs = append(p.funcs, f)
		for _, a := range f.AnonFuncs {
			add(a)
		}
	}
	for _, sp := range p.SPkgs {
		for _, m := range sp.Members {
			switch m := m.(type) {
			case *ssa.Function:
				add(m)
			case *ssa.Type:
				for _, t := range []types.Type{m.Type(), types.NewPointer(m.Type())} {
					ms := p.SSA.MethodSets.MethodSet(t)
					for i := 0; i < ms.Len(); i++ {
						fn := p.SSA.MethodValue(ms.At(i))
						if fn != nil && fn.Synthetic == "" {
							add(fn)
						}
					}
				}
			}
		}
	}
	sort.Slice(p.funcs, func(i, j int) bool { return p.funcs[i].Pos() < p.funcs[j].Pos() })
	for _, f := range p.funcs {
		for _, b := range f.Blocks {
			for _, in := range b.Instrs {
				ci, ok := in.(ssa.CallInstruction)
				if !ok {
					continue
				}
				c := ci.Common()
				if c.IsInvoke() {
					p.invokers[c.Method.Name()] = append(p.invokers[c.Method.Name()], ci)
				} else if sc := c.StaticCallee(); sc != nil {
					p.callers[sc] = append(p.callers[sc], ci)
					// a closure created and called / go'd / deferred directly
				}
			}
		}
	}
}

// Funcs returns all source functions (incl. closures) of the repo packages.
func (p *Prog) Funcs() []*ssa.Function { return p.funcs }

// FuncsIn returns all source functions (incl. closures) declared in the package.
func (p *Prog) FuncsIn(pkgPath string) []*ssa.Function {
	var out []*ssa.Function
	for _, f := range p.funcs {
		if f.Pkg != nil && f.Pkg.Pkg.Path() == pkgPath {
			out = append(out, f)
		}
	}
	return out
}

// Pos renders a position relative to the repo root.
func (p *Prog) Pos(pos token.Pos) string {
	if !pos.IsValid() {
		return "?"
	}
	ps := p.Fset.Position(pos)
	f := strings.TrimPrefix(ps.Filename, p.Dir+"/")
	return fmt.Sprintf("%s:%d", f, ps.Line)
}

// File of a position relative to repo root.
func (p *Prog) File(pos token.Pos) string {
	if !pos.IsValid() {
		return "?"
	}
	ps := p.Fset.Position(pos)
	return strings.TrimPrefix(ps.Filename, p.Dir+"/")
}

// Func resolves a function or method. recv is "" for package-level functions, else the
// receiver's named type (without '*'). Returns nil if missing.
func (p *Prog) Func(pkg, recv, name string) *ssa.Function {
	key := pkg + "|" + recv + "|" + name
	if p.Lookups != nil {
		p.Lookups[key] = true
	}
	if f := p.funcByName(pkg, recv, name); f != nil {
		return Forwarded(f)
	}
	return Forwarded(p.relocate(key, pkg, recv))
}

// Forwarded follows pure forwarders: a function whose whole body hands its own
// parameters, unchanged and in order, to one function of the same package and returns
// what that returns (`func (t *T) M(a, b) R { return t.mImpl(a, b) }`) is analysed at the
// function it forwards to — the split changes nothing a rule could depend on.
func Forwarded(fn *ssa.Function) *ssa.Function {
	for depth := 0; fn != nil && depth < 3; depth++ {
		w := forwardTarget(fn)
		if w == nil {
			return fn
		}
		fn = w
	}
	return fn
}

func forwardTarget(fn *ssa.Function) *ssa.Function {
	if fn == nil || fn.Blocks == nil || fn.Parent() != nil {
		return nil
	}
	n := 0
	for _, b := range fn.Blocks {
		if b != fn.Recover {
			n++
		}
	}
	if n != 1 {
		return nil
	}
	var call *ssa.Call
	for _, in := range fn.Blocks[0].Instrs {
		switch x := in.(type) {
		case *ssa.Call:
			if call != nil {
				return nil
			}
			call = x
		case *ssa.Extract:
			if call == nil || x.Tuple != ssa.Value(call) {
				return nil
			}
		case *ssa.Return:
			if call == nil {
				return nil
			}
			res := call.Call.Signature().Results()
			if len(x.Results) != res.Len() {
				return nil
			}
			for i, r := range x.Results {
				if res.Len() == 1 {
					if r != ssa.Value(call) {
						return nil
					}
				} else if e, ok := r.(*ssa.Extract); !ok || e.Tuple != ssa.Value(call) || e.Index != i {
					return nil
				}
			}
		case *ssa.DebugRef:
		default:
			return nil
		}
	}
	if call == nil || call.Call.IsInvoke() {
		return nil
	}
	g := call.Call.StaticCallee()
	if g == nil || g.Blocks == nil || g.Pkg != fn.Pkg || g == fn || g.Parent() != nil || len(call.Call.Args) != len(fn.Params) {
		return nil
	}
	for i, a := range call.Call.Args {
		if a != ssa.Value(fn.Params[i]) {
			return nil
		}
	}
	return g
}

// relocate finds a renamed unexported anchor by its fingerprint: same package, same
// receiver type, same arity, and — uniquely — at least 80% of the recorded callees.
func (p *Prog) relocate(key, pkg, recv string) *ssa.Function {
	if v, ok := p.Relocated[key]; ok {
		for _, f := range p.funcs {
			if FuncName(f) == v {
				return f
			}
		}
	}
	fp, ok := p.Anchors[key]
	if !ok {
		return nil
	}
	full := pkg
	if !strings.Contains(full, ".") {
		full = ModPath + "/" + full
	}
	want := map[string]bool{}
	for _, c := range fp.Callees {
		want[c] = true
	}
	wantCallers := map[string]bool{}
	for _, c := range fp.Callers {
		wantCallers[c] = true
	}
	var best *ssa.Function
	nBest := 0
	for _, f := range p.FuncsIn(full) {
		if f.Parent() != nil || (f.Object() != nil && f.Object().Exported()) {
			continue
		}
		r := ""
		if f.Signature.Recv() != nil {
			r = namedName(deref(f.Signature.Recv().Type()))
		}
		if r != recv || len(f.Params) != fp.Params || f.Signature.Results().Len() != fp.Results {
			continue
		}
		// a function that is itself a recorded anchor under its own name is not a rename target
		own := strings.TrimPrefix(full, ModPath+"/") + "|" + r + "|" + f.Name()
		if _, isAnchor := p.Anchors[own]; isAnchor {
			continue
		}
		g := Fingerprint(f)
		if fp.Sig != "" && g.Sig != fp.Sig {
			continue
		}
		hit := 0
		for _, c := range g.Callees {
			if want[c] {
				hit++
			}
		}
		callerHit := 0
		for _, c := range g.Callers {
			if wantCallers[c] {
				callerHit++
			}
		}
		okCallees := len(fp.Callees) >= 2 && hit*5 >= len(fp.Callees)*4
		okCallers := len(fp.Callers) > 0 && callerHit == len(fp.Callers) && hit == len(fp.Callees)
		if okCallees || okCallers {
			nBest++
			best = f
		}
	}
	if nBest != 1 {
		return nil
	}
	if p.Relocated == nil {
		p.Relocated = map[string]string{}
	}
	if p.RenamedName == nil {
		p.RenamedName = map[string]string{}
	}
	p.Relocated[key] = FuncName(best)
	parts := strings.SplitN(key, "|", 3)
	p.RenamedName[parts[0]+"|"+parts[2]] = best.Name()
	return best
}

func (p *Prog) funcByName(pkg, recv, name string) *ssa.Function {
	if !strings.Contains(pkg, ".") {
		pkg = ModPath + "/" + pkg
	}
	sp := p.SPkgs[pkg]
	if sp == nil {
		return nil
	}
	if recv == "" {
		return sp.Func(name)
	}
	t := sp.Type(recv)
	if t == nil {
		return nil
	}
	for _, ty := range []types.Type{types.NewPointer(t.Type()), t.Type()} {
		ms := p.SSA.MethodSets.MethodSet(ty)
		for i := 0; i < ms.Len(); i++ {
			sel := ms.At(i)
			if sel.Obj().Name() == name {
				fn := p.SSA.MethodValue(sel)
				if fn != nil && fn.Synthetic != "" {
					// promoted through embedding: resolve the declared method instead
					if d := p.SSA.FuncValue(sel.Obj().(*types.Func)); d != nil {
						return d
					}
				}
				return fn
			}
		}
	}
	return nil
}

// Named resolves a named type of a repo package.
func (p *Prog) Named(pkg, name string) *types.Named {
	if !strings.Contains(pkg, ".") {
		pkg = ModPath + "/" + pkg
	}
	pk := p.Pkgs[pkg]
	if pk == nil {
		return nil
	}
	o := pk.Types.Scope().Lookup(name)
	if o == nil {
		return nil
	}
	n, _ := o.Type().(*types.Named)
	return n
}

// Implementations returns the named (non-interface) types of repo packages whose
// pointer or value method set implements the interface, sorted by name.
func (p *Prog) Implementations(iface *types.Named) []*types.Named {
	it, ok := iface.Underlying().(*types.Interface)
	if !ok {
		return nil
	}
	var out []*types.Named
	for _, pk := range p.All {
		sc := pk.Types.Scope()
		for _, n := range sc.Names() {
			tn, ok := sc.Lookup(n).(*types.TypeName)
			if !ok || tn.IsAlias() {
				continue
			}
			nt, ok := tn.Type().(*types.Named)
			if !ok || types.IsInterface(nt) || nt.TypeParams().Len() > 0 {
				continue
			}
			if types.Implements(nt, it) || types.Implements(types.NewPointer(nt), it) {
				out = append(out, nt)
			}
		}
	}
	sort.Slice(out, func(i, j int) bool { return out[i].String() < out[j].String() })
	return out
}

// MethodOf returns the declared SSA function for method name of type t (through embedding).
func (p *Prog) MethodOf(t *types.Named, name string) *ssa.Function {
	for _, ty := range []types.Type{types.NewPointer(t), t} {
		ms := p.SSA.MethodSets.MethodSet(ty)
		for i := 0; i < ms.Len(); i++ {
			sel := ms.At(i)
			if sel.Obj().Name() == name {
				if d := p.SSA.FuncValue(sel.Obj().(*types.Func)); d != nil {
					return Forwarded(d)
				}
				return Forwarded(p.SSA.MethodValue(sel))
			}
		}
	}
	return nil
}

// Callers returns the static call sites of fn plus interface invokes that may dispatch
// to it (CHA: same method name, receiver type implements the interface).
func (p *Prog) Callers(fn *ssa.Function) []ssa.CallInstruction {
	// the callers of a function that only a pure forwarder calls are the forwarder's
	if cs := p.callers[fn]; len(cs) == 1 && cs[0].Parent() != nil && forwardTarget(cs[0].Parent()) == fn && cs[0].Parent() != fn {
		return p.Callers(cs[0].Parent())
	}
	out := append([]ssa.CallInstruction{}, p.callers[fn]...)
	if fn.Signature.Recv() != nil {
		rt := fn.Signature.Recv().Type()
		for _, ci := range p.invokers[fn.Name()] {
			it, ok := ci.Common().Value.Type().Underlying().(*types.Interface)
			if !ok {
				continue
			}
			if types.Implements(rt, it) || types.Implements(types.NewPointer(deref(rt)), it) {
				out = append(out, ci)
			}
		}
	}
	sort.Slice(out, func(i, j int) bool { return out[i].Pos() < out[j].Pos() })
	return out
}

// CallersLoose is Callers plus, for a method that is promoted through embedding (the
// receiver type itself does not implement the interface, a struct embedding it does),
// the interface invokes of a method of the same name whose interface is implemented by a
// repository type that embeds the receiver type.
func (p *Prog) CallersLoose(fn *ssa.Function) []ssa.CallInstruction {
	out := p.Callers(fn)
	if fn.Signature.Recv() == nil {
		return out
	}
	have := map[ssa.CallInstruction]bool{}
	for _, c := range out {
		have[c] = true
	}
	rt := deref(fn.Signature.Recv().Type())
	embeds := func(t types.Type) bool {
		st, ok := deref(t).Underlying().(*types.Struct)
		if !ok {
			return false
		}
		for i := 0; i < st.NumFields(); i++ {
			if f := st.Field(i); f.Embedded() && types.Identical(deref(f.Type()), rt) {
				return true
			}
		}
		return false
	}
	var embedders []types.Type
	for _, pk := range p.All {
		sc := pk.Types.Scope()
		for _, n := range sc.Names() {
			if tn, ok := sc.Lookup(n).(*types.TypeName); ok && embeds(tn.Type()) {
				embedders = append(embedders, tn.Type())
			}
		}
	}
	for _, ci := range p.invokers[fn.Name()] {
		if have[ci] {
			continue
		}
		it, ok := ci.Common().Value.Type().Underlying().(*types.Interface)
		if !ok {
			continue
		}
		for _, e := range embedders {
			if types.Implements(e, it) || types.Implements(types.NewPointer(e), it) {
				out = append(out, ci)
				have[ci] = true
				break
			}
		}
	}
	sort.Slice(out, func(i, j int) bool { return out[i].Pos() < out[j].Pos() })
	return out
}

func deref(t types.Type) types.Type {
	if pt, ok := t.Underlying().(*types.Pointer); ok {
		return pt.Elem()
	}
	return t
}

// Deref is the exported form of deref.
func Deref(t types.Type) types.Type { return deref(t) }

// FileAST returns the parsed file with the given repo-relative path.
func (p *Prog) FileAST(rel string) (*ast.File, *packages.Package) {
	for _, pk := range p.All {
		for i, f := range pk.CompiledGoFiles {
			if strings.TrimPrefix(f, p.Dir+"/") == rel && i < len(pk.Syntax) {
				return pk.Syntax[i], pk
			}
		}
	}
	return nil, nil
}

// FuncName gives a stable readable name for a function: pkg-relative, with receiver.
func FuncName(f *ssa.Function) string {
	if f == nil {
		return "<nil>"
	}
	f = Logical(f)
	if f.Parent() != nil {
		// closure: name by parent + ordinal
		idx := 0
		for i, a := range f.Parent().AnonFuncs {
			if a == f {
				idx = i
			}
		}
		return fmt.Sprintf("%s$%d", FuncName(f.Parent()), idx+1)
	}
	pkg := ""
	if f.Pkg != nil {
		pkg = strings.TrimPrefix(f.Pkg.Pkg.Path(), ModPath+"/")
	}
	if r := f.Signature.Recv(); r != nil {
		t := deref(r.Type())
		if n, ok := t.(*types.Named); ok {
			return pkg + "." + n.Obj().Name() + "." + f.Name()
		}
	}
	return pkg + "." + f.Name()
}

// Logical: the function a worker stands for — when fn's only caller is a pure forwarder
// (see Forwarded), rule tables, frozen exceptions and obligation keys know it under the
// forwarder's name.
func Logical(fn *ssa.Function) *ssa.Function {
	for depth := 0; fn != nil && Current != nil && fn.Parent() == nil && depth < 3; depth++ {
		cs := Current.callers[fn]
		if len(cs) != 1 || cs[0].Parent() == nil || cs[0].Parent() == fn || forwardTarget(cs[0].Parent()) != fn {
			return fn
		}
		fn = cs[0].Parent()
	}
	return fn
}
