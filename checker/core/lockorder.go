package core

import (
	"go/token"
	"go/types"
	"sort"
	"strings"

	"golang.org/x/tools/go/ssa"
)

// LockOrderEdge: lock To is (or can be) acquired while From is held.
type LockOrderEdge struct {
	From, To string
	At       ssa.Instruction // the call or Lock operation made while From is held
	Via      string          // the function that acquires To ("" for a direct Lock)
}

// LockOrder builds the lock-order graph of the given packages: an edge A → B for every
// call (or Lock operation) made while A is must-held in its function, when the callee can
// acquire B directly or transitively. Callees: static callees, interface methods (every
// method of that name in the packages whose receiver implements the interface), and calls
// of a function stored in a struct field (every function value stored into that field,
// followed through constructor parameters to the arguments of the constructor's call
// sites — `NewSvSync(…, dv.onUpdate)`). Calls started with `go` do not inherit locks.
func LockOrder(p *Prog, pkgPaths []string) []LockOrderEdge {
	var fns []*ssa.Function
	inSet := map[*ssa.Function]bool{}
	for _, pk := range pkgPaths {
		for _, f := range p.FuncsIn(ModPath + "/" + pk) {
			if f.Blocks == nil || strings.HasSuffix(p.File(f.Pos()), "_test.go") {
				continue
			}
			fns = append(fns, f)
			inSet[f] = true
		}
	}
	byName := map[string][]*ssa.Function{}
	for _, f := range fns {
		if f.Signature.Recv() != nil {
			byName[f.Name()] = append(byName[f.Name()], f)
		}
	}
	// functions stored in struct fields: "Type.field" -> targets
	fieldFns := map[string][]*ssa.Function{}
	var targetsOf func(v ssa.Value, depth int) []*ssa.Function
	targetsOf = func(v ssa.Value, depth int) []*ssa.Function {
		v = Strip(v)
		switch x := v.(type) {
		case *ssa.Function:
			return []*ssa.Function{x}
		case *ssa.MakeClosure:
			if f, ok := x.Fn.(*ssa.Function); ok {
				// a bound method value: the wrapper calls the method
				if f.Synthetic != "" && strings.Contains(f.Name(), "$bound") {
					var out []*ssa.Function
					Instrs(f, func(in ssa.Instruction) {
						if ci, ok := in.(ssa.CallInstruction); ok {
							if cal := ci.Common().StaticCallee(); cal != nil {
								out = append(out, cal)
							}
						}
					})
					if len(out) > 0 {
						return out
					}
				}
				return []*ssa.Function{f}
			}
		case *ssa.Parameter:
			if depth <= 0 {
				return nil
			}
			fn := x.Parent()
			idx := -1
			for i, q := range fn.Params {
				if q == x {
					idx = i
				}
			}
			var out []*ssa.Function
			for _, ci := range p.Callers(fn) {
				recv, args := CallArgs(ci.Common())
				all := args
				if fn.Signature.Recv() != nil {
					all = append([]ssa.Value{recv}, args...)
				}
				if idx >= 0 && idx < len(all) && all[idx] != nil {
					out = append(out, targetsOf(all[idx], depth-1)...)
				}
			}
			return out
		case *ssa.Phi:
			var out []*ssa.Function
			for _, e := range x.Edges {
				out = append(out, targetsOf(e, depth)...)
			}
			return out
		}
		return nil
	}
	for _, f := range p.Funcs() {
		if f.Blocks == nil {
			continue
		}
		Instrs(f, func(in ssa.Instruction) {
			st, ok := in.(*ssa.Store)
			if !ok {
				return
			}
			fa, ok := st.Addr.(*ssa.FieldAddr)
			if !ok {
				return
			}
			if _, isSig := st.Val.Type().Underlying().(*types.Signature); !isSig {
				return
			}
			t, fld := FieldAddrName(fa)
			fieldFns[t+"."+fld] = append(fieldFns[t+"."+fld], targetsOf(st.Val, 2)...)
		})
	}
	callees := func(ci ssa.CallInstruction) []*ssa.Function {
		cc := ci.Common()
		if cal := cc.StaticCallee(); cal != nil {
			return []*ssa.Function{cal}
		}
		if cc.IsInvoke() {
			var out []*ssa.Function
			it, _ := cc.Value.Type().Underlying().(*types.Interface)
			for _, f := range byName[cc.Method.Name()] {
				rt := f.Signature.Recv().Type()
				if it == nil || types.Implements(rt, it) || types.Implements(types.NewPointer(deref(rt)), it) {
					out = append(out, f)
				}
			}
			return out
		}
		// a function value loaded from a struct field
		if u, ok := Strip(cc.Value).(*ssa.UnOp); ok && u.Op == token.MUL {
			if fa, ok := u.X.(*ssa.FieldAddr); ok {
				t, fld := FieldAddrName(fa)
				return fieldFns[t+"."+fld]
			}
		}
		if f, ok := cc.Value.(*ssa.MakeClosure); ok {
			if fn, ok := f.Fn.(*ssa.Function); ok {
				return []*ssa.Function{fn}
			}
		}
		return nil
	}
	bare := func(l string) string { return strings.TrimPrefix(strings.TrimPrefix(l, "W:"), "R:") }
	// acquires: fixpoint
	acq := map[*ssa.Function]map[string]bool{}
	for _, f := range fns {
		acq[f] = map[string]bool{}
		Instrs(f, func(in ssa.Instruction) {
			if name, op := lockOp(in); op > 0 {
				acq[f][name] = true
			}
		})
	}
	for changed := true; changed; {
		changed = false
		for _, f := range fns {
			Instrs(f, func(in ssa.Instruction) {
				ci, ok := in.(ssa.CallInstruction)
				if !ok {
					return
				}
				if _, isGo := in.(*ssa.Go); isGo {
					return
				}
				for _, cal := range callees(ci) {
					for l := range acq[cal] {
						if !acq[f][l] {
							acq[f][l] = true
							changed = true
						}
					}
				}
			})
		}
	}
	var edges []LockOrderEdge
	seen := map[string]bool{}
	for _, f := range fns {
		held := HeldLocks(f, LockSet{})
		Instrs(f, func(in ssa.Instruction) {
			h := held[in]
			if len(h) == 0 {
				return
			}
			add := func(to, via string) {
				for a := range h {
					a = bare(a)
					if a == to {
						continue
					}
					k := a + "→" + to + "@" + FuncName(f) + ":" + via
					if !seen[k] {
						seen[k] = true
						edges = append(edges, LockOrderEdge{From: a, To: to, At: in, Via: via})
					}
				}
			}
			if name, op := lockOp(in); op > 0 {
				add(name, "")
				return
			}
			ci, ok := in.(ssa.CallInstruction)
			if !ok {
				return
			}
			if _, isGo := in.(*ssa.Go); isGo {
				return
			}
			for _, cal := range callees(ci) {
				var ls []string
				for l := range acq[cal] {
					ls = append(ls, l)
				}
				sort.Strings(ls)
				for _, l := range ls {
					add(l, FuncName(cal))
				}
			}
		})
	}
	sort.Slice(edges, func(i, j int) bool {
		if edges[i].From != edges[j].From {
			return edges[i].From < edges[j].From
		}
		if edges[i].To != edges[j].To {
			return edges[i].To < edges[j].To
		}
		return edges[i].At.Pos() < edges[j].At.Pos()
	})
	return edges
}

// LockCycles: the pairs (A, B) of the lock-order graph that lie on a cycle, one witness
// edge per direction (a path B →* A is given by its first edge).
func LockCycles(edges []LockOrderEdge) [][2]LockOrderEdge {
	adj := map[string][]LockOrderEdge{}
	for _, e := range edges {
		adj[e.From] = append(adj[e.From], e)
	}
	// reach[x] = first edge of a path x →* y for every reachable y
	first := map[string]map[string]LockOrderEdge{}
	for x := range adj {
		first[x] = map[string]LockOrderEdge{}
		var dfs func(cur string, f LockOrderEdge)
		dfs = func(cur string, f LockOrderEdge) {
			for _, e := range adj[cur] {
				ff := f
				if cur == x {
					ff = e
				}
				if _, ok := first[x][e.To]; ok {
					continue
				}
				first[x][e.To] = ff
				dfs(e.To, ff)
			}
		}
		dfs(x, LockOrderEdge{})
	}
	var out [][2]LockOrderEdge
	done := map[string]bool{}
	for _, e := range edges {
		if back, ok := first[e.To][e.From]; ok {
			k := e.From + "|" + e.To
			k2 := e.To + "|" + e.From
			if done[k] || done[k2] {
				continue
			}
			done[k] = true
			out = append(out, [2]LockOrderEdge{e, back})
		}
	}
	return out
}
