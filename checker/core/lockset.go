package core

import (
	"sort"
	"strings"

	"golang.org/x/tools/go/ssa"
)

// LockAlias maps a lock to a class name shared by alternative implementations of one
// table (only one of which exists in a process), so that code common to both can be
// checked against "the lock of whichever implementation is in use".
var LockAlias = map[string]string{}

// LockSet is a set of held locks: "W:<Type>.<field>" or "R:<Type>.<field>".
type LockSet map[string]bool

func (l LockSet) clone() LockSet {
	o := LockSet{}
	for k := range l {
		o[k] = true
	}
	return o
}

func (l LockSet) String() string {
	var ks []string
	for k := range l {
		ks = append(ks, k)
	}
	sort.Strings(ks)
	return "{" + strings.Join(ks, ",") + "}"
}

func meet(a, b LockSet) LockSet {
	if a == nil {
		return b.clone()
	}
	o := LockSet{}
	for k := range a {
		if b[k] {
			o[k] = true
		}
	}
	return o
}

func equalLS(a, b LockSet) bool {
	if len(a) != len(b) {
		return false
	}
	for k := range a {
		if !b[k] {
			return false
		}
	}
	return true
}

// lockOp classifies a call instruction: (name of the lock, +1 acquire write, +2 acquire
// read, -1 release write, -2 release read, 0 none).
func lockOp(in ssa.Instruction) (string, int) {
	ci, ok := in.(ssa.CallInstruction)
	if !ok {
		return "", 0
	}
	if _, isDefer := in.(*ssa.Defer); isDefer {
		return "", 0 // deferred unlocks keep the lock until the function returns
	}
	id, ok := Callee(ci.Common())
	if !ok || id.Pkg != "sync" || (id.Recv != "RWMutex" && id.Recv != "Mutex") {
		return "", 0
	}
	recv, _ := CallArgs(ci.Common())
	name := ""
	if g, isG := Strip(recv).(*ssa.Global); isG {
		name = "global." + g.Name() // a package-level lock
	} else {
		fa, ok := Strip(recv).(*ssa.FieldAddr)
		if !ok {
			return "", 0
		}
		t, f := FieldAddrName(fa)
		name = t + "." + f
	}
	switch id.Name {
	case "Lock":
		return name, 1
	case "RLock":
		return name, 2
	case "Unlock":
		return name, -1
	case "RUnlock":
		return name, -2
	}
	return "", 0
}

// HeldLocks computes, for every instruction of fn, the locks that are held on every
// path from the entry (must analysis; meet = intersection), starting with entry.
func HeldLocks(fn *ssa.Function, entry LockSet) map[ssa.Instruction]LockSet {
	in := map[*ssa.BasicBlock]LockSet{}
	out := map[*ssa.BasicBlock]LockSet{}
	held := map[ssa.Instruction]LockSet{}
	if len(fn.Blocks) == 0 {
		return held
	}
	in[fn.Blocks[0]] = entry.clone()
	work := []*ssa.BasicBlock{fn.Blocks[0]}
	transfer := func(b *ssa.BasicBlock, start LockSet, record bool) LockSet {
		cur := start.clone()
		for _, ins := range b.Instrs {
			if record {
				held[ins] = cur.clone()
			}
			// a helper that returns with a lock held ("lock-in-helper": lock(); return
			// unlock) acquires that lock for its caller
			if ci, ok := ins.(*ssa.Call); ok {
				if cal := ci.Call.StaticCallee(); cal != nil && cal.Blocks != nil && cal != fn {
					for k := range AcquireSummary(cal) {
						cur[k] = true
					}
				}
			}
			name, op := lockOp(ins)
			alias := LockAlias[name]
			switch op {
			case 1: // the write lock also grants what the read lock grants
				cur["W:"+name] = true
				cur["R:"+name] = true
				if alias != "" {
					cur["W:"+alias] = true
					cur["R:"+alias] = true
				}
			case 2:
				cur["R:"+name] = true
				if alias != "" {
					cur["R:"+alias] = true
				}
			case -1:
				delete(cur, "W:"+name)
				delete(cur, "R:"+name)
				if alias != "" {
					delete(cur, "W:"+alias)
					delete(cur, "R:"+alias)
				}
			case -2:
				delete(cur, "R:"+name)
				if alias != "" {
					delete(cur, "R:"+alias)
				}
			}
		}
		return cur
	}
	for len(work) > 0 {
		b := work[0]
		work = work[1:]
		o := transfer(b, in[b], false)
		if prev, ok := out[b]; ok && equalLS(prev, o) {
			continue
		}
		out[b] = o
		for _, s := range b.Succs {
			var n LockSet
			if cur, ok := in[s]; ok {
				n = meet(cur, o)
				if equalLS(n, cur) {
					continue
				}
			} else {
				n = o.clone()
			}
			in[s] = n
			work = append(work, s)
		}
	}
	for _, b := range fn.Blocks {
		if st, ok := in[b]; ok {
			transfer(b, st, true)
		}
	}
	// Deferred calls run when the function returns, last registered first: a deferred call
	// D runs with the locks held at the return, minus those released by the deferred
	// unlocks that were registered AFTER D (they run before it). `defer refresh(); defer
	// mu.Unlock()` therefore runs refresh without the lock.
	var exitHeld LockSet
	for _, b := range fn.Blocks {
		for _, ins := range b.Instrs {
			if _, isRet := ins.(*ssa.Return); isRet {
				if h, ok := held[ins]; ok {
					if exitHeld == nil {
						exitHeld = h.clone()
					} else {
						exitHeld = meet(exitHeld, h)
					}
				}
			}
		}
	}
	if exitHeld != nil {
		var defers []*ssa.Defer
		for _, b := range fn.Blocks {
			for _, ins := range b.Instrs {
				if d, ok := ins.(*ssa.Defer); ok {
					defers = append(defers, d)
				}
			}
		}
		for _, d := range defers {
			if _, op := deferredLockOp(d); op != 0 {
				continue
			}
			cur := exitHeld.clone()
			for _, u := range defers {
				name, op := deferredLockOp(u)
				if op >= 0 || u == d {
					continue
				}
				if !ReachableFrom(After(d), u) {
					continue
				}
				alias := LockAlias[name]
				if op == -1 {
					delete(cur, "W:"+name)
					delete(cur, "R:"+name)
					if alias != "" {
						delete(cur, "W:"+alias)
						delete(cur, "R:"+alias)
					}
				} else {
					delete(cur, "R:"+name)
					if alias != "" {
						delete(cur, "R:"+alias)
					}
				}
			}
			held[d] = cur
		}
	}
	return held
}

// deferredLockOp classifies a deferred call like lockOp classifies a direct one.
func deferredLockOp(d *ssa.Defer) (string, int) {
	id, ok := Callee(d.Common())
	if !ok || id.Pkg != "sync" || (id.Recv != "RWMutex" && id.Recv != "Mutex") {
		return "", 0
	}
	recv, _ := CallArgs(d.Common())
	name := ""
	if g, isG := Strip(recv).(*ssa.Global); isG {
		name = "global." + g.Name()
	} else {
		fa, ok := Strip(recv).(*ssa.FieldAddr)
		if !ok {
			return "", 0
		}
		t, f := FieldAddrName(fa)
		name = t + "." + f
	}
	switch id.Name {
	case "Unlock":
		return name, -1
	case "RUnlock":
		return name, -2
	}
	return "", 0
}

// EntryLocks computes, for the functions of one package, the locks held at entry on
// every call path: exported functions, functions with callers outside the package,
// function values and goroutine entry points start with nothing; a helper is "called
// with the lock" iff every one of its callers holds it at the call site (fixpoint).
func EntryLocks(p *Prog, pkgPath string) (map[*ssa.Function]LockSet, map[*ssa.Function]map[ssa.Instruction]LockSet) {
	fns := p.FuncsIn(pkgPath)
	inPkg := map[*ssa.Function]bool{}
	for _, f := range fns {
		inPkg[f] = true
	}
	entry := map[*ssa.Function]LockSet{}
	top := map[*ssa.Function]bool{} // not yet constrained
	// a function literal handed directly to a synchronous library routine
	// (slices.IndexFunc, sort.Slice, …) runs while that call runs: it inherits the
	// lockset of the call instead of starting with nothing
	syncArgSites := map[*ssa.Function][]ssa.Instruction{}
	for _, f := range fns {
		if f.Parent() == nil || f.Referrers() == nil {
			continue
		}
		ok := true
		var sites []ssa.Instruction
		for _, r := range *f.Referrers() {
			// a literal that captures nothing is used as a plain function value
			var mc ssa.Value = f
			users := []ssa.Instruction{r}
			if m, isMC := r.(*ssa.MakeClosure); isMC {
				mc, users = m, Refs(m)
			}
			for _, u := range users {
				if _, isDbg := u.(*ssa.DebugRef); isDbg {
					continue
				}
				cl, isCall := u.(*ssa.Call)
				if !isCall {
					ok = false
					break
				}
				cal := cl.Call.StaticCallee()
				// handed to a function of this package that does nothing with it but
				// call it (`f.nearestEntryWith(name, func(e) bool {…})`): the literal runs
				// at those calls, with the locks held there
				if cal != nil && inPkg[cal] && cl.Call.Value != mc && len(cal.Params) == len(cl.Call.Args) {
					onlyCalled := true
					var inner []ssa.Instruction
					for i, a := range cl.Call.Args {
						if a != mc {
							continue
						}
						for _, u2 := range Refs(cal.Params[i]) {
							if _, isDbg := u2.(*ssa.DebugRef); isDbg {
								continue
							}
							c2, isCall2 := u2.(*ssa.Call)
							if !isCall2 || c2.Call.Value != ssa.Value(cal.Params[i]) {
								onlyCalled = false
								break
							}
							inner = append(inner, c2)
						}
					}
					if onlyCalled && len(inner) > 0 {
						sites = append(sites, inner...)
						continue
					}
				}
				if cal == nil || cal.Pkg == nil || strings.HasPrefix(cal.Pkg.Pkg.Path(), ModPath) {
					// generic library functions are instantiated: Pkg is nil for those
					if cal == nil || cal.Origin() == nil || cal.Origin().Pkg == nil || strings.HasPrefix(cal.Origin().Pkg.Pkg.Path(), ModPath) {
						ok = false
						break
					}
				}
				// … unless the library routine only registers the literal to run later, on
				// another goroutine (time.AfterFunc, context.AfterFunc, finalizers, handlers)
				if cal != nil {
					lp := ""
					if cal.Pkg != nil {
						lp = cal.Pkg.Pkg.Path()
					} else if cal.Origin() != nil && cal.Origin().Pkg != nil {
						lp = cal.Origin().Pkg.Pkg.Path()
					}
					switch lp {
					case "time", "context", "runtime", "net/http", "os/signal":
						ok = false
					}
					if !ok {
						break
					}
				}
				isArg := false
				for _, a := range cl.Call.Args {
					if a == mc {
						isArg = true
					}
				}
				if !isArg {
					ok = false
					break
				}
				sites = append(sites, cl)
			}
		}
		if ok && len(sites) > 0 {
			syncArgSites[f] = sites
		}
	}
	for _, f := range fns {
		open := f.Parent() != nil // closures
		if syncArgSites[f] != nil {
			open = false
		}
		callers := p.Callers(f)
		if len(callers) == 0 && syncArgSites[f] == nil {
			open = true
		}
		for _, ci := range callers {
			if !inPkg[ci.Parent()] {
				open = true
			}
			if _, isGo := ci.(*ssa.Go); isGo {
				open = true
			}
		}
		// address taken (used as a value)?
		if f.Referrers() != nil && syncArgSites[f] == nil {
			for _, r := range *f.Referrers() {
				if _, isCall := r.(ssa.CallInstruction); !isCall {
					open = true
				}
			}
		}
		if open {
			entry[f] = LockSet{}
		} else {
			top[f] = true
		}
	}
	held := map[*ssa.Function]map[ssa.Instruction]LockSet{}
	for iter := 0; iter < 20; iter++ {
		changed := false
		computed := map[*ssa.Function]map[ssa.Instruction]LockSet{}
		for _, f := range fns {
			if top[f] {
				continue
			}
			computed[f] = HeldLocks(f, entry[f])
		}
		for _, f := range fns {
			if e, ok := entry[f]; ok && len(e) == 0 && !top[f] {
				// already bottom
			}
			var acc LockSet
			constrained := false
			for _, ci := range p.Callers(f) {
				caller := ci.Parent()
				if !inPkg[caller] || top[caller] || computed[caller] == nil {
					continue
				}
				h := computed[caller][ci]
				if h == nil {
					h = LockSet{}
				}
				acc = meet(acc, h)
				constrained = true
			}
			for _, site := range syncArgSites[f] {
				caller := site.Parent()
				if !inPkg[caller] || top[caller] || computed[caller] == nil {
					continue
				}
				h := computed[caller][site]
				if h == nil {
					h = LockSet{}
				}
				acc = meet(acc, h)
				constrained = true
			}
			if !constrained {
				continue
			}
			if top[f] {
				delete(top, f)
				entry[f] = acc
				changed = true
				continue
			}
			if isOpenEntry(entry[f]) {
				continue
			}
			n := meet(entry[f], acc)
			if !equalLS(n, entry[f]) {
				entry[f] = n
				changed = true
			}
		}
		if !changed {
			break
		}
	}
	for f := range top {
		entry[f] = LockSet{}
	}
	for _, f := range fns {
		held[f] = HeldLocks(f, entry[f])
	}
	return entry, held
}

func isOpenEntry(l LockSet) bool { return l != nil && len(l) == 0 }

var acquireMemo = map[*ssa.Function]LockSet{}
var acquireBusy = map[*ssa.Function]bool{}

// AcquireSummary: the locks fn holds at every one of its returns that it did not hold at
// entry (it acquired them and leaves them to its caller to release). Only small
// functions of the repository are summarised.
func AcquireSummary(fn *ssa.Function) LockSet {
	if v, ok := acquireMemo[fn]; ok {
		return v
	}
	if acquireBusy[fn] || fn.Blocks == nil || fn.Pkg == nil || !strings.HasPrefix(fn.Pkg.Pkg.Path(), ModPath) {
		return nil
	}
	n := 0
	hasLock := false
	Instrs(fn, func(in ssa.Instruction) {
		n++
		if _, op := lockOp(in); op > 0 {
			hasLock = true
		}
	})
	if n > 40 || !hasLock {
		acquireMemo[fn] = nil
		return nil
	}
	acquireBusy[fn] = true
	defer delete(acquireBusy, fn)
	// a deferred release inside fn gives the lock back before fn returns
	deferred := map[string]bool{}
	Instrs(fn, func(in ssa.Instruction) {
		if d, ok := in.(*ssa.Defer); ok {
			if id, ok := Callee(d.Common()); ok && id.Pkg == "sync" && (id.Name == "Unlock" || id.Name == "RUnlock") {
				recv, _ := CallArgs(d.Common())
				if fa, ok := Strip(recv).(*ssa.FieldAddr); ok {
					t, f := FieldAddrName(fa)
					deferred[t+"."+f] = true
				}
			}
		}
	})
	held := HeldLocks(fn, LockSet{})
	var acc LockSet
	nRet := 0
	Instrs(fn, func(in ssa.Instruction) {
		if _, ok := in.(*ssa.Return); ok && in.Block() != fn.Recover {
			nRet++
			acc = meet(acc, held[in])
		}
	})
	out := LockSet{}
	if nRet > 0 {
		for k := range acc {
			name := strings.TrimPrefix(strings.TrimPrefix(k, "W:"), "R:")
			if deferred[name] {
				continue
			}
			// the class of a lock that is given back (R:FIB for the tree's or the hash
			// table's own mutex) is given back with it
			viaMember := false
			for d := range deferred {
				if LockAlias[d] == name {
					viaMember = true
				}
			}
			if viaMember {
				continue
			}
			// alias classes are added by the transfer function when the member lock is present
			out[k] = true
		}
	}
	if len(out) == 0 {
		out = nil
	}
	acquireMemo[fn] = out
	return out
}

// LockOp: the table lock an instruction operates on and how (1 Lock, 2 RLock, -1 Unlock,
// -2 RUnlock; 0 when it is no lock operation).
func LockOp(in ssa.Instruction) (name string, op int) { return lockOp(in) }
