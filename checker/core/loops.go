package core

import (
	"go/token"

	"golang.org/x/tools/go/ssa"
)

// Traversal classifies how the index of an element access s[idx] inside a loop moves over
// the slice s: Full when the loop provably visits every index 0..len(s)-1 unless it leaves
// early through a branch of its body; Partial when the loop's own bounds exclude an index
// (a start after 0, an end before len-1); Unknown when the loop shape is not one of the
// recognised counting forms.
type Traversal int

const (
	TraversalUnknown Traversal = iota
	TraversalFull
	TraversalPartial
)

// TraversalOf classifies the loop that drives ia's index. Recognised forms (s is ia.X):
//
//	for i := range s / for _, e := range s     (go/ssa: phi[-1, i+1], i+1 < len(s))
//	for i := 0; i < len(s); i++                (also !=, <= len(s)-1)
//	for i := len(s)-1; i >= 0; i--             (also > -1)
//
// and the Partial deviations of the two counted forms (start k>0, `i < len(s)-k`,
// `i > 0`, …).
func TraversalOf(ia *ssa.IndexAddr) (Traversal, string) {
	s := Strip(ia.X)
	isLenS := func(v ssa.Value) bool {
		l, ok := LenOf(v)
		return ok && (Strip(l) == s || Same(l, s))
	}
	idx := StripConv(ia.Index)
	// the loop variable: a phi of the header, possibly seen as phi+1 (range form)
	var phi *ssa.Phi
	rangeForm := false
	switch x := idx.(type) {
	case *ssa.Phi:
		phi = x
	case *ssa.BinOp:
		if p, ok := StripConv(x.X).(*ssa.Phi); ok && x.Op == token.ADD {
			if k, isC := ConstInt(x.Y); isC && k == 1 {
				phi, rangeForm = p, true
			}
		}
	}
	if phi == nil || len(phi.Edges) < 2 {
		return TraversalUnknown, "index is not a loop variable"
	}
	// which edge is the initial value, which the step (one step value, possibly on
	// several back edges: `continue` in the body)
	var init, step ssa.Value
	for _, e := range phi.Edges {
		e = StripConv(e)
		if bo, ok := e.(*ssa.BinOp); ok && (bo.Op == token.ADD || bo.Op == token.SUB) && StripConv(bo.X) == ssa.Value(phi) {
			if step != nil && step != e {
				return TraversalUnknown, "loop variable is stepped in more than one way"
			}
			step = e
		} else {
			if init != nil && init != e {
				return TraversalUnknown, "loop variable has more than one initial value"
			}
			init = e
		}
	}
	if init == nil || step == nil {
		return TraversalUnknown, "loop variable is not stepped by a constant"
	}
	sb := step.(*ssa.BinOp)
	k, isC := ConstInt(sb.Y)
	if !isC || k != 1 {
		return TraversalUnknown, "step is not 1"
	}
	up := sb.Op == token.ADD
	// the bound test: the If of the header block that compares the variable
	var op token.Token
	var bound ssa.Value
	found := false
	for _, b := range phi.Block().Parent().Blocks {
		if len(b.Instrs) == 0 || !(b == phi.Block() || phi.Block().Dominates(b)) {
			continue
		}
		iff, ok := b.Instrs[len(b.Instrs)-1].(*ssa.If)
		if !ok {
			continue
		}
		o, x, y, okC := Cmp(iff.Cond)
		if !okC {
			continue
		}
		x, y = StripConv(x), StripConv(y)
		cmpVar := ssa.Value(phi)
		if rangeForm {
			cmpVar = idx
		}
		// the loop continues on Succs[0] when the test holds (header test) — require
		// that the true edge stays in the loop
		switch {
		case x == cmpVar:
			op, bound, found = o, y, true
		case y == cmpVar:
			op, bound, found = Swap(o), x, true
		}
		if found {
			break
		}
	}
	if !found {
		return TraversalUnknown, "no bound test on the loop variable"
	}
	if rangeForm {
		if k0, ok := ConstInt(init); ok && k0 == -1 && op == token.LSS && isLenS(bound) {
			return TraversalFull, "range over the slice"
		}
		return TraversalUnknown, "range-like loop over something else"
	}
	if up {
		k0, ok := ConstInt(init)
		if !ok {
			return TraversalUnknown, "start is not a constant"
		}
		full := false
		switch {
		case (op == token.LSS || op == token.NEQ) && isLenS(bound):
			full = true
		case op == token.LEQ:
			if bo, ok := bound.(*ssa.BinOp); ok && bo.Op == token.SUB && isLenS(bo.X) {
				if k1, ok := ConstInt(bo.Y); ok && k1 == 1 {
					full = true
				}
			}
		}
		if full && k0 == 0 {
			return TraversalFull, "counted 0..len-1"
		}
		if k0 > 0 {
			return TraversalPartial, "the loop starts after index 0"
		}
		if !full {
			// `i < len(s)-k`, `i < n` for another n: cannot be shown to reach len-1
			if bo, ok := bound.(*ssa.BinOp); ok && bo.Op == token.SUB && isLenS(bo.X) {
				return TraversalPartial, "the loop ends before the last index"
			}
			return TraversalUnknown, "upper bound is not len of the slice"
		}
		return TraversalUnknown, "unrecognised counted loop"
	}
	// counting down
	startsAtLast := false
	if bo, ok := init.(*ssa.BinOp); ok && bo.Op == token.SUB && isLenS(bo.X) {
		if k1, ok := ConstInt(bo.Y); ok {
			if k1 == 1 {
				startsAtLast = true
			} else if k1 > 1 {
				return TraversalPartial, "the loop starts before the last index"
			}
		}
	}
	kb, okB := ConstInt(bound)
	if !okB {
		return TraversalUnknown, "lower bound is not a constant"
	}
	reachesZero := (op == token.GEQ && kb == 0) || (op == token.GTR && kb == -1)
	if startsAtLast && reachesZero {
		return TraversalFull, "counted len-1..0"
	}
	if (op == token.GTR && kb >= 0) || (op == token.GEQ && kb >= 1) {
		return TraversalPartial, "the loop stops before index 0"
	}
	return TraversalUnknown, "unrecognised counted loop"
}
