package core

import (
	"go/token"

	"golang.org/x/tools/go/ssa"
)

// PresenceFlow decides "target is non-nil wherever `at` executes" path-sensitively in a
// small set of presence variables: the target (a load of an optional field) and every
// other nil-tested value that occurs together with it in one branch condition
// (`(p.Flags != nil && p.Mask == nil) || (p.Flags == nil && p.Mask != nil)` → reject).
// The abstract state of a block is the set of nil/non-nil assignments of those variables
// (at most 4, so at most 16 assignments) with which the block can be entered; a branch
// filters the assignments by the DNF of its condition (literals about other values are
// unconstrained); join is union. Edges in `cut` are not taken. A store to the field of a
// tracked variable makes the analysis give up (false).
//
// It returns true when no assignment reaching at's block leaves the target nil, and the
// number of branch edges that removed at least one assignment (0 = vacuous).
func PresenceFlow(fn *ssa.Function, at ssa.Instruction, target ssa.Value, cut map[Edge]bool) (bool, int) {
	vars := []ssa.Value{target}
	idxOf := func(v ssa.Value) int {
		for i, w := range vars {
			if w == v || Same(w, v) {
				return i
			}
		}
		return -1
	}
	nilTest := func(l BoolLit) (ssa.Value, bool, bool) { // value, literal asserts non-nil, ok
		if !l.IsCmp || (l.Op != token.EQL && l.Op != token.NEQ) {
			return nil, false, false
		}
		x, y := l.X, l.Y
		if IsNilConst(x) {
			x, y = y, x
		}
		if !IsNilConst(y) {
			return nil, false, false
		}
		return x, (l.Op == token.NEQ) == l.Want, true
	}
	type cond struct {
		t, f [][]BoolLit
	}
	conds := map[*ssa.BasicBlock]cond{}
	var restores []func()
	defer func() {
		for _, r := range restores {
			r()
		}
	}()
	for _, b := range fn.Blocks {
		if len(b.Instrs) == 0 {
			continue
		}
		iff, ok := b.Instrs[len(b.Instrs)-1].(*ssa.If)
		if !ok {
			continue
		}
		t, f, r, okC := CondDNF(iff.Cond)
		restores = append(restores, r)
		if !okC {
			t, f = AtomLits(iff.Cond)
		}
		conds[b] = cond{t, f}
	}
	// variables: every nil-tested field of the same message object as the target (at most 10)
	troot, tpath := FieldPath(target)
	for _, b := range fn.Blocks {
		c, ok := conds[b]
		if !ok {
			continue
		}
		for _, d := range append(append([][]BoolLit{}, c.t...), c.f...) {
			for _, l := range d {
				v, _, ok := nilTest(l)
				if !ok || idxOf(v) >= 0 || len(vars) >= 10 {
					continue
				}
				r, p := FieldPath(v)
				if len(p) == len(tpath) && len(p) > 0 && (r == troot || Same(r, troot)) {
					same := true
					for i := 0; i < len(p)-1; i++ {
						if p[i] != tpath[i] {
							same = false
						}
					}
					if same {
						vars = append(vars, v)
					}
				}
			}
		}
	}
	// stores into a tracked field: give up
	trackedField := func(fa *ssa.FieldAddr) bool {
		for _, v := range vars {
			if u, ok := Strip(v).(*ssa.UnOp); ok && u.Op == token.MUL {
				if fb, ok := u.X.(*ssa.FieldAddr); ok && fb.Field == fa.Field && (fb.X == fa.X || Same(fb.X, fa.X)) {
					return true
				}
			}
		}
		return false
	}
	gaveUp := false
	Instrs(fn, func(in ssa.Instruction) {
		if st, ok := in.(*ssa.Store); ok {
			if fa, ok := st.Addr.(*ssa.FieldAddr); ok && trackedField(fa) {
				gaveUp = true
			}
		}
	})
	if gaveUp {
		return false, 0
	}
	n := uint(len(vars))
	nAssign := 1 << n
	words := (nAssign + 63) / 64
	type bits []uint64
	newBits := func() bits { return make(bits, words) }
	// filter(dnf): set of assignments (bit i of the assignment = var i non-nil) satisfying some disjunct
	filter := func(dnf [][]BoolLit) bits {
		out := newBits()
		for _, d := range dnf {
			need := map[int]bool{}
			contra := false
			for _, l := range d {
				v, nonNil, ok := nilTest(l)
				if !ok {
					continue
				}
				i := idxOf(v)
				if i < 0 {
					continue
				}
				if prev, seen := need[i]; seen && prev != nonNil {
					contra = true
				}
				need[i] = nonNil
			}
			if contra {
				continue
			}
			for a := 0; a < nAssign; a++ {
				okA := true
				for i, nn := range need {
					if (a>>uint(i)&1 == 1) != nn {
						okA = false
					}
				}
				if okA {
					out[a/64] |= 1 << uint(a%64)
				}
			}
		}
		return out
	}
	filters := map[*ssa.BasicBlock][2]bits{}
	for b, c := range conds {
		filters[b] = [2]bits{filter(c.t), filter(c.f)}
	}
	state := map[*ssa.BasicBlock]bits{}
	for _, b := range fn.Blocks {
		state[b] = newBits()
	}
	for a := 0; a < nAssign; a++ {
		state[fn.Blocks[0]][a/64] |= 1 << uint(a%64)
	}
	narrowing := map[Edge]bool{}
	work := []*ssa.BasicBlock{fn.Blocks[0]}
	for len(work) > 0 {
		b := work[0]
		work = work[1:]
		s := state[b]
		for i, succ := range b.Succs {
			if cut[Edge{b, succ}] {
				continue
			}
			out := append(bits{}, s...)
			if fl, ok := filters[b]; ok && len(b.Succs) == 2 {
				for w := range out {
					out[w] &= fl[i][w]
					if out[w] != s[w] {
						narrowing[Edge{b, succ}] = true
					}
				}
			}
			grew := false
			for w := range out {
				if out[w]&^state[succ][w] != 0 {
					state[succ][w] |= out[w]
					grew = true
				}
			}
			if grew {
				work = append(work, succ)
			}
		}
	}
	s := state[at.Block()]
	for a := 0; a < nAssign; a++ {
		if s[a/64]>>uint(a%64)&1 == 1 && a&1 == 0 { // reachable with the target nil
			return false, len(narrowing)
		}
	}
	return true, len(narrowing)
}
