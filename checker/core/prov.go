package core

import (
	"fmt"
	"go/token"
	"go/types"
	"sort"
	"strings"

	"golang.org/x/tools/go/ssa"
)

// Leaf is one origin of a value found by the backward slice: a source value plus the
// accessors applied on the way from the source to the sliced value (".f" field load,
// "[]" element, "key"/"val" of a ranged or indexed map, "#i" tuple component).
type Leaf struct {
	Kind string // call | param | const | global | make | freevar | binop | other
	Val  ssa.Value
	Via  []string // source-to-use order
	Fn   *ssa.Function
}

// Desc renders the leaf without register names or positions.
func (l Leaf) Desc() string {
	var s string
	switch v := l.Val.(type) {
	case *ssa.Call:
		id, ok := Callee(&v.Call)
		if ok {
			s = "call:" + id.String()
		} else {
			s = "call:<dynamic>"
		}
	case *ssa.Parameter:
		s = "param:" + v.Name()
	case *ssa.Const:
		if v.Value == nil {
			s = "nil"
		} else {
			s = "const:" + v.Value.ExactString()
		}
	case *ssa.Global:
		s = "global:" + v.Name()
	case *ssa.MakeSlice, *ssa.MakeMap, *ssa.MakeChan:
		s = "make"
	case *ssa.Alloc:
		s = "new"
	case *ssa.FreeVar:
		s = "freevar:" + v.Name()
	case *ssa.BinOp:
		s = "binop:" + v.Op.String()
	default:
		s = fmt.Sprintf("%T", l.Val)
	}
	return s + strings.Join(l.Via, "")
}

// LeafSet renders a sorted, de-duplicated description of leaves.
func LeafSet(ls []Leaf) string {
	m := map[string]bool{}
	for _, l := range ls {
		m[l.Desc()] = true
	}
	var out []string
	for k := range m {
		out = append(out, k)
	}
	sort.Strings(out)
	return "{" + strings.Join(out, " | ") + "}"
}

// Slicer computes backward provenance slices.
type Slicer struct {
	P *Prog
	// CallDepth: how many levels of callers a Parameter is followed into (0 = stop at
	// parameters).
	CallDepth int
	// StopParam: when set and it returns true the parameter is kept as a leaf.
	StopParam func(*ssa.Parameter) bool
	// Through: calls whose result is treated as derived from the given argument
	// indexes (pure wrappers such as utils.IdPtr); receiver is index -1.
	Through func(c *ssa.Call) []int
	// Arith: follow both operands of arithmetic BinOps instead of stopping at them.
	Arith bool
	// Root: the function whose body (with its private helpers) the rule is about;
	// parameters of those helpers are followed to the arguments of their call sites.
	Root *ssa.Function

	// Shared: also go through small helpers that several functions use (context-
	// sensitively: their parameters are the arguments of the call being followed).
	Shared bool

	entered map[*ssa.Function]bool
	bind    map[*ssa.Parameter]ssa.Value // parameters of a small shared helper, while the slice is inside it
}

// sharedHelper: a call of a small helper of the repository that several functions use
// (valueOr(field, def), commandFace(params, inFace)): the slice goes through its returns
// with its parameters bound to the arguments of THIS call.
func (s *Slicer) sharedHelper(cl *ssa.Call, idx int, via []string, depth int, out *[]Leaf, n int) bool {
	cal := cl.Call.StaticCallee()
	if !s.Shared || cal == nil || cal.Blocks == nil || !helperOK(cal) || cal == cl.Parent() || len(cal.Params) != len(cl.Call.Args) || n > 40 {
		return false
	}
	cnt := 0
	Instrs(cal, func(ssa.Instruction) { cnt++ })
	if cnt > 40 {
		return false
	}
	if s.bind == nil {
		s.bind = map[*ssa.Parameter]ssa.Value{}
	}
	var bound []*ssa.Parameter
	for i, p := range cal.Params {
		if _, dup := s.bind[p]; dup {
			return false // recursive use
		}
		s.bind[p] = cl.Call.Args[i]
		bound = append(bound, p)
	}
	nRet := 0
	seenH := map[string]bool{}
	Instrs(cal, func(in ssa.Instruction) {
		if r, ok := in.(*ssa.Return); ok && idx < len(r.Results) && in.Block() != cal.Recover {
			nRet++
			s.walk(r.Results[idx], via, depth, seenH, out, n+1)
		}
	})
	for _, p := range bound {
		delete(s.bind, p)
	}
	return nRet > 0
}

func (s *Slicer) enter(f *ssa.Function) {
	if s.entered == nil {
		s.entered = map[*ssa.Function]bool{}
	}
	s.entered[f] = true
}

// Leaves returns the origins of v.
func (s *Slicer) Leaves(v ssa.Value) []Leaf {
	if s.Root != nil {
		defer WithRoot(s.Root)()
	}
	var out []Leaf
	seen := map[string]bool{}
	s.walk(v, nil, s.CallDepth, seen, &out, 0)
	return out
}

func viaKey(v ssa.Value, via []string) string {
	return fmt.Sprintf("%p|%s", v, strings.Join(via, ""))
}

func prepend(via []string, a string) []string {
	return append([]string{a}, via...)
}

func (s *Slicer) walk(v ssa.Value, via []string, depth int, seen map[string]bool, out *[]Leaf, n int) {
	if v == nil {
		return
	}
	if n > 60 {
		*out = append(*out, Leaf{Kind: "other", Val: v, Via: append([]string{"<bound>"}, via...)})
		return
	}
	k := viaKey(v, via)
	if seen[k] {
		return
	}
	seen[k] = true
	leaf := func(kind string) {
		fn := (*ssa.Function)(nil)
		if in, ok := v.(ssa.Instruction); ok {
			fn = in.Parent()
		}
		*out = append(*out, Leaf{Kind: kind, Val: v, Via: append([]string{}, via...), Fn: fn})
	}
	switch x := v.(type) {
	case *ssa.Phi:
		for _, e := range x.Edges {
			s.walk(e, via, depth, seen, out, n+1)
		}
	case *ssa.ChangeType:
		s.walk(x.X, via, depth, seen, out, n+1)
	case *ssa.Convert:
		s.walk(x.X, via, depth, seen, out, n+1)
	case *ssa.MakeInterface:
		s.walk(x.X, via, depth, seen, out, n+1)
	case *ssa.ChangeInterface:
		s.walk(x.X, via, depth, seen, out, n+1)
	case *ssa.TypeAssert:
		s.walk(x.X, via, depth, seen, out, n+1)
	case *ssa.Slice:
		if al, ok := x.X.(*ssa.Alloc); ok {
			// a slice of a local array (varargs): its elements are what was stored
			rest := via
			if len(rest) > 0 && rest[0] == "[]" {
				rest = rest[1:]
			}
			found := false
			for _, r := range Refs(al) {
				if ia, ok := r.(*ssa.IndexAddr); ok {
					for _, r2 := range Refs(ia) {
						if st, ok := r2.(*ssa.Store); ok && st.Addr == ia {
							found = true
							s.walk(st.Val, rest, depth, seen, out, n+1)
						}
					}
				}
			}
			if found {
				return
			}
		}
		s.walk(x.X, via, depth, seen, out, n+1)
	case *ssa.UnOp:
		if x.Op != token.MUL {
			leaf("other")
			return
		}
		switch a := x.X.(type) {
		case *ssa.FieldAddr:
			_, f := FieldAddrName(a)
			if al, ok := a.X.(*ssa.Alloc); ok {
				// local struct: follow stores into the same field
				found := false
				for _, r := range Refs(al) {
					if fa2, ok := r.(*ssa.FieldAddr); ok && fa2.Field == a.Field {
						for _, r2 := range Refs(fa2) {
							if st, ok := r2.(*ssa.Store); ok && st.Addr == fa2 {
								found = true
								s.walk(st.Val, via, depth, seen, out, n+1)
							}
						}
					}
				}
				if found {
					return
				}
			}
			s.walk(a.X, prepend(via, "."+f), depth, seen, out, n+1)
		case *ssa.IndexAddr:
			s.walk(a.X, prepend(via, "[]"), depth, seen, out, n+1)
		case *ssa.Alloc:
			// address-taken local: union of stored values
			found := false
			for _, r := range Refs(a) {
				if st, ok := r.(*ssa.Store); ok && st.Addr == a {
					found = true
					s.walk(st.Val, via, depth, seen, out, n+1)
				}
			}
			if !found {
				leaf("other")
			}
		case *ssa.Global:
			*out = append(*out, Leaf{Kind: "global", Val: a, Via: append([]string{}, via...)})
		case *ssa.FreeVar:
			s.walkFreeVar(a, via, depth, seen, out, n, true)
		default:
			s.walk(x.X, prepend(via, "*"), depth, seen, out, n+1)
		}
	case *ssa.Field:
		name := fmt.Sprintf("#%d", x.Field)
		if st, ok := x.X.Type().Underlying().(*types.Struct); ok {
			name = canonField(st, x.Field)
		}
		s.walk(x.X, prepend(via, "."+name), depth, seen, out, n+1)
	case *ssa.Index:
		s.walk(x.X, prepend(via, "[]"), depth, seen, out, n+1)
	case *ssa.Lookup:
		if !s.localMap(x.X, "val", via, depth, seen, out, n) {
			s.walk(x.X, prepend(via, "val"), depth, seen, out, n+1)
		}
	case *ssa.Extract:
		switch t := x.Tuple.(type) {
		case *ssa.Next:
			rng, ok := t.Iter.(*ssa.Range)
			if !ok {
				leaf("other")
				return
			}
			what := "key"
			if x.Index == 2 {
				what = "val"
			}
			if !s.localMap(rng.X, what, via, depth, seen, out, n) {
				s.walk(rng.X, prepend(via, what), depth, seen, out, n+1)
			}
		case *ssa.Lookup: // v, ok := m[k]
			if x.Index == 0 {
				if !s.localMap(t.X, "val", via, depth, seen, out, n) {
					s.walk(t.X, prepend(via, "val"), depth, seen, out, n+1)
				}
			} else {
				leaf("other")
			}
		case *ssa.TypeAssert:
			s.walk(t.X, via, depth, seen, out, n+1)
		case *ssa.Call:
			if cal := t.Call.StaticCallee(); cal != nil && privateCallSite(cal) == ssa.CallInstruction(t) {
				nRet := 0
				s.enter(cal)
				Instrs(cal, func(in ssa.Instruction) {
					if r, ok := in.(*ssa.Return); ok && x.Index < len(r.Results) && in.Block() != cal.Recover {
						nRet++
						s.walk(r.Results[x.Index], via, depth, seen, out, n+1)
					}
				})
				if nRet > 0 {
					return
				}
			}
			if s.sharedHelper(t, x.Index, via, depth, out, n) {
				return
			}
			s.walk(x.Tuple, prepend(via, fmt.Sprintf("#%d", x.Index)), depth, seen, out, n+1)
		default:
			s.walk(x.Tuple, prepend(via, fmt.Sprintf("#%d", x.Index)), depth, seen, out, n+1)
		}
	case *ssa.Call:
		if b, ok := x.Call.Value.(*ssa.Builtin); ok {
			switch b.Name() {
			case "append":
				for _, a := range x.Call.Args {
					s.walk(a, via, depth, seen, out, n+1)
				}
				return
			}
		}
		// slices.Clone / bytes.Clone: a fresh slice holding the argument's elements
		if _, ok := IsCall(x, CalleeID{Pkg: "slices", Name: "Clone"}, CalleeID{Pkg: "bytes", Name: "Clone"}); ok && len(x.Call.Args) == 1 {
			*out = append(*out, Leaf{Kind: "make", Val: x, Via: append([]string{}, via...)})
			s.walk(x.Call.Args[0], via, depth, seen, out, n+1)
			return
		}
		if s.Through != nil {
			if idx := s.Through(x); idx != nil {
				for _, i := range idx {
					if i == -1 {
						r, _ := CallArgs(&x.Call)
						s.walk(r, via, depth, seen, out, n+1)
					} else if i < len(x.Call.Args) {
						s.walk(x.Call.Args[i], via, depth, seen, out, n+1)
					}
				}
				return
			}
		}
		// a private helper of the enclosing function: its results are what it returns
		if cal := x.Call.StaticCallee(); cal != nil && privateCallSite(cal) == ssa.CallInstruction(x) && cal.Signature.Results().Len() == 1 {
			nRet := 0
			s.enter(cal)
			Instrs(cal, func(in ssa.Instruction) {
				if r, ok := in.(*ssa.Return); ok && len(r.Results) == 1 && in.Block() != cal.Recover {
					nRet++
					s.walk(r.Results[0], via, depth, seen, out, n+1)
				}
			})
			if nRet > 0 {
				return
			}
		}
		if x.Call.Signature().Results().Len() == 1 && s.sharedHelper(x, 0, via, depth, out, n) {
			return
		}
		leaf("call")
	case *ssa.Parameter:
		if a, ok := s.bind[x]; ok {
			s.walk(a, via, depth, seen, out, n+1)
			return
		}
		// the parameter of a private helper is the argument of its call site — when the
		// slice entered the helper through that call, or when the helper belongs to the
		// body of the rule's root function (Root)
		if cs := privateCallSite(x.Parent()); cs != nil && (s.StopParam == nil || !s.StopParam(x)) {
			up := s.entered[x.Parent()]
			if !up && s.Root != nil && x.Parent() != s.Root && inSet(Reach(s.Root), x.Parent()) {
				up = true
			}
			if up {
				for i, p := range x.Parent().Params {
					if p == x && i < len(cs.Common().Args) {
						s.walk(cs.Common().Args[i], via, depth, seen, out, n+1)
						return
					}
				}
			}
		}
		if depth > 0 && (s.StopParam == nil || !s.StopParam(x)) {
			fn := x.Parent()
			idx := -1
			for i, p := range fn.Params {
				if p == x {
					idx = i
				}
			}
			callers := s.P.Callers(fn)
			if idx >= 0 && len(callers) > 0 {
				for _, ci := range callers {
					c := ci.Common()
					var arg ssa.Value
					if c.IsInvoke() {
						if idx == 0 {
							arg = c.Value
						} else if idx-1 < len(c.Args) {
							arg = c.Args[idx-1]
						}
					} else if idx < len(c.Args) {
						arg = c.Args[idx]
					}
					if arg != nil {
						s.walk(arg, via, depth-1, seen, out, n+1)
					}
				}
				return
			}
		}
		*out = append(*out, Leaf{Kind: "param", Val: x, Via: append([]string{}, via...), Fn: x.Parent()})
	case *ssa.FreeVar:
		s.walkFreeVar(x, via, depth, seen, out, n, false)
	case *ssa.Alloc:
		// value is an address of a local (e.g. &T{...} or a varargs array): elements /
		// fields are reached through the loads above; here the pointer itself is asked for.
		if len(via) > 0 && via[0] == "[]" {
			// elements stored into the array
			found := false
			for _, r := range Refs(x) {
				if ia, ok := r.(*ssa.IndexAddr); ok {
					for _, r2 := range Refs(ia) {
						if st, ok := r2.(*ssa.Store); ok && st.Addr == ia {
							found = true
							s.walk(st.Val, via[1:], depth, seen, out, n+1)
						}
					}
				}
			}
			if found {
				return
			}
		}
		if len(via) > 0 && strings.HasPrefix(via[0], ".") {
			found := false
			for _, r := range Refs(x) {
				if fa, ok := r.(*ssa.FieldAddr); ok {
					if _, f := FieldAddrName(fa); "."+f == via[0] {
						for _, r2 := range Refs(fa) {
							if st, ok := r2.(*ssa.Store); ok && st.Addr == fa {
								found = true
								s.walk(st.Val, via[1:], depth, seen, out, n+1)
							}
						}
					}
				}
			}
			if found {
				return
			}
		}
		leaf("alloc")
	case *ssa.MakeSlice:
		// contents may be filled by copy(dst, src)
		s.copiesInto(x, via, depth, seen, out, n)
		leaf("make")
	case *ssa.MakeMap, *ssa.MakeChan:
		leaf("make")
	case *ssa.Const:
		leaf("const")
	case *ssa.Global:
		leaf("global")
	case *ssa.BinOp:
		if s.Arith {
			s.walk(x.X, via, depth, seen, out, n+1)
			s.walk(x.Y, via, depth, seen, out, n+1)
			return
		}
		leaf("binop")
	default:
		leaf("other")
	}
}

func (s *Slicer) walkFreeVar(fv *ssa.FreeVar, via []string, depth int, seen map[string]bool, out *[]Leaf, n int, loaded bool) {
	fn := fv.Parent()
	idx := -1
	for i, f := range fn.FreeVars {
		if f == fv {
			idx = i
		}
	}
	par := fn.Parent()
	if par == nil || idx < 0 {
		*out = append(*out, Leaf{Kind: "freevar", Val: fv, Via: append([]string{}, via...)})
		return
	}
	found := false
	Instrs(par, func(in ssa.Instruction) {
		mc, ok := in.(*ssa.MakeClosure)
		if !ok || mc.Fn != fn || idx >= len(mc.Bindings) {
			return
		}
		b := mc.Bindings[idx]
		found = true
		if loaded {
			// the free variable is the address of a captured local: union of its stores
			if al, ok := b.(*ssa.Alloc); ok {
				for _, r := range Refs(al) {
					if st, ok := r.(*ssa.Store); ok && st.Addr == al {
						s.walk(st.Val, via, depth, seen, out, n+1)
					}
				}
				return
			}
			s.walk(b, prepend(via, "*"), depth, seen, out, n+1)
			return
		}
		s.walk(b, via, depth, seen, out, n+1)
	})
	if !found {
		*out = append(*out, Leaf{Kind: "freevar", Val: fv, Via: append([]string{}, via...)})
	}
}

// localMap: when m is a map created in the function group (MakeMap) — directly, or read
// back from a local slice it was appended to — the keys/values read from it are those
// inserted by MapUpdate instructions on it, in this function or in a helper it is passed to.
func (s *Slicer) localMap(m ssa.Value, what string, via []string, depth int, seen map[string]bool, out *[]Leaf, n int) bool {
	mms := mapOrigins(m, 0)
	if len(mms) == 0 {
		return false
	}
	found := false
	for _, mm := range mms {
		for _, mu := range mapUpdates(mm, 0) {
			found = true
			if what == "key" {
				s.walk(mu.Key, via, depth, seen, out, n+1)
			} else {
				s.walk(mu.Value, via, depth, seen, out, n+1)
			}
		}
	}
	return found
}

// mapOrigins: the MakeMap instructions m may denote; nil when some origin is not one.
func mapOrigins(m ssa.Value, d int) []*ssa.MakeMap {
	if d > 4 {
		return nil
	}
	m = Resolve(m) // also a map built and returned by a private helper, or handed in as a parameter
	switch x := m.(type) {
	case *ssa.MakeMap:
		return []*ssa.MakeMap{x}
	case *ssa.Phi:
		var out []*ssa.MakeMap
		for _, e := range x.Edges {
			o := mapOrigins(e, d+1)
			if o == nil {
				return nil
			}
			out = append(out, o...)
		}
		return out
	case *ssa.UnOp:
		// an element of a local slice: the values appended to that slice
		if x.Op != token.MUL {
			return nil
		}
		ia, ok := x.X.(*ssa.IndexAddr)
		if !ok {
			return nil
		}
		var out []*ssa.MakeMap
		for _, v := range appendedTo(ia.X, 0, map[ssa.Value]bool{}) {
			if v == nil {
				return nil
			}
			o := mapOrigins(v, d+1)
			if o == nil {
				return nil
			}
			out = append(out, o...)
		}
		return out
	}
	return nil
}

// appendedTo: the element values a local slice can hold: those appended to it (a nil
// entry marks an origin that is not understood).
func appendedTo(sl ssa.Value, d int, seen map[ssa.Value]bool) []ssa.Value {
	sl = Strip(sl)
	if seen[sl] || d > 6 {
		return nil
	}
	seen[sl] = true
	switch x := sl.(type) {
	case *ssa.MakeSlice:
		return nil
	case *ssa.Const:
		return nil
	case *ssa.Phi:
		var out []ssa.Value
		for _, e := range x.Edges {
			out = append(out, appendedTo(e, d+1, seen)...)
		}
		return out
	case *ssa.Slice:
		return appendedTo(x.X, d+1, seen)
	case *ssa.Call:
		b, ok := x.Call.Value.(*ssa.Builtin)
		if !ok || b.Name() != "append" || len(x.Call.Args) != 2 {
			return []ssa.Value{nil}
		}
		out := appendedTo(x.Call.Args[0], d+1, seen)
		// the variadic argument: new [k]T{…}[:]
		va, ok := Strip(x.Call.Args[1]).(*ssa.Slice)
		if !ok {
			return append(out, nil)
		}
		al, ok := va.X.(*ssa.Alloc)
		if !ok {
			return append(out, nil)
		}
		for _, r := range Refs(al) {
			ia, ok := r.(*ssa.IndexAddr)
			if !ok {
				continue
			}
			for _, r2 := range Refs(ia) {
				if st, ok := r2.(*ssa.Store); ok && st.Addr == ssa.Value(ia) {
					out = append(out, st.Val)
				}
			}
		}
		return out
	}
	return []ssa.Value{nil}
}

// mapUpdates: the MapUpdate instructions on map mm: direct ones, and those a helper
// performs on the parameter the map is passed as.
func mapUpdates(mm ssa.Value, d int) []*ssa.MapUpdate {
	var out []*ssa.MapUpdate
	if d > 2 {
		return nil
	}
	for _, r := range Refs(mm) {
		switch x := r.(type) {
		case *ssa.MapUpdate:
			if x.Map == mm {
				out = append(out, x)
			}
		case *ssa.Call:
			cal := x.Call.StaticCallee()
			if cal == nil || cal.Blocks == nil || len(cal.Params) != len(x.Call.Args) {
				continue
			}
			for i, a := range x.Call.Args {
				if a == mm {
					out = append(out, mapUpdates(cal.Params[i], d+1)...)
				}
			}
		}
	}
	return out
}

// copiesInto adds the sources of copy(dst, src) calls whose dst is the made slice,
// either directly or read back from a local map it was stored in.
func (s *Slicer) copiesInto(ms *ssa.MakeSlice, via []string, depth int, seen map[string]bool, out *[]Leaf, n int) {
	fn := ms.Parent()
	// maps (and keys) the slice was stored under
	var maps []ssa.Value
	for _, r := range Refs(ms) {
		if mu, ok := r.(*ssa.MapUpdate); ok && mu.Value == ms {
			maps = append(maps, mu.Map)
		}
	}
	Instrs(fn, func(in ssa.Instruction) {
		c, ok := in.(*ssa.Call)
		if !ok {
			return
		}
		b, ok := c.Call.Value.(*ssa.Builtin)
		if !ok || b.Name() != "copy" || len(c.Call.Args) != 2 {
			return
		}
		dst := Strip(c.Call.Args[0])
		hit := dst == ms
		if lk, ok := dst.(*ssa.Lookup); ok {
			for _, m := range maps {
				if lk.X == m {
					hit = true
				}
			}
		}
		if hit {
			s.walk(c.Call.Args[1], via, depth, seen, out, n+1)
		}
	})
}

// MapOrigins / MapUpdates expose the container provenance used by the Slicer.
func MapOrigins(m ssa.Value) []*ssa.MakeMap    { return mapOrigins(m, 0) }
func MapUpdates(mm ssa.Value) []*ssa.MapUpdate { return mapUpdates(mm, 0) }
