package core

import (
	"encoding/json"
	"fmt"
	"os"
	"path/filepath"
	"sort"
	"strings"
	"time"

	"golang.org/x/tools/go/ssa"
)

// Status of an obligation.
type Status string

const (
	OK        Status = "ok"
	Violation Status = "violation"
	Undecided Status = "undecided"
)

// Obligation is one decided rule instance.
type Obligation struct {
	Rule   string `json:"rule"`
	Key    string `json:"key"` // rule + construct, never a line number
	Pos    string `json:"pos"`
	Status Status `json:"status"`
	Detail string `json:"detail"`
}

// Ctx is handed to each property's rule table.
type Ctx struct {
	P        *Prog
	Prop     string
	Tier     string
	Obls     []Obligation
	Funcs    map[string]bool // functions analysed
	Sites    int             // call sites / instructions inspected
	Assume   []string
	Explain  string
	RuleText string
	Extra    map[string]any
}

func NewCtx(p *Prog, prop, tier string) *Ctx {
	return &Ctx{P: p, Prop: prop, Tier: tier, Funcs: map[string]bool{}, Extra: map[string]any{}}
}

func (c *Ctx) add(rule, key, pos string, st Status, detail string) {
	c.Obls = append(c.Obls, Obligation{rule, rule + ":" + key, pos, st, detail})
}

func (c *Ctx) Ok(rule, key, pos, detail string)   { c.add(rule, key, pos, OK, detail) }
func (c *Ctx) Viol(rule, key, pos, detail string) { c.add(rule, key, pos, Violation, detail) }
func (c *Ctx) Und(rule, key, pos, detail string)  { c.add(rule, key, pos, Undecided, detail) }

// Decide records ok or violation.
func (c *Ctx) Decide(ok bool, rule, key, pos, okDetail, badDetail string) {
	if ok {
		c.Ok(rule, key, pos, okDetail)
	} else {
		c.Viol(rule, key, pos, badDetail)
	}
}

// Floor fails the rule when fewer instances than confirmed by hand were matched.
func (c *Ctx) Floor(rule, what string, got, min int) {
	if got < min {
		c.Und(rule, "floor:"+what, "-", fmt.Sprintf("matched %d %s, floor is %d: the rule has gone blind (anchor moved or renamed)", got, what, min))
	} else {
		c.Ok(rule, "floor:"+what, "-", fmt.Sprintf("matched %d %s (floor %d)", got, what, min))
	}
}

// Import runs the rule table of another property on the same program and takes over,
// under rule id `rule`, the obligations whose key satisfies match: one structural
// condition can be necessary for two properties (e.g. "pruning unlinks only empty nodes"
// for state reclamation and for lookup correctness), and each property reports it itself.
// At least `floor` obligations must be taken over.
// importDepth > 0 while a rule table runs on behalf of another property.
var importDepth int

func (c *Ctx) Import(other func(*Ctx), rule, why string, floor int, match func(key string) bool) {
	if importDepth > 0 {
		// a table that is itself being run for another property's Import does not run its
		// own imports (two tables may import from each other; only a table's own
		// obligations are ever taken over)
		return
	}
	importDepth++
	sub := NewCtx(c.P, c.Prop, c.Tier)
	func() {
		defer func() { importDepth-- }()
		other(sub)
	}()
	n := 0
	for _, o := range sub.Obls {
		if !match(o.Key) {
			continue
		}
		n++
		d := o.Detail
		if o.Status != OK {
			d = why + ": " + d
		}
		c.add(rule, "shared:"+o.Key, o.Pos, o.Status, d)
	}
	for f := range sub.Funcs {
		_ = f
	}
	c.Floor(rule, "obligations shared with another property's rule table", n, floor)
}

// Fn resolves a function and fails the rule when it is missing.
func (c *Ctx) Fn(rule, pkg, recv, name string) *ssa.Function {
	f := c.P.Func(pkg, recv, name)
	if f == nil || f.Blocks == nil {
		c.Und(rule, "anchor:"+CalleeID{pkg, recv, name}.String(), "-", "anchor function not found in the current tree")
		return nil
	}
	c.Funcs[FuncName(f)] = true
	return f
}

// Pos of an instruction (falls back to the first positioned instruction of its block,
// then to the function).
func (c *Ctx) Pos(in ssa.Instruction) string {
	if in == nil {
		return "?"
	}
	if in.Pos().IsValid() {
		return c.P.Pos(in.Pos())
	}
	if v, ok := in.(ssa.CallInstruction); ok && v.Common().Pos().IsValid() {
		return c.P.Pos(v.Common().Pos())
	}
	if b := in.Block(); b != nil {
		for _, x := range b.Instrs {
			if x.Pos().IsValid() {
				return c.P.Pos(x.Pos())
			}
		}
	}
	if in.Parent() != nil {
		return c.P.Pos(in.Parent().Pos())
	}
	return "?"
}

// -------------------------------------------------------------------------------------

// KnownFinding is an entry of /verif/known_findings.json.
type KnownFinding struct {
	Property string `json:"property"`
	Key      string `json:"key"`
	What     string `json:"what"`
}

type KnownFile struct {
	Findings []KnownFinding `json:"findings"`
	Fixed    []string       `json:"fixed"`
}

func LoadKnown(path string) (*KnownFile, error) {
	b, err := os.ReadFile(path)
	if err != nil {
		if os.IsNotExist(err) {
			return &KnownFile{}, nil
		}
		return nil, err
	}
	var k KnownFile
	if err := json.Unmarshal(b, &k); err != nil {
		return nil, err
	}
	return &k, nil
}

// Finish prints KNOWN-FINDING / VIOLATION lines, writes evidence and replay files and
// returns the process exit code.
// PrintBad prints the obligations that are neither discharged nor listed known findings in
// the format of Finish and returns their number; it writes nothing (sweep mode).
func (c *Ctx) PrintBad(known *KnownFile) int {
	knownSet := map[string]bool{}
	for _, k := range known.Findings {
		if k.Property == c.Prop {
			knownSet[k.Key] = true
		}
	}
	n := 0
	for _, o := range c.Obls {
		if o.Status == OK || (o.Status == Violation && knownSet[o.Key]) {
			continue
		}
		n++
		fmt.Printf("%s: %s %s at %s: %s\n", strings.ToUpper(string(o.Status)), c.Prop, o.Key, o.Pos, oneLine(o.Detail))
	}
	return n
}

func (c *Ctx) Finish(verifDir string, known *KnownFile, start time.Time, seed int64) int {
	evDir := filepath.Join(verifDir, "evidence")
	os.MkdirAll(evDir, 0o755)
	violDir := filepath.Join(evDir, c.Prop+".violations")
	os.RemoveAll(violDir)

	knownSet := map[string]KnownFinding{}
	for _, k := range known.Findings {
		if k.Property == c.Prop {
			knownSet[k.Key] = k
		}
	}
	nOK, nViol, nUnd, nKnown := 0, 0, 0, 0
	distinct := map[string]bool{}
	ruleSet := map[string]int{}
	var bad []Obligation
	var knownHit []Obligation
	for _, o := range c.Obls {
		ruleSet[o.Rule]++
		if !strings.Contains(o.Key, ":floor:") {
			distinct[o.Key] = true
		}
		switch o.Status {
		case OK:
			nOK++
		case Violation:
			if _, ok := knownSet[o.Key]; ok {
				nKnown++
				knownHit = append(knownHit, o)
			} else {
				nViol++
				bad = append(bad, o)
			}
		case Undecided:
			nUnd++
			bad = append(bad, o)
		}
	}
	seenKnown := map[string]bool{}
	for _, o := range knownHit {
		if seenKnown[o.Key] {
			continue
		}
		seenKnown[o.Key] = true
		fmt.Printf("KNOWN-FINDING: property=%s %s [%s at %s] %s\n", c.Prop, knownSet[o.Key].What, o.Key, o.Pos, oneLine(o.Detail))
	}
	if len(bad) > 0 {
		os.MkdirAll(violDir, 0o755)
	}
	for i, o := range bad {
		path := filepath.Join(violDir, fmt.Sprintf("%d.json", i+1))
		b, _ := json.MarshalIndent(map[string]any{
			"property": c.Prop, "rule": o.Rule, "key": o.Key, "pos": o.Pos, "status": o.Status, "detail": o.Detail,
			"replay": fmt.Sprintf("cd /verif && ./check %s quick   # re-analyses /repo; this obligation is %q", c.Prop, o.Key),
		}, "", " ")
		os.WriteFile(path, b, 0o644)
		fmt.Printf("%s: %s %s at %s: %s\n", strings.ToUpper(string(o.Status)), c.Prop, o.Key, o.Pos, oneLine(o.Detail))
		fmt.Printf("VIOLATION property=%s replay=%s\n", c.Prop, path)
	}

	// samples: a handful of real obligations, preferring variety of rules
	var samples []any
	perRule := map[string]int{}
	for _, o := range c.Obls {
		if perRule[o.Rule] >= 2 || len(samples) >= 24 {
			continue
		}
		perRule[o.Rule]++
		samples = append(samples, map[string]string{"rule": o.Rule, "key": o.Key, "pos": o.Pos, "status": string(o.Status), "detail": oneLine(o.Detail)})
	}
	var rules []string
	for r, n := range ruleSet {
		rules = append(rules, fmt.Sprintf("%s×%d", r, n))
	}
	sort.Strings(rules)
	var fns []string
	for f := range c.Funcs {
		fns = append(fns, f)
	}
	sort.Strings(fns)
	cov := map[string]any{
		"explanation":         c.Explain,
		"evaluations":         len(c.Obls),
		"distinct_nontrivial": len(distinct),
		"rule":                c.RuleText,
		"samples":             samples,
		"obligations":         len(c.Obls),
		"discharged":          nOK,
		"known_findings_hit":  nKnown,
		"undecided":           nUnd,
		"rules":               rules,
		"packages_loaded":     len(c.P.All),
		"functions_in_repo":   len(c.P.Funcs()),
		"functions_anchored":  fns,
		"sites_inspected":     c.Sites,
		"exhaustive":          false,
	}
	for k, v := range c.Extra {
		cov[k] = v
	}
	// the claim as registered in MANIFEST.json (it lists the rules added after the first
	// version of the explanation above was written)
	if b, err := os.ReadFile(filepath.Join(verifDir, "tools", "claims.json")); err == nil {
		var claims map[string]map[string]string
		if json.Unmarshal(b, &claims) == nil {
			if cl, ok := claims[c.Prop]; ok && cl["text"] != "" {
				cov["claim_as_registered"] = cl["text"]
			}
		}
	}
	ev := map[string]any{
		"property_id": c.Prop,
		"tier":        c.Tier,
		"seed":        seed,
		"level":       "other",
		"coverage":    cov,
		"assumptions": append([]string{
			"static analysis of /repo's current working tree (go/packages + go/types + go/ssa, default build configuration linux/amd64); no code of /repo is executed",
			"what is decided is a structural necessary condition of the property (see coverage.explanation), not the behaviour itself",
		}, c.Assume...),
		"wall_s":     time.Since(start).Seconds(),
		"violations": nViol + nUnd,
	}
	b, _ := json.MarshalIndent(ev, "", " ")
	os.WriteFile(filepath.Join(evDir, c.Prop+".json"), b, 0o644)
	fmt.Printf("%s %s: %d obligations, %d ok, %d known findings, %d violations, %d undecided (%.1fs)\n",
		c.Prop, c.Tier, len(c.Obls), nOK, nKnown, nViol, nUnd, time.Since(start).Seconds())
	if len(bad) > 0 {
		return 1
	}
	return 0
}

func oneLine(s string) string {
	s = strings.ReplaceAll(s, "\n", " ")
	if len(s) > 400 {
		s = s[:400] + "…"
	}
	return s
}
