package core

import (
	"go/constant"
	"go/token"
	"go/types"
	"strings"

	"golang.org/x/tools/go/ssa"
)

// CalleeID identifies what a call targets: package path (module-relative for repo
// packages), receiver type name ("" for functions) and name. Static calls resolve
// through StaticCallee, interface invokes through the method object. Dynamic calls of
// closures give ok=false.
type CalleeID struct{ Pkg, Recv, Name string }

func (c CalleeID) String() string {
	if c.Recv != "" {
		return c.Pkg + "." + c.Recv + "." + c.Name
	}
	return c.Pkg + "." + c.Name
}

// renamedTo: the name under which an unexported anchor function was found again after a
// rename (see Prog.relocate); "" when it was not renamed.
func renamedTo(w CalleeID) string {
	if Current == nil || len(Current.RenamedName) == 0 {
		return ""
	}
	if n, ok := Current.RenamedName[w.Pkg+"|"+w.Name]; ok {
		return n
	}
	return ""
}

func relPkg(path string) string { return strings.TrimPrefix(path, ModPath+"/") }

// NamedName: the name of a (pointer to a) named type, "" otherwise.
func NamedName(t types.Type) string { return namedName(t) }

func namedName(t types.Type) string {
	t = deref(t)
	switch n := t.(type) {
	case *types.Named:
		return n.Obj().Name()
	case *types.Alias:
		return n.Obj().Name()
	}
	return ""
}

// Callee returns the identity of the call target.
func Callee(c *ssa.CallCommon) (CalleeID, bool) {
	if c.IsInvoke() {
		m := c.Method
		pkg := ""
		if m.Pkg() != nil {
			pkg = relPkg(m.Pkg().Path())
		}
		return CalleeID{pkg, namedName(c.Value.Type()), m.Name()}, true
	}
	if b, ok := c.Value.(*ssa.Builtin); ok {
		return CalleeID{"builtin", "", b.Name()}, true
	}
	f := c.StaticCallee()
	if f == nil {
		return CalleeID{}, false
	}
	return FuncID(f), true
}

// FuncID is the CalleeID of a function.
func FuncID(f *ssa.Function) CalleeID {
	if f.Origin() != nil {
		f = f.Origin()
	}
	f = Logical(f)
	pkg := ""
	if f.Pkg != nil {
		pkg = relPkg(f.Pkg.Pkg.Path())
	} else if o := f.Object(); o != nil && o.Pkg() != nil {
		pkg = relPkg(o.Pkg().Path())
	}
	recv := ""
	if r := f.Signature.Recv(); r != nil {
		recv = namedName(r.Type())
	}
	return CalleeID{pkg, recv, f.Name()}
}

// IsCall reports whether instruction in is a call (Call/Go/Defer) to one of ids. A
// CalleeID with Recv "*" matches any receiver.
func IsCall(in ssa.Instruction, ids ...CalleeID) (*ssa.CallCommon, bool) {
	ci, ok := in.(ssa.CallInstruction)
	if !ok {
		return nil, false
	}
	c := ci.Common()
	id, ok := Callee(c)
	if !ok {
		return nil, false
	}
	if Current != nil && Current.Lookups != nil {
		for _, w := range ids {
			if w.Name != "" && w.Name[0] >= 'a' && w.Name[0] <= 'z' && w.Pkg != "*" && !strings.Contains(w.Pkg, ".") && strings.Contains(w.Pkg, "/") {
				Current.Lookups[w.Pkg+"|"+strings.TrimPrefix(w.Recv, "*")+"|"+w.Name] = true
			}
		}
	}
	for _, w := range ids {
		if (w.Name == id.Name || renamedTo(w) == id.Name) && (w.Pkg == id.Pkg || w.Pkg == "*") && (w.Recv == id.Recv || w.Recv == "*") {
			return c, true
		}
	}
	return nil, false
}

// CallArgs returns the receiver (nil for plain functions) and the ordinary arguments.
func CallArgs(c *ssa.CallCommon) (recv ssa.Value, args []ssa.Value) {
	if c.IsInvoke() {
		return c.Value, c.Args
	}
	if f := c.StaticCallee(); f != nil && f.Signature.Recv() != nil && len(c.Args) > 0 {
		return c.Args[0], c.Args[1:]
	}
	return nil, c.Args
}

// Instrs calls f for every instruction of fn (not of its closures).
func Instrs(fn *ssa.Function, f func(ssa.Instruction)) {
	for _, b := range fn.Blocks {
		for _, in := range b.Instrs {
			f(in)
		}
	}
}

// WithClosures returns fn and, transitively, its anonymous functions.
func WithClosures(fn *ssa.Function) []*ssa.Function {
	out := []*ssa.Function{fn}
	for _, a := range fn.AnonFuncs {
		out = append(out, WithClosures(a)...)
	}
	return out
}

// FindCalls returns the call instructions in fn targeting one of ids.
func FindCalls(fn *ssa.Function, ids ...CalleeID) []ssa.CallInstruction {
	var out []ssa.CallInstruction
	Instrs(fn, func(in ssa.Instruction) {
		if _, ok := IsCall(in, ids...); ok {
			out = append(out, in.(ssa.CallInstruction))
		}
	})
	return out
}

// Strip removes value-preserving wrappers.
func Strip(v ssa.Value) ssa.Value {
	for {
		switch x := v.(type) {
		case *ssa.ChangeType:
			v = x.X
		case *ssa.MakeInterface:
			v = x.X
		case *ssa.ChangeInterface:
			v = x.X
		default:
			return v
		}
	}
}

// StripConv additionally removes numeric conversions.
func StripConv(v ssa.Value) ssa.Value {
	for {
		v = Strip(v)
		if c, ok := v.(*ssa.Convert); ok {
			v = c.X
			continue
		}
		return v
	}
}

// Same decides value identity by provenance (go/ssa performs no CSE): identical SSA
// values, or the same pure operation applied to Same operands. Loads of the same
// field of the Same object are identified (intervening stores are ignored: the rules
// use this only for fields that are set once before the analysed region).
func Same(a, b ssa.Value) bool { return same(a, b, 8) }

// cellOrigin: a local cell that is written once, with a whole value loaded from another
// cell (a struct parameter passed by value and spilled: `out` in the helper is a copy of
// the caller's `out`), stands for the cell it was copied from.
func cellOrigin(v ssa.Value) ssa.Value {
	for i := 0; i < 3; i++ {
		al, ok := v.(*ssa.Alloc)
		if !ok {
			return v
		}
		sv, once := StoredOnce(al)
		if !once {
			return v
		}
		sv = Strip(sv)
		if _, isPar := sv.(*ssa.Parameter); isPar {
			sv = Strip(resolveBoundary(sv))
		}
		u, isLoad := sv.(*ssa.UnOp)
		if !isLoad || u.Op != token.MUL {
			return v
		}
		if _, isCell := Strip(u.X).(*ssa.Alloc); !isCell {
			return v
		}
		v = Strip(u.X)
	}
	return v
}

func same(a, b ssa.Value, d int) bool {
	a, b = Strip(a), Strip(b)
	if a == b {
		return true
	}
	if d == 0 || a == nil || b == nil {
		return false
	}
	if _, isCell := a.(*ssa.Alloc); isCell {
		a = cellOrigin(a)
	}
	if _, isCell := b.(*ssa.Alloc); isCell {
		b = cellOrigin(b)
	}
	if a == b {
		return true
	}
	// across the boundary of a private helper: a parameter is the argument of the only
	// call site, a free variable is its binding, a single-return helper is its result
	ra, oka := resolveOnce(a)
	rb, okb := resolveOnce(b)
	if oka || okb {
		if !oka {
			ra = a
		}
		if !okb {
			rb = b
		}
		if same(ra, rb, d-1) {
			return true
		}
	}
	switch x := a.(type) {
	case *ssa.Const:
		y, ok := b.(*ssa.Const)
		if !ok {
			return false
		}
		if x.Value == nil || y.Value == nil {
			return x.Value == nil && y.Value == nil && types.Identical(x.Type(), y.Type())
		}
		return constant.Compare(x.Value, token.EQL, y.Value)
	case *ssa.UnOp:
		y, ok := b.(*ssa.UnOp)
		return ok && x.Op == y.Op && same(x.X, y.X, d-1)
	case *ssa.FieldAddr:
		y, ok := b.(*ssa.FieldAddr)
		return ok && x.Field == y.Field && same(x.X, y.X, d-1)
	case *ssa.Field:
		y, ok := b.(*ssa.Field)
		return ok && x.Field == y.Field && same(x.X, y.X, d-1)
	case *ssa.IndexAddr:
		y, ok := b.(*ssa.IndexAddr)
		return ok && same(x.X, y.X, d-1) && same(x.Index, y.Index, d-1)
	case *ssa.Index:
		y, ok := b.(*ssa.Index)
		return ok && same(x.X, y.X, d-1) && same(x.Index, y.Index, d-1)
	case *ssa.Convert:
		y, ok := b.(*ssa.Convert)
		return ok && types.Identical(x.Type(), y.Type()) && same(x.X, y.X, d-1)
	case *ssa.Call:
		y, ok := b.(*ssa.Call)
		if !ok {
			return false
		}
		ia, oka := Callee(&x.Call)
		ib, okb := Callee(&y.Call)
		if !oka || !okb || ia != ib || len(x.Call.Args) != len(y.Call.Args) {
			return false
		}
		if x.Call.IsInvoke() != y.Call.IsInvoke() {
			return false
		}
		if x.Call.IsInvoke() && !same(x.Call.Value, y.Call.Value, d-1) {
			return false
		}
		for i := range x.Call.Args {
			if !same(x.Call.Args[i], y.Call.Args[i], d-1) {
				return false
			}
		}
		return true
	case *ssa.Extract:
		y, ok := b.(*ssa.Extract)
		return ok && x.Index == y.Index && same(x.Tuple, y.Tuple, d-1)
	case *ssa.BinOp:
		y, ok := b.(*ssa.BinOp)
		return ok && x.Op == y.Op && same(x.X, y.X, d-1) && same(x.Y, y.Y, d-1)
	case *ssa.Lookup:
		y, ok := b.(*ssa.Lookup)
		return ok && x.CommaOk == y.CommaOk && same(x.X, y.X, d-1) && same(x.Index, y.Index, d-1)
	}
	return false
}

// FieldOf: if v is a load (or address) of field fieldName of some struct value, return
// the base object and true. Works through FieldAddr+load and Field.
func FieldOf(v ssa.Value, fieldName string) (ssa.Value, bool) {
	v = resolveBoundary(Strip(v))
	if u, ok := v.(*ssa.UnOp); ok && u.Op == token.MUL {
		v = u.X
	}
	switch x := v.(type) {
	case *ssa.FieldAddr:
		st, ok := deref(x.X.Type()).Underlying().(*types.Struct)
		if ok && canonField(st, x.Field) == fieldName {
			// a local copy of a struct (`last := name[i]`): the field is that of the
			// object copied from
			if al, isAl := x.X.(*ssa.Alloc); isAl {
				if v, once := StoredOnce(al); once {
					if u, isLoad := Strip(v).(*ssa.UnOp); isLoad && u.Op == token.MUL {
						return u.X, true
					}
				}
			}
			return x.X, true
		}
	case *ssa.Field:
		st, ok := x.X.Type().Underlying().(*types.Struct)
		if ok && canonField(st, x.Field) == fieldName {
			return x.X, true
		}
	}
	return nil, false
}

// FieldPath: if v is a load of a chain of fields a.b.c (through pointer loads), return
// the names outermost-last and the root value.
func FieldPath(v ssa.Value) (root ssa.Value, path []string) {
	v = resolveBoundary(Strip(v))
	for {
		v = resolveBoundary(v)
		if u, ok := v.(*ssa.UnOp); ok && u.Op == token.MUL {
			if fa, ok := u.X.(*ssa.FieldAddr); ok {
				st := deref(fa.X.Type()).Underlying().(*types.Struct)
				path = append([]string{canonField(st, fa.Field)}, path...)
				v = Strip(fa.X)
				continue
			}
			return v, path
		}
		if fa, ok := v.(*ssa.FieldAddr); ok {
			st := deref(fa.X.Type()).Underlying().(*types.Struct)
			path = append([]string{canonField(st, fa.Field)}, path...)
			v = Strip(fa.X)
			continue
		}
		if f, ok := v.(*ssa.Field); ok {
			st := f.X.Type().Underlying().(*types.Struct)
			path = append([]string{canonField(st, f.Field)}, path...)
			v = Strip(f.X)
			continue
		}
		return v, path
	}
}

// FieldAddrName returns the struct type name and field name a FieldAddr denotes.
func FieldAddrName(fa *ssa.FieldAddr) (typ, field string) {
	t := deref(fa.X.Type())
	st, ok := t.Underlying().(*types.Struct)
	if !ok {
		return "", ""
	}
	return namedName(t), canonField(st, fa.Field)
}

// ConstInt returns the integer value of a constant value.
func ConstInt(v ssa.Value) (int64, bool) {
	c, ok := StripConv(v).(*ssa.Const)
	if !ok || c.Value == nil {
		return 0, false
	}
	if c.Value.Kind() != constant.Int {
		return 0, false
	}
	i, ok := constant.Int64Val(c.Value)
	if !ok {
		// large unsigned
		u, ok2 := constant.Uint64Val(c.Value)
		return int64(u), ok2
	}
	return i, true
}

// ConstBool returns the boolean value of a constant.
func ConstBool(v ssa.Value) (bool, bool) {
	c, ok := Strip(v).(*ssa.Const)
	if !ok || c.Value == nil || c.Value.Kind() != constant.Bool {
		return false, false
	}
	return constant.BoolVal(c.Value), true
}

// IsNilConst reports whether v is the nil constant.
func IsNilConst(v ssa.Value) bool {
	c, ok := Strip(v).(*ssa.Const)
	return ok && c.Value == nil
}

// IsGlobal reports whether v is a load of (or the address of) the named package global.
func IsGlobal(v ssa.Value, pkg, name string) bool {
	v = Strip(v)
	if u, ok := v.(*ssa.UnOp); ok && u.Op == token.MUL {
		v = u.X
	}
	g, ok := v.(*ssa.Global)
	return ok && g.Name() == name && relPkg(g.Pkg.Pkg.Path()) == pkg
}

// LenOf: if v is len(x) return x.
func LenOf(v ssa.Value) (ssa.Value, bool) {
	c, ok := StripConv(v).(*ssa.Call)
	if !ok {
		return nil, false
	}
	if b, ok := c.Call.Value.(*ssa.Builtin); ok && b.Name() == "len" && len(c.Call.Args) == 1 {
		return c.Call.Args[0], true
	}
	return nil, false
}

// Cmp decomposes a comparison value (after stripping NOT) into op, x, y with the
// polarity applied (neg=true means the value is the negation of x op y).
func Cmp(v ssa.Value) (op token.Token, x, y ssa.Value, ok bool) {
	neg := false
	for {
		v = Strip(v)
		if u, isU := v.(*ssa.UnOp); isU && u.Op == token.NOT {
			neg = !neg
			v = u.X
			continue
		}
		break
	}
	b, isB := v.(*ssa.BinOp)
	if !isB {
		return 0, nil, nil, false
	}
	op = b.Op
	if neg {
		op = negate(op)
	}
	switch op {
	case token.EQL, token.NEQ, token.LSS, token.LEQ, token.GTR, token.GEQ:
		// canonical form: a constant operand (or nil) is on the right, whichever way the
		// comparison was written (K < x  ≡  x > K)
		_, cx := StripConv(b.X).(*ssa.Const)
		_, cy := StripConv(b.Y).(*ssa.Const)
		if cx && !cy {
			return Swap(op), b.Y, b.X, true
		}
		return op, b.X, b.Y, true
	}
	return 0, nil, nil, false
}

func negate(op token.Token) token.Token {
	switch op {
	case token.EQL:
		return token.NEQ
	case token.NEQ:
		return token.EQL
	case token.LSS:
		return token.GEQ
	case token.GEQ:
		return token.LSS
	case token.GTR:
		return token.LEQ
	case token.LEQ:
		return token.GTR
	}
	return op
}

// Swap mirrors a comparison operator (x op y  ==  y swap(op) x).
func Swap(op token.Token) token.Token {
	switch op {
	case token.LSS:
		return token.GTR
	case token.GTR:
		return token.LSS
	case token.LEQ:
		return token.GEQ
	case token.GEQ:
		return token.LEQ
	}
	return op
}

// Negate is the exported form.
func Negate(op token.Token) token.Token { return negate(op) }

// StripNot peels boolean negations, returning the inner value and whether an odd
// number was removed.
func StripNot(v ssa.Value) (ssa.Value, bool) {
	neg := false
	for {
		v = Strip(v)
		if u, ok := v.(*ssa.UnOp); ok && u.Op == token.NOT {
			neg = !neg
			v = u.X
			continue
		}
		return v, neg
	}
}

// Refs returns the instructions that use v (nil-safe).
func Refs(v ssa.Value) []ssa.Instruction {
	r := v.Referrers()
	if r == nil {
		return nil
	}
	return *r
}

// FieldOfDeep is FieldOf that additionally steps out of embedded structs: for
// x.Embedded.f it returns x.
func FieldOfDeep(v ssa.Value, fieldName string) (ssa.Value, bool) {
	b, ok := FieldOf(v, fieldName)
	if !ok {
		return nil, false
	}
	for {
		switch x := Strip(b).(type) {
		case *ssa.FieldAddr:
			st, ok := deref(x.X.Type()).Underlying().(*types.Struct)
			if ok && st.Field(x.Field).Embedded() {
				b = x.X
				continue
			}
		case *ssa.Field:
			st, ok := x.X.Type().Underlying().(*types.Struct)
			if ok && st.Field(x.Field).Embedded() {
				b = x.X
				continue
			}
		}
		return b, true
	}
}

// DerefOnce: for *p returns p, otherwise v.
func DerefOnce(v ssa.Value) ssa.Value {
	if u, ok := StripConv(v).(*ssa.UnOp); ok && u.Op == token.MUL {
		return u.X
	}
	return v
}

// resolveBoundary steps across the boundary of a helper when v is a parameter, a free
// variable or the result of a private helper (not through loads of cells).
func resolveBoundary(v ssa.Value) ssa.Value {
	for i := 0; i < 4; i++ {
		switch x := v.(type) {
		case *ssa.Parameter, *ssa.FreeVar, *ssa.Call, *ssa.Extract:
			if par, isPar := x.(*ssa.Parameter); isPar {
				// never above the function the rule is about
				if _, bound := paramBind[par]; !bound {
					if ctxRoot == nil || par.Parent() == ctxRoot || !inSet(Reach(ctxRoot), par.Parent()) {
						return v
					}
				}
			}
			r, ok := resolveOnce(v)
			if !ok {
				return v
			}
			v = Strip(r)
		default:
			return v
		}
	}
	return v
}

// canonField: the name under which the rule tables know field i of st: its recorded name
// when the field was renamed since the fingerprints were taken (Prog.FieldAlias).
func canonField(st *types.Struct, i int) string {
	f := st.Field(i)
	if Current != nil && len(Current.FieldAlias) > 0 {
		if old, ok := Current.FieldAlias[f]; ok {
			return old
		}
	}
	return f.Name()
}

// CanonField is canonField for rule tables.
func CanonField(st *types.Struct, i int) string { return canonField(st, i) }

// ResolveBoundary follows a value across the helper boundaries the current rule may see
// through (a bound predicate parameter, a parameter of a helper inside the rule's root).
func ResolveBoundary(v ssa.Value) ssa.Value { return resolveBoundary(v) }

// TypePkgPath: the import path of the package that declares the (pointed-to) named type.
func TypePkgPath(t types.Type) string {
	t = deref(t)
	switch n := t.(type) {
	case *types.Named:
		if n.Obj().Pkg() != nil {
			return n.Obj().Pkg().Path()
		}
	case *types.Alias:
		if n.Obj().Pkg() != nil {
			return n.Obj().Pkg().Path()
		}
	}
	return ""
}

// StoredOnce: al is a local cell written by exactly one store of a whole value (and not
// through a field or element address that is itself stored to): the value written.
// `last := name[len(name)-1]` makes `last.Typ` a field of such a cell.
func StoredOnce(al *ssa.Alloc) (ssa.Value, bool) {
	var val ssa.Value
	n := 0
	for _, r := range Refs(al) {
		switch x := r.(type) {
		case *ssa.Store:
			if x.Addr == ssa.Value(al) {
				n++
				val = x.Val
			} else {
				return nil, false // the address escapes into memory
			}
		case *ssa.FieldAddr, *ssa.IndexAddr:
			// a write through a component address changes the cell
			for _, r2 := range Refs(x.(ssa.Value)) {
				if st, ok := r2.(*ssa.Store); ok && st.Addr == x.(ssa.Value) {
					return nil, false
				}
				if _, ok := r2.(ssa.CallInstruction); ok {
					return nil, false
				}
			}
		case *ssa.UnOp, *ssa.DebugRef:
		default:
			return nil, false
		}
	}
	if n != 1 {
		return nil, false
	}
	return val, true
}

// CmpOrient is Cmp with the operands oriented so that x satisfies isX where one of
// them does: a comparison written  y op' x  is returned as  x op y. (Cmp itself moves
// a constant operand to the right; between two computed operands the written order
// carries no meaning and an atom must not depend on it.)
func CmpOrient(v ssa.Value, isX func(ssa.Value) bool) (op token.Token, x, y ssa.Value, ok bool) {
	op, x, y, ok = Cmp(v)
	if !ok {
		return
	}
	if !isX(x) && isX(y) {
		return Swap(op), y, x, true
	}
	return
}

// IsLen reports whether v is len(·) of something (conversions stripped).
func IsLen(v ssa.Value) bool { _, ok := LenOf(v); return ok }

// PkgPathOf: the import path of the package a function belongs to ("" for synthetic ones).
func PkgPathOf(f *ssa.Function) string {
	if f == nil || f.Pkg == nil || f.Pkg.Pkg == nil {
		return ""
	}
	return f.Pkg.Pkg.Path()
}
