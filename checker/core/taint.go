package core

import (
	"fmt"
	"go/token"
	"go/types"
	"os"
	"strings"

	"golang.org/x/tools/go/ssa"
)

// TaintSpec says which values are attacker-controlled integers.
type TaintSpec struct {
	// SourceCall: the call's result (or tuple component 0) is untrusted.
	SourceCall func(id CalleeID) bool
	// SourceParam: the parameter is untrusted (e.g. the length argument of a reader method).
	SourceParam func(p *ssa.Parameter) bool
	// SourceField: a load of *X.field (pointer-typed optional number of a decoded message)
	// or X.field is untrusted.
	SourceField func(typ, field string) bool

	// convLeaf: results of repository helpers that hand up an untrusted value after
	// converting it from a 64-bit unsigned to a signed integer (filled by taintedLeaves)
	convLeaf map[ssa.Value]bool
	// signOnly: a leaf that is bounded above where it is produced (min(x, K)) but may be
	// negative (the bound was taken after a conversion from a 64-bit unsigned value)
	signOnly  map[ssa.Value]bool
	probe     *ssa.Function // its parameters count as sources while a summary is computed
	deciding  map[*ssa.Function]bool
	noCallers bool
	summary   map[*ssa.Function]map[int]*helperSum
}

// helperSum: how result idx of a helper depends on untrusted values.
type helperSum struct {
	internal int // 0 none, 2 from a source read inside the helper, 3 the same after a signed conversion
	deps     []helperDep
}

type helperDep struct {
	param    int
	conv     bool // converted from a 64-bit unsigned to a signed integer on the way
	signOnly bool // bounded above on the way (min with a clean value)
}

func isU64(t types.Type) bool {
	b, ok := t.Underlying().(*types.Basic)
	return ok && b.Info()&types.IsUnsigned != 0 && (b.Kind() == types.Uint64 || b.Kind() == types.Uint || b.Kind() == types.Uintptr)
}

func isSignedInt(t types.Type) bool {
	b, ok := t.Underlying().(*types.Basic)
	return ok && b.Info()&types.IsInteger != 0 && b.Info()&types.IsUnsigned == 0
}

// helperResult: the result idx of a call to a function of the repository is untrusted
// when one of the values the function returns there derives from a source it reads itself
// (peekHeader(buf) (hdr, val int, ok bool)) or from a parameter whose argument at this
// call is untrusted (clampMTU(*params.Mtu)).
func (t *TaintSpec) helperResult(cl *ssa.Call, idx int, depth int) (tainted, converted, signOnly bool) {
	h := cl.Call.StaticCallee()
	if h == nil || h.Blocks == nil || depth > 2 || h.Pkg == nil || !strings.HasPrefix(h.Pkg.Pkg.Path(), ModPath) {
		return false, false, false
	}
	if t.summary == nil {
		t.summary = map[*ssa.Function]map[int]*helperSum{}
	}
	if t.summary[h] == nil {
		t.summary[h] = map[int]*helperSum{}
	}
	sum, ok := t.summary[h][idx]
	if !ok {
		sum = &helperSum{}
		t.summary[h][idx] = sum // recursion guard: an empty summary
		savedProbe := t.probe
		t.probe = h
		Instrs(h, func(in ssa.Instruction) {
			r, ok := in.(*ssa.Return)
			if !ok || idx >= len(r.Results) || in.Block() == h.Recover {
				return
			}
			v := r.Results[idx]
			bt, isB := v.Type().Underlying().(*types.Basic)
			if !isB || bt.Info()&types.IsInteger == 0 {
				return
			}
			for _, l := range t.taintedLeavesD(v, depth+1) {
				conv := (isU64(l.Type()) && isSignedInt(v.Type())) || t.convLeaf[l]
				if par, isP := l.(*ssa.Parameter); isP && par.Parent() == h && !(t.SourceParam != nil && t.SourceParam(par)) {
					for i, q := range h.Params {
						if q == par {
							sum.deps = append(sum.deps, helperDep{i, conv, t.signOnly[l]})
						}
					}
					continue
				}
				if t.signOnly[l] && !conv {
					continue
				}
				if conv {
					sum.internal = 3
				} else if sum.internal < 2 {
					sum.internal = 2
				}
			}
		})
		t.probe = savedProbe
	}
	if sum.internal >= 2 {
		tainted = true
		converted = sum.internal == 3
	}
	allSignOnly := !tainted
	for _, d := range sum.deps {
		if d.param >= len(cl.Call.Args) {
			continue
		}
		savedProbe := t.probe
		t.probe = nil
		ls := t.taintedLeavesD(cl.Call.Args[d.param], depth+1)
		t.probe = savedProbe
		if len(ls) == 0 {
			continue
		}
		if d.signOnly && !d.conv {
			continue // bounded above and never converted: clean
		}
		tainted = true
		if d.conv {
			converted = true
		}
		if !d.signOnly {
			allSignOnly = false
		}
	}
	return tainted, converted, tainted && allSignOnly
}

// taintedLeaves returns the untrusted origins of an integer value: the SSA values (before
// any conversion) whose comparison with a bound constrains v.
func (t *TaintSpec) taintedLeaves(v ssa.Value) []ssa.Value { return t.taintedLeavesD(v, 0) }

func (t *TaintSpec) taintedLeavesD(v ssa.Value, hdepth int) []ssa.Value {
	if t.convLeaf == nil {
		t.convLeaf = map[ssa.Value]bool{}
		t.signOnly = map[ssa.Value]bool{}
	}
	var out []ssa.Value
	note := func(v ssa.Value, conv, so bool) {
		out = append(out, v)
		if conv {
			t.convLeaf[v] = true
		}
		if so {
			t.signOnly[v] = true
		}
	}
	seen := map[ssa.Value]bool{}
	var walk func(v ssa.Value, d int)
	walk = func(v ssa.Value, d int) {
		v = StripConv(v)
		if v == nil || seen[v] || d > 12 {
			return
		}
		seen[v] = true
		switch x := v.(type) {
		case *ssa.BinOp:
			switch x.Op {
			case token.ADD, token.SUB, token.MUL, token.QUO, token.SHL, token.SHR, token.OR, token.AND, token.REM:
				walk(x.X, d+1)
				walk(x.Y, d+1)
			}
		case *ssa.Phi:
			for _, e := range x.Edges {
				walk(e, d+1)
			}
		case *ssa.Extract:
			if c, ok := x.Tuple.(*ssa.Call); ok {
				if id, ok := Callee(&c.Call); ok && t.SourceCall != nil && t.SourceCall(id) {
					if x.Index == 0 {
						out = append(out, v)
					}
				} else if ta, conv, so := t.helperResult(c, x.Index, hdepth); ta {
					note(v, conv, so)
				}
			}
		case *ssa.Call:
			if id, ok := Callee(&x.Call); ok {
				if t.SourceCall != nil && t.SourceCall(id) {
					out = append(out, v)
					return
				}
				// min/max builtins bound their result by each argument: not tainted if one arg is clean
				if id.Pkg == "builtin" && id.Name == "min" {
					// min(x, clean) is bounded above by the clean value; what is left of an
					// untrusted operand is its sign, when it was a 64-bit unsigned value
					// converted to a signed one before the min was taken
					clean := false
					for _, a := range x.Call.Args {
						before := len(out)
						walk(a, d+1)
						if len(out) == before {
							clean = true
						}
						out = out[:before]
					}
					if clean {
						for _, a := range x.Call.Args {
							before := len(out)
							delete(seen, StripConv(a))
							walk(a, d+1)
							kept := out[:before]
							for _, l := range out[before:] {
								if (isU64(l.Type()) && isSignedInt(x.Type())) || t.convLeaf[l] {
									t.signOnly[l] = true
									kept = append(kept, l)
								}
							}
							out = kept
						}
						return
					}
					for _, a := range x.Call.Args {
						delete(seen, StripConv(a))
						walk(a, d+1)
					}
					return
				}
				if id.Pkg == "builtin" && id.Name == "max" {
					for _, a := range x.Call.Args {
						walk(a, d+1)
					}
					return
				}
			}
			if x.Call.Signature().Results().Len() == 1 {
				if ta, conv, so := t.helperResult(x, 0, hdepth); ta {
					note(v, conv, so)
				}
			}
		case *ssa.Parameter:
			if t.SourceParam != nil && t.SourceParam(x) {
				out = append(out, v)
			} else if t.probe != nil && x.Parent() == t.probe {
				out = append(out, v)
			}
		case *ssa.UnOp:
			if x.Op != token.MUL {
				return
			}
			// *ptr where ptr = load of a pointer field, or a direct field load
			inner := x.X
			if u2, ok := inner.(*ssa.UnOp); ok && u2.Op == token.MUL {
				inner = u2.X
			}
			if fa, ok := inner.(*ssa.FieldAddr); ok {
				typ, f := FieldAddrName(fa)
				if t.SourceField != nil && t.SourceField(typ, f) {
					out = append(out, v)
				}
				// a cursor field updated in this function with an untrusted amount
				// (r.pos += l ... buf[p:r.pos]): flow-insensitive within the function
				if fn := x.Parent(); fn != nil && inner == ssa.Value(fa) {
					Instrs(fn, func(in ssa.Instruction) {
						st, ok := in.(*ssa.Store)
						if !ok {
							return
						}
						fa2, ok := st.Addr.(*ssa.FieldAddr)
						if !ok || fa2.Field != fa.Field || !Same(fa2.X, fa.X) {
							return
						}
						walk(st.Val, d+1)
					})
				}
			}
		}
	}
	walk(v, 0)
	return out
}

// Sink is an operation whose integer operand must be bounded.
type Sink struct {
	Instr  ssa.Instruction
	Kind   string // make | slice | index
	Val    ssa.Value
	Leaves []ssa.Value
}

// TaintedSinks lists make / slice-bound / index operations of fn with an untrusted operand.
func (t *TaintSpec) TaintedSinks(fn *ssa.Function) []Sink {
	var out []Sink
	add := func(in ssa.Instruction, kind string, v ssa.Value) {
		if v == nil {
			return
		}
		if _, isC := ConstInt(v); isC {
			return
		}
		if ls := t.taintedLeaves(v); len(ls) > 0 {
			out = append(out, Sink{in, kind, v, ls})
		}
	}
	Instrs(fn, func(in ssa.Instruction) {
		switch x := in.(type) {
		case *ssa.MakeSlice:
			add(in, "make", x.Len)
			if x.Cap != x.Len {
				add(in, "make", x.Cap)
			}
		case *ssa.Slice:
			add(in, "slice", x.Low)
			add(in, "slice", x.High)
		case *ssa.IndexAddr:
			add(in, "index", x.Index)
		case *ssa.Index:
			add(in, "index", x.Index)
		case *ssa.Lookup:
			if b, ok := x.X.Type().Underlying().(*types.Basic); ok && b.Info()&types.IsString != 0 {
				add(in, "index", x.Index)
			}
		}
	})
	return out
}

// atomUpperBounded: "leaf is bounded above": leaf < B, leaf <= B (true edge), or
// leaf > B, leaf >= B (false edge) for any B that is not itself derived from the leaf.
// signedOnly reports whether the matched comparison was made on a signed conversion of
// an unsigned leaf (so that huge values wrap to negatives and pass).
func atomUpperBounded(leaf ssa.Value, sawUnsigned *bool) *Atom {
	return atomUpperBoundedMode(leaf, sawUnsigned, false)
}

// atomUpperBoundedMode: with unsignedOnly, only comparisons made in the unsigned domain
// count (a bound established there also excludes the values that a later conversion to a
// signed type turns negative).
func atomUpperBoundedMode(leaf ssa.Value, sawUnsigned *bool, unsignedOnly bool) *Atom {
	return &Atom{Name: "untrusted<=bound", Match: func(cond ssa.Value) (int, int) {
		op, x, y, ok := Cmp(cond)
		if !ok {
			return 0, 0
		}
		// the comparison may sit in a predicate helper (r.has(l)): its operands are then
		// the helper's parameters, bound to the arguments of the call being expanded
		if rx := resolveBoundary(StripConv(x)); rx != StripConv(x) {
			x = rx
		}
		if ry := resolveBoundary(StripConv(y)); ry != StripConv(y) {
			y = ry
		}
		side := 0
		// a second load of the same field of the same decoded message is the same number
		sameLoad := func(v ssa.Value) bool {
			a, ok1 := StripConv(v).(*ssa.UnOp)
			b, ok2 := leaf.(*ssa.UnOp)
			return ok1 && ok2 && a.Op == token.MUL && b.Op == token.MUL && Same(a, b)
		}
		if StripConv(x) == leaf || derivesFrom(x, leaf) || sameLoad(x) {
			side = 1
		} else if StripConv(y) == leaf || derivesFrom(y, leaf) || sameLoad(y) {
			side = 2
			op = Swap(op)
			x = y
		}
		if side == 0 {
			return 0, 0
		}
		if bt, ok := x.Type().Underlying().(*types.Basic); ok && bt.Info()&types.IsUnsigned != 0 {
			*sawUnsigned = true
		} else if unsignedOnly {
			return 0, 0
		}
		switch op {
		case token.LSS, token.LEQ:
			return 1, -1
		case token.GTR, token.GEQ:
			return -1, 1
		case token.EQL: // == constant bounds it too
			return 1, 0
		}
		return 0, 0
	}}
}

// derivesFrom: v is a monotone, non-wrapping arithmetic expression of leaf with constants (l-k, l/k, int(l)).
func derivesFrom(v, leaf ssa.Value) bool {
	for i := 0; i < 6; i++ {
		v = StripConv(v)
		if v == leaf {
			return true
		}
		b, ok := v.(*ssa.BinOp)
		if !ok {
			return false
		}
		// Only operations that cannot wrap for a non-negative operand: l-k, l/k. A test of
		// the form l+x > bound proves nothing for an unbounded l (the sum wraps to a
		// negative number and passes), nor does l*k.
		switch b.Op {
		case token.SUB, token.QUO:
		default:
			return false
		}
		if _, isC := ConstInt(b.Y); isC {
			v = b.X
			continue
		}
		return false
	}
	return false
}

// atomNonNegative: "v >= 0" on the signed value actually used.
// AtomNonNegative: v >= 0 (on exactly this signed value).
func AtomNonNegative(v ssa.Value) *Atom { return atomNonNegative(v) }

func atomNonNegative(v ssa.Value) *Atom {
	return &Atom{Name: "value>=0", Match: func(cond ssa.Value) (int, int) {
		op, x, y, ok := Cmp(cond)
		if !ok {
			return 0, 0
		}
		if rx := resolveBoundary(Strip(x)); rx != Strip(x) {
			x = rx
		}
		k, isC := ConstInt(y)
		if !isC || k != 0 || !(StripConvKeepSign(x) == StripConvKeepSign(v) || Same(x, v)) {
			return 0, 0
		}
		switch op {
		case token.LSS:
			return -1, 1
		case token.GEQ:
			return 1, -1
		}
		return 0, 0
	}}
}

// StripConvKeepSign strips only value-preserving wrappers (not numeric conversions).
func StripConvKeepSign(v ssa.Value) ssa.Value { return Strip(v) }

// SinkVerdict is the decision for one sink.
type SinkVerdict struct {
	OK     bool
	Reason string
}

// Bounded decides whether every untrusted leaf of the sink operand is bounded above by a
// comparison on every path from the leaf's definition to the sink (for a parameter: from
// the function entry, or else at every call site), and — when the operand is a signed
// conversion of a 64-bit unsigned leaf that was bounded only after conversion — also
// bounded below by zero. Index sinks additionally need the strict form i < len(x).
func (t *TaintSpec) Bounded(p *Prog, fn *ssa.Function, s Sink) SinkVerdict {
	for _, leaf := range s.Leaves {
		sawUnsigned := false
		if t.signOnly[leaf] {
			// bounded above where it was produced; only the sign is open
			okSign := false
			for _, v := range []ssa.Value{s.Val, leaf} {
				if g2 := Gate(fn, []ssa.Instruction{s.Instr}, Lit{A: atomNonNegative(v), Want: true}); g2.OK && g2.PassEdges > 0 {
					okSign = true
				}
			}
			if !okSign {
				return SinkVerdict{false, fmt.Sprintf("the untrusted 64-bit value is bounded only after conversion to int: values ≥ 2^63 become negative, pass the bound and reach this %s", s.Kind)}
			}
			continue
		}
		if t.helperCursorWithinParam(leaf) {
			// the helper returns a cursor into a slice it was given: at most len of it
			continue
		}
		if t.helperDecides(p, leaf, s.Kind) {
			// the helper that produced the value bounds it itself (and, where it converts a
			// 64-bit unsigned value, does so in the unsigned domain) on every return
			continue
		}
		a := atomUpperBounded(leaf, &sawUnsigned)
		cut, per := CutEdges(fn, Lit{A: a, Want: true})
		// which domain does the bound come from? A comparison on the unsigned value that
		// does not lie on the flow (a lower-bound refusal, say) must not vouch for the sign
		// when the bound that cuts the flow was made on the converted, signed value.
		boundedUnsigned := false
		_, leafIsParam := leaf.(*ssa.Parameter)
		if _, isInstr := leaf.(ssa.Instruction); isInstr || leafIsParam {
			su2 := false
			cutU, perU := CutEdges(fn, Lit{A: atomUpperBoundedMode(leaf, &su2, true), Want: true})
			if perU[0] > 0 {
				flowsU := FlowPath(s.Val, s.Instr, func(x ssa.Value) bool { return x == leaf }, cutU, func(x ssa.Value) []ssa.Value {
					switch y := x.(type) {
					case *ssa.BinOp:
						return []ssa.Value{y.X, y.Y}
					case *ssa.Convert:
						return []ssa.Value{y.X}
					case *ssa.Call:
						if b, ok := y.Call.Value.(*ssa.Builtin); ok && (b.Name() == "min" || b.Name() == "max") {
							return y.Call.Args
						}
					}
					return nil
				})
				boundedUnsigned = !flowsU
			}
			sawUnsigned = boundedUnsigned
		}
		start := Point{fn.Blocks[0], 0}
		if in, ok := leaf.(ssa.Instruction); ok {
			start = After(in)
		}
		var bounded bool
		if _, isInstr := leaf.(ssa.Instruction); isInstr {
			// value-flow: does the leaf's value reach the operand along a path without a bound edge?
			flows := FlowPath(s.Val, s.Instr, func(x ssa.Value) bool { return x == leaf }, cut, func(x ssa.Value) []ssa.Value {
				switch y := x.(type) {
				case *ssa.BinOp:
					return []ssa.Value{y.X, y.Y}
				case *ssa.Convert:
					return []ssa.Value{y.X}
				case *ssa.Call:
					if b, ok := y.Call.Value.(*ssa.Builtin); ok && (b.Name() == "min" || b.Name() == "max") {
						return y.Call.Args
					}
				}
				return nil
			})
			bounded = !flows && per[0] > 0
			if bounded && !t.pureExprOf(s.Val, leaf) {
				// the operand is not a plain expression of the leaf (it went through a memory
				// cell or a call): the flow cannot be followed, so every path to the sink has
				// to pass a bound edge
				bounded = ReachInstrFrom(start, s.Instr, cut, nil) == nil
			}
		} else {
			reach := ReachInstrFrom(start, s.Instr, cut, nil)
			bounded = reach == nil && per[0] > 0
			if !bounded && leafIsParam && per[0] > 0 && t.pureExprOf(s.Val, leaf) {
				// the sink is reachable, but the parameter's value may arrive there only
				// over bound edges (mtu := int(x); if x > Max { mtu = Max }; return mtu)
				flows := FlowPath(s.Val, s.Instr, func(x ssa.Value) bool { return x == leaf }, cut, func(x ssa.Value) []ssa.Value {
					switch y := x.(type) {
					case *ssa.BinOp:
						return []ssa.Value{y.X, y.Y}
					case *ssa.Convert:
						return []ssa.Value{y.X}
					case *ssa.Call:
						if b, ok := y.Call.Value.(*ssa.Builtin); ok && (b.Name() == "min" || b.Name() == "max") {
							return y.Call.Args
						}
					}
					return nil
				})
				bounded = !flows
			}
		}
		if !bounded {
			// parameter: the bound may be established by every caller
			if par, isP := leaf.(*ssa.Parameter); isP && p != nil && !t.noCallers {
				idx := -1
				for i, q := range fn.Params {
					if q == par {
						idx = i
					}
				}
				callers := p.Callers(fn)
				all := len(callers) > 0 && idx >= 0
				for _, ci := range callers {
					cc := ci.Common()
					if cc.IsInvoke() || idx >= len(cc.Args) {
						all = false
						continue
					}
					arg := StripConv(cc.Args[idx])
					su := false
					g := Gate(ci.Parent(), []ssa.Instruction{ci}, Lit{A: atomUpperBounded(arg, &su), Want: true})
					if !(g.OK && g.PassEdges > 0) {
						all = false
					}
					if su {
						sawUnsigned = true
					}
				}
				bounded = all
			}
		}
		if !bounded {
			if os.Getenv("NDNDCHECK_DEBUG") != "" {
				fmt.Fprintf(os.Stderr, "DEBUG unbounded: fn=%s sink=%v leaf=%v (%T) per=%v cut=%d\n", fn.Name(), s.Instr, leaf, leaf, per, len(cut))
			}
			return SinkVerdict{false, fmt.Sprintf("no upper bound on the untrusted value on some path from where it is read to this %s", s.Kind)}
		}
		// sign
		lb, isB := leaf.Type().Underlying().(*types.Basic)
		vb, isVB := s.Val.Type().Underlying().(*types.Basic)
		converted := isB && isVB && lb.Info()&types.IsUnsigned != 0 && vb.Info()&types.IsUnsigned == 0 && (lb.Kind() == types.Uint64 || lb.Kind() == types.Uint || lb.Kind() == types.Uintptr)
		if t.convLeaf[leaf] {
			// converted inside the helper that handed the value up: a comparison made here
			// is made on the signed value
			converted, sawUnsigned = true, false
		}
		if converted {
			okSign := sawUnsigned
			if !okSign {
				g2 := Gate(fn, []ssa.Instruction{s.Instr}, Lit{A: atomNonNegative(s.Val), Want: true})
				okSign = g2.OK && g2.PassEdges > 0
			}
			if !okSign {
				g2 := Gate(fn, []ssa.Instruction{s.Instr}, Lit{A: atomNonNegative(leaf), Want: true})
				okSign = g2.OK && g2.PassEdges > 0
			}
			if !okSign {
				return SinkVerdict{false, fmt.Sprintf("the untrusted 64-bit value is bounded only after conversion to int: values ≥ 2^63 become negative, pass the bound and reach this %s", s.Kind)}
			}
		}
	}
	if s.Kind == "index" {
		var container ssa.Value
		switch x := s.Instr.(type) {
		case *ssa.IndexAddr:
			container = x.X
		case *ssa.Index:
			container = x.X
		case *ssa.Lookup:
			container = x.X
		}
		if container != nil {
			g := Gate(fn, []ssa.Instruction{s.Instr}, Lit{A: atomIndexLess(StripConv(s.Val), Strip(container)), Want: true})
			if !(g.OK && g.PassEdges > 0) {
				// i > len(x) → return proves only i <= len(x)
				return SinkVerdict{false, "the untrusted index is not shown to be strictly below the length of the indexed slice (a test of the form i > len(x) still admits i == len(x))"}
			}
		}
	}
	return SinkVerdict{OK: true, Reason: "bounded by comparison(s) on every path from its source"}
}

// Leaves exposes the untrusted origins of v (see taintedLeaves) for rules that build
// their own sinks (an argument of a particular call).
func (t *TaintSpec) Leaves(v ssa.Value) []ssa.Value { return t.taintedLeaves(v) }

// helperDecides: leaf is the result of a helper of the repository whose untrusted part
// comes from its parameters; the helper is decided on its own — every value it can return
// there is bounded (and sign-safe) by the helper's own comparisons, whatever the argument.
func (t *TaintSpec) helperDecides(p *Prog, leaf ssa.Value, kind string) bool {
	var cl *ssa.Call
	idx := 0
	switch y := leaf.(type) {
	case *ssa.Call:
		cl = y
	case *ssa.Extract:
		if c2, ok := y.Tuple.(*ssa.Call); ok {
			cl, idx = c2, y.Index
		}
	}
	if cl == nil {
		return false
	}
	h := cl.Call.StaticCallee()
	if h == nil || h.Blocks == nil || h.Pkg == nil || !strings.HasPrefix(h.Pkg.Pkg.Path(), ModPath) {
		return false
	}
	if t.deciding == nil {
		t.deciding = map[*ssa.Function]bool{}
	}
	if t.deciding[h] {
		return false
	}
	t.deciding[h] = true
	defer delete(t.deciding, h)
	sub := &TaintSpec{SourceField: t.SourceField, SourceCall: t.SourceCall, SourceParam: func(q *ssa.Parameter) bool { return q.Parent() == h }}
	n := 0
	ok := true
	Instrs(h, func(in ssa.Instruction) {
		r, isR := in.(*ssa.Return)
		if !isR || idx >= len(r.Results) || in.Block() == h.Recover || !ok {
			return
		}
		ls := sub.taintedLeaves(r.Results[idx])
		if len(ls) == 0 {
			return
		}
		for _, l := range ls {
			if _, isP := l.(*ssa.Parameter); !isP {
				ok = false // reads a source itself: decided where the value is used
				return
			}
		}
		n++
		if v := sub.boundedNoCallers(p, h, Sink{Instr: r, Kind: kind, Val: r.Results[idx], Leaves: ls}); !v.OK {
			ok = false
		}
	})
	return ok && n > 0
}

// boundedNoCallers is Bounded without the fall-back to the call sites of fn.
func (t *TaintSpec) boundedNoCallers(p *Prog, fn *ssa.Function, s Sink) SinkVerdict {
	t.noCallers = true
	defer func() { t.noCallers = false }()
	return t.Bounded(p, fn, s)
}

// pureExprOf: as far as the leaf's value is concerned, v is built by phis, arithmetic, numeric
// conversions and min/max only (other terminals do not carry the leaf). The value-flow refinement for parameters may be used only
// then: a flow that passes through a memory cell (r.pos += l; … r.buf[p:r.pos]) or a call
// cannot be followed by FlowPath, and "not followed" must not be read as "does not flow".
func (t *TaintSpec) pureExprOf(v, leaf ssa.Value) bool {
	seen := map[ssa.Value]bool{}
	var walk func(x ssa.Value) bool
	walk = func(x ssa.Value) bool {
		x = Strip(x)
		if seen[x] {
			return true
		}
		seen[x] = true
		if x == leaf {
			return true
		}
		switch y := x.(type) {
		case *ssa.Parameter, *ssa.Const:
			return true
		case *ssa.Phi:
			for _, e := range y.Edges {
				if !walk(e) {
					return false
				}
			}
			return true
		case *ssa.BinOp:
			return walk(y.X) && walk(y.Y)
		case *ssa.Convert:
			return walk(y.X)
		case *ssa.Call:
			if b, ok := y.Call.Value.(*ssa.Builtin); ok && (b.Name() == "min" || b.Name() == "max") {
				for _, a := range y.Call.Args {
					if !walk(a) {
						return false
					}
				}
				return true
			}
		}
		// any other terminal (a load, a call result): harmless unless the leaf's value
		// arrives through it — then the flow goes where FlowPath cannot follow
		for _, l := range t.taintedLeaves(x) {
			if l == leaf {
				return false
			}
		}
		return true
	}
	return walk(v)
}

// helperCursorWithinParam: leaf is the result of a helper of the repository that walks one
// of its slice parameters P with a cursor and returns that cursor: every value it can
// return is a phi-cursor that starts at the constant 0 and is advanced (cursor + t) only on
// an edge asserting t <= len(P) - cursor (written either way round). Such a result is at
// most len(P) whatever t was read from — the caller gave it the slice, so a position
// inside it is no more than the caller already trusts.
func (t *TaintSpec) helperCursorWithinParam(leaf ssa.Value) bool {
	var cl *ssa.Call
	idx := 0
	switch y := leaf.(type) {
	case *ssa.Call:
		cl = y
	case *ssa.Extract:
		if c2, ok := y.Tuple.(*ssa.Call); ok {
			cl, idx = c2, y.Index
		}
	}
	if cl == nil {
		return false
	}
	h := cl.Call.StaticCallee()
	if h == nil || h.Blocks == nil || h.Pkg == nil || !strings.HasPrefix(h.Pkg.Pkg.Path(), ModPath) {
		return false
	}
	isAvail := func(v, cur ssa.Value) bool { // len(P) - cur, P a slice parameter of h
		b, ok := StripConv(v).(*ssa.BinOp)
		if !ok || b.Op != token.SUB || Strip(b.Y) != Strip(cur) {
			return false
		}
		l, isLen := LenOf(b.X)
		if !isLen {
			return false
		}
		_, isPar := Strip(l).(*ssa.Parameter)
		return isPar
	}
	okAll, n := true, 0
	Instrs(h, func(in ssa.Instruction) {
		r, isR := in.(*ssa.Return)
		if !isR || idx >= len(r.Results) || in.Block() == h.Recover || !okAll {
			return
		}
		v := Strip(r.Results[idx])
		if _, isC := v.(*ssa.Const); isC {
			return
		}
		cur, isPhi := v.(*ssa.Phi)
		if !isPhi {
			okAll = false
			return
		}
		n++
		for i, e := range cur.Edges {
			e = Strip(e)
			if k, isC := ConstInt(e); isC && k == 0 {
				continue
			}
			b, isB := e.(*ssa.BinOp)
			if !isB || b.Op != token.ADD || Strip(b.X) != ssa.Value(cur) {
				okAll = false
				return
			}
			step := b.Y
			pred := cur.Block().Preds[i]
			// every path to this back edge passes an edge asserting step <= avail
			fits := &Atom{Name: "step fits what is left", Match: func(cond ssa.Value) (int, int) {
				op, x, y, ok := Cmp(cond)
				if !ok {
					return 0, 0
				}
				if Strip(y) == Strip(step) || Same(y, step) {
					x, y, op = y, x, Swap(op)
				}
				if !(Strip(x) == Strip(step) || Same(x, step)) {
					return 0, 0
				}
				av := y
				if ph, isPh := Strip(av).(*ssa.Phi); isPh { // a named local for it
					_ = ph
				}
				if !isAvail(av, cur) {
					return 0, 0
				}
				switch op {
				case token.LEQ, token.LSS:
					return 1, -1
				case token.GTR, token.GEQ:
					if op == token.GEQ {
						return 0, 0 // step >= avail admits step > avail
					}
					return -1, 1
				}
				return 0, 0
			}}
			cut, per := CutEdges(h, Lit{A: fits, Want: true})
			if per[0] == 0 || ReachAvoiding(h, h.Blocks[0], map[*ssa.BasicBlock]bool{pred: true}, cut) != nil {
				// the cursor's own block is reachable from entry without the test (first
				// iteration) — what matters is the edge pred→header: pred must lie behind a
				// fits edge counted from the header
				if !(per[0] > 0 && ReachAvoiding(h, cur.Block(), map[*ssa.BasicBlock]bool{pred: true}, cut) == nil) {
					okAll = false
					return
				}
			}
		}
	})
	return okAll && n > 0
}
