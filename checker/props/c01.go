package props

import (
	"fmt"
	"go/token"
	"go/types"
	"strings"

	"ndndcheck/core"

	"golang.org/x/tools/go/ssa"
)

var (
	idProcOutData   = core.CalleeID{Pkg: "fw/fw", Recv: "Thread", Name: "processOutgoingData"}
	idSendData      = core.CalleeID{Pkg: "fw/fw", Recv: "StrategyBase", Name: "SendData"}
	idAfterRecvData = core.CalleeID{Pkg: "fw/fw", Recv: "Strategy", Name: "AfterReceiveData"}
	idAfterCsHit    = core.CalleeID{Pkg: "fw/fw", Recv: "Strategy", Name: "AfterContentStoreHit"}
	idInRecords     = core.CalleeID{Pkg: "fw/table", Recv: "PitEntry", Name: "InRecords"}
	idFindByData    = core.CalleeID{Pkg: "fw/table", Recv: "PitCsTable", Name: "FindInterestPrefixMatchByDataEnc"}
	idClearIn       = core.CalleeID{Pkg: "fw/table", Recv: "PitEntry", Name: "ClearInRecords"}
	idSetSatisfied  = core.CalleeID{Pkg: "fw/table", Recv: "PitEntry", Name: "SetSatisfied"}
)

// enclosingLoops returns the headers of the natural loops containing b, innermost first.
func enclosingLoops(b *ssa.BasicBlock) []*ssa.BasicBlock {
	var out []*ssa.BasicBlock
	cur := b
	for {
		h := loopHeader(cur)
		if h == nil {
			return out
		}
		out = append(out, h)
		cur = h.Idom()
		if cur == nil {
			return out
		}
	}
}

// everyIterationPasses: every path from an in-loop successor of header h back to h (or to
// a function exit) executes an instruction satisfying isB.
func everyIterationPasses(fn *ssa.Function, h *ssa.BasicBlock, isB func(ssa.Instruction) bool) bool {
	if h == nil || len(h.Instrs) == 0 {
		return false
	}
	any := false
	for _, s := range h.Succs {
		if core.ReachAvoiding(fn, s, map[*ssa.BasicBlock]bool{h: true}, nil) == nil {
			continue // loop exit
		}
		inLoop := s == h
		for _, x := range enclosingLoops(s) {
			if x == h {
				inLoop = true
			}
		}
		if !inLoop {
			continue // exit of h's loop into an enclosing loop
		}
		any = true
		if core.ReachInstrFrom(core.Point{Block: s, Idx: 0}, h.Instrs[0], nil, isB) != nil {
			return false
		}
	}
	return any
}

// C01 — Data is delivered exactly to the faces with a matching pending Interest.
func C01(c *core.Ctx) {
	c.Explain = "Decides structural necessary conditions of C01: (R1.1) Data reaches a face only through Thread.processOutgoingData, which is called only from StrategyBase.SendData and processIncomingData, and SendData only from the strategies' Data callbacks; (R1.2) by backward provenance slicing, the face id of every such call originates only from a key of InRecords() of the PIT entry being satisfied (through the local downstream map in the multi-match branch) or from the requesting face of a cache hit, which processIncomingInterest binds to the incoming face after inserting its in-record; (R1.3) the PIT token sent downstream originates only from that in-record's PitToken (or nil), never from the token carried by the arriving packet; (R1.4) the PIT match rule: an entry is appended only under canBePrefix ∨ exact depth, the token branch returns an entry only under map hit ∧ token equality, and name matching is skipped when a token is present; (R1.5) satisfaction consumes: every emission for an entry is followed by ClearInRecords and SetSatisfied(true) on that entry on all paths, SendData deletes the in-record it used; (R1.6) a cache hit produces exactly one SendData to the requester; (R1.7) no emission when no PIT entry matched; (R1.18) a store in RemoveInterest to a field of the tree node other than its entry list (a summary of the pending entries the match walk may consult) is decided only by fields of the entry being removed. Not decided: the exact multiset of copies for every history, expiry interplay."
	c.RuleText = "instances: every call of processOutgoingData / SendData / AfterReceiveData / AfterContentStoreHit discovered in the program, every Strategy implementation, the appends and returns of the PIT match functions. Non-trivial = has a provenance leaf set, branch edge or path to decide."
	p := c.P
	c01Round4(c)
	c01TokenStorage(c)
	c01NodeSummaryFollowsRemovedEntry(c)
	// ---- R1.9 (shared with C08 R8.2) a removed PIT entry is no longer reachable through
	// its token: otherwise Data carrying that token is matched against a dead entry and
	// delivered to faces whose Interest is no longer pending
	c.Import(C08, "R1.9", "a removed PIT entry stays reachable through the token map: Data with that token is delivered according to a dead entry", 1, func(k string) bool {
		return k == "R8.2:pit-remove-unlinks-token"
	})
	sl := &core.Slicer{P: p}

	pod := c.Fn("R1.1", "fw/fw", "Thread", "processOutgoingData")
	sd := c.Fn("R1.1", "fw/fw", "StrategyBase", "SendData")
	pid := c.Fn("R1.1", "fw/fw", "Thread", "processIncomingData")
	pii := c.Fn("R1.1", "fw/fw", "Thread", "processIncomingInterest")
	strat := p.Named("fw/fw", "Strategy")
	if pod == nil || sd == nil || pid == nil || pii == nil || strat == nil {
		return
	}
	impls := p.Implementations(strat)
	c.Floor("R1.6", "Strategy implementations", len(impls), 2)

	// ---- R1.11 the in-record holds what the face supplied last, whether the record is new
	// or already existed (token echoed downstream, nonce)
	if fn := c.Fn("R1.11", "fw/table", "basePitEntry", "InsertInRecord"); fn != nil {
		recordBranchAgreement(c, "R1.11", fn, "PitInRecord", ssa.Value(fn.Params[2]), map[string]string{
			"PitToken": "a face that re-expresses the Interest with a new PIT token gets the Data back with the token of its earlier Interest — downstream that token names no (or another) pending Interest and the Data is dropped or misdelivered",
		}, "PitToken", "ExpirationTime")
	}

	// ---- R1.10 collections of downstream faces are per PIT entry: a map that is ranged
	// over inside a loop (to emit Data) is allocated inside that loop too; allocated
	// outside, it still holds the faces of the entries handled before
	nMaps := 0
	restoreR110 := core.WithRoot(pid)
	core.InstrsDeep(pid, func(in ssa.Instruction) {
		rg, ok := in.(*ssa.Range)
		if !ok {
			return
		}
		// the map may be built by a private helper (it is then "allocated" where the
		// helper is called), filled by one, or kept in a local slice until it is used
		mms := core.MapOrigins(rg.X)
		if len(mms) == 0 {
			return
		}
		nMaps++
		stale := ""
		for _, mm := range mms {
			for _, mu := range core.MapUpdates(mm) {
				at, fill, okF := core.CommonFrame(pid, mm, mu)
				if !okF {
					continue
				}
				made := map[*ssa.BasicBlock]bool{}
				for _, h := range enclosingLoops(at.Block()) {
					made[h] = true
				}
				// the loop over the in-records of ONE entry fills one set: the loop whose
				// iteration variable is the key that is inserted
				inner := map[*ssa.BasicBlock]bool{}
				if e, isE := core.Strip(core.Resolve(mu.Key)).(*ssa.Extract); isE {
					if nx, isN := e.Tuple.(*ssa.Next); isN {
						for _, h := range enclosingLoops(nx.Block()) {
							inner[h] = true
							break
						}
					}
				}
				for _, h := range enclosingLoops(fill.Block()) {
					if !made[h] && !inner[h] {
						stale = "?"
						for _, x := range h.Instrs {
							if x.Pos().IsValid() {
								stale = p.Pos(x.Pos())
								break
							}
						}
					}
				}
			}
		}
		c.Decide(stale == "", "R1.10", fmt.Sprintf("downstream-set-per-entry#%d", nMaps), c.Pos(mms[0]), "the set of downstream faces is allocated in the iteration that fills it", "processIncomingData fills a face set inside a loop (at "+stale+") that does not allocate it afresh: the faces of PIT entries handled earlier are still in it, so they receive the Data again (or one copy and one token serve several pending Interests)")
	})
	restoreR110()
	// (a pipeline that ranges over the entry's own in-record map keeps no face set of its
	// own: the map is per entry by construction — R1.16 decides whether it may)
	nOwn := 0
	core.InstrsDeep(pid, func(in ssa.Instruction) {
		if rg, ok := in.(*ssa.Range); ok {
			if cl, isC := core.Strip(rg.X).(*ssa.Call); isC && cl.Call.IsInvoke() && cl.Call.Method.Name() == "InRecords" {
				nOwn++
			}
		}
	})
	c.Floor("R1.10", "face sets (or in-record maps) ranged over in processIncomingData", nMaps+nOwn, 1)

	// ---- R1.1 who may call
	n := 0
	for _, ci := range p.Callers(pod) {
		n++
		fnm := core.FuncName(core.RootOf(ci.Parent())) // a private helper counts as its caller
		ok := fnm == "fw/fw.StrategyBase.SendData" || fnm == "fw/fw.Thread.processIncomingData"
		c.Decide(ok, "R1.1", "processOutgoingData-caller:"+fnm, c.Pos(ci), "allowed caller", "processOutgoingData called from "+fnm+": Data can be emitted outside the PIT-driven paths")
	}
	c.Floor("R1.1", "processOutgoingData callers", n, 2)
	allowed := map[string]bool{}
	for _, t := range impls {
		allowed["fw/fw."+t.Obj().Name()+".AfterReceiveData"] = true
		allowed["fw/fw."+t.Obj().Name()+".AfterContentStoreHit"] = true
	}
	n = 0
	for _, ci := range p.Callers(sd) {
		n++
		fnm := core.FuncName(ci.Parent())
		c.Decide(allowed[fnm], "R1.1", "SendData-caller:"+fnm, c.Pos(ci), "called from a strategy Data callback", "SendData called from "+fnm+", which is not a strategy Data callback")
	}
	c.Floor("R1.1", "SendData callers", n, 4)
	// Data emission: the SendPacket in processOutgoingData goes to GetFace(nexthop) with the given token
	for _, ci := range core.FindCallsDeep(pod, idSendPacket) {
		recv, args := core.CallArgs(ci.Common())
		okFace := false
		restorePod := core.WithRoot(pod)
		if cl, isC := core.Resolve(recv).(*ssa.Call); isC {
			if _, isG := core.IsCall(cl, idGetFace); isG {
				okFace = core.Same(cl.Call.Args[0], pod.Params[2])
			}
		}
		restorePod()
		c.Decide(okFace, "R1.2", "outdata-face-is-nexthop", c.Pos(ci), "Data is sent on GetFace(nexthop)", "processOutgoingData sends on a face other than GetFace(nexthop): "+describeFaceValue(recv))
		// (the packet may be put together in a helper shared with the Interest pipeline:
		// its parameters stand for what processOutgoingData passes)
		same := func(v ssa.Value, prm *ssa.Parameter) bool {
			if v == nil {
				return false
			}
			if core.Same(v, prm) {
				return true
			}
			restore := core.WithRoot(pod)
			defer restore()
			return core.Strip(core.Resolve(v)) == ssa.Value(prm)
		}
		tok := outPktField(args[0], "PitToken")
		c.Decide(same(tok, pod.Params[3]), "R1.3", "outdata-token-passthrough", c.Pos(ci), "OutPkt.PitToken is the pitToken parameter", "processOutgoingData does not attach the pitToken it was given")
		pk := outPktField(args[0], "Pkt")
		c.Decide(same(pk, pod.Params[1]), "R1.2", "outdata-packet-passthrough", c.Pos(ci), "OutPkt.Pkt is the packet parameter", "processOutgoingData sends a packet other than the one it was given")
	}

	// ---- SendData: passthrough, token from the in-record of the same face, delete
	slSd := &core.Slicer{P: p, Root: sd}
	restoreSd := core.WithRoot(sd)
	for _, ci := range core.FindCallsDeep(sd, idProcOutData) {
		_, args := core.CallArgs(ci.Common())
		c.Decide(core.Same(args[0], sd.Params[1]) && core.Same(args[1], sd.Params[3]) && core.Same(args[3], sd.Params[4]), "R1.2", "SendData-passthrough", c.Pos(ci), "packet, nexthop, inFace passed through unchanged", "SendData does not pass its packet/nexthop/inFace through unchanged")
		leaves := slSd.Leaves(args[2])
		bad := []string{}
		nRec := 0
		for _, l := range leaves {
			via := strings.Join(l.Via, "")
			switch {
			case l.Kind == "const" && l.Desc() == "nil":
			case l.Kind == "call" && isCallOn(l.Val, idInRecords, sd.Params[2]) && via == "val.PitToken":
				nRec++
				// looked up under the same face id
				if !lookupKeyIs(args[2], sd.Params[3]) {
					bad = append(bad, "in-record looked up under a key other than nexthop")
				}
			default:
				bad = append(bad, l.Desc())
			}
		}
		c.Decide(len(bad) == 0 && nRec > 0, "R1.3", "SendData-token-source", c.Pos(ci), "token = InRecords()[nexthop].PitToken or nil: "+core.LeafSet(leaves), "the PIT token sent downstream does not come (only) from the in-record of that face: "+strings.Join(bad, "; ")+" "+core.LeafSet(leaves))
	}
	// delete(pitEntry.InRecords(), nexthop) on the hit edge
	{
		var del ssa.Instruction
		core.InstrsDeep(sd, func(in ssa.Instruction) {
			cl, ok := in.(*ssa.Call)
			if !ok {
				return
			}
			if b, ok := cl.Call.Value.(*ssa.Builtin); ok && b.Name() == "delete" && len(cl.Call.Args) == 2 {
				if isCallOn(cl.Call.Args[0], idInRecords, sd.Params[2]) && core.Same(cl.Call.Args[1], sd.Params[3]) {
					del = in
				}
			}
		})
		hit := &core.Atom{Name: "in-record-present", Match: func(cond ssa.Value) (int, int) {
			e, ok := core.Strip(cond).(*ssa.Extract)
			if ok && e.Index == 1 {
				if lk, ok := e.Tuple.(*ssa.Lookup); ok && isCallOn(lk.X, idInRecords, sd.Params[2]) {
					return 1, -1
				}
			}
			return 0, 0
		}}
		ok := del != nil
		if ok {
			ok = false
			for _, f := range core.EdgeFactsDeep(sd, hit) {
				if f.Holds {
					fr := core.MustFollowDeep(sd, core.Point{Block: f.E.To, Idx: 0}, func(in ssa.Instruction) bool { return in == del }, nil)
					ok = fr.OK
				}
			}
		}
		restoreSd()
		c.Decide(ok, "R1.5", "SendData-consumes-in-record", p.Pos(sd.Pos()), "the in-record used is deleted on every path after the hit", "SendData does not delete the in-record it used: a repeated copy of the Data is delivered again")
	}

	// ---- strategies
	for _, t := range impls {
		tn := t.Obj().Name()
		if fn := p.MethodOf(t, "AfterReceiveData"); fn != nil && fn.Blocks != nil {
			c.Funcs[core.FuncName(fn)] = true
			calls := core.FindCallsDeep(fn, idSendData, idProcOutData)
			if len(calls) == 0 {
				c.Viol("R1.2", "strategy-forwards-data:"+tn, p.Pos(fn.Pos()), "AfterReceiveData never sends the Data downstream")
			}
			for i, ci := range calls {
				_, args := core.CallArgs(ci.Common())
				leaves := sl.Leaves(args[2])
				ok := len(leaves) > 0
				for _, l := range leaves {
					if !(l.Kind == "call" && isCallOn(l.Val, idInRecords, fn.Params[2]) && strings.Join(l.Via, "") == "key") {
						ok = false
					}
				}
				c.Decide(ok, "R1.2", fmt.Sprintf("data-face-source:%s#%d", tn, i), c.Pos(ci), "face id is a key of pitEntry.InRecords()", "Data is sent to a face id that is not a key of the satisfied entry's in-records: "+core.LeafSet(leaves))
				c.Decide(core.Same(args[0], fn.Params[1]) && core.Same(args[1], fn.Params[2]), "R1.2", fmt.Sprintf("data-send-args:%s#%d", tn, i), c.Pos(ci), "packet and pitEntry passed through", "SendData is not given the strategy's own packet/pitEntry")
				// every in-record is served: the send is unconditional inside the range loop
				h := loopHeader(ci.Block())
				c.Decide(h != nil && everyIterationPasses(fn, h, func(in ssa.Instruction) bool { return in == ssa.Instruction(ci) }), "R1.2", fmt.Sprintf("data-to-every-in-record:%s#%d", tn, i), c.Pos(ci), "every in-record iteration sends", "some in-record of a satisfied entry is skipped (conditional send inside the loop)")
			}
		}
		if fn := p.MethodOf(t, "AfterContentStoreHit"); fn != nil && fn.Blocks != nil {
			c.Funcs[core.FuncName(fn)] = true
			calls := core.FindCallsDeep(fn, idSendData, idProcOutData)
			ok := len(calls) == 1
			if ok {
				_, args := core.CallArgs(calls[0].Common())
				ok = core.Same(args[2], fn.Params[3]) && core.Same(args[0], fn.Params[1]) && core.Same(args[1], fn.Params[2]) && !core.InLoop(calls[0].Block())
			}
			c.Decide(ok, "R1.6", "cs-hit-to-requester:"+tn, p.Pos(fn.Pos()), "exactly one SendData, to inFace", fmt.Sprintf("AfterContentStoreHit must make exactly one SendData call with nexthop == inFace (found %d calls or a different face)", len(calls)))
		}
	}

	// ---- processIncomingInterest: requester of a cache hit is the incoming face, after its in-record
	for _, ci := range core.FindCallsDeep(pii, idAfterCsHit) {
		_, args0 := core.CallArgs(ci.Common())
		// the call may sit in a helper split off the pipeline: its arguments are then the
		// helper's parameters, bound at the helper's only call site
		restoreRoot := core.WithRoot(pii)
		args := make([]ssa.Value, len(args0))
		for i, a := range args0 {
			args[i] = core.Resolve(a)
		}
		restoreRoot()
		pkt := ssa.Value(pii.Params[1])
		isIncomingFaceID := func(v ssa.Value) bool {
			cl, ok := core.Strip(v).(*ssa.Call)
			if !ok {
				return isDerefFieldLoad(v, pkt, "IncomingFaceID")
			}
			if _, ok := core.IsCall(cl, core.CalleeID{Pkg: "fw/dispatch", Recv: "Face", Name: "FaceID"}); !ok {
				return false
			}
			r, _ := core.CallArgs(&cl.Call)
			g, ok := core.Strip(r).(*ssa.Call)
			if !ok {
				return false
			}
			if _, ok := core.IsCall(g, idGetFace); !ok {
				return false
			}
			return isDerefFieldLoad(g.Call.Args[0], pkt, "IncomingFaceID")
		}
		c.Decide(isIncomingFaceID(args[2]), "R1.2", "cs-hit-requester-is-incoming-face", c.Pos(ci), "AfterContentStoreHit is given the incoming face's id", "a cache hit is answered to a face other than the one the Interest arrived on")
		// the in-record for that face was inserted before, on the same entry
		okIn := core.PrecedesDeep(pii, ci, func(in ssa.Instruction) bool {
			cc, ok := core.IsCall(in, core.CalleeID{Pkg: "fw/table", Recv: "PitEntry", Name: "InsertInRecord"})
			if !ok {
				return false
			}
			r, a := core.CallArgs(cc)
			return core.Same(r, args[1]) && len(a) == 3 && isIncomingFaceID(a[1])
		})
		c.Decide(okIn, "R1.2", "cs-hit-after-in-record", c.Pos(ci), "InsertInRecord(incoming face) on the same entry precedes the cache answer", "a cache hit is answered before the requester's in-record exists on that entry (its PIT token cannot be echoed)")
		// the entry is the one InsertInterest returned
		e, isE := core.Strip(args[1]).(*ssa.Extract)
		c.Decide(isE && e.Index == 0 && isCallTo(e.Tuple, core.CalleeID{Pkg: "fw/table", Recv: "PitCsTable", Name: "InsertInterest"}), "R1.2", "cs-hit-entry", c.Pos(ci), "entry is the one returned by InsertInterest", "cache hit answered on a PIT entry other than the Interest's own")
	}

	// ---- processIncomingData
	pkt := ssa.Value(pid.Params[1])
	sl = &core.Slicer{P: p, Root: pid}    // from here on the slices are about processIncomingData's body
	isMatched := func(v ssa.Value) bool { // an element of FindInterestPrefixMatchByDataEnc's result
		ls := sl.Leaves(v)
		if len(ls) == 0 {
			return false
		}
		for _, l := range ls {
			if !(l.Kind == "call" && isCallTo(l.Val, idFindByData) && strings.Join(l.Via, "") == "[]") {
				return false
			}
		}
		return true
	}
	var emits []ssa.Instruction
	for _, ci := range core.FindCallsDeep(pid, idAfterRecvData, idProcOutData, idSendData) {
		emits = append(emits, ci)
	}
	c.Floor("R1.2", "Data emission sites in processIncomingData", len(emits), 2)
	// R1.7 unsolicited
	{
		none := &core.Atom{Name: "no-pit-match", Match: func(cond ssa.Value) (int, int) {
			op, x, y, ok := core.Cmp(cond)
			if !ok {
				return 0, 0
			}
			lx, isLen := core.LenOf(x)
			k, isC := core.ConstInt(y)
			if !isLen || !isC {
				lx, isLen = core.LenOf(y)
				k, isC = core.ConstInt(x)
				op = core.Swap(op)
			}
			if !isLen || !isC || !isCallTo(lx, idFindByData) {
				return 0, 0
			}
			switch {
			case op == token.EQL && k == 0, op == token.LSS && k == 1, op == token.LEQ && k == 0:
				return 1, -1
			case op == token.NEQ && k == 0, op == token.GTR && k == 0, op == token.GEQ && k == 1:
				return -1, 1
			}
			return 0, 0
		}}
		res := core.GateDeep(pid, emits, neg(none))
		c.Decide(res.OK && res.PassEdges > 0, "R1.7", "unsolicited-data-gate", p.Pos(pid.Pos()), "no emission reachable when no PIT entry matched", "Data can be emitted although no PIT entry matched; path: "+p.PathString(res.Path))
	}
	for i, em := range emits {
		ci := em.(ssa.CallInstruction)
		id, _ := core.Callee(ci.Common())
		_, args := core.CallArgs(ci.Common())
		key := fmt.Sprintf("%s#%d", id.Name, i)
		var entryOK bool
		var entryVal ssa.Value
		switch id.Name {
		case "AfterReceiveData":
			entryVal = args[1]
			entryOK = isMatched(args[1])
			c.Decide(entryOK, "R1.2", "strategy-entry-is-matched:"+key, c.Pos(em), "strategy is given an element of the PIT match result", "strategy is given a PIT entry that is not an element of the match result")
			c.Decide(core.Same(args[0], pkt), "R1.2", "strategy-packet:"+key, c.Pos(em), "strategy is given the arriving packet", "strategy is given a packet other than the arriving Data")
		case "processOutgoingData":
			// face: key of InRecords() of a matched entry (through the local map)
			leaves := sl.Leaves(args[1])
			ok := len(leaves) > 0
			for _, l := range leaves {
				if !(l.Kind == "call" && isCallTo(l.Val, idInRecords) && strings.Join(l.Via, "") == "key") {
					ok = false
					continue
				}
				r, _ := core.CallArgs(&l.Val.(*ssa.Call).Call)
				if !isMatched(r) {
					ok = false
				}
				entryVal = r
			}
			c.Decide(ok, "R1.2", "multi-match-face-source:"+key, c.Pos(em), "face id is a key of InRecords() of a matched entry", "multi-match branch sends Data to a face id that is not an in-record key of a matched entry: "+core.LeafSet(leaves))
			tl := sl.Leaves(args[2])
			bad := []string{}
			nTok := 0
			for _, l := range tl {
				via := strings.Join(l.Via, "")
				switch {
				case l.Kind == "make", l.Kind == "const" && l.Desc() == "nil":
				case l.Kind == "call" && isCallTo(l.Val, idInRecords) && via == "val.PitToken":
					nTok++
				default:
					bad = append(bad, l.Desc())
				}
			}
			c.Decide(len(bad) == 0 && nTok > 0, "R1.3", "multi-match-token-source:"+key, c.Pos(em), "token copied from the in-record's PitToken", "multi-match branch echoes a token that does not come from the in-record: "+strings.Join(bad, "; "))
			c.Decide(core.Same(args[0], pkt), "R1.2", "multi-match-packet:"+key, c.Pos(em), "the arriving packet is forwarded", "a packet other than the arriving Data is forwarded")
		default:
			c.Viol("R1.1", "emission-kind:"+key, c.Pos(em), "processIncomingData calls "+id.Name+" directly")
			continue
		}
		if entryVal == nil {
			continue
		}
		// R1.5 consumption on the same entry
		isClear := func(in ssa.Instruction) bool {
			cc, ok := core.IsCall(in, idClearIn)
			if !ok {
				return false
			}
			r, _ := core.CallArgs(cc)
			return core.Same(r, entryVal)
		}
		isSat := func(in ssa.Instruction) bool {
			cc, ok := core.IsCall(in, idSetSatisfied)
			if !ok {
				return false
			}
			r, a := core.CallArgs(cc)
			b, isC := core.ConstBool(a[0])
			return core.Same(r, entryVal) && isC && b
		}
		loops := enclosingLoops(em.Block())
		// the emissions may be collected first and sent after the loop over the matched
		// entries: the loop that consumes is the one that takes the entry from the match list
		{
			restore := core.WithRoot(pid)
			if def, isI := core.Resolve(entryVal).(ssa.Instruction); isI && def.Parent() == pid {
				loops = append(loops, enclosingLoops(def.Block())...)
			}
			restore()
		}
		consumed := func(isB func(ssa.Instruction) bool) bool {
			if len(loops) == 0 {
				return core.MustFollowDeep(pid, core.After(em), isB, nil).OK || core.PrecedesDeep(pid, em, isB)
			}
			// inside the per-entry loop: every iteration consumes
			for _, h := range loops {
				if everyIterationPasses(pid, h, isB) {
					return true
				}
			}
			return false
		}
		c.Decide(consumed(isClear), "R1.5", "in-records-cleared:"+key, c.Pos(em), "ClearInRecords on the same entry on every path", "a satisfied entry keeps its in-records on some path: a repeated copy of the Data is delivered again")
		c.Decide(consumed(isSat), "R1.5", "marked-satisfied:"+key, c.Pos(em), "SetSatisfied(true) on the same entry on every path", "a satisfied entry is not marked satisfied on some path")
	}

	// ---- R1.4 match rule
	if fm := c.Fn("R1.4", "fw/table", "PitCsTree", "findInterestPrefixMatchByNameEnc"); fm != nil {
		var apps []ssa.Instruction
		core.Instrs(fm, func(in ssa.Instruction) {
			if cl, ok := in.(*ssa.Call); ok {
				if b, ok := cl.Call.Value.(*ssa.Builtin); ok && b.Name() == "append" {
					apps = append(apps, in)
				}
			}
		})
		c.Floor("R1.4", "appends to the match list", len(apps), 1)
		name := ssa.Value(fm.Params[1])
		// the node whose PIT entries are examined: N in "range N.pitEntries"
		var nodeN ssa.Value
		nNodes := 0
		core.Instrs(fm, func(in ssa.Instruction) {
			if fa, ok := in.(*ssa.FieldAddr); ok {
				if _, f := core.FieldAddrName(fa); f == "pitEntries" {
					if nodeN == nil || nodeN != fa.X {
						nNodes++
					}
					nodeN = fa.X
				}
			}
		})
		if nNodes != 1 {
			c.Und("R1.4", "name-match-node", p.Pos(fm.Pos()), fmt.Sprintf("expected exactly one node whose pitEntries are scanned, found %d", nNodes))
		}
		isEntryOfN := func(v ssa.Value) bool { // v = N.pitEntries[i]
			u, ok := core.Strip(core.ResolveBoundary(core.Strip(v))).(*ssa.UnOp)
			if !ok {
				return false
			}
			ia, ok := u.X.(*ssa.IndexAddr)
			if !ok {
				return false
			}
			b, ok := core.FieldOf(ia.X, "pitEntries")
			return ok && nodeN != nil && (core.Strip(b) == core.Strip(nodeN) || core.Same(b, nodeN))
		}
		cbp := &core.Atom{Name: "entry.canBePrefix", Match: func(cond ssa.Value) (int, int) {
			if b, ok := core.FieldOfDeep(cond, "canBePrefix"); ok && isEntryOfN(b) {
				return 1, -1
			}
			if cl, ok := core.Strip(cond).(*ssa.Call); ok {
				if _, ok := core.IsCall(cl, core.CalleeID{Pkg: "fw/table", Recv: "*", Name: "CanBePrefix"}); ok {
					if rv, _ := core.CallArgs(&cl.Call); rv != nil && isEntryOfN(rv) {
						return 1, -1
					}
				}
			}
			return 0, 0
		}}
		exact := &core.Atom{Name: "node.depth==len(name)", Match: func(cond ssa.Value) (int, int) {
			op, x, y, ok := core.Cmp(cond)
			if !ok || (op != token.EQL && op != token.NEQ) {
				return 0, 0
			}
			isDepth := func(v ssa.Value) bool {
				b, ok := core.FieldOf(v, "depth")
				return ok && nodeN != nil && core.Strip(b) == core.Strip(nodeN)
			}
			isLen := func(v ssa.Value) bool { l, ok := core.LenOf(v); return ok && (l == name || core.Same(l, name)) }
			if (isDepth(x) && isLen(y)) || (isDepth(y) && isLen(x)) {
				return core.Iff(op == token.EQL)
			}
			// the same test made once before the walk: N == E, where E is S when
			// S.depth == len(name) and nil otherwise (N is not nil where its entries are
			// scanned, so N == E implies N is S and S is the node of the Data name)
			isSentinel := func(v ssa.Value) bool {
				phi, ok := core.Strip(core.ResolveBoundary(core.Strip(v))).(*ssa.Phi)
				if !ok || len(phi.Edges) != 2 {
					return false
				}
				for i, e := range phi.Edges {
					if !core.IsNilConst(phi.Edges[1-i]) || core.IsNilConst(e) {
						continue
					}
					sNode := core.Strip(e)
					sDepth := &core.Atom{Name: "S.depth==len(name)", Match: func(c2 ssa.Value) (int, int) {
						op2, x2, y2, ok2 := core.Cmp(c2)
						if !ok2 || (op2 != token.EQL && op2 != token.NEQ) {
							return 0, 0
						}
						isD := func(w ssa.Value) bool {
							b, ok := core.FieldOf(w, "depth")
							return ok && core.Same(b, sNode)
						}
						if (isD(x2) && isLen(y2)) || (isD(y2) && isLen(x2)) {
							return core.Iff(op2 == token.EQL)
						}
						return 0, 0
					}}
					pred := phi.Block().Preds[i]
					g := core.Gate(pred.Parent(), []ssa.Instruction{pred.Instrs[len(pred.Instrs)-1]}, core.Lit{A: sDepth, Want: true})
					if g.OK && g.PassEdges > 0 {
						return true
					}
				}
				return false
			}
			isN := func(v ssa.Value) bool {
				v = core.Strip(core.ResolveBoundary(core.Strip(v)))
				return nodeN != nil && (v == core.Strip(nodeN) || core.Same(v, nodeN))
			}
			if (isN(x) && isSentinel(y)) || (isN(y) && isSentinel(x)) {
				// and N != E says the names differ: E is nil (S, the deepest node on the
				// path of the name, is shallower than the name, and so is every ancestor)
				// or E is S and N is a proper ancestor of S
				return core.Iff(op == token.EQL)
			}
			return 0, 0
		}}
		res := core.GateDeep(fm, apps, pos(cbp), pos(exact))
		c.Decide(res.OK && res.PerLit[0] > 0 && res.PerLit[1] > 0, "R1.4", "name-match-rule", p.Pos(fm.Pos()), "an entry is appended only under canBePrefix ∨ depth == len(name)", fmt.Sprintf("a PIT entry can match Data although neither CanBePrefix is set nor the names are equal (canBePrefix atoms=%d, exact atoms=%d); path: %s", res.PerLit[0], res.PerLit[1], p.PathString(res.Path)))
		// and both alternatives do lead to the append (not a conjunction)
		for _, a := range []*core.Atom{cbp, exact} {
			other := exact
			if a == exact {
				other = cbp
			}
			cut, _ := core.CutEdges(fm, pos(other))
			reach := false
			for _, ap := range apps {
				if core.ReachInstr(fm, ap, cut, nil) != nil {
					reach = true
				}
			}
			c.Decide(reach, "R1.4", "name-match-alternative:"+a.Name, p.Pos(fm.Pos()), a.Name+" alone suffices to match", "the match rule requires more than "+a.Name+" (a conjunction where the property states an alternative)")
		}
		// and nothing else decides: inside the scan of a node's entries, an entry is left
		// out only on an edge asserting that the names are NOT equal (reached when
		// CanBePrefix is not set) — or that it has no in-record, which is nobody to deliver
		// to. A further filter on entry state (a flag the insertion path does not maintain,
		// e.g. a stale `satisfied`) withholds Data from a face whose Interest is pending.
		if len(apps) > 0 {
			noRec := &core.Atom{Name: "entry has no in-records", Match: func(cond ssa.Value) (int, int) {
				op, x, y, ok := core.Cmp(cond)
				if !ok {
					return 0, 0
				}
				l, isLen := core.LenOf(core.StripConv(x))
				k, isC := core.ConstInt(y)
				if !isLen || !isC || k != 0 {
					return 0, 0
				}
				if _, isIR := core.FieldOf(l, "inRecords"); !isIR {
					if cl, isCall := core.Strip(l).(*ssa.Call); !isCall || cl.Call.Method == nil || cl.Call.Method.Name() != "InRecords" {
						return 0, 0
					}
				}
				switch op {
				case token.EQL:
					return 1, -1
				case token.NEQ, token.GTR:
					return -1, 1
				}
				return 0, 0
			}}
			cut, per := core.CutEdges(fm, neg(exact), pos(noRec))
			_ = per
			isApp := func(x ssa.Instruction) bool {
				for _, a := range apps {
					if a == x {
						return true
					}
				}
				return false
			}
			okOnly := true
			nIter := 0
			for _, ap := range apps {
				h := loopHeader(ap.Block())
				if h == nil || len(h.Instrs) == 0 {
					continue
				}
				for _, s0 := range h.Succs {
					if core.ReachAvoiding(fm, s0, map[*ssa.BasicBlock]bool{h: true}, nil) == nil {
						continue // loop exit
					}
					inLoop := s0 == h
					for _, x := range enclosingLoops(s0) {
						if x == h {
							inLoop = true
						}
					}
					if !inLoop {
						continue
					}
					nIter++
					if cut[core.Edge{From: h, To: s0}] {
						continue
					}
					if core.ReachInstrFrom(core.Point{Block: s0, Idx: 0}, h.Instrs[0], cut, isApp) != nil {
						okOnly = false
					}
				}
			}
			c.Decide(okOnly && nIter > 0, "R1.4", "name-match-nothing-else-decides", p.Pos(fm.Pos()), "an entry of a scanned node is left out only when the names differ (or it has no in-record)", "the name match leaves out a PIT entry for a reason other than its name (a filter on entry state): Data is withheld from a face whose Interest is pending — e.g. entries whose satisfied flag is set are skipped although InsertInterest re-uses a lingering satisfied entry for a new Interest without clearing the flag")
		}
		// the walk visits every ancestor: loop over parent
		ok := false
		core.Instrs(fm, func(in ssa.Instruction) {
			if _, okF := in.(*ssa.FieldAddr); okF {
				if _, f := core.FieldAddrName(in.(*ssa.FieldAddr)); f == "parent" && core.InLoop(in.Block()) {
					ok = true
				}
			}
		})
		c.Decide(ok, "R1.4", "name-match-walks-ancestors", p.Pos(fm.Pos()), "the match walks parent links in a loop", "the name match does not walk from the longest-prefix node to the root")
	}
	if fd := c.Fn("R1.4", "fw/table", "PitCsTree", "FindInterestPrefixMatchByDataEnc"); fd != nil {
		tok := ssa.Value(fd.Params[2])
		tokNonNil := atomNonNil("token!=nil", tok)
		var byName []ssa.Instruction
		for _, ci := range core.FindCallsDeep(fd, core.CalleeID{Pkg: "fw/table", Recv: "PitCsTree", Name: "findInterestPrefixMatchByNameEnc"}) {
			byName = append(byName, ci)
		}
		c.Floor("R1.4", "name-match calls", len(byName), 1)
		res := core.GateDeep(fd, byName, neg(tokNonNil))
		c.Decide(res.OK && res.PassEdges > 0, "R1.4", "token-short-circuit", p.Pos(fd.Pos()), "name matching is unreachable when a token is present", "Data carrying a PIT token is also matched by name")
		// returns of a non-empty result in the token branch
		var rets []ssa.Instruction
		core.Instrs(fd, func(in ssa.Instruction) {
			r, ok := in.(*ssa.Return)
			if !ok || len(r.Results) != 1 {
				return
			}
			v := core.Strip(r.Results[0])
			if core.IsNilConst(v) || isCallTo(v, core.CalleeID{Pkg: "fw/table", Recv: "PitCsTree", Name: "findInterestPrefixMatchByNameEnc"}) {
				return
			}
			rets = append(rets, r)
		})
		c.Floor("R1.4", "token-branch returns", len(rets), 1)
		hit := &core.Atom{Name: "token-map-hit", Match: func(cond ssa.Value) (int, int) {
			e, ok := core.Strip(cond).(*ssa.Extract)
			if ok && e.Index == 1 {
				if lk, ok := e.Tuple.(*ssa.Lookup); ok {
					if _, okF := core.FieldOf(lk.X, "pitTokenMap"); okF {
						if u, okU := core.Strip(lk.Index).(*ssa.UnOp); okU && u.X == tok {
							return 1, -1
						}
					}
				}
			}
			return 0, 0
		}}
		tokEq := &core.Atom{Name: "entry.Token()==*token", Match: func(cond ssa.Value) (int, int) {
			op, x, y, ok := core.Cmp(cond)
			if !ok || (op != token.EQL && op != token.NEQ) {
				return 0, 0
			}
			isTok := func(v ssa.Value) bool {
				u, ok := core.Strip(v).(*ssa.UnOp)
				return ok && u.Op == token.MUL && u.X == tok
			}
			isEntryTok := func(v ssa.Value) bool {
				if isCallTo(v, core.CalleeID{Pkg: "fw/table", Recv: "*", Name: "Token"}) {
					return true
				}
				_, ok := core.FieldOf(v, "token")
				return ok
			}
			if (isTok(x) && isEntryTok(y)) || (isTok(y) && isEntryTok(x)) {
				return core.Iff(op == token.EQL)
			}
			return 0, 0
		}}
		res = core.GateDeep(fd, rets, pos(hit))
		c.Decide(res.OK && res.PassEdges > 0, "R1.4", "token-match:map-hit", p.Pos(fd.Pos()), "an entry is returned for a token only on the map-hit edge", "the token branch can return an entry without a token-map hit")
		res = core.GateDeep(fd, rets, pos(tokEq))
		c.Decide(res.OK && res.PassEdges > 0, "R1.4", "token-match:token-equal", p.Pos(fd.Pos()), "an entry is returned for a token only when entry.Token() == *token", "the token branch can return an entry whose token differs from the Data's")
	}
	// token extraction in processIncomingData: only a 6-byte token is this forwarder's format
	{
		calls := core.FindCallsDeep(pid, idFindByData)
		for _, ci := range calls {
			_, args := core.CallArgs(ci.Common())
			leaves := sl.Leaves(args[1])
			sixOK := false
			six := &core.Atom{Name: "len(PitToken)==6", Match: func(cond ssa.Value) (int, int) {
				op, x, y, ok := core.Cmp(cond)
				if !ok || (op != token.EQL && op != token.NEQ) {
					return 0, 0
				}
				l, isLen := core.LenOf(x)
				k, isC := core.ConstInt(y)
				if isLen && isC && k == 6 && isFieldLoad(l, pkt, "PitToken") {
					return core.Iff(op == token.EQL)
				}
				return 0, 0
			}}
			// the non-nil token value is produced only on the len==6 edge
			for _, l := range leaves {
				if l.Kind == "call" || l.Kind == "alloc" || l.Kind == "make" {
					if in, ok := l.Val.(ssa.Instruction); ok {
						res := core.GateDeep(pid, []ssa.Instruction{in}, pos(six))
						sixOK = res.OK && res.PassEdges > 0
					}
				}
			}
			c.Decide(sixOK, "R1.4", "token-format-gate", c.Pos(ci), "a token is used for matching only when the carried PIT token has this forwarder's 6-byte format", "a PIT token of foreign length is used for token matching (origins "+core.LeafSet(leaves)+")")
		}
	}
	// ---- R1.16 the downstream set outlives the consumption. The in-records of a matched
	// entry are cleared before the Data goes out (so that a repeated copy finds nobody):
	// iterating the entry's own in-record map after ClearInRecords is right only while
	// ClearInRecords installs a fresh map and leaves the old one to its holders. If
	// ClearInRecords empties the map in place AND the pipeline ranges over InRecords()
	// obtained before the clear, the loop finds nothing and nobody gets the Data.
	if pid := c.Fn("R1.16", "fw/fw", "Thread", "processIncomingData"); pid != nil {
		inPlace := ""
		if pe := p.Named("fw/table", "PitEntry"); pe != nil {
			for _, t := range p.Implementations(pe) {
				for _, base := range []string{"ClearInRecords"} {
					fn := p.MethodOf(t, base)
					if fn == nil || fn.Blocks == nil {
						continue
					}
					fresh, emptied := false, false
					core.InstrsDeep(fn, func(in ssa.Instruction) {
						if _, v, ok := storeToField(in, "", "inRecords"); ok {
							if _, isMk := core.Strip(v).(*ssa.MakeMap); isMk {
								fresh = true
							}
						}
						if cl, ok := in.(*ssa.Call); ok {
							if b, isB := cl.Call.Value.(*ssa.Builtin); isB && (b.Name() == "clear" || b.Name() == "delete") && len(cl.Call.Args) >= 1 {
								if _, isF := core.FieldOf(cl.Call.Args[0], "inRecords"); isF {
									emptied = true
								}
							}
						}
					})
					if emptied && !fresh {
						inPlace = core.FuncName(fn)
					}
				}
			}
		}
		aliasUse := ""
		nClear := 0
		core.InstrsDeep(pid, func(in ssa.Instruction) {
			ci, ok := in.(ssa.CallInstruction)
			if !ok || !ci.Common().IsInvoke() || ci.Common().Method.Name() != "ClearInRecords" {
				return
			}
			nClear++
			entry := ci.Common().Value
			// InRecords() of the same entry obtained before this call and used after it
			core.Instrs(in.Parent(), func(in2 ssa.Instruction) {
				c2, ok2 := in2.(*ssa.Call)
				if !ok2 || !c2.Call.IsInvoke() || c2.Call.Method.Name() != "InRecords" || !(c2.Call.Value == entry || core.Same(c2.Call.Value, entry)) {
					return
				}
				if !core.ReachableFrom(core.After(in2), in) {
					return // obtained after the clear (a fresh look)
				}
				for _, u := range core.Refs(c2) {
					switch u.(type) {
					case *ssa.Range, *ssa.Lookup:
						// … reachable from the clear without the map being obtained anew
						if core.ReachInstrFrom(core.After(in), u, nil, func(x ssa.Instruction) bool { return x == ssa.Instruction(c2) }) != nil {
							aliasUse = c.Pos(u)
						}
					}
				}
			})
		})
		c.Decide(inPlace == "" || aliasUse == "", "R1.16", "downstream-set-outlives-consumption", p.Pos(pid.Pos()), fmt.Sprintf("%d ClearInRecords calls; the in-record map read after a clear is a copy, or ClearInRecords installs a fresh map", nClear), "processIncomingData iterates (at "+aliasUse+") the in-record map it obtained before ClearInRecords, and "+inPlace+" empties that very map in place: the loop that sends the Data finds no downstream — a Data packet that matches several PIT entries is delivered to nobody")
		c.Floor("R1.16", "ClearInRecords calls in the incoming Data pipeline", nClear, 1)
	}

}

// isCallOn: v is a call of id whose receiver is recv.
func isCallOn(v ssa.Value, id core.CalleeID, recv ssa.Value) bool {
	cl, ok := core.Strip(v).(*ssa.Call)
	if !ok {
		return false
	}
	if _, ok := core.IsCall(cl, id); !ok {
		return false
	}
	r, _ := core.CallArgs(&cl.Call)
	return r == recv || core.Same(r, recv)
}

// lookupKeyIs: v derives (through phi / field loads) from a map lookup whose key is key.
func lookupKeyIs(v ssa.Value, key ssa.Value) bool {
	seen := map[ssa.Value]bool{}
	var walk func(v ssa.Value) bool
	found, okAll := false, true
	walk = func(v ssa.Value) bool {
		v = core.Strip(v)
		if seen[v] {
			return true
		}
		seen[v] = true
		switch x := v.(type) {
		case *ssa.Call:
			for _, rv := range core.ReturnedValues(x) {
				if rv != ssa.Value(x) {
					walk(rv)
				}
			}
		case *ssa.Phi:
			for _, e := range x.Edges {
				walk(e)
			}
		case *ssa.UnOp:
			if fa, ok := x.X.(*ssa.FieldAddr); ok {
				walk(fa.X)
			}
		case *ssa.Extract:
			if lk, ok := x.Tuple.(*ssa.Lookup); ok {
				found = true
				if !core.Same(lk.Index, key) {
					okAll = false
				}
			}
		case *ssa.Lookup:
			found = true
			if x.Index != key {
				okAll = false
			}
		}
		return true
	}
	walk(v)
	return found && okAll
}

// c01Round4 — rules for defects a bug-hunting agent demonstrated on the unmodified tree.
//
// R1.13 an in-record takes part in delivery only while its Interest is pending: before any
// emission of processIncomingData the lifetimes of the in-records are compared with the
// clock (the PIT entry outlives its shorter-lived in-records).
//
// R1.14 Data without one of this forwarder's PIT tokens is matched by name in EVERY thread
// that can hold a matching Interest: the link service dispatches it by all prefixes of its
// name whatever the scope of the arrival face, and never by its full name alone (an
// Interest with CanBePrefix is pending in the thread of its own, shorter, name).
//
// R1.15 "all prefixes" includes the zero-component prefix: the scan of the prefix hashes
// starts at index 0 (an Interest for "/" with CanBePrefix lives in that thread).
func c01Round4(c *core.Ctx) {
	p := c.P
	if pid := c.Fn("R1.13", "fw/fw", "Thread", "processIncomingData"); pid != nil {
		isExpiryTest := func(in ssa.Instruction) bool {
			ci, ok := in.(ssa.CallInstruction)
			if !ok {
				return false
			}
			id, ok := core.Callee(ci.Common())
			if !ok || id.Pkg != "time" || (id.Name != "After" && id.Name != "Before") {
				return false
			}
			r, a := core.CallArgs(ci.Common())
			for _, v := range append([]ssa.Value{r}, a...) {
				if v == nil {
					continue
				}
				if _, isF := core.FieldOf(v, "ExpirationTime"); isF {
					if _, path := core.FieldPath(v); len(path) > 0 {
						return true
					}
				}
			}
			return false
		}
		var emits []ssa.Instruction
		core.InstrsDeep(pid, func(in ssa.Instruction) {
			ci, ok := in.(ssa.CallInstruction)
			if !ok {
				return
			}
			if ci.Common().IsInvoke() && ci.Common().Method.Name() == "AfterReceiveData" {
				emits = append(emits, in)
			}
			if id, okID := core.Callee(ci.Common()); okID && id.Name == "processOutgoingData" {
				emits = append(emits, in)
			}
		})
		// (the comparison sits in a loop over the in-records, which a path-insensitive
		// "on every path" would not accept: required is a comparison from which the
		// emission is reachable and which the emission does not precede)
		var tests []ssa.Instruction
		core.InstrsDeep(pid, func(in ssa.Instruction) {
			if isExpiryTest(in) {
				tests = append(tests, in)
			}
		})
		okAll := len(emits) > 0
		for _, e := range emits {
			found := false
			for _, t := range tests {
				if core.ReachableAfterDeep(pid, t, e) && !core.ReachableAfterDeep(pid, e, t) {
					found = true
				}
			}
			if !found {
				okAll = false
			}
		}
		c.Decide(okAll, "R1.13", "expired-in-records-take-no-part", p.Pos(pid.Pos()), fmt.Sprintf("%d emissions, each preceded by a comparison of the in-records' expiry with the clock", len(emits)), "processIncomingData delivers according to the in-records of the matched entries without looking at their expiry: the entry lives until its longest-lived record expires, so a face whose Interest expired long ago still receives the Data (and is counted as satisfied)")
	}
	if dd := c.Fn("R1.14", "fw/face", "linkServiceBase", "dispatchData"); dd != nil {
		all := core.FindCallsDeep(dd, core.CalleeID{Pkg: "fw/fw", Name: "HashNameToAllPrefixFwThreads"})
		exact := core.FindCallsDeep(dd, core.CalleeID{Pkg: "fw/fw", Name: "HashNameToFwThread"})
		scoped := false
		if len(all) > 0 {
			local := &core.Atom{Name: "arrival face is local", Match: func(cond ssa.Value) (int, int) {
				op, x, y, ok := core.Cmp(cond)
				if !ok || (op != token.EQL && op != token.NEQ) {
					return 0, 0
				}
				isScope := func(v ssa.Value) bool {
					cl, isC := core.Strip(v).(*ssa.Call)
					if !isC {
						return false
					}
					if cl.Call.IsInvoke() {
						return cl.Call.Method.Name() == "Scope"
					}
					id, okID := core.Callee(&cl.Call)
					return okID && id.Name == "Scope"
				}
				if isScope(x) || isScope(y) {
					return core.Iff(op == token.EQL)
				}
				return 0, 0
			}}
			cut, n := core.CutEdgesDeep(dd, pos(local), neg(local))
			if n[0]+n[1] > 0 {
				for _, a := range all {
					if core.ReachInstr(dd, a, cut, nil) == nil {
						scoped = true
					}
				}
			}
		}
		c.Decide(len(all) > 0 && len(exact) == 0 && !scoped, "R1.14", "tokenless-data-dispatched-by-all-prefixes", p.Pos(dd.Pos()), "Data without a PIT token of ours goes to the threads of all its name prefixes, for every kind of face", "dispatchData hands Data without one of our PIT tokens to the thread of its full name only (or dispatches by all prefixes only for some faces): with more than one forwarding thread an Interest with CanBePrefix, pending in the thread of its own shorter name, never sees the Data")
	}
	if hp := c.Fn("R1.15", "fw/fw", "", "HashNameToAllPrefixFwThreads"); hp != nil {
		n, partial := 0, ""
		core.Instrs(hp, func(in ssa.Instruction) {
			ia, ok := in.(*ssa.IndexAddr)
			if !ok {
				return
			}
			cl, isC := core.Strip(ia.X).(*ssa.Call)
			if !isC {
				return
			}
			if id, okID := core.Callee(&cl.Call); !okID || id.Name != "PrefixHash" {
				return
			}
			n++
			if tr, why := core.TraversalOf(ia); tr != core.TraversalFull {
				partial = why
			}
		})
		c.Decide(n > 0 && partial == "", "R1.15", "all-prefixes-include-the-empty-prefix", p.Pos(hp.Pos()), "the prefix hashes are scanned from index 0", "HashNameToAllPrefixFwThreads does not visit every prefix hash ("+partial+"): the thread in which an Interest for the zero-component name with CanBePrefix is pending never receives token-less Data")
		// ... on every return: a branch that answers early (the /localhost shortcut) marks
		// the thread of the zero-component name explicitly, or goes through the full scan
		var scanHeaders []*ssa.BasicBlock
		core.Instrs(hp, func(in ssa.Instruction) {
			ia, ok := in.(*ssa.IndexAddr)
			if !ok {
				return
			}
			if cl, isC := core.Strip(ia.X).(*ssa.Call); isC {
				if id, okID := core.Callee(&cl.Call); okID && id.Name == "PrefixHash" {
					if tr, _ := core.TraversalOf(ia); tr == core.TraversalFull {
						if h := loopHeader(ia.Block()); h != nil {
							scanHeaders = append(scanHeaders, h)
						}
					}
				}
			}
		})
		isEmptyName := func(v ssa.Value) bool {
			switch x := core.Strip(v).(type) {
			case *ssa.Const:
				return x.IsNil()
			case *ssa.MakeSlice:
				k, isC := core.ConstInt(x.Len)
				return isC && k == 0
			case *ssa.Slice:
				if al, ok := core.Strip(x.X).(*ssa.Alloc); ok {
					if at, okA := core.Deref(al.Type()).Underlying().(*types.Array); okA {
						return at.Len() == 0
					}
				}
			}
			return false
		}
		isMark := func(in ssa.Instruction) bool {
			st, ok := in.(*ssa.Store)
			if !ok {
				return false
			}
			ia, ok := st.Addr.(*ssa.IndexAddr)
			if !ok {
				return false
			}
			cl, ok := core.StripConv(ia.Index).(*ssa.Call)
			if !ok || len(cl.Call.Args) != 1 {
				return false
			}
			if cal := cl.Call.StaticCallee(); cal == nil || cal.Name() != "HashNameToFwThread" {
				return false
			}
			return isEmptyName(cl.Call.Args[0])
		}
		nRet, badRet := 0, ""
		core.Instrs(hp, func(in ssa.Instruction) {
			r, ok := in.(*ssa.Return)
			if !ok {
				return
			}
			nRet++
			for _, h := range scanHeaders {
				if h.Dominates(r.Block()) {
					return
				}
			}
			if !core.Precedes(hp, r, isMark) {
				badRet = c.Pos(r)
			}
		})
		c.Decide(nRet > 0 && badRet == "", "R1.15", "every-answer-includes-the-empty-prefix", p.Pos(hp.Pos()), fmt.Sprintf("%d returns, each after the full scan or after marking the thread of the zero-component name", nRet), "HashNameToAllPrefixFwThreads can answer (return at "+badRet+") without the thread of the zero-component name — e.g. the /localhost shortcut that names thread 0 only: token-less /localhost Data never reaches an Interest for / with CanBePrefix, which is pending in the thread the empty name hashes to")
	}
}

// c01TokenStorage — R1.17 "echoes the PIT token this forwarder attached when it forwarded
// that Interest": the token given to an outgoing Interest lives in storage made for that
// packet. The link service queues the outgoing packet and encodes it later, in its send
// goroutine: a token that is a slice of a buffer the thread reuses (a per-thread scratch
// array) is overwritten by the next Interest forwarded before the first is encoded — both
// leave with the same token and the Data that comes back is matched to the wrong entry.
// Every store to the PitToken field of a packet built in processOutgoingInterest takes a
// slice made in that call.
func c01TokenStorage(c *core.Ctx) {
	p := c.P
	fn := c.Fn("R1.17", "fw/fw", "Thread", "processOutgoingInterest")
	if fn == nil {
		return
	}
	n, bad := 0, ""
	core.InstrsDeep(fn, func(in ssa.Instruction) {
		st, ok := in.(*ssa.Store)
		if !ok {
			return
		}
		fa, ok := st.Addr.(*ssa.FieldAddr)
		if !ok {
			return
		}
		if _, f := core.FieldAddrName(fa); f != "PitToken" {
			return
		}
		if core.IsNilConst(core.Strip(st.Val)) {
			return
		}
		n++
		seen := map[ssa.Value]bool{}
		var walk func(v ssa.Value, d int)
		walk = func(v ssa.Value, d int) {
			v = core.Strip(v)
			if v == nil || seen[v] || d > 6 {
				return
			}
			seen[v] = true
			switch x := v.(type) {
			case *ssa.MakeSlice:
			case *ssa.Const:
			case *ssa.Slice:
				// a slice of an array made in the call is fine; of a field is not
				if al, isAl := core.Strip(x.X).(*ssa.Alloc); isAl && al.Parent() == x.Parent() {
					return
				}
				if _, isMk := core.Strip(x.X).(*ssa.MakeSlice); isMk {
					return
				}
				walk(x.X, d+1)
			case *ssa.Phi:
				for _, e := range x.Edges {
					walk(e, d+1)
				}
			case *ssa.Parameter:
				// the packet is put together in a helper that is handed the token
				// (sendOnFace(face, packet, token, inFace)): what this pipeline passes
				g := x.Parent()
				idx := -1
				for i, q := range g.Params {
					if q == x {
						idx = i
					}
				}
				nSites := 0
				for _, ci := range p.Callers(g) {
					inReach := false
					for _, r := range core.Reach(fn) {
						if ci.Parent() == r {
							inReach = true
						}
					}
					if !inReach || idx < 0 {
						continue
					}
					recv, as := core.CallArgs(ci.Common())
					all := as
					if g.Signature.Recv() != nil {
						all = append([]ssa.Value{recv}, as...)
					}
					if idx < len(all) {
						nSites++
						walk(all[idx], d+1)
					}
				}
				if nSites == 0 {
					bad = "a parameter whose argument in this pipeline was not found, at " + c.Pos(in)
				}
			case *ssa.Call:
				if b, isB := x.Call.Value.(*ssa.Builtin); isB && b.Name() == "append" {
					walk(x.Call.Args[0], d+1)
					return
				}
				if _, okC := core.IsCall(x, core.CalleeID{Pkg: "slices", Name: "Clone"}, core.CalleeID{Pkg: "bytes", Name: "Clone"}); okC {
					return
				}
				// a helper of the thread that makes the token (makePitToken(entry)): what it returns
				if g := x.Call.StaticCallee(); g != nil && g.Blocks != nil && strings.HasPrefix(core.PkgPathOf(g), core.ModPath) && d < 5 {
					nR := 0
					core.Instrs(g, func(ri ssa.Instruction) {
						if r, okR := ri.(*ssa.Return); okR && len(r.Results) == 1 && ri.Block() != g.Recover {
							nR++
							walk(r.Results[0], d+1)
						}
					})
					if nR > 0 {
						return
					}
				}
				bad = "result of a call at " + c.Pos(x)
			default:
				if _, path := core.FieldPath(v); len(path) > 0 {
					bad = "storage of the field " + strings.Join(path, ".") + " (kept between packets) at " + c.Pos(in)
				} else {
					bad = "storage of unknown origin at " + c.Pos(in)
				}
			}
		}
		walk(st.Val, 0)
	})
	c.Decide(bad == "", "R1.17", "outgoing-token-has-storage-of-its-own", p.Pos(fn.Pos()), fmt.Sprintf("%d token(s) given to an outgoing Interest, each a slice made in the call", n), "processOutgoingInterest gives the outgoing packet a PIT token that lives in "+bad+": the link service encodes the queued packet later, after the next Interest has rewritten that storage — two Interests of different PIT entries leave with one token, the returning Data goes to a face waiting for another name and the right face gets nothing")
	c.Floor("R1.17", "PIT tokens stored into outgoing Interest packets", n, 1)
}

// c01NodeSummaryFollowsRemovedEntry — R1.18. The name-match walk may consult a summary the
// tree node keeps about its pending entries (a count of CanBePrefix entries, say) to pass
// over nodes. Such a summary is only right if RemoveInterest adjusts it according to the
// entry that is being removed: a store to a node field (other than the entry list) that is
// decided by a field of some *other* entry — the one just moved into the freed slot —
// leaves the summary wrong, and Data that extends a CanBePrefix Interest is dropped as
// unsolicited. Decided: every branch condition that governs such a store and reads an entry
// field reads it from the removed entry (the argument, the loop value compared equal to it,
// or an element loaded before any element of the list is overwritten).
func c01NodeSummaryFollowsRemovedEntry(c *core.Ctx) {
	p := c.P
	fn := c.Fn("R1.18", "fw/table", "PitCsTree", "RemoveInterest")
	if fn == nil {
		return
	}
	if len(fn.Params) < 2 {
		c.Und("R1.18", "anchor:RemoveInterest-argument", p.Pos(fn.Pos()), "RemoveInterest has no entry argument")
		return
	}
	arg := fn.Params[1]
	isArg := func(v ssa.Value) bool {
		v = core.Strip(v)
		if ta, ok := v.(*ssa.TypeAssert); ok {
			v = core.Strip(ta.X)
		}
		return v == ssa.Value(arg)
	}
	// values compared equal to the argument
	eqArg := map[ssa.Value]bool{}
	var elemStores []*ssa.Store
	core.Instrs(fn, func(in ssa.Instruction) {
		if bo, ok := in.(*ssa.BinOp); ok && (bo.Op == token.EQL || bo.Op == token.NEQ) {
			if isArg(bo.X) {
				eqArg[core.Strip(bo.Y)] = true
			} else if isArg(bo.Y) {
				eqArg[core.Strip(bo.X)] = true
			}
		}
		if st, ok := in.(*ssa.Store); ok {
			if _, isIdx := st.Addr.(*ssa.IndexAddr); isIdx {
				elemStores = append(elemStores, st)
			}
		}
	})
	before := func(a, b ssa.Instruction) bool { // a executes before b on every path reaching b
		if a.Block() == b.Block() {
			ia, ib := -1, -1
			for i, x := range a.Block().Instrs {
				if x == a {
					ia = i
				}
				if x == b {
					ib = i
				}
			}
			return ia < ib
		}
		return a.Block().Dominates(b.Block())
	}
	removed := func(v ssa.Value) bool {
		v = core.Strip(v)
		if isArg(v) || eqArg[v] {
			return true
		}
		if ld, ok := v.(*ssa.UnOp); ok && ld.Op == token.MUL {
			if _, isIdx := ld.X.(*ssa.IndexAddr); isIdx {
				// an element loaded while the list is still as it was found; it is the removed
				// entry only if it was compared with it — otherwise undetermined, not accepted
				for _, st := range elemStores {
					if before(st, ld) {
						return false
					}
				}
				return eqArg[v]
			}
		}
		return false
	}
	// entry-field reads inside a condition
	var entryRoots func(v ssa.Value, d int, out *[]ssa.Value)
	entryRoots = func(v ssa.Value, d int, out *[]ssa.Value) {
		v = core.Strip(v)
		if v == nil || d > 6 {
			return
		}
		switch x := v.(type) {
		case *ssa.UnOp:
			if x.Op == token.MUL {
				if fa, ok := x.X.(*ssa.FieldAddr); ok {
					base := fa
					for {
						in, ok := base.X.(*ssa.FieldAddr)
						if !ok {
							break
						}
						base = in
					}
					if t, _ := core.FieldAddrName(base); t == "nameTreePitEntry" || t == "basePitEntry" {
						*out = append(*out, base.X)
					}
					return
				}
				return
			}
			entryRoots(x.X, d+1, out)
		case *ssa.BinOp:
			entryRoots(x.X, d+1, out)
			entryRoots(x.Y, d+1, out)
		case *ssa.Phi:
			for _, e := range x.Edges {
				entryRoots(e, d+1, out)
			}
		}
	}
	n := 0
	core.Instrs(fn, func(in ssa.Instruction) {
		st, ok := in.(*ssa.Store)
		if !ok {
			return
		}
		fa, ok := st.Addr.(*ssa.FieldAddr)
		if !ok {
			return
		}
		t, f := core.FieldAddrName(fa)
		if t != "pitCsTreeNode" || f == "pitEntries" {
			return
		}
		n++
		bad := ""
		for d := st.Block().Idom(); d != nil; d = d.Idom() {
			if len(d.Instrs) == 0 {
				continue
			}
			iff, ok := d.Instrs[len(d.Instrs)-1].(*ssa.If)
			if !ok {
				continue
			}
			// the store is governed by this test only if one of its arms does not reach it
			if reachesAvoiding(d.Succs[0], st.Block(), d) && reachesAvoiding(d.Succs[1], st.Block(), d) {
				continue
			}
			var roots []ssa.Value
			entryRoots(iff.Cond, 0, &roots)
			for _, r := range roots {
				if !removed(r) {
					bad = p.Pos(iff.Cond.Pos())
					if bad == "?" || bad == "" {
						bad = c.Pos(st)
					}
				}
			}
		}
		c.Decide(bad == "", "R1.18", "node-summary-follows-removed-entry:"+f, c.Pos(st), "the store to pitCsTreeNode."+f+" in RemoveInterest is decided only by fields of the entry being removed", "RemoveInterest adjusts pitCsTreeNode."+f+" according to a field of an entry other than the one being removed (test at "+bad+", e.g. the entry just moved into the freed slot): the node's summary of its pending entries goes wrong, and the name-match walk that consults it passes over a node that still holds a CanBePrefix Interest — Data extending that name is dropped as unsolicited")
	})
	if n == 0 {
		c.Ok("R1.18", "node-keeps-no-summary-in-RemoveInterest", p.Pos(fn.Pos()), "RemoveInterest writes no field of the tree node other than its entry list: nothing remembered about the entries can go stale here")
	}
}

// reachesAvoiding: is `to` reachable from `from` without passing through `avoid`.
func reachesAvoiding(from, to, avoid *ssa.BasicBlock) bool {
	seen := map[*ssa.BasicBlock]bool{avoid: true}
	work := []*ssa.BasicBlock{from}
	for len(work) > 0 {
		b := work[len(work)-1]
		work = work[:len(work)-1]
		if b == to {
			return true
		}
		if seen[b] {
			continue
		}
		seen[b] = true
		work = append(work, b.Succs...)
	}
	return false
}
