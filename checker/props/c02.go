package props

import (
	"fmt"
	"go/token"
	"go/types"
	"strings"

	"ndndcheck/core"

	"golang.org/x/tools/go/ssa"
)

var (
	idAfterRecvInterest = core.CalleeID{Pkg: "fw/fw", Recv: "Strategy", Name: "AfterReceiveInterest"}
	idProcOutInterest   = core.CalleeID{Pkg: "fw/fw", Recv: "Thread", Name: "processOutgoingInterest"}
	idSendInterest      = core.CalleeID{Pkg: "fw/fw", Recv: "StrategyBase", Name: "SendInterest"}
	idFindNextHops      = core.CalleeID{Pkg: "fw/table", Recv: "FibStrategy", Name: "FindNextHopsEnc"}
)

// isFieldLoad: v is a load of field `field` of an object Same as base.
func isFieldLoad(v ssa.Value, base ssa.Value, field string) bool {
	b, ok := core.FieldOf(v, field)
	return ok && core.Same(b, base)
}

// isDerefFieldLoad: v is *(base.field).
func isDerefFieldLoad(v ssa.Value, base ssa.Value, field string) bool {
	u, ok := core.StripConv(core.ResolveBoundary(core.StripConv(v))).(*ssa.UnOp)
	if !ok || u.Op != token.MUL {
		return false
	}
	return isFieldLoad(u.X, base, field)
}

// atomFieldNonNil: base.field != nil.
func atomFieldNonNil(name string, base ssa.Value, field string) *core.Atom {
	return &core.Atom{Name: name, Match: func(cond ssa.Value) (int, int) {
		op, x, y, ok := core.Cmp(cond)
		if !ok || (op != token.EQL && op != token.NEQ) {
			return 0, 0
		}
		if core.IsNilConst(x) {
			x, y = y, x
		}
		if !core.IsNilConst(y) || !isFieldLoad(x, base, field) {
			return 0, 0
		}
		return core.Iff(op == token.NEQ)
	}}
}

// atomHopZero: *interest.HopLimitV == 0 (any integer conversion).
func atomHopZero(interest ssa.Value) *core.Atom {
	return &core.Atom{Name: "hoplimit==0", Match: func(cond ssa.Value) (int, int) {
		op, x, y, ok := core.Cmp(cond)
		if !ok {
			return 0, 0
		}
		k, isC := core.ConstInt(y)
		if !isC {
			k, isC = core.ConstInt(x)
			x = y
			op = core.Swap(op)
		}
		if !isC || !isDerefFieldLoad(x, interest, "HopLimitV") {
			return 0, 0
		}
		switch {
		case op == token.EQL && k == 0, op == token.LEQ && k == 0, op == token.LSS && k == 1:
			return 1, -1
		case op == token.NEQ && k == 0, op == token.GTR && k == 0, op == token.GEQ && k == 1:
			return -1, 1
		}
		return 0, 0
	}}
}

// atomCallTrue: the condition is the boolean result of a call satisfying pred.
func atomCallTrue(name string, pred func(*ssa.Call) bool) *core.Atom {
	return &core.Atom{Name: name, Match: func(cond ssa.Value) (int, int) {
		c, ok := core.Strip(cond).(*ssa.Call)
		if !ok || !pred(c) {
			return 0, 0
		}
		return 1, -1
	}}
}

// atomExtractTrue: the condition is component idx of the tuple returned by a call
// satisfying pred.
func atomExtractTrue(name string, idx int, pred func(*ssa.Call) bool) *core.Atom {
	return &core.Atom{Name: name, Match: func(cond ssa.Value) (int, int) {
		e, ok := core.Strip(cond).(*ssa.Extract)
		if !ok || e.Index != idx {
			return 0, 0
		}
		c, ok := e.Tuple.(*ssa.Call)
		if !ok || !pred(c) {
			return 0, 0
		}
		return 1, -1
	}}
}

func callIs(ids ...core.CalleeID) func(*ssa.Call) bool {
	return func(c *ssa.Call) bool { _, ok := core.IsCall(c, ids...); return ok }
}

// atomValNonNil: v != nil where v satisfies pred.
func atomValNonNil(name string, pred func(ssa.Value) bool) *core.Atom {
	return &core.Atom{Name: name, Match: func(cond ssa.Value) (int, int) {
		op, x, y, ok := core.Cmp(cond)
		if !ok || (op != token.EQL && op != token.NEQ) {
			return 0, 0
		}
		if core.IsNilConst(x) {
			x, y = y, x
		}
		if !core.IsNilConst(y) || !pred(core.Strip(x)) {
			return 0, 0
		}
		return core.Iff(op == token.NEQ)
	}}
}

func neg(a *core.Atom) core.Lit { return core.Lit{A: a, Want: false} }
func pos(a *core.Atom) core.Lit { return core.Lit{A: a, Want: true} }

// rangeOver: v is the ok/key/value component (idx 0/1/2) of a range over a map value
// satisfying pred.
func rangeComponent(v ssa.Value, idx int, pred func(ssa.Value) bool) bool {
	e, ok := core.Strip(v).(*ssa.Extract)
	if !ok || e.Index != idx {
		return false
	}
	nx, ok := e.Tuple.(*ssa.Next)
	if !ok {
		return false
	}
	r, ok := nx.Iter.(*ssa.Range)
	return ok && pred(core.Strip(r.X))
}

func isCallTo(v ssa.Value, ids ...core.CalleeID) bool {
	c, ok := core.Strip(v).(*ssa.Call)
	if !ok {
		return false
	}
	_, ok = core.IsCall(c, ids...)
	return ok
}

// loopHeader returns the header of the innermost natural loop containing block b: the
// nearest dominator h of b (or b itself) that has a back edge p→h (h dominates p) such
// that b reaches p without passing through h.
func loopHeader(b *ssa.BasicBlock) *ssa.BasicBlock {
	reachAvoid := func(from, to, avoid *ssa.BasicBlock) bool {
		if from == to {
			return true
		}
		seen := map[*ssa.BasicBlock]bool{avoid: true, from: true}
		q := []*ssa.BasicBlock{from}
		for len(q) > 0 {
			x := q[0]
			q = q[1:]
			for _, s := range x.Succs {
				if s == to {
					return true
				}
				if !seen[s] {
					seen[s] = true
					q = append(q, s)
				}
			}
		}
		return false
	}
	for h := b; h != nil; h = h.Idom() {
		for _, p := range h.Preds {
			if !h.Dominates(p) {
				continue
			}
			if b == h || reachAvoid(b, p, h) {
				return h
			}
		}
	}
	return nil
}

// C02 — Interests go only to FIB next hops, without loops or duplicate forwarding.
func C02(c *core.Ctx) {
	c.Explain = "Decides structural necessary conditions of C02 on every path of the Interest pipeline: (R2.1) each of the five drop conditions of the property (hop limit zero, missing nonce, dead nonce, duplicate nonce from another face, answered from cache) disconnects, with the right polarity, every upstream emission (the Strategy.AfterReceiveInterest call and the NextHopFaceId SendPacket) from the entry of processIncomingInterest; (R2.2) the hop-limit decrement store precedes every emission when a hop limit is present; (R2.3) the face id handed to processOutgoingInterest originates only from the Nexthop field of elements of the slice returned by FibStrategy.FindNextHopsEnc on the Interest name or forwarding hint (backward provenance slice through the strategies), or from NextHopFaceID; (R2.4) the outgoing pipeline's same-face/ad-hoc and hop-limit gates and out-record pairing; (R2.5) suppression-window gate with per-iteration discipline, best-route's ascending-cost comparator and stop-after-first-success, multicast's unconditional send per next hop; (R2.6) the duplicate verdict of InsertInterest is gated by other-face AND same-nonce; (R2.7) expiry moves out-record nonces to the dead nonce list; (R2.8) HopLimitV points into the wire buffer. Not decided: timing of the suppression interval, liveness of 'first Interest is forwarded', FIB contents."
	c.RuleText = "instances: emission effects × drop gates in processIncomingInterest; every Strategy implementation discovered through the type checker; every processOutgoingInterest/SendInterest call site; Return instructions of InsertInterest. Non-trivial = has at least one branch edge, path or provenance leaf to decide."
	p := c.P
	c02DeadNonceKeys(c)
	// ---- R2.10 (shared with C08 R8.3) a nonce recorded as dead stays dead for its lifetime
	// ---- R2.14 "a nonce recorded as dead … is not forwarded": a nonce is dead for a lifetime
	// from the LAST time it was recorded. Every path through DeadNonceList.Insert writes the
	// expiration queue — a new record is pushed, an existing one renewed (Update). An Insert
	// that does nothing for a record that exists lets it expire with the lifetime of the
	// first recording: half a lifetime after the Data came back the looping copy is
	// forwarded again.
	if ins := c.Fn("R2.14", "fw/table", "DeadNonceList", "Insert"); ins != nil && len(ins.Blocks) > 0 {
		isQueueWrite := func(in ssa.Instruction) bool {
			ci, ok := in.(ssa.CallInstruction)
			if !ok {
				return false
			}
			g := ci.Common().StaticCallee()
			if g == nil {
				return false
			}
			if g.Origin() != nil {
				g = g.Origin()
			}
			return g.Pkg != nil && strings.HasSuffix(g.Pkg.Pkg.Path(), "priority_queue") && (g.Name() == "Push" || g.Name() == "Update")
		}
		fr := core.MustFollowDeep(ins, core.Point{Block: ins.Blocks[0], Idx: 0}, isQueueWrite, nil)
		c.Decide(fr.OK, "R2.14", "recording-again-renews-the-record", c.P.Pos(ins.Pos()), "every path through Insert pushes or renews the record's expiration", "DeadNonceList.Insert leaves the expiration of a record that already exists as it was: a nonce recorded as dead a second time (a retransmission, then the returning Data) is forgotten a lifetime after the FIRST recording, and a looping copy arriving after that is forwarded again")
	}
	c.Import(C08, "R2.10", "a dead-nonce record can disappear before its lifetime is over: a looping Interest with that nonce is forwarded", 1, func(k string) bool {
		return k == "R8.3:dnl-one-expiry-item-per-record"
	})
	// ---- R2.9 the out-record and in-record updates write the same state whether the
	// record is new or already exists (suppression and duplicate detection read it)
	if fn := c.Fn("R2.9", "fw/table", "nameTreePitEntry", "InsertOutRecord"); fn != nil {
		recordBranchAgreement(c, "R2.9", fn, "PitOutRecord", ssa.Value(fn.Params[2]), map[string]string{
			"LatestTimestamp": "the suppression interval is then measured from the first forward instead of the latest one, so retransmissions inside the interval are forwarded instead of aggregated",
			"LatestNonce":     "the out-record keeps the first nonce: a Nack or loop check compares against a stale nonce",
		})
	}
	if fn := c.Fn("R2.9", "fw/table", "basePitEntry", "InsertInRecord"); fn != nil {
		recordBranchAgreement(c, "R2.9", fn, "PitInRecord", ssa.Value(fn.Params[2]), map[string]string{
			"LatestNonce": "duplicate-nonce detection compares against a stale nonce: a looping Interest is forwarded again",
		}, "LatestNonce", "LatestTimestamp", "ExpirationTime", "LatestInterest")
	}

	pii := c.Fn("R2.1", "fw/fw", "Thread", "processIncomingInterest")
	if pii != nil {
		pkt := ssa.Value(pii.Params[1])
		// interest := packet.L3.Interest
		var interest ssa.Value
		core.Instrs(pii, func(in ssa.Instruction) {
			if v, ok := in.(ssa.Value); ok && interest == nil {
				if root, path := core.FieldPath(v); root == pkt && len(path) == 2 && path[0] == "L3" && path[1] == "Interest" {
					if _, isLoad := v.(*ssa.UnOp); isLoad {
						interest = v
					}
				}
			}
		})
		var effects []ssa.Instruction
		for _, ci := range core.FindCallsDeep(pii, idAfterRecvInterest, idSendPacket, idProcOutInterest, idSendInterest) {
			effects = append(effects, ci)
		}
		c.Floor("R2.1", "upstream emission effects in processIncomingInterest", len(effects), 2)
		if interest == nil {
			c.Und("R2.1", "interest-value", p.Pos(pii.Pos()), "cannot identify packet.L3.Interest")
		} else if len(effects) > 0 {
			hopPresent := atomFieldNonNil("hoplimit-present", interest, "HopLimitV")
			hopZero := atomHopZero(interest)
			noncePresent := atomFieldNonNil("nonce-present", interest, "NonceV")
			dead := atomCallTrue("dead-nonce", func(cl *ssa.Call) bool {
				cc, ok := core.IsCall(cl, core.CalleeID{Pkg: "fw/table", Recv: "DeadNonceList", Name: "Find"})
				if !ok {
					return false
				}
				_, args := core.CallArgs(cc)
				return len(args) == 2 && isFieldLoad(args[0], interest, "NameV") && isDerefFieldLoad(args[1], interest, "NonceV")
			})
			dup := atomExtractTrue("duplicate-nonce", 1, callIs(core.CalleeID{Pkg: "fw/table", Recv: "PitCsTable", Name: "InsertInterest"}))
			pending := atomExtractTrue("already-pending", 1, callIs(core.CalleeID{Pkg: "fw/table", Recv: "PitEntry", Name: "InsertInRecord"}))
			serving := atomCallTrue("cs-serving", callIs(core.CalleeID{Pkg: "fw/table", Recv: "PitCsTable", Name: "IsCsServing"}))
			csFound := atomValNonNil("cs-entry-found", func(v ssa.Value) bool {
				return isCallTo(v, core.CalleeID{Pkg: "fw/table", Recv: "PitCsTable", Name: "FindMatchingDataFromCS"})
			})
			copyIdx := func(i int) func(ssa.Value) bool {
				return func(v ssa.Value) bool {
					e, ok := v.(*ssa.Extract)
					return ok && e.Index == i && isCallTo(e.Tuple, core.CalleeID{Pkg: "fw/table", Recv: "CsEntry", Name: "Copy"})
				}
			}
			csData := atomValNonNil("cs-data-copied", copyIdx(0))
			csWire := atomValNonNil("cs-wire-copied", copyIdx(1))
			gates := []struct {
				name string
				lits []core.Lit
				need []int // literals that must be present
			}{
				{"hop0", []core.Lit{neg(hopPresent), neg(hopZero)}, []int{0, 1}},
				{"nononce", []core.Lit{pos(noncePresent)}, []int{0}},
				{"dead", []core.Lit{neg(dead)}, []int{0}},
				{"dup", []core.Lit{neg(dup)}, []int{0}},
				{"cshit", []core.Lit{pos(pending), neg(serving), neg(csFound), neg(csData), neg(csWire)}, []int{2, 3}},
			}
			for _, g := range gates {
				res := core.GateDeep(pii, effects, g.lits...)
				key := "drop-gate:" + g.name
				missing := ""
				for _, i := range g.need {
					if res.PerLit[i] == 0 {
						missing += " " + g.lits[i].A.Name
					}
				}
				switch {
				case !res.OK:
					c.Viol("R2.1", key, p.Pos(pii.Pos()), fmt.Sprintf("an upstream emission is reachable on a path that does not test the %s drop condition with drop polarity (atoms not found:%s); path: %s", g.name, missing, p.PathString(res.Path)))
				case missing != "":
					c.Viol("R2.1", key, p.Pos(pii.Pos()), "emissions unreachable but the gate lacks the atoms"+missing+" (over-dropping or restructured code)")
				default:
					c.Ok("R2.1", key, p.Pos(pii.Pos()), fmt.Sprintf("%d emission effects unreachable once the %d pass edges of the %s gate are removed", len(effects), res.PassEdges, g.name))
				}
			}
			// the cache answer goes through AfterContentStoreHit on the hit path
			hits := core.FindCallsDeep(pii, core.CalleeID{Pkg: "fw/fw", Recv: "Strategy", Name: "AfterContentStoreHit"})
			c.Decide(len(hits) == 1, "R2.1", "cshit-answer", p.Pos(pii.Pos()), "exactly one AfterContentStoreHit call", fmt.Sprintf("%d AfterContentStoreHit calls", len(hits)))

			// R2.2: decrement precedes emissions when a hop limit is present.
			isDecr := func(in ssa.Instruction) bool {
				st, ok := in.(*ssa.Store)
				if !ok || !isFieldLoad(st.Addr, interest, "HopLimitV") {
					return false
				}
				b, ok := core.StripConv(st.Val).(*ssa.BinOp)
				if !ok || b.Op != token.SUB {
					return false
				}
				k, isC := core.ConstInt(b.Y)
				return isC && k == 1 && isDerefFieldLoad(b.X, interest, "HopLimitV")
			}
			cut, per := core.CutEdges(pii, neg(hopPresent))
			for i, e := range effects {
				path := core.ReachInstr(pii, e, cut, isDecr)
				key := fmt.Sprintf("hop-decrement-before:%s#%d", calleeName(e), i)
				c.Decide(path == nil && per[0] > 0, "R2.2", key, c.Pos(e), "with a hop limit present every path to this emission stores *HopLimitV-1 first", "an emission is reachable with a hop limit present without passing the store *HopLimitV = *HopLimitV - 1; path: "+p.PathString(path))
			}

			// R2.2b: the zero test is made on the hop limit that ARRIVED: the decrement is
			// reachable only on the edge asserting that the hop limit is not zero (a decrement
			// placed before the test turns an arriving 0 into 255 and the Interest goes out)
			{
				var decrs []ssa.Instruction
				core.InstrsDeep(pii, func(in ssa.Instruction) {
					if isDecr(in) {
						decrs = append(decrs, in)
					}
				})
				if len(decrs) > 0 {
					g := core.GateDeep(pii, decrs, neg(hopZero))
					c.Decide(g.OK && g.PerLit[0] > 0, "R2.2", "hop-zero-tested-before-decrement", c.Pos(decrs[0]), "the hop limit is decremented only behind the test that it is not zero", "the hop limit is decremented on a path that has not tested the arriving value for zero: an Interest arriving with HopLimit 0 wraps around to 255 and is forwarded")
				}
			}

			// NextHopFaceId shortcut: receiver is GetFace(*packet.NextHopFaceID)
			for _, ci := range core.FindCallsDeep(pii, idSendPacket) {
				recv, _ := core.CallArgs(ci.Common())
				ok := false
				if cl, isC := core.Strip(recv).(*ssa.Call); isC {
					if _, isG := core.IsCall(cl, idGetFace); isG {
						ok = isDerefFieldLoad(cl.Call.Args[0], pkt, "NextHopFaceID")
					}
				}
				c.Decide(ok, "R2.3", "shortcut-face-source", c.Pos(ci), "direct send goes to GetFace(*packet.NextHopFaceID)", "direct SendPacket in processIncomingInterest on a face that is not GetFace(*packet.NextHopFaceID): "+describeFaceValue(recv))
			}

			// R2.3(b): next hops handed to the strategy come from FindNextHopsEnc(name|hint)
			sl := &core.Slicer{P: p}
			for _, ci := range core.FindCallsDeep(pii, idAfterRecvInterest) {
				_, args := core.CallArgs(ci.Common())
				if len(args) != 4 {
					c.Und("R2.3", "strategy-nexthops", c.Pos(ci), "unexpected AfterReceiveInterest signature")
					continue
				}
				leaves := sl.Leaves(args[3])
				bad := []string{}
				nFib := 0
				for _, l := range leaves {
					switch {
					case l.Kind == "make" || l.Kind == "const":
					case l.Kind == "call" && isCallTo(l.Val, idFindNextHops) && strings.Join(l.Via, "") == "[]":
						nFib++
						// the looked-up name
						fc := l.Val.(*ssa.Call)
						_, fargs := core.CallArgs(&fc.Call)
						for _, nl := range sl.Leaves(fargs[0]) {
							d := nl.Desc()
							okName := false
							if nl.Kind == "param" && nl.Val == pkt {
								v := strings.Join(nl.Via, "")
								okName = v == ".L3.Interest.NameV" || v == ".L3.Interest.ForwardingHintV.Names[]" || v == ".Name"
							}
							if nl.Kind == "const" && d == "nil" {
								okName = true
							}
							if !okName {
								bad = append(bad, "FIB lookup name from "+d)
							}
						}
					default:
						bad = append(bad, l.Desc())
					}
				}
				c.Decide(len(bad) == 0 && nFib > 0, "R2.3", "strategy-nexthops-source", c.Pos(ci),
					"next hops given to the strategy: "+core.LeafSet(leaves)+" — elements of FindNextHopsEnc(Interest name | forwarding hint) only",
					"next hops given to the strategy have a foreign origin: "+strings.Join(bad, "; ")+" (all origins "+core.LeafSet(leaves)+")")
			}
			// R2.3c: a forwarding-hint name reaches the FIB lookup only on paths that take an
			// edge asserting "not reaching the producer region" (value-flow gate)
			isHintName := func(v ssa.Value) bool {
				u, ok := core.Strip(v).(*ssa.UnOp)
				if !ok || u.Op != token.MUL {
					return false
				}
				ia, ok := u.X.(*ssa.IndexAddr)
				if !ok {
					return false
				}
				root, path := core.FieldPath(ia.X)
				return core.Same(root, pkt) && strings.Join(path, ".") == "L3.Interest.ForwardingHintV.Names"
			}
			isProdAtom := atomCallTrue("is-producer-region", callIs(core.CalleeID{Pkg: "fw/table", Recv: "*", Name: "IsProducer"}))
			prodTrueTargets := map[*ssa.BasicBlock]bool{}
			for _, f := range core.EdgeFactsDeep(pii, isProdAtom) {
				if f.Holds {
					prodTrueTargets[f.E.To] = true
				}
			}
			reaching := &core.Atom{Name: "reaching-producer-region", Match: func(cond ssa.Value) (int, int) {
				phi, ok := core.Strip(cond).(*ssa.Phi)
				if !ok {
					return 0, 0
				}
				// a boolean flag set to true in a block entered on IsProducer()==true
				var walk func(ph *ssa.Phi, seen map[*ssa.Phi]bool) bool
				walk = func(ph *ssa.Phi, seen map[*ssa.Phi]bool) bool {
					if seen[ph] {
						return false
					}
					seen[ph] = true
					for i, e := range ph.Edges {
						if b, isC := core.ConstBool(e); isC && b && prodTrueTargets[ph.Block().Preds[i]] {
							return true
						}
						if p2, ok := core.Strip(e).(*ssa.Phi); ok && walk(p2, seen) {
							return true
						}
					}
					return false
				}
				if walk(phi, map[*ssa.Phi]bool{}) {
					return 1, -1
				}
				return 0, 0
			}}
			cutNotReaching, perR := core.CutEdgesDeep(pii, neg(reaching))
			for _, ci := range core.FindCallsDeep(pii, idFindNextHops) {
				_, fargs := core.CallArgs(ci.Common())
				restoreRoot := core.WithRoot(pii)
				flows := core.FlowPath(fargs[0], ci, isHintName, cutNotReaching, nil)
				flowsAtAll := core.FlowPath(fargs[0], ci, isHintName, nil, nil)
				// the same without a flag: no hint name arrives along a path that took an
				// IsProducer()==true edge after the name was picked (`return nil` in the loop)
				prodTrue := map[core.Edge]bool{}
				for _, f := range core.EdgeFactsDeep(pii, isProdAtom) {
					if f.Holds {
						prodTrue[f.E] = true
					}
				}
				direct := len(prodTrue) > 0 && !core.FlowPathVia(fargs[0], ci, isHintName, prodTrue)
				restoreRoot()
				c.Decide(((!flows && perR[0] > 0) || direct) && flowsAtAll, "R2.3", "hint-lookup-only-outside-producer-region", c.Pos(ci),
					"a forwarding-hint name reaches the FIB lookup only through the edge asserting that no hint name lies in the producer region",
					fmt.Sprintf("a forwarding-hint name can be used for the FIB lookup although a hint name lies in this forwarder's producer region (the hint is not discarded on that path), or the hint is never used [flow avoiding ¬reaching edges=%v, ¬reaching edges=%d, hint flows at all=%v]", flows, perR[0], flowsAtAll))
			}
			// forwarding hint used for lookup only outside the producer region
			isProd := atomCallTrue("is-producer-region", callIs(core.CalleeID{Pkg: "fw/table", Recv: "*", Name: "IsProducer"}))
			facts := core.EdgeFactsDeep(pii, isProd)
			c.Decide(len(facts) > 0, "R2.3", "hint-producer-region-test", p.Pos(pii.Pos()), "forwarding hint names are tested with NetworkRegion.IsProducer", "no NetworkRegion.IsProducer test on forwarding-hint names in processIncomingInterest")
		}
	}

	// ---- R2.13 every Interest leaves through the outgoing Interest pipeline (same-face and
	// hop-limit-0 guards, out-record, own PIT token): the forwarding thread hands a packet
	// to a face only inside processOutgoingInterest and processOutgoingData
	{
		nSend, bad := 0, ""
		for _, fn := range p.FuncsIn(core.ModPath + "/fw/fw") {
			if strings.HasSuffix(p.File(fn.Pos()), "_test.go") {
				continue
			}
			core.Instrs(fn, func(in ssa.Instruction) {
				ci, ok := in.(ssa.CallInstruction)
				if !ok || !ci.Common().IsInvoke() || ci.Common().Method.Name() != "SendPacket" {
					return
				}
				nSend++
				root := core.RootOf(fn)
				if root == nil {
					root = fn
				}
				n := core.BaseName(root)
				if n != "processOutgoingInterest" && n != "processOutgoingData" {
					// a helper that only the outgoing pipelines call (the packet
					// construction and the send shared by both) is inside them
					okVia := false
					if cs := p.Callers(root); len(cs) > 0 && root.Parent() == nil {
						okVia = true
						nSend += len(cs) - 1
						for _, x := range cs {
							cr := core.RootOf(x.Parent())
							if cr == nil {
								cr = x.Parent()
							}
							if b := core.BaseName(cr); b != "processOutgoingInterest" && b != "processOutgoingData" {
								okVia = false
							}
						}
					}
					if !okVia {
						bad = core.FuncName(fn) + " at " + c.Pos(in)
					}
				}
			})
		}
		c.Decide(bad == "" && nSend >= 2, "R2.13", "packets-leave-through-the-outgoing-pipelines", "-", fmt.Sprintf("%d SendPacket sites, all inside the outgoing pipelines", nSend), "a packet is handed to a face outside the outgoing pipelines ("+bad+"): an Interest sent that way is not kept off its arrival face, can leave with hop limit 0 on a non-local face, gets no out-record (its nonce never becomes dead) and carries the downstream's PIT token instead of this forwarder's — Data echoing it is not matched")
	}

	// who may call the outgoing Interest pipeline
	poi := c.Fn("R2.4", "fw/fw", "Thread", "processOutgoingInterest")
	if poi != nil {
		for _, ci := range p.Callers(poi) {
			ok := core.FuncName(ci.Parent()) == "fw/fw.StrategyBase.SendInterest"
			if !ok {
				// the consumer-chosen next hop: the face id is FaceID() of
				// dispatch.GetFace(*packet.NextHopFaceID) — the third way of the statement
				// ("or the consumer-chosen next hop on faces where that is enabled"); the
				// link service fills NextHopFaceID only when that is enabled (checked above)
				_, a := core.CallArgs(ci.Common())
				if len(a) == 4 {
					if cl, isC := core.Strip(a[2]).(*ssa.Call); isC && cl.Call.IsInvoke() && cl.Call.Method.Name() == "FaceID" {
						if g, isG := core.Strip(cl.Call.Value).(*ssa.Call); isG {
							if id, okID := core.Callee(&g.Call); okID && id.Name == "GetFace" && len(g.Call.Args) == 1 && isDerefOfField(g.Call.Args[0], "NextHopFaceID") {
								ok = true
							}
						}
					}
				}
			}
			c.Decide(ok, "R2.3", "processOutgoingInterest-caller:"+core.FuncName(ci.Parent()), c.Pos(ci), "called from StrategyBase.SendInterest", "processOutgoingInterest called from outside StrategyBase.SendInterest: bypasses the strategy/FIB next-hop selection")
		}
	}
	sendI := c.Fn("R2.3", "fw/fw", "StrategyBase", "SendInterest")
	strat := p.Named("fw/fw", "Strategy")
	var impls []*types.Named
	if strat != nil {
		impls = p.Implementations(strat)
	}
	c.Floor("R2.5", "Strategy implementations", len(impls), 2)
	if sendI != nil {
		// SendInterest forwards its own nexthop/inFace parameters unchanged
		for _, ci := range core.FindCallsDeep(sendI, idProcOutInterest) {
			_, args := core.CallArgs(ci.Common())
			ok := len(args) == 4 && core.Same(args[2], sendI.Params[3]) && core.Same(args[3], sendI.Params[4]) && core.Same(args[0], sendI.Params[1])
			c.Decide(ok, "R2.3", "SendInterest-passthrough", c.Pos(ci), "SendInterest passes packet, nexthop and inFace through unchanged", "SendInterest does not pass its packet/nexthop/inFace parameters through unchanged")
		}
		allowed := map[string]bool{}
		for _, t := range impls {
			allowed["fw/fw."+t.Obj().Name()+".AfterReceiveInterest"] = true
		}
		for _, ci := range p.Callers(sendI) {
			n := core.FuncName(core.RootOf(ci.Parent())) // a private helper counts as its caller
			c.Decide(allowed[n], "R2.3", "SendInterest-caller:"+n, c.Pos(ci), "called from a strategy's AfterReceiveInterest", "SendInterest called from "+n+", which is not a Strategy.AfterReceiveInterest implementation (no FIB next hops in scope)")
		}
	}

	// R2.4: outgoing pipeline gates.
	if poi != nil {
		interest := findL3(poi, poi.Params[1], "Interest")
		sends := core.FindCallsDeep(poi, idSendPacket)
		c.Floor("R2.4", "SendPacket in processOutgoingInterest", len(sends), 1)
		restorePoi := core.WithRoot(poi)
		for _, ci := range sends {
			recv, _ := core.CallArgs(ci.Common())
			// face is GetFace(nexthop)
			okFace := false
			if cl, isC := core.Resolve(recv).(*ssa.Call); isC {
				if _, isG := core.IsCall(cl, idGetFace); isG {
					okFace = core.Same(cl.Call.Args[0], poi.Params[3])
				}
			}
			c.Decide(okFace, "R2.4", "out-face-is-nexthop", c.Pos(ci), "the Interest is sent on GetFace(nexthop)", "the Interest is sent on a face other than GetFace(nexthop): "+describeFaceValue(recv))
			inFace := ssa.Value(poi.Params[4])
			same := &core.Atom{Name: "out-face==in-face", Match: func(cond ssa.Value) (int, int) {
				op, x, y, ok := core.Cmp(cond)
				if !ok || (op != token.EQL && op != token.NEQ) {
					return 0, 0
				}
				isFid := func(v ssa.Value) bool {
					cl, ok := core.Strip(v).(*ssa.Call)
					if !ok {
						return v == poi.Params[3] // nexthop id itself
					}
					if _, ok := core.IsCall(cl, core.CalleeID{Pkg: "fw/dispatch", Recv: "Face", Name: "FaceID"}); !ok {
						return false
					}
					r, _ := core.CallArgs(&cl.Call)
					return core.Same(r, recv)
				}
				if (isFid(x) && y == inFace) || (isFid(y) && x == inFace) {
					return core.Iff(op == token.EQL)
				}
				return 0, 0
			}}
			adhoc := &core.Atom{Name: "out-face-adhoc", Match: func(cond ssa.Value) (int, int) {
				op, x, y, ok := core.Cmp(cond)
				if !ok || (op != token.EQL && op != token.NEQ) {
					return 0, 0
				}
				if _, isC := core.Strip(x).(*ssa.Const); isC {
					x, y = y, x
				}
				k, isC := core.ConstInt(y)
				cl, isCall := core.Strip(x).(*ssa.Call)
				if !isC || !isCall {
					return 0, 0
				}
				if _, ok := core.IsCall(cl, core.CalleeID{Pkg: "fw/dispatch", Recv: "Face", Name: "LinkType"}); !ok {
					return 0, 0
				}
				r, _ := core.CallArgs(&cl.Call)
				if !core.Same(r, recv) || k != adHocConst(p) {
					return 0, 0
				}
				return core.Iff(op == token.EQL)
			}}
			res := core.GateDeep(poi, []ssa.Instruction{ci}, neg(same), pos(adhoc))
			c.Decide(res.OK && res.PerLit[0] > 0, "R2.4", "same-face-gate", c.Pos(ci),
				"send unreachable when outgoing face == incoming face on a non-ad-hoc link",
				"the Interest can be sent back out of the point-to-point face it arrived on (same-face ∧ ¬ad-hoc drop gate missing, weakened or on the wrong value); path: "+p.PathString(res.Path))
			if interest != nil {
				res = core.GateDeep(poi, []ssa.Instruction{ci}, neg(atomFieldNonNil("hoplimit-present", interest, "HopLimitV")), neg(atomHopZero(interest)), neg(atomNonLocal(recv)))
				c.Decide(res.OK && res.PerLit[1] > 0 && res.PerLit[2] > 0, "R2.4", "hop0-nonlocal-gate", c.Pos(ci),
					"send unreachable with hop limit 0 towards a non-local face",
					"an Interest whose hop limit reached 0 can be sent to a non-local face; path: "+p.PathString(res.Path))
			}
			// out-record ↔ send pairing
			outRec := core.FindCallsDeep(poi, core.CalleeID{Pkg: "fw/table", Recv: "PitEntry", Name: "InsertOutRecord"})
			if len(outRec) == 0 {
				c.Viol("R2.4", "out-record", c.Pos(ci), "no InsertOutRecord in processOutgoingInterest: forwarded Interests leave no out-record (no suppression, no dead-nonce bookkeeping)")
			}
			for _, or := range outRec {
				isOut := func(in ssa.Instruction) bool { return in == ssa.Instruction(or) }
				c.Decide(core.PrecedesDeep(poi, ci, isOut), "R2.4", "out-record-before-send", c.Pos(or), "every path to the send inserts the out-record first", "the Interest can be sent without an out-record being inserted")
				fr := core.MustFollowDeep(poi, core.After(or), func(in ssa.Instruction) bool { return in == ssa.Instruction(ci) }, nil)
				c.Decide(fr.OK, "R2.4", "send-after-out-record", c.Pos(or), "every path from InsertOutRecord reaches the send", "an out-record can be inserted without the Interest being sent")
				_, oargs := core.CallArgs(or.Common())
				c.Decide(len(oargs) == 2 && core.Same(oargs[1], poi.Params[3]), "R2.4", "out-record-face", c.Pos(or), "out-record is keyed by nexthop", "out-record is keyed by a face other than nexthop")
			}
		}
		restorePoi()
	}

	// R2.5: strategies.
	for _, t := range impls {
		fn := p.MethodOf(t, "AfterReceiveInterest")
		tn := t.Obj().Name()
		if fn == nil || fn.Blocks == nil {
			c.Und("R2.5", "strategy:"+tn, "-", "AfterReceiveInterest not found")
			continue
		}
		c.Funcs[core.FuncName(fn)] = true
		sends := core.FindCallsDeep(fn, idSendInterest, idProcOutInterest)
		if len(sends) == 0 {
			c.Und("R2.5", "strategy-sends:"+tn, p.Pos(fn.Pos()), "strategy never sends")
			continue
		}
		nexthopsParam := ssa.Value(fn.Params[4])
		pktParam := ssa.Value(fn.Params[1])
		pitParam := ssa.Value(fn.Params[2])
		sl := &core.Slicer{P: p, Root: fn}
		for i, ci := range sends {
			_, args := core.CallArgs(ci.Common())
			// provenance of the nexthop id
			leaves := sl.Leaves(args[2])
			ok := len(leaves) > 0
			for _, l := range leaves {
				if !(l.Kind == "param" && l.Val == nexthopsParam && strings.Join(l.Via, "") == "[].Nexthop") {
					ok = false
				}
			}
			c.Decide(ok, "R2.3", fmt.Sprintf("nexthop-source:%s#%d", tn, i), c.Pos(ci), "face id = nexthops[i].Nexthop of the FIB next hops passed in", "Interest sent to a face id that is not the Nexthop of a FIB next-hop entry passed to the strategy: "+core.LeafSet(leaves))
			c.Decide(core.Same(args[0], pktParam) && core.Same(args[1], pitParam) && core.Same(args[3], fn.Params[3]), "R2.3", fmt.Sprintf("send-args:%s#%d", tn, i), c.Pos(ci), "packet, pitEntry and inFace passed through", "SendInterest is not given the strategy's own packet/pitEntry/inFace")
		}
		// suppression gate
		isOutRecs := func(v ssa.Value) bool {
			cl, ok := v.(*ssa.Call)
			if !ok {
				return false
			}
			if _, ok := core.IsCall(cl, core.CalleeID{Pkg: "fw/table", Recv: "PitEntry", Name: "OutRecords"}); !ok {
				return false
			}
			r, _ := core.CallArgs(&cl.Call)
			return core.Same(r, pitParam)
		}
		isOutRec := func(v ssa.Value) bool { return rangeComponent(v, 2, isOutRecs) }
		hasMore := &core.Atom{Name: "more-out-records", Match: func(cond ssa.Value) (int, int) {
			if rangeComponent(cond, 0, isOutRecs) {
				return 1, -1
			}
			return 0, 0
		}}
		nonceNeq := &core.Atom{Name: "out-record-nonce!=interest-nonce", Match: func(cond ssa.Value) (int, int) {
			op, x, y, ok := core.Cmp(cond)
			if !ok || (op != token.EQL && op != token.NEQ) {
				return 0, 0
			}
			isRecNonce := func(v ssa.Value) bool {
				b, ok := core.FieldOf(v, "LatestNonce")
				return ok && isOutRec(core.Strip(b))
			}
			isIntNonce := func(v ssa.Value) bool {
				u, ok := core.Strip(v).(*ssa.UnOp)
				if !ok || u.Op != token.MUL {
					return false
				}
				root, path := core.FieldPath(u.X)
				return core.Same(root, pktParam) && strings.Join(path, ".") == "L3.Interest.NonceV"
			}
			if (isRecNonce(x) && isIntNonce(y)) || (isRecNonce(y) && isIntNonce(x)) {
				return core.Iff(op == token.NEQ)
			}
			return 0, 0
		}}
		within := &core.Atom{Name: "out-record-within-suppression-window", Match: func(cond ssa.Value) (int, int) {
			return withinWindow(cond, isOutRec)
		}}
		var effs []ssa.Instruction
		for _, s := range sends {
			effs = append(effs, s)
		}
		res := core.GateDeep(fn, effs, neg(hasMore), neg(nonceNeq), neg(within))
		key := "suppression-gate:" + tn
		switch {
		case !res.OK:
			c.Viol("R2.5", key, p.Pos(fn.Pos()), "a send is reachable without scanning the out-records for a different-nonce record inside the suppression window; path: "+p.PathString(res.Path))
		case res.PerLit[0] == 0 || res.PerLit[1] == 0 || res.PerLit[2] == 0:
			c.Viol("R2.5", key, p.Pos(fn.Pos()), fmt.Sprintf("suppression gate lacks atoms (range=%d nonce=%d window=%d)", res.PerLit[0], res.PerLit[1], res.PerLit[2]))
		default:
			// per-iteration discipline: inside the loop body the header is reachable
			// only through edges asserting ¬(nonce differs) or ¬(within window)
			cut, _ := core.CutEdges(fn, neg(nonceNeq), neg(within))
			okIter := true
			var hdr *ssa.BasicBlock
			for _, f := range core.EdgeFacts(fn, hasMore) {
				if f.Holds { // edge header → body
					hdr = f.E.From
					path := core.ReachAvoiding(fn, f.E.To, map[*ssa.BasicBlock]bool{hdr: true}, cut)
					if path != nil {
						okIter = false
					}
				}
			}
			c.Decide(okIter && hdr != nil, "R2.5", key, p.Pos(fn.Pos()),
				"sends unreachable unless every out-record failed (nonce differs ∧ within window); drop polarity correct on each iteration",
				"an out-record with a different nonce inside the suppression window does not stop forwarding (the loop continues past it): polarity or conjunct of the suppression test is wrong")
		}
		// strategy-specific shape
		switch tn {
		case "BestRoute":
			// comparator
			okCmp := false
			for _, ci := range core.FindCallsDeep(fn, core.CalleeID{Pkg: "sort", Name: "Slice"}, core.CalleeID{Pkg: "sort", Name: "SliceStable"}) {
				args := ci.Common().Args
				if len(args) != 2 {
					continue
				}
				mc, ok := core.Strip(args[1]).(*ssa.MakeClosure)
				if !ok {
					continue
				}
				less := mc.Fn.(*ssa.Function)
				okCmp = ascendingCost(less)
				c.Decide(okCmp, "R2.5", "best-route-comparator", c.Pos(ci), "sort comparator is Cost[i] < Cost[j] (ascending cost)", "best-route's sort comparator does not order next hops by ascending Cost")
			}
			if !okCmp {
				if len(core.FindCallsDeep(fn, core.CalleeID{Pkg: "sort", Name: "Slice"}, core.CalleeID{Pkg: "sort", Name: "SliceStable"})) == 0 {
					c.Viol("R2.5", "best-route-comparator", p.Pos(fn.Pos()), "best-route does not sort the next hops by cost before choosing")
				}
			}
			for i, ci := range sends {
				sentAtom := &core.Atom{Name: "sent", Match: func(cond ssa.Value) (int, int) {
					if core.Strip(cond) == ci.Value() {
						return 1, -1
					}
					return 0, 0
				}}
				okStop := false
				for _, f := range core.EdgeFacts(ci.Parent(), sentAtom) {
					if f.Holds {
						okStop = true
						for _, other := range sends {
							if core.ReachInstrFrom(core.Point{Block: f.E.To, Idx: 0}, other, nil, nil) != nil {
								okStop = false
							}
						}
					}
				}
				c.Decide(okStop, "R2.5", fmt.Sprintf("best-route-stop-after-success#%d", i), c.Pos(ci), "after a successful send no further send is reachable", "best-route keeps forwarding after a successful send (or ignores the result): more than the lowest-cost usable next hop receives the Interest")
				c.Decide(core.InLoop(ci.Block()), "R2.5", fmt.Sprintf("best-route-tries-all#%d", i), c.Pos(ci), "send is inside the loop over next hops", "best-route does not iterate over the next hops")
				sortCalls := core.FindCallsDeep(fn, core.CalleeID{Pkg: "sort", Name: "Slice"}, core.CalleeID{Pkg: "sort", Name: "SliceStable"})
				if len(sortCalls) > 0 {
					c.Decide(core.PrecedesDeep(fn, ci, func(in ssa.Instruction) bool { return in == ssa.Instruction(sortCalls[0]) }), "R2.5", fmt.Sprintf("best-route-sort-before-send#%d", i), c.Pos(ci), "sort precedes every send", "a send is reachable before the next hops are sorted by cost")
				}
			}
		case "Multicast":
			for i, ci := range sends {
				h := loopHeader(ci.Block())
				okAll := h != nil
				if h != nil {
					for _, s := range h.Succs {
						// body entries: successors of the header that can come back to it
						if core.ReachAvoiding(fn, s, map[*ssa.BasicBlock]bool{h: true}, nil) == nil {
							continue
						}
						if len(h.Instrs) > 0 && core.ReachInstrFrom(core.Point{Block: s, Idx: 0}, h.Instrs[0], nil, func(in ssa.Instruction) bool { return in == ssa.Instruction(ci) }) != nil {
							okAll = false
						}
						// and no function exit from inside the body before the send
						fr := core.MustFollowDeep(fn, core.Point{Block: s, Idx: 0}, func(in ssa.Instruction) bool { return in == ssa.Instruction(ci) }, func(in ssa.Instruction) bool { return in.Block() == h })
						if !fr.OK {
							okAll = false
						}
					}
					if !core.ReachableFrom(core.After(ci), ci) {
						okAll = false
					}
					// after a send every path comes back to the loop header (no break/return)
					if fr := core.MustFollowDeep(fn, core.After(ci), func(in ssa.Instruction) bool { return in.Block() == h }, nil); !fr.OK {
						okAll = false
					}
				}
				c.Decide(okAll, "R2.5", fmt.Sprintf("multicast-sends-to-all#%d", i), c.Pos(ci), "every iteration of the next-hop loop sends, and the loop continues after a send", "multicast does not send to every next hop (send is conditional inside the loop, or the loop ends after a send)")
			}
		}
	}

	// R2.6: duplicate verdict of InsertInterest.
	if ii := c.Fn("R2.6", "fw/table", "PitCsTree", "InsertInterest"); ii != nil {
		var dupReturns []ssa.Instruction
		core.Instrs(ii, func(in ssa.Instruction) {
			if r, ok := in.(*ssa.Return); ok && len(r.Results) == 2 {
				if b, isC := core.ConstBool(r.Results[1]); isC && b {
					dupReturns = append(dupReturns, r)
				} else if !isC {
					c.Und("R2.6", "dup-return-shape", c.Pos(r), "duplicate verdict is not a constant at the return; cannot decide its gates")
				}
			}
		})
		c.Floor("R2.6", "return-duplicate sites", len(dupReturns), 1)
		inFace := ssa.Value(ii.Params[3])
		interest := ssa.Value(ii.Params[1])
		isInRecs := func(v ssa.Value) bool {
			_, ok := core.FieldOf(v, "inRecords")
			if ok {
				return true
			}
			return isCallTo(v, core.CalleeID{Pkg: "fw/table", Recv: "*", Name: "InRecords"})
		}
		otherFace := &core.Atom{Name: "in-record-face!=inFace", Match: func(cond ssa.Value) (int, int) {
			op, x, y, ok := core.Cmp(cond)
			if !ok || (op != token.EQL && op != token.NEQ) {
				return 0, 0
			}
			isKey := func(v ssa.Value) bool {
				if rangeComponent(v, 1, isInRecs) {
					return true
				}
				b, ok := core.FieldOf(v, "Face")
				return ok && rangeComponent(core.Strip(b), 2, isInRecs)
			}
			if (isKey(x) && y == inFace) || (isKey(y) && x == inFace) {
				return core.Iff(op == token.NEQ)
			}
			return 0, 0
		}}
		sameNonce := &core.Atom{Name: "in-record-nonce==interest-nonce", Match: func(cond ssa.Value) (int, int) {
			op, x, y, ok := core.Cmp(cond)
			if !ok || (op != token.EQL && op != token.NEQ) {
				return 0, 0
			}
			isRec := func(v ssa.Value) bool {
				b, ok := core.FieldOf(v, "LatestNonce")
				return ok && rangeComponent(core.Strip(b), 2, isInRecs)
			}
			isInt := func(v ssa.Value) bool { return isDerefFieldLoad(v, interest, "NonceV") }
			if (isRec(x) && isInt(y)) || (isRec(y) && isInt(x)) {
				return core.Iff(op == token.EQL)
			}
			return 0, 0
		}}
		for _, a := range []*core.Atom{otherFace, sameNonce} {
			res := core.GateDeep(ii, dupReturns, pos(a))
			c.Decide(res.OK && res.PassEdges > 0, "R2.6", "dup-enter-gate:"+a.Name, p.Pos(ii.Pos()),
				"'duplicate' is returned only on the edge asserting "+a.Name,
				"InsertInterest can report a duplicate without "+a.Name+" having been established (a retransmission from the same face, or a different nonce, would be dropped as a loop); path: "+p.PathString(res.Path))
		}
	}

	// R2.7: expiry finalizer moves out-record nonces to the DNL.
	if fin := c.Fn("R2.7", "fw/fw", "Thread", "finalizeInterest"); fin != nil {
		ins := core.FindCallsDeep(fin, core.CalleeID{Pkg: "fw/table", Recv: "DeadNonceList", Name: "Insert"})
		okIns := false
		sl := &core.Slicer{P: p}
		for _, ci := range ins {
			_, args := core.CallArgs(ci.Common())
			if len(args) != 2 {
				continue
			}
			good := true
			ls := sl.Leaves(args[1])
			for _, l := range ls {
				if !(l.Kind == "call" && isCallTo(l.Val, core.CalleeID{Pkg: "fw/table", Recv: "PitEntry", Name: "OutRecords"}, core.CalleeID{Pkg: "fw/table", Recv: "PitEntry", Name: "GetOutRecords"}) && strings.HasSuffix(strings.Join(l.Via, ""), ".LatestNonce")) {
					good = false
				}
			}
			h := loopHeader(ci.Block())
			uncond := h != nil
			if h != nil {
				for _, s := range h.Succs {
					if core.ReachAvoiding(fin, s, map[*ssa.BasicBlock]bool{h: true}, nil) == nil {
						continue
					}
					if core.ReachInstrFrom(core.Point{Block: s, Idx: 0}, h.Instrs[0], nil, func(in ssa.Instruction) bool { return in == ssa.Instruction(ci) }) != nil {
						uncond = false
					}
				}
			}
			if good && len(ls) > 0 && uncond {
				okIns = true
			}
		}
		c.Decide(okIns, "R2.7", "finalizer-records-nonces", p.Pos(fin.Pos()), "finalizeInterest inserts the LatestNonce of every out-record into the dead nonce list", "finalizeInterest does not insert every out-record nonce of the expiring entry into the dead nonce list")
	}
	if nt := c.Fn("R2.7", "fw/fw", "", "NewThread"); nt != nil {
		ok := false
		for _, ci := range core.FindCallsDeep(nt, core.CalleeID{Pkg: "fw/table", Name: "NewPitCS"}) {
			if mc, isMC := core.Strip(ci.Common().Args[0]).(*ssa.MakeClosure); isMC {
				if strings.HasPrefix(mc.Fn.Name(), "finalizeInterest") {
					ok = true
				}
			}
		}
		c.Decide(ok, "R2.7", "finalizer-registered", p.Pos(nt.Pos()), "NewThread registers finalizeInterest as the PIT expiry callback", "NewThread does not register Thread.finalizeInterest as the PIT expiry callback")
	}
	if up := c.Fn("R2.7", "fw/table", "PitCsTree", "Update"); up != nil {
		isExp := func(in ssa.Instruction) bool {
			cl, ok := in.(*ssa.Call)
			if !ok || cl.Call.IsInvoke() || cl.Call.StaticCallee() != nil {
				return false
			}
			_, ok = core.FieldOf(cl.Call.Value, "onExpiration")
			return ok
		}
		rem := core.FindCallsDeep(up, core.CalleeID{Pkg: "fw/table", Recv: "PitCsTree", Name: "RemoveInterest"})
		c.Floor("R2.7", "RemoveInterest in Update", len(rem), 1)
		for _, r := range rem {
			c.Decide(core.PrecedesDeep(up, r, isExp) && core.InLoop(r.Block()), "R2.7", "expiry-callback-before-remove", c.Pos(r), "onExpiration(entry) precedes RemoveInterest(entry) in the reaper loop", "an expired PIT entry is removed without its expiry callback having run (its nonces never reach the dead nonce list)")
		}
	}

	// R2.8b: the packet the pipeline edits IS the packet it sends. The link service hands up
	// the parsed packet (Pkt.L3, whose HopLimitV points into the buffer it was parsed from)
	// together with the bytes that are forwarded (Pkt.Raw): both must be the same buffer, or
	// the hop-limit decrement edits a copy and the original hop limit goes out (for a
	// reassembled message, Join copies).
	if hif := c.Fn("R2.8", "fw/face", "NDNLPLinkService", "handleIncomingFrame"); hif != nil {
		type stv struct {
			in  ssa.Instruction
			val ssa.Value
		}
		var raws, l3s []stv
		core.InstrsDeep(hif, func(in ssa.Instruction) {
			if _, v, ok := storeToField(in, "Pkt", "Raw"); ok {
				raws = append(raws, stv{in, v})
			}
			if _, v, ok := storeToField(in, "Pkt", "L3"); ok {
				l3s = append(l3s, stv{in, v})
			}
		})
		nPair := 0
		for i, l3 := range l3s {
			// the buffer the packet was parsed from
			var src ssa.Value
			v := core.Strip(l3.val)
			if ex, ok := v.(*ssa.Extract); ok {
				v = ex.Tuple
			}
			if cl, ok := v.(*ssa.Call); ok {
				if id, okID := core.Callee(&cl.Call); okID && id.Name == "ReadPacket" && len(cl.Call.Args) > 0 {
					rd := core.Strip(cl.Call.Args[len(cl.Call.Args)-1])
					if mi, isMI := rd.(*ssa.MakeInterface); isMI {
						rd = core.Strip(mi.X)
					}
					if rc, isC := rd.(*ssa.Call); isC && len(rc.Call.Args) == 1 {
						if rid, okR := core.Callee(&rc.Call); okR && (rid.Name == "NewBufferReader" || rid.Name == "NewWireReader") {
							src = rc.Call.Args[0]
						}
					}
				}
			}
			// the Raw stored on the same path (same block, else the nearest dominating one)
			var raw *stv
			for j := range raws {
				if raws[j].in.Block() == l3.in.Block() {
					raw = &raws[j]
				}
			}
			if raw == nil {
				for j := range raws {
					if raws[j].in.Parent() == l3.in.Parent() && raws[j].in.Block().Dominates(l3.in.Block()) {
						raw = &raws[j]
					}
				}
			}
			if raw == nil {
				continue
			}
			nPair++
			ok := src != nil && (core.Strip(src) == core.Strip(raw.val) || core.Same(src, raw.val))
			c.Decide(ok, "R2.8", fmt.Sprintf("parsed-packet-is-the-forwarded-buffer#%d", i), c.Pos(l3.in), "Pkt.L3 is parsed from the buffer stored as Pkt.Raw", "the link service parses the network packet from another buffer ("+describeValue(src)+") than the one it hands up as Pkt.Raw ("+describeValue(raw.val)+"): fields that alias the parsed buffer (HopLimitV) are edited in a copy, and the forwarded bytes keep the hop limit that arrived")
		}
		c.Floor("R2.8", "Pkt.L3 / Pkt.Raw pairs handed up by the link service", nPair, 1)
	}
	// R2.8: HopLimitV points into the wire buffer.
	if ps := c.Fn("R2.8", "std/ndn/spec_2022", "InterestParsingContext", "Parse"); ps != nil {
		n := 0
		core.Instrs(ps, func(in ssa.Instruction) {
			st, ok := in.(*ssa.Store)
			if !ok {
				return
			}
			fa, ok := st.Addr.(*ssa.FieldAddr)
			if !ok {
				return
			}
			if t, f := core.FieldAddrName(fa); t != "Interest" || f != "HopLimitV" {
				return
			}
			if core.IsNilConst(st.Val) {
				return
			}
			n++
			root := st.Val
			for {
				switch x := core.Strip(root).(type) {
				case *ssa.IndexAddr:
					root = x.X
					continue
				case *ssa.UnOp:
					if x.Op == token.MUL {
						root = x.X
						continue
					}
				case *ssa.Slice:
					root = x.X
					continue
				}
				break
			}
			ok = isCallTo(root, core.CalleeID{Pkg: "std/encoding", Recv: "ParseReader", Name: "Range"})
			c.Decide(ok, "R2.8", "hoplimit-aliases-wire", c.Pos(st), "Interest.HopLimitV is an address inside reader.Range(...): the decrement edits the bytes that are forwarded", "Interest.HopLimitV does not point into the reader's buffer ("+describeValue(root)+"): the forwarder decrements a copy and forwards the original hop limit")
		})
		c.Floor("R2.8", "non-nil stores to Interest.HopLimitV", n, 1)
	}
}

func calleeName(in ssa.Instruction) string {
	if ci, ok := in.(ssa.CallInstruction); ok {
		if id, ok := core.Callee(ci.Common()); ok {
			return id.Name
		}
	}
	return "?"
}

// findL3 finds the value packet.L3.<which> in fn.
func findL3(fn *ssa.Function, pkt ssa.Value, which string) ssa.Value {
	var out ssa.Value
	core.Instrs(fn, func(in ssa.Instruction) {
		if v, ok := in.(*ssa.UnOp); ok && out == nil && v.Op == token.MUL {
			if root, path := core.FieldPath(v); root == pkt && len(path) == 2 && path[0] == "L3" && path[1] == which {
				out = v
			}
		}
	})
	return out
}

func adHocConst(p *core.Prog) int64 {
	pk := p.Pkgs[core.ModPath+"/fw/defn"]
	if pk == nil {
		return -999
	}
	if o, ok := pk.Types.Scope().Lookup("AdHoc").(*types.Const); ok {
		if v, ok := constInt64(o); ok {
			return v
		}
	}
	return -999
}

// withinWindow recognises "record.LatestTimestamp + T is after now" and equivalent forms.
func withinWindow(cond ssa.Value, isRec func(ssa.Value) bool) (int, int) {
	isNow := func(v ssa.Value) bool { return isCallTo(v, core.CalleeID{Pkg: "time", Name: "Now"}) }
	isDeadline := func(v ssa.Value) bool {
		cl, ok := core.Strip(v).(*ssa.Call)
		if !ok {
			return false
		}
		if _, ok := core.IsCall(cl, core.CalleeID{Pkg: "time", Recv: "Time", Name: "Add"}); !ok {
			return false
		}
		r, _ := core.CallArgs(&cl.Call)
		b, ok := core.FieldOf(r, "LatestTimestamp")
		return ok && isRec(core.Strip(b))
	}
	if cl, ok := core.Strip(cond).(*ssa.Call); ok {
		r, args := core.CallArgs(&cl.Call)
		if _, ok := core.IsCall(cl, core.CalleeID{Pkg: "time", Recv: "Time", Name: "After"}); ok && len(args) == 1 {
			if isDeadline(r) && isNow(args[0]) {
				return 1, -1
			}
			if isNow(r) && isDeadline(args[0]) {
				return -1, 1
			}
		}
		if _, ok := core.IsCall(cl, core.CalleeID{Pkg: "time", Recv: "Time", Name: "Before"}); ok && len(args) == 1 {
			if isNow(r) && isDeadline(args[0]) {
				return 1, -1
			}
			if isDeadline(r) && isNow(args[0]) {
				return -1, 1
			}
		}
		return 0, 0
	}
	// time.Since(ts) < T
	op, x, y, ok := core.Cmp(cond)
	if !ok {
		return 0, 0
	}
	isSince := func(v ssa.Value) bool {
		cl, ok := core.Strip(v).(*ssa.Call)
		if !ok {
			return false
		}
		if _, ok := core.IsCall(cl, core.CalleeID{Pkg: "time", Name: "Since"}); !ok {
			return false
		}
		b, ok := core.FieldOf(cl.Call.Args[0], "LatestTimestamp")
		return ok && isRec(core.Strip(b))
	}
	if isSince(y) {
		x, y = y, x
		op = core.Swap(op)
	}
	if !isSince(x) {
		return 0, 0
	}
	if _, isC := core.ConstInt(y); !isC {
		return 0, 0
	}
	switch op {
	case token.LSS, token.LEQ:
		return 1, -1
	case token.GTR, token.GEQ:
		return -1, 1
	}
	return 0, 0
}

// ascendingCost: the comparator closure returns s[i].Cost < s[j].Cost.
func ascendingCost(less *ssa.Function) bool {
	if len(less.Params) != 2 {
		return false
	}
	ok := false
	core.Instrs(less, func(in ssa.Instruction) {
		r, isR := in.(*ssa.Return)
		if !isR || len(r.Results) != 1 {
			return
		}
		op, x, y, isCmp := core.Cmp(r.Results[0])
		if !isCmp {
			return
		}
		idx := func(v ssa.Value) ssa.Value {
			b, okF := core.FieldOf(v, "Cost")
			if !okF {
				return nil
			}
			u, okU := core.Strip(b).(*ssa.UnOp)
			if !okU {
				return nil
			}
			ia, okI := u.X.(*ssa.IndexAddr)
			if !okI {
				return nil
			}
			return ia.Index
		}
		ix, iy := idx(x), idx(y)
		i, j := ssa.Value(less.Params[0]), ssa.Value(less.Params[1])
		if (op == token.LSS && ix == i && iy == j) || (op == token.GTR && ix == j && iy == i) {
			ok = true
		}
	})
	return ok
}

// c02DeadNonceKeys — R2.11: the dead nonce list is keyed by the name of the INTEREST that was
// sent (that is what a looping copy carries and what the lookup uses): no Insert takes its
// name from a Data packet. R2.12: where Data satisfies several PIT entries, the nonces
// recorded as dead in each iteration are those of the entry at hand — the out-records read
// inside the loop over the matched entries belong to the loop's element, not to a fixed
// element of the list.
func c02DeadNonceKeys(c *core.Ctx) {
	p := c.P
	nIns := 0
	for _, fn := range p.FuncsIn(core.ModPath + "/fw/fw") {
		if strings.HasSuffix(p.File(fn.Pos()), "_test.go") {
			continue
		}
		core.Instrs(fn, func(in ssa.Instruction) {
			ci, ok := in.(ssa.CallInstruction)
			if !ok {
				return
			}
			id, ok := core.Callee(ci.Common())
			if !ok || id.Recv != "DeadNonceList" || id.Name != "Insert" {
				return
			}
			_, args := core.CallArgs(ci.Common())
			if len(args) != 2 {
				return
			}
			nIns++
			c.Funcs[core.FuncName(fn)] = true
			_, path := core.FieldPath(args[0])
			fromData := false
			for i, f := range path {
				if f == "Data" || (f == "NameV" && i > 0 && path[i-1] == "Data") {
					fromData = true
				}
			}
			if u, isU := core.Strip(args[0]).(*ssa.UnOp); isU && !fromData {
				if fa, isFA := u.X.(*ssa.FieldAddr); isFA {
					if tn, _ := core.FieldAddrName(fa); tn == "Data" {
						fromData = true
					}
				}
			}
			c.Decide(!fromData, "R2.11", fmt.Sprintf("dead-nonce-keyed-by-interest-name:%s#%d", core.FuncName(fn), nIns), c.Pos(in), "the record is made under a name that does not come from a Data packet", core.FuncName(fn)+" records a nonce as dead under the name of the Data: the lookup uses the name of the incoming Interest, which the Data name only equals for an exact-name Interest — a CanBePrefix (or implicit-digest) Interest answered by a longer-named Data never becomes dead, and a looping copy with its nonce is forwarded again")
		})
	}
	c.Floor("R2.11", "dead-nonce insertions in the forwarding thread", nIns, 3)
	// R2.11b the key of a dead-nonce record identifies the PAIR (name, nonce): it is not an
	// arithmetic combination of the name hash and the nonce (their sum collides whenever
	// two name hashes differ by less than 2^32: the first Interest for one name is dropped
	// as dead because an Interest for another name is)
	{
		nKey, badKey := 0, ""
		for _, fn := range p.FuncsIn(core.ModPath + "/fw/table") {
			if strings.HasSuffix(p.File(fn.Pos()), "_test.go") || !strings.Contains(core.FuncName(fn), "DeadNonceList") {
				continue
			}
			core.Instrs(fn, func(in ssa.Instruction) {
				var key ssa.Value
				switch x := in.(type) {
				case *ssa.Lookup:
					if _, ok := core.FieldOf(x.X, "list"); ok {
						key = x.Index
					}
				case *ssa.MapUpdate:
					if _, ok := core.FieldOf(x.Map, "list"); ok {
						key = x.Key
					}
				}
				if key == nil {
					return
				}
				nKey++
				if b, isB := core.StripConv(key).(*ssa.BinOp); isB {
					switch b.Op {
					case token.ADD, token.XOR, token.OR, token.SUB, token.MUL:
						badKey = core.FuncName(fn) + " at " + c.Pos(in)
					}
				}
			})
		}
		c.Decide(badKey == "", "R2.11", "dead-nonce-key-is-the-pair", "-", fmt.Sprintf("%d accesses to the dead-nonce map, none keyed by an arithmetic mix of name hash and nonce", nKey), "the Dead Nonce List keys a record by an arithmetic combination of the name hash and the nonce ("+badKey+"): different (name, nonce) pairs share a record whenever the hashes differ by less than 2^32 — the first Interest for one name, with a fresh nonce, is dropped as dead because an Interest for another name was recorded")
		c.Floor("R2.11", "accesses to the dead-nonce map", nKey, 2)
	}
	// R2.14 "best-route uses the lowest-cost usable next hop": a next hop is excluded
	// because of an in-record of its face only while that in-record is unexpired — the
	// admission of a next hop is reachable over an edge asserting that the record's
	// expiration time is not after now
	if pii := c.Fn("R2.14", "fw/fw", "Thread", "processIncomingInterest"); pii != nil {
		var admits []ssa.Instruction
		core.Instrs(pii, func(in ssa.Instruction) {
			if cl, ok := isBuiltinCall(in, "append"); ok && core.InLoop(cl.Block()) {
				if sl, isS := cl.Type().Underlying().(*types.Slice); isS {
					if pt, isP := sl.Elem().Underlying().(*types.Pointer); isP {
						if nt, isN := pt.Elem().(*types.Named); isN && nt.Obj().Name() == "FibNextHopEntry" {
							admits = append(admits, in)
						}
					}
				}
			}
		})
		alive := &core.Atom{Name: "in-record expiration is after now", Match: func(cond ssa.Value) (int, int) {
			return timeAfterStrict(cond, func(v ssa.Value) bool {
				_, path := core.FieldPath(v)
				return len(path) > 0 && path[len(path)-1] == "ExpirationTime"
			}, func(v ssa.Value) bool { return isTimeNow(v) })
		}}
		via := false
		for _, f := range core.EdgeFacts(pii, alive) {
			if f.Holds {
				continue
			}
			for _, a := range admits {
				if core.ReachInstrFrom(core.Point{Block: f.E.To, Idx: 0}, a, nil, nil) != nil || f.E.To == a.Block() {
					via = true
				}
			}
		}
		if len(admits) > 0 {
			c.Decide(via, "R2.14", "expired-in-record-does-not-exclude-its-face", p.Pos(pii.Pos()), "a next hop whose face has an in-record is admitted again once that record has expired", "processIncomingInterest excludes every next hop whose face has an in-record, expired or not; expired in-records stay while other consumers keep the PIT entry alive, so a face whose own Interest expired long ago stays unusable: a retransmission past the suppression interval is not forwarded when that face is the only next hop, and best-route picks a costlier one otherwise")
		}
	}
	if pid := c.Fn("R2.12", "fw/fw", "Thread", "processIncomingData"); pid != nil {
		nLoop, bad := 0, ""
		core.InstrsDeep(pid, func(in ssa.Instruction) {
			ci, ok := in.(ssa.CallInstruction)
			if !ok || !ci.Common().IsInvoke() {
				return
			}
			m := ci.Common().Method.Name()
			if m != "GetOutRecords" && m != "OutRecords" {
				return
			}
			if !core.InLoop(in.Block()) {
				return
			}
			// receiver: element of a slice at a CONSTANT index, inside a loop over that slice
			recv := core.Strip(ci.Common().Value)
			if u, isU := recv.(*ssa.UnOp); isU && u.Op == token.MUL {
				if ia, isIA := u.X.(*ssa.IndexAddr); isIA {
					nLoop++
					if _, isC := core.ConstInt(ia.Index); isC {
						bad = c.Pos(in)
					}
				}
			}
		})
		c.Decide(bad == "", "R2.12", "multi-match-records-each-entrys-nonces", p.Pos(pid.Pos()), fmt.Sprintf("%d out-record reads inside the loop over matched entries, none at a fixed index", nLoop), "processIncomingData reads the out-records of a fixed element of the match list ("+bad+") inside the loop over the matched entries: only the first entry's nonces are recorded as dead, the others' out-records are cleared unrecorded and a looping copy of those Interests is forwarded again")
	}
}
