package props

import (
	"strconv"
	"fmt"
	"go/ast"
	"go/constant"
	"go/token"
	"go/types"
	"sort"
	"strings"

	"ndndcheck/core"

	"golang.org/x/tools/go/packages"
	"golang.org/x/tools/go/ssa"
)

// caseRow is one row of a number-code table extracted from a switch case.
type caseRow struct {
	Op      string  // "<=", "==", "default"
	Thr     uint64  // threshold constant
	Consts  []int64 // integer constants added / assigned / returned in the body
	Markers []int64 // constants assigned to an index expression (marker / length byte)
	Puts    []string
}

func (r caseRow) String() string {
	return fmt.Sprintf("%s%#x→consts%v markers%v %v", r.Op, r.Thr, r.Consts, r.Markers, r.Puts)
}

func constOf(pk *packages.Package, e ast.Expr) (int64, bool) {
	tv, ok := pk.TypesInfo.Types[e]
	if !ok || tv.Value == nil {
		return 0, false
	}
	v := constant.ToInt(tv.Value)
	if v.Kind() != constant.Int {
		return 0, false
	}
	if i, ok := constant.Int64Val(v); ok {
		return i, true
	}
	u, ok := constant.Uint64Val(v)
	return int64(u), ok
}

// extractSwitch turns a tagless/tagged switch with constant comparisons into rows.
func extractSwitch(pk *packages.Package, sw *ast.SwitchStmt) ([]caseRow, bool) {
	var rows []caseRow
	for _, st := range sw.Body.List {
		cc, ok := st.(*ast.CaseClause)
		if !ok {
			return nil, false
		}
		row := caseRow{}
		if cc.List == nil {
			row.Op = "default"
		} else {
			if len(cc.List) != 1 {
				return nil, false
			}
			switch e := cc.List[0].(type) {
			case *ast.BinaryExpr:
				k, ok := constOf(pk, e.Y)
				if !ok {
					return nil, false
				}
				row.Op = e.Op.String()
				row.Thr = uint64(k)
			default:
				k, ok := constOf(pk, e)
				if !ok {
					return nil, false
				}
				row.Op = "=="
				row.Thr = uint64(k)
			}
		}
		fillRow(pk, &row, cc.Body)
		rows = append(rows, row)
	}
	return rows, true
}

// fillRow collects the constants, marker bytes and Put/Uint calls of a table row's body.
func fillRow(pk *packages.Package, rowp *caseRow, body []ast.Stmt) {
	row := *rowp
	defer func() { *rowp = row }()
	{
		for _, s := range body {
			ast.Inspect(s, func(n ast.Node) bool {
				switch x := n.(type) {
				case *ast.AssignStmt:
					if len(x.Lhs) == 1 && len(x.Rhs) == 1 {
						if k, ok := constOf(pk, x.Rhs[0]); ok {
							if _, isIdx := x.Lhs[0].(*ast.IndexExpr); isIdx {
								row.Markers = append(row.Markers, k)
							} else {
								row.Consts = append(row.Consts, k)
							}
						}
					}
				case *ast.ReturnStmt:
					for _, r := range x.Results {
						if k, ok := constOf(pk, r); ok {
							row.Consts = append(row.Consts, k)
						}
					}
				case *ast.CallExpr:
					if se, ok := x.Fun.(*ast.SelectorExpr); ok {
						n := se.Sel.Name
						if strings.HasPrefix(n, "PutUint") || strings.HasPrefix(n, "Uint") {
							row.Puts = append(row.Puts, n)
						}
					}
					// a width handed to a helper of the package (readTail(r, 2))
					if id, ok := x.Fun.(*ast.Ident); ok && id.Obj != nil {
						for _, a := range x.Args {
							if k, ok := constOf(pk, a); ok {
								row.Consts = append(row.Consts, k)
							}
						}
					}
				}
				return true
			})
		}
	}
}

// extractIfChain reads the same kind of table written as a chain of
// `if x <op> K { …; return }` statements (or if / else-if / else) followed by the default
// case as the remaining statements of the block.
func extractIfChain(pk *packages.Package, stmts []ast.Stmt) ([]caseRow, bool) {
	var rows []caseRow
	var rest []ast.Stmt
	cond := func(e ast.Expr) (caseRow, bool) {
		be, ok := e.(*ast.BinaryExpr)
		if !ok {
			return caseRow{}, false
		}
		k, ok := constOf(pk, be.Y)
		if !ok {
			return caseRow{}, false
		}
		return caseRow{Op: be.Op.String(), Thr: uint64(k)}, true
	}
	started := false
	for i, st := range stmts {
		is, ok := st.(*ast.IfStmt)
		if !ok {
			if _, isDecl := st.(*ast.DeclStmt); isDecl && started {
				continue // a declaration between the rows (var l int)
			}
			if started {
				rest = stmts[i:]
				break
			}
			continue // declarations before the table
		}
		for is != nil {
			row, ok := cond(is.Cond)
			if !ok {
				if started {
					return nil, false
				}
				break
			}
			started = true
			fillRow(pk, &row, is.Body.List)
			rows = append(rows, row)
			switch e := is.Else.(type) {
			case *ast.IfStmt:
				is = e
			case *ast.BlockStmt:
				d := caseRow{Op: "default"}
				fillRow(pk, &d, e.List)
				rows = append(rows, d)
				return rows, len(rows) >= 2
			default:
				is = nil
			}
		}
	}
	if !started || len(rows) < 2 {
		return nil, false
	}
	d := caseRow{Op: "default"}
	fillRow(pk, &d, rest)
	rows = append(rows, d)
	return rows, true
}

type tableForm struct {
	name string
	thr  []uint64 // thresholds of the non-default rows
	op   string
}

var (
	tlThr  = []uint64{0xfc, 0xffff, 0xffffffff}
	natThr = []uint64{0xff, 0xffff, 0xffffffff}
)

func thresholds(rows []caseRow) (op string, thr []uint64, hasDefault bool) {
	for _, r := range rows {
		if r.Op == "default" {
			hasDefault = true
			continue
		}
		if op == "" {
			op = r.Op
		}
		thr = append(thr, r.Thr)
	}
	return
}

func eqU(a, b []uint64) bool {
	if len(a) != len(b) {
		return false
	}
	for i := range a {
		if a[i] != b[i] {
			return false
		}
	}
	return true
}

func hasConst(r caseRow, k int64) bool {
	for _, x := range r.Consts {
		if x == k {
			return true
		}
	}
	return false
}
func hasMarker(r caseRow, k int64) bool {
	for _, x := range r.Markers {
		if x == k {
			return true
		}
	}
	return false
}
func hasPut(r caseRow, suffix string) bool {
	for _, x := range r.Puts {
		if strings.HasSuffix(x, suffix) {
			return true
		}
	}
	return false
}

// checkSizeTable verifies an ascending "x <= T" table. form "TL": sizes 1,3,5,9 with
// markers 0xfd,0xfe,0xff when it writes; form "NatLV": natural with its one-byte length
// prefix: sizes 2,3,5,9 with length bytes 1,2,4,8; form "Nat": bare natural 1,2,4,8.
func checkSizeTable(rows []caseRow, form string) string {
	op, thr, def := thresholds(rows)
	if op != "<=" || !def || len(rows) != 4 {
		return "not a 3-threshold '<=' table with default"
	}
	var wantThr []uint64
	var sizes, marks []int64
	switch form {
	case "TL":
		wantThr, sizes, marks = tlThr, []int64{1, 3, 5, 9}, []int64{-1, 0xfd, 0xfe, 0xff}
	case "NatLV":
		wantThr, sizes, marks = natThr, []int64{2, 3, 5, 9}, []int64{1, 2, 4, 8}
	case "Nat":
		wantThr, sizes, marks = natThr, []int64{1, 2, 4, 8}, []int64{-1, -1, -1, -1}
	}
	if !eqU(thr, wantThr) {
		return fmt.Sprintf("thresholds %#x, want %#x", thr, wantThr)
	}
	puts := []string{"", "16", "32", "64"}
	for i, r := range rows {
		if !hasConst(r, sizes[i]) {
			return fmt.Sprintf("row %d (%s): size constants %v, want %d", i, r.Op, r.Consts, sizes[i])
		}
		writes := len(r.Markers) > 0 || len(r.Puts) > 0
		if writes {
			if marks[i] >= 0 && !hasMarker(r, marks[i]) {
				return fmt.Sprintf("row %d: marker/length byte %v, want %#x", i, r.Markers, marks[i])
			}
			if puts[i] != "" && !hasPut(r, puts[i]) {
				return fmt.Sprintf("row %d: writes with %v, want PutUint%s", i, r.Puts, puts[i])
			}
			if puts[i] == "" && len(r.Puts) > 0 {
				return fmt.Sprintf("row %d: one-byte form calls %v", i, r.Puts)
			}
		}
	}
	return ""
}

// subjectOf returns the expression switched on (x := <expr>) and whether it denotes a
// length (len(..), *_length, *.length, *_estLen, EncodingLength()).
func subjectOf(sw *ast.SwitchStmt) (ast.Expr, bool) {
	var e ast.Expr
	if as, ok := sw.Init.(*ast.AssignStmt); ok && len(as.Rhs) == 1 {
		e = as.Rhs[0]
	} else if sw.Tag != nil {
		e = sw.Tag
	}
	if e == nil {
		return nil, false
	}
	isLen := false
	inner := e
	for {
		if c, ok := inner.(*ast.CallExpr); ok && len(c.Args) == 1 {
			if id, ok := c.Fun.(*ast.Ident); ok && (id.Name == "uint" || id.Name == "int" || id.Name == "uint64") {
				inner = c.Args[0]
				continue
			}
		}
		if p, ok := inner.(*ast.ParenExpr); ok {
			inner = p.X
			continue
		}
		break
	}
	switch x := inner.(type) {
	case *ast.CallExpr:
		if id, ok := x.Fun.(*ast.Ident); ok && id.Name == "len" {
			isLen = true
		}
		if se, ok := x.Fun.(*ast.SelectorExpr); ok && se.Sel.Name == "EncodingLength" {
			isLen = true
		}
	case *ast.SelectorExpr:
		// fields of the encoder object (computed lengths), not of the model value
		root := ast.Expr(x)
		for {
			if se, ok := root.(*ast.SelectorExpr); ok {
				root = se.X
				continue
			}
			break
		}
		n := x.Sel.Name
		if id, ok := root.(*ast.Ident); ok && id.Name == "encoder" &&
			(n == "length" || strings.HasSuffix(n, "_length") || strings.HasSuffix(n, "_estLen")) {
			isLen = true
		}
	case *ast.Ident:
		n := x.Name
		if n == "l" || strings.HasSuffix(n, "length") || strings.HasSuffix(n, "Len") {
			isLen = true
		}
	}
	return e, isLen
}

// C03 — Interest and Data survive encode→decode unchanged (length-field clause).
func C03(c *core.Ctx) {
	c.Explain = "Round-trip equality quantifies over values and is NOT decided. Decided structural necessary condition: every TLV length field is written in the TL-number code (1/3/5/9 bytes with 0xfd/0xfe/0xff markers) and sized consistently. (R3.1 units) no value derived from len(..) or an EncodingLength() result is converted to enc.Nat and then sized/encoded — the NonNegativeInteger code (1/2/4/8, no marker) agrees with the TL code only below 253; checked by backward provenance of the receiver of every Nat.EncodingLength/EncodeInto/Bytes call in all non-test packages; (R3.2 tables) the threshold→size/marker tables of TLNum.EncodingLength, TLNum.EncodeInto, ParseTLNum, ReadTLNum and of Nat.EncodingLength, Nat.EncodeInto, ParseNat are extracted from the syntax tree and compared with the NDN TLV number codes; (R3.3) every size switch of every generated encoder (all zz_generated.go files, discovered by scanning) is one of the two canonical tables, the TL table wherever the subject is a length, and the subjects sized in Init are the subjects written in EncodeInto with the same table."
	c.RuleText = "instances: every Nat method call site (receiver provenance), the 7 primitive functions, every switch statement over integer thresholds in every generated file. Non-trivial = a table with ≥1 row or a receiver with ≥1 provenance leaf."
	p := c.P
	defer c03SizedAsWritten(c)
	// ---- R3.22 (shared with C12 R12.3 / R12.7) "any combination of optional fields, with
	// parameters supplied as any number of buffers": whether an Interest carries parameters
	// is decided by the presence of the element (the decoded wire != nil), not by its
	// length — an empty ApplicationParameters element decodes to an empty, non-nil wire from
	// one reader and to a zero-length one from the other, and the digest check must treat
	// both alike
	defer c.Import(C12, "R3.22", "checkInterest decides 'carries parameters' by something else than the presence of the decoded element: an Interest with empty parameters decodes from a contiguous buffer and is refused (or its digest left unchecked) from a segmented one", 2, func(k string) bool {
		return strings.HasPrefix(k, "R12.3:params-digest-gate:") || strings.HasPrefix(k, "R12.7:digest-component-needs-parameters")
	})
	defer c03OneOctetThreshold(c)
	defer c03NameReserveNotCapped(c)
	defer c03ReaderBase(c)
	defer c03EmptyNameAccepted(c)

	// ---- R3.1 units
	sl := &core.Slicer{P: p, Arith: true}
	nNat := 0
	for _, fn := range p.Funcs() {
		if fn.Pkg == nil {
			continue
		}
		if strings.Contains(fn.Pkg.Pkg.Path(), "/examples/") {
			continue
		}
		core.Instrs(fn, func(in ssa.Instruction) {
			cc, ok := core.IsCall(in, core.CalleeID{Pkg: "std/encoding", Recv: "Nat", Name: "EncodingLength"}, core.CalleeID{Pkg: "std/encoding", Recv: "Nat", Name: "EncodeInto"}, core.CalleeID{Pkg: "std/encoding", Recv: "Nat", Name: "Bytes"})
			if !ok {
				return
			}
			if core.FuncID(fn).Recv == "Nat" {
				return // Nat.Bytes calling its own methods
			}
			nNat++
			c.Sites++
			recv, _ := core.CallArgs(cc)
			leaves := sl.Leaves(recv)
			bad := ""
			for _, l := range leaves {
				if cl, ok := l.Val.(*ssa.Call); ok {
					if id, ok := core.Callee(&cl.Call); ok && ((id.Pkg == "builtin" && id.Name == "len") || id.Name == "EncodingLength") {
						bad = l.Desc()
					}
				}
			}
			key := fmt.Sprintf("length-as-nat:%s:%s", core.FuncName(fn), calleeName(in))
			c.Decide(bad == "", "R3.1", key, c.Pos(in), "receiver is a natural-number value: "+core.LeafSet(leaves), "a length ("+bad+") is encoded/sized with the NonNegativeInteger code enc.Nat instead of the TLV length code enc.TLNum: for lengths ≥ 253 the written length field is wrong and the element is undecodable")
		})
	}
	c.Floor("R3.1", "Nat method call sites", nNat, 4)
	// positive form for the hand-written writers: the length is sized/written as a TLNum
	for _, w := range [][3]string{{"Component", "EncodingLength", "EncodingLength"}, {"Component", "EncodeInto", "EncodeInto"}, {"Name", "Bytes", "EncodingLength"}, {"Name", "Bytes", "EncodeInto"}} {
		fn := c.Fn("R3.1", "std/encoding", w[0], w[1])
		if fn == nil {
			continue
		}
		found := false
		// the receiver is a length: len(...) / EncodingLength(), directly or as what a small
		// accessor of the package returns (Component.Length() is TLNum(len(c.Val)))
		var isLength func(v ssa.Value, depth int) bool
		isLength = func(v ssa.Value, depth int) bool {
			for _, l := range sl.Leaves(v) {
				cl, ok := l.Val.(*ssa.Call)
				if !ok {
					continue
				}
				if id, ok := core.Callee(&cl.Call); ok && ((id.Pkg == "builtin" && id.Name == "len") || id.Name == "EncodingLength") {
					return true
				}
				if cal := cl.Call.StaticCallee(); cal != nil && cal.Blocks != nil && cal.Pkg == fn.Pkg && depth < 2 && len(cal.Blocks) <= 2 {
					ok := false
					core.Instrs(cal, func(in ssa.Instruction) {
						if r, isR := in.(*ssa.Return); isR && len(r.Results) == 1 && isLength(r.Results[0], depth+1) {
							ok = true
						}
					})
					if ok {
						return true
					}
				}
			}
			return false
		}
		for _, ci := range core.FindCallsDeep(fn, core.CalleeID{Pkg: "std/encoding", Recv: "TLNum", Name: w[2]}) {
			recv, _ := core.CallArgs(ci.Common())
			if isLength(recv, 0) {
				found = true
			}
		}
		c.Decide(found, "R3.1", "length-as-tlnum:"+w[0]+"."+w[1]+":"+w[2], p.Pos(fn.Pos()), "the value length goes through TLNum."+w[2], w[0]+"."+w[1]+" does not size/write its length field with TLNum."+w[2])
	}

	// ---- R3.4 ShrinkLength may return a re-sliced buffer: its result must replace the
	// buffer it was given (wire[k] = ShrinkLength(wire[k], n)), on every call
	nShrink := 0
	for _, fn := range p.Funcs() {
		for _, ci := range core.FindCallsDeep(fn, core.CalleeID{Pkg: "std/encoding", Name: "ShrinkLength"}) {
			nShrink++
			c.Funcs[core.FuncName(fn)] = true
			arg := ci.Common().Args[0]
			stored := false
			if v := ci.Value(); v != nil {
				for _, r := range core.Refs(v) {
					if st, ok := r.(*ssa.Store); ok && st.Val == ssa.Value(v) {
						// stored into the slot the argument was loaded from
						if u, ok := core.Strip(arg).(*ssa.UnOp); ok && core.Same(u.X, st.Addr) {
							stored = true
						}
					}
				}
			}
			c.Decide(stored, "R3.4", "shrink-result-stored-back:"+core.FuncName(fn), c.Pos(ci), "the shrunk buffer replaces the original slot", core.FuncName(fn)+" discards the buffer returned by ShrinkLength: when the shorter length needs fewer length bytes the packet keeps its stale, longer header and the outer length field is wrong")
		}
	}
	c.Floor("R3.4", "ShrinkLength call sites", nShrink, 2)
	// ... and everything ShrinkLength writes lies inside the buffer it returns: for a
	// return of buf[d:] every header write that can precede it goes to buf[d+…:]
	if sh := c.Fn("R3.4", "std/encoding", "", "ShrinkLength"); sh != nil {
		// the value stays where it is: MakeData / MakeInterest have handed out slices of the
		// buffer before the outer length is shrunk (the signed portion, the name whose digest
		// component is patched) — a shrink that moves the value instead of the header leaves
		// them pointing at shifted bytes
		{
			moved := ""
			core.Instrs(sh, func(in ssa.Instruction) {
				cl, ok := isBuiltinCall(in, "copy")
				if !ok || len(cl.Call.Args) != 2 {
					return
				}
				root := func(v ssa.Value) ssa.Value {
					for i := 0; i < 6; i++ {
						switch y := core.Strip(v).(type) {
						case *ssa.Slice:
							v = y.X
							continue
						}
						break
					}
					return core.Strip(v)
				}
				if len(sh.Params) > 0 && root(cl.Call.Args[0]) == ssa.Value(sh.Params[0]) && root(cl.Call.Args[1]) == ssa.Value(sh.Params[0]) {
					moved = c.Pos(in)
				}
			})
			c.Decide(moved == "", "R3.4", "shrink-keeps-value-in-place", p.Pos(sh.Pos()), "ShrinkLength rewrites the header only", "ShrinkLength moves the value inside the buffer (copy at "+moved+") when the Length gets shorter: the slices MakeData / MakeInterest took before the shrink — the signed portion they return, the name whose digest component they patch — then point at bytes that have moved; what decoding the packet yields as signed portion is no longer what the encoder reports as signed")
		}
		buf := ssa.Value(sh.Params[0])
		var sum func(v ssa.Value, d int) []ssa.Value
		sum = func(v ssa.Value, d int) []ssa.Value {
			v = core.StripConv(v)
			if v == nil {
				return nil
			}
			if k, isC := core.ConstInt(v); isC && k == 0 {
				return nil
			}
			if b, ok := v.(*ssa.BinOp); ok && b.Op == token.ADD && d < 4 {
				return append(sum(b.X, d+1), sum(b.Y, d+1)...)
			}
			return []ssa.Value{v}
		}
		lowOf := func(v ssa.Value) ([]ssa.Value, bool) {
			v = core.Strip(v)
			if v == buf {
				return nil, true
			}
			if sl, ok := v.(*ssa.Slice); ok && core.Strip(sl.X) == buf {
				return sum(sl.Low, 0), true
			}
			return nil, false
		}
		type wr struct {
			in  ssa.Instruction
			low []ssa.Value
		}
		var writes []wr
		core.Instrs(sh, func(in ssa.Instruction) {
			ci, ok := in.(ssa.CallInstruction)
			if !ok {
				return
			}
			id, okID := core.Callee(ci.Common())
			if !okID || !((id.Name == "EncodeInto" && id.Pkg == "std/encoding") || (id.Pkg == "builtin" && id.Name == "copy")) {
				return
			}
			_, a := core.CallArgs(ci.Common())
			if len(a) == 0 {
				return
			}
			if low, isBuf := lowOf(a[0]); isBuf {
				writes = append(writes, wr{in, low})
			}
		})
		bad := ""
		nPairs := 0
		core.Instrs(sh, func(in ssa.Instruction) {
			r, ok := in.(*ssa.Return)
			if !ok || len(r.Results) != 1 {
				return
			}
			// the returned start offset; a phi of alternatives is taken edge by edge
			var starts [][]ssa.Value
			if low, isBuf := lowOf(r.Results[0]); isBuf {
				starts = append(starts, low)
			} else if phi, isPhi := core.Strip(r.Results[0]).(*ssa.Phi); isPhi {
				for _, e := range phi.Edges {
					if low, isBuf := lowOf(e); isBuf {
						starts = append(starts, low)
					} else {
						bad = "returns something that is not a tail of the buffer"
					}
				}
			} else {
				bad = "returns something that is not a tail of the buffer"
				return
			}
			for _, w := range writes {
				if !core.ReachableFrom(core.After(w.in), r) {
					continue
				}
				nPairs++
				for _, st := range starts {
					// every addend of the start occurs among the addends of the write offset
					left := append([]ssa.Value{}, w.low...)
					for _, sv := range st {
						found := false
						for i, lv := range left {
							if lv == sv || core.Same(lv, sv) {
								left = append(left[:i], left[i+1:]...)
								found = true
								break
							}
						}
						if !found && len(starts) == 1 {
							bad = "a header write at " + p.Pos(w.in.Pos()) + " starts before the buffer that is returned"
						}
					}
				}
			}
		})
		c.Decide(bad == "" && nPairs >= 2, "R3.4", "shrink-writes-inside-result", p.Pos(sh.Pos()), fmt.Sprintf("%d (write, return) pairs: each header write starts at or after the start of the returned buffer", nPairs), "ShrinkLength: "+bad+": when the Length needs fewer bytes the shortened header is partly left outside the packet (the bytes sent start with a stale header)")
	}

	// ---- R3.5 chunked copy loops: a destination offset that is carried around the loop
	// must advance relative to itself (off = off ± n), otherwise the third chunk lands
	// on top of the second
	nCopy := 0
	for _, fn := range p.FuncsIn(core.ModPath + "/std/encoding") {
		core.Instrs(fn, func(in ssa.Instruction) {
			cl, ok := isBuiltinCall(in, "copy")
			if !ok || !core.InLoop(in.Block()) {
				return
			}
			sl, ok := core.Strip(cl.Call.Args[0]).(*ssa.Slice)
			if !ok || sl.Low == nil {
				return
			}
			phi, ok := core.StripConv(sl.Low).(*ssa.Phi)
			if !ok || loopHeader(phi.Block()) != phi.Block() {
				return
			}
			nCopy++
			c.Funcs[core.FuncName(fn)] = true
			okAcc := true
			seen := map[*ssa.Phi]bool{}
			var chk func(ph *ssa.Phi)
			chk = func(ph *ssa.Phi) {
				if seen[ph] {
					return
				}
				seen[ph] = true
				for i, e := range ph.Edges {
					pred := ph.Block().Preds[i]
					if ph == phi && !phi.Block().Dominates(pred) {
						continue // initial value
					}
					switch x := core.StripConv(e).(type) {
					case *ssa.Phi:
						chk(x)
					case *ssa.BinOp:
						if !((x.Op == token.ADD || x.Op == token.SUB) && (usesPhi(x.X, phi, seen) || usesPhi(x.Y, phi, seen))) {
							okAcc = false
						}
					default:
						okAcc = false
					}
				}
			}
			chk(phi)
			c.Decide(okAcc, "R3.5", "chunk-offset-accumulates:"+core.FuncName(fn), c.Pos(in), "the destination offset of the chunked copy advances relative to itself", core.FuncName(fn)+": the destination offset of a chunked copy loop is overwritten instead of advanced: from the third chunk on, bytes are copied to the wrong place (values spanning three or more segments decode to wrong bytes of the right length)")
		})
	}
	c.Floor("R3.5", "chunked copy loops in std/encoding", nCopy, 1)

	// ---- R3.7 a value of the packet API is narrowed to a one-octet element only behind an
	// upper bound: the conversion helper ConvIntPtr[wide, byte] is reachable only on edges
	// asserting that the source is absent or at most 255 (otherwise 256 encodes as 0).
	// ---- R3.8 MakeInterest encodes from a private copy of the name: the Interest encoder
	// drops a trailing digest component from, and appends one to, the name it is given, and
	// the digest is patched into that component afterwards.
	{
		nNarrow := 0
		for _, fn := range p.FuncsIn(core.ModPath + "/std/ndn/spec_2022") {
			if strings.HasSuffix(p.File(fn.Pos()), "_test.go") || strings.HasSuffix(p.File(fn.Pos()), "zz_generated.go") {
				continue
			}
			core.Instrs(fn, func(in ssa.Instruction) {
				cl, ok := in.(*ssa.Call)
				if !ok {
					return
				}
				cal := cl.Call.StaticCallee()
				if cal == nil || cal.Origin() == nil || cal.Origin().Name() != "ConvIntPtr" || len(cal.TypeArgs()) != 2 || len(cl.Call.Args) != 1 {
					return
				}
				to, okT := cal.TypeArgs()[1].Underlying().(*types.Basic)
				from, okF := cal.TypeArgs()[0].Underlying().(*types.Basic)
				if !okT || !okF {
					return
				}
				// the largest value of the narrower type (one octet: HopLimit; four octets: Nonce)
				maxOf := map[types.BasicKind]int64{types.Uint8: 255, types.Uint16: 65535, types.Uint32: 4294967295}
				widthOf := map[types.BasicKind]int{types.Uint8: 1, types.Uint16: 2, types.Uint32: 4, types.Uint64: 8, types.Uint: 8, types.Int: 8, types.Int64: 8, types.Int32: 4, types.Int16: 2, types.Int8: 1}
				lim, narrowTo := maxOf[to.Kind()]
				if !narrowTo || widthOf[from.Kind()] <= widthOf[to.Kind()] {
					return
				}
				nNarrow++
				c.Funcs[core.FuncName(fn)] = true
				arg := cl.Call.Args[0]
				small := &core.Atom{Name: fmt.Sprintf("value ≤ %d", lim), Match: func(cond ssa.Value) (int, int) {
					op, x, y, okC := core.Cmp(cond)
					if !okC {
						return 0, 0
					}
					k, isC := core.ConstInt(y)
					if !isC {
						return 0, 0
					}
					u, isU := core.StripConv(x).(*ssa.UnOp)
					if !isU || u.Op != token.MUL || !(u.X == arg || core.Same(u.X, arg)) {
						return 0, 0
					}
					switch {
					case op == token.GTR && k <= lim, op == token.GEQ && k <= lim+1:
						return -1, 1
					case op == token.LEQ && k <= lim, op == token.LSS && k <= lim+1:
						return 1, -1
					}
					return 0, 0
				}}
				present := atomNonNil("source present", arg)
				g := core.GateDeep(fn, []ssa.Instruction{in}, pos(small), neg(present))
				rk := "one-octet-element-bounded:"
				if lim != 255 {
					rk = fmt.Sprintf("%d-octet-element-bounded:", widthOf[to.Kind()])
				}
				c.Decide(g.OK && g.PerLit[0] > 0, "R3.7", rk+core.FuncName(fn)+":"+describeValue(arg), c.Pos(in), fmt.Sprintf("the narrowing to %d octet(s) is reachable only for an absent source or a value ≤ %d", widthOf[to.Kind()], lim), fmt.Sprintf("%s narrows %s to a %d-octet element without an upper bound: a value above %d is silently encoded as another value (%d → 0) and decodes as that", core.FuncName(fn), describeValue(arg), widthOf[to.Kind()], lim, lim+1))
			})
		}
		c.Floor("R3.7", "narrowings of an API value to one octet", nNarrow, 1)
		// ---- R3.13 a duration of the packet API becomes a TLV time element only when it is
		// absent or non-negative: the generated encoder writes uint64(d / time.Millisecond),
		// so -5ms is encoded as 2^64-5 and decodes as about 292 million years
		{
			nDur := 0
			isDurPtr := func(t types.Type) bool {
				if pt, ok := t.Underlying().(*types.Pointer); ok {
					t = pt.Elem()
				}
				n, ok := t.(*types.Named)
				return ok && n.Obj().Pkg() != nil && n.Obj().Pkg().Path() == "time" && n.Obj().Name() == "Duration"
			}
			for _, fn := range p.FuncsIn(core.ModPath + "/std/ndn/spec_2022") {
				if strings.HasSuffix(p.File(fn.Pos()), "_test.go") || strings.HasSuffix(p.File(fn.Pos()), "zz_generated.go") || fn.Parent() != nil {
					continue
				}
				core.Instrs(fn, func(in ssa.Instruction) {
					st, ok := in.(*ssa.Store)
					if !ok {
						return
					}
					fa, ok := st.Addr.(*ssa.FieldAddr)
					if !ok || !isDurPtr(st.Val.Type()) {
						return
					}
					// the value is a field of an API parameter (config.Lifetime, config.Freshness)
					ld, ok := core.Strip(st.Val).(*ssa.UnOp)
					if !ok || ld.Op != token.MUL {
						return
					}
					src, ok := ld.X.(*ssa.FieldAddr)
					if !ok {
						return
					}
					if _, isPar := core.Strip(src.X).(*ssa.Parameter); !isPar {
						return
					}
					nDur++
					c.Funcs[core.FuncName(fn)] = true
					_, fld := core.FieldAddrName(fa)
					nonneg := &core.Atom{Name: "duration ≥ 0", Match: func(cond ssa.Value) (int, int) {
						op, x, y, okC := core.Cmp(cond)
						if !okC {
							return 0, 0
						}
						k, isC := core.ConstInt(y)
						if !isC {
							return 0, 0
						}
						u, isU := core.StripConv(x).(*ssa.UnOp)
						if !isU || u.Op != token.MUL || !(u.X == st.Val || core.Same(u.X, st.Val)) {
							return 0, 0
						}
						switch {
						case op == token.LSS && k <= 0, op == token.LEQ && k < 0:
							return -1, 1
						case op == token.GEQ && k >= 0, op == token.GTR && k >= -1:
							return 1, -1
						}
						return 0, 0
					}}
					present := atomNonNil("source present", st.Val)
					g := core.GateDeep(fn, []ssa.Instruction{in}, pos(nonneg), neg(present))
					c.Decide(g.OK && g.PerLit[0] > 0, "R3.13", "duration-element-non-negative:"+core.FuncName(fn)+":"+fld, c.Pos(in), "the duration reaches the time element only when absent or ≥ 0", core.FuncName(fn)+" hands "+describeValue(st.Val)+" to the time element "+fld+" without a sign test: the encoder writes uint64(d/time.Millisecond), so a negative duration is encoded as a number near 2^64 and decodes as hundreds of millions of years instead of the value given")
				})
			}
			c.Floor("R3.13", "API durations stored into TLV time elements", nDur, 2)
		}
		// ---- R3.15 a segment search by prefix sums is half-open. The segmented reader finds
		// the segment that holds an offset by testing acc[i] and acc[i+1] against it: exactly
		// one of the two tests is strict ((<=, >) or (<, >=)) — with both strict an offset that
		// lies on a segment boundary belongs to no segment, with both closed to two.
		{
			nSearch := 0
			for _, fn := range p.FuncsIn(core.ModPath + "/std/encoding") {
				if strings.HasSuffix(p.File(fn.Pos()), "_test.go") {
					continue
				}
				type cmpAt struct {
					bo   *ssa.BinOp
					base ssa.Value
					idx  ssa.Value
					off  int64
					v    ssa.Value
					op   token.Token
				}
				var cmps []cmpAt
				core.Instrs(fn, func(in ssa.Instruction) {
					bo, ok := in.(*ssa.BinOp)
					if !ok {
						return
					}
					op, x, y := bo.Op, bo.X, bo.Y
					switch op {
					case token.LSS, token.LEQ, token.GTR, token.GEQ:
					default:
						return
					}
					load := func(v ssa.Value) (*ssa.IndexAddr, bool) {
						u, ok := core.Strip(v).(*ssa.UnOp)
						if !ok || u.Op != token.MUL {
							return nil, false
						}
						ia, ok := u.X.(*ssa.IndexAddr)
						return ia, ok
					}
					ia, isX := load(x)
					if !isX {
						if ia2, isY := load(y); isY {
							ia, x, y, op = ia2, y, x, core.Swap(op)
							isX = true
						}
					}
					if !isX {
						return
					}
					_ = x
					// index = base + constant (a range loop's index is itself "counter + 1")
					idx, off := ia.Index, int64(0)
					for n := 0; n < 4; n++ {
						b, ok := core.Strip(idx).(*ssa.BinOp)
						if !ok || b.Op != token.ADD {
							break
						}
						k, isC := core.ConstInt(b.Y)
						if !isC {
							break
						}
						idx, off = b.X, off+k
					}
					cmps = append(cmps, cmpAt{bo, ia.X, idx, off, y, op})
				})
				for _, lo := range cmps {
					if lo.op != token.LSS && lo.op != token.LEQ {
						continue
					}
					for _, hi := range cmps {
						if hi.off != lo.off+1 || (hi.op != token.GTR && hi.op != token.GEQ) {
							continue
						}
						if !(core.Strip(lo.idx) == core.Strip(hi.idx)) || !(core.Strip(lo.v) == core.Strip(hi.v) || core.Same(lo.v, hi.v)) || !(core.Strip(lo.base) == core.Strip(hi.base) || core.Same(lo.base, hi.base)) {
							continue
						}
						nSearch++
						c.Funcs[core.FuncName(fn)] = true
						strictLo, strictHi := lo.op == token.LSS, hi.op == token.GTR
						c.Decide(strictLo != strictHi, "R3.15", fmt.Sprintf("segment-search-half-open:%s#%d", core.FuncName(fn), nSearch), c.Pos(lo.bo), "the offset is located by a half-open interval test on consecutive prefix sums", fmt.Sprintf("%s locates an offset among the segments with the tests acc[i] %s x and acc[i+1] %s x: %s — a packet whose bytes are split into segments at such an offset decodes to something else than the contiguous bytes", core.FuncName(fn), lo.op, hi.op, map[bool]string{true: "an offset exactly on a segment boundary belongs to no segment, the search result keeps its zero value and the range is taken from the start of the wire", false: "an offset exactly on a segment boundary belongs to two segments"}[strictLo]))
					}
				}
			}
			// the same search by bisection: sort.SearchInts(acc, x) is the smallest i with
			// acc[i] >= x. In Range(start, end) the segment of the first byte is the LAST i
			// with acc[i] <= start, i.e. SearchInts(acc, start+1)-1, and the segment of the
			// last byte the last i with acc[i] < end, i.e. SearchInts(acc, end)-1. Searching
			// for `start` itself puts a start that lies on a segment boundary one segment low
			// (a leading empty buffer); for `end+1` puts such an end one segment high.
			if rg := p.Func("std/encoding", "WireReader", "Range"); rg != nil && len(rg.Params) == 3 {
				core.Instrs(rg, func(in ssa.Instruction) {
					cl, ok := in.(*ssa.Call)
					if !ok {
						return
					}
					cal := cl.Call.StaticCallee()
					if cal == nil || cal.Pkg == nil || cal.Pkg.Pkg.Path() != "sort" || cal.Name() != "SearchInts" || len(cl.Call.Args) != 2 {
						return
					}
					if _, okF := core.FieldOf(cl.Call.Args[0], "accSz"); !okF {
						return
					}
					nSearch++
					arg := core.StripConv(cl.Call.Args[1])
					adj := int64(0)
					if b, isB := arg.(*ssa.BinOp); isB && (b.Op == token.ADD || b.Op == token.SUB) {
						if k, isK := core.ConstInt(b.Y); isK {
							adj = k
							if b.Op == token.SUB {
								adj = -k
							}
							arg = core.StripConv(b.X)
						}
					}
					which, want := "", int64(0)
					switch arg {
					case ssa.Value(rg.Params[1]):
						which, want = "start", 1
					case ssa.Value(rg.Params[2]):
						which, want = "end", 0
					default:
						return
					}
					c.Decide(adj == want, "R3.15", fmt.Sprintf("segment-search-half-open:%s#%d", core.FuncName(rg), nSearch), c.Pos(cl), "the bisection looks for "+which+fmt.Sprintf("%+d", want)+" (half-open on the right side)", fmt.Sprintf("WireReader.Range finds the segment of its %s by sort.SearchInts(accSz, %s%+d) — the smallest index whose prefix sum is not below that — where %s%+d is needed: an offset exactly on a segment boundary is put into the neighbouring segment, the range gets an empty buffer in front (or behind) and a field read through it fails or is cut — a packet split into segments at such an offset decodes differently from the contiguous bytes", which, which, adj, which, want))
				})
			}
			c.Floor("R3.15", "segment searches by prefix sums in std/encoding", nSearch, 2)
		}
		// ---- R3.16 a length or type written as a single header octet is below 253: outside
		// the number primitives (whose tables R3.2 decides) a store of byte(x) into a buffer,
		// with x a length (len(…)) or a TLNum, is reachable only behind x <= 252 — 253..255 are
		// the markers of the 3/5/9-octet forms, every decoder reads them as such
		{
			nOct := 0
			// (the packet builders too: since /repo 9a7b218 they patch the signature length with
			// TLNum.EncodeInto at unchanged width instead of storing byte(len))
			for _, pkg := range []string{"std/encoding", "std/ndn/spec_2022"} {
				for _, fn := range p.FuncsIn(core.ModPath + "/" + pkg) {
					file := p.File(fn.Pos())
					if strings.HasSuffix(file, "_test.go") || strings.HasSuffix(file, "zz_generated.go") {
						continue
					}
					core.Instrs(fn, func(in ssa.Instruction) {
						st, ok := in.(*ssa.Store)
						if !ok {
							return
						}
						if _, isIA := st.Addr.(*ssa.IndexAddr); !isIA {
							return
						}
						cv, ok := st.Val.(*ssa.Convert)
						if !ok {
							return
						}
						if bt, isB := cv.Type().Underlying().(*types.Basic); !isB || bt.Kind() != types.Uint8 {
							return
						}
						x := cv.X
						isLen := false
						if _, l := core.LenOf(x); l {
							isLen = true
						}
						if ph, isPhi := x.(*ssa.Phi); isPhi {
							for _, e := range ph.Edges {
								if _, l := core.LenOf(e); l {
									isLen = true
								}
							}
						}
						isTL := false
						if n, isN := x.Type().(*types.Named); isN && n.Obj().Name() == "TLNum" {
							isTL = true
						}
						if !isLen && !isTL {
							return
						}
						nOct++
						c.Funcs[core.FuncName(fn)] = true
						small := &core.Atom{Name: "value ≤ 252", Match: func(cond ssa.Value) (int, int) {
							op, a, b, okC := core.Cmp(cond)
							if !okC {
								return 0, 0
							}
							k, isC := core.ConstInt(b)
							if !isC || !(core.StripConv(a) == core.StripConv(x) || core.Same(a, x)) {
								return 0, 0
							}
							switch {
							case op == token.GTR && k <= 252, op == token.GEQ && k <= 253:
								return -1, 1
							case op == token.LEQ && k <= 252, op == token.LSS && k <= 253:
								return 1, -1
							case op == token.EQL && k <= 252:
								return 1, 0
							}
							return 0, 0
						}}
						g := core.GateDeep(fn, []ssa.Instruction{in}, pos(small))
						c.Decide(g.OK && g.PerLit[0] > 0, "R3.16", fmt.Sprintf("single-header-octet-below-253:%s#%d", core.FuncName(fn), nOct), c.Pos(in), "the value is written as one octet only behind a test that it is at most 252", core.FuncName(fn)+" writes "+describeValue(x)+" as a single octet of a TLV header without having established that it is at most 252: 253, 254 and 255 are the markers of the longer number forms, so a value or type of exactly that size is written as a marker and every decoder reads a different, longer number after it")
					})
				}
			}
			c.Extra["single_octet_header_stores"] = nOct
		}
		// ---- R3.14 writer and reader agree on "a parameters-digest component needs
		// parameters": checkInterest refuses such an Interest (C12 R12.7) and the Interest
		// encoder cuts a trailing digest component off the name, so MakeInterest must not
		// return bytes for a name that carries one when it was given no parameters
		if mi := c.Fn("R3.14", "std/ndn/spec_2022", "Spec", "MakeInterest"); mi != nil {
			digT, okT := lookupConst(p, "std/encoding", "TypeParametersSha256DigestComponent")
			var appPar *ssa.Parameter
			for _, pr := range mi.Params {
				if pr.Name() == "appParam" || (pr.Type().String() == core.ModPath+"/std/encoding.Wire" && appPar == nil) {
					appPar = pr
				}
			}
			if !okT || appPar == nil {
				c.Und("R3.14", "anchor:MakeInterest-parameters", p.Pos(mi.Pos()), "the application-parameters argument or the digest type constant was not found")
			} else {
				var okRets []*ssa.Return
				for _, f2 := range core.Reach(mi) {
					if f2 != mi {
						continue
					}
					core.Instrs(f2, func(in ssa.Instruction) {
						// a return that does not refuse: the error is nil, or is whatever a
						// worker returned (MakeInterest split into wrapper + worker)
						if r, ok := in.(*ssa.Return); ok && len(r.Results) == 2 {
							if core.IsNilConst(r.Results[1]) {
								okRets = append(okRets, r)
							} else if ex, isEx := core.Strip(r.Results[1]).(*ssa.Extract); isEx {
								if cl, isCl := ex.Tuple.(*ssa.Call); isCl && cl.Call.StaticCallee() != nil && cl.Call.StaticCallee().Pkg == mi.Pkg {
									okRets = append(okRets, r)
								}
							}
						}
					})
				}
				hasPar := atomNonNil("appParam present", appPar)
				isDig := &core.Atom{Name: "component is a parameters digest", Match: func(cond ssa.Value) (int, int) {
					op, x, y, ok := core.Cmp(cond)
					if !ok || (op != token.EQL && op != token.NEQ) {
						return 0, 0
					}
					if _, isC := core.ConstInt(x); isC {
						x, y = y, x
					}
					k, isC := core.ConstInt(y)
					if !isC || k != digT {
						return 0, 0
					}
					if _, isTyp := core.FieldOf(core.StripConv(x), "Typ"); !isTyp {
						return 0, 0
					}
					return core.Iff(op == token.EQL)
				}}
				nTests, bad := 0, ""
				for _, nf := range core.EdgeFactsDeep(mi, hasPar) {
					if nf.Holds {
						continue // only the side on which no parameters were given
					}
					for _, df := range core.EdgeFactsDeep(mi, isDig) {
						if !df.Holds || df.E.From.Parent() != nf.E.To.Parent() {
							continue
						}
						if !(nf.E.To == df.E.From || nf.E.To.Dominates(df.E.From)) {
							continue
						}
						nTests++
						for _, r := range okRets {
							if r.Parent() == df.E.To.Parent() && core.ReachInstrFrom(core.Point{Block: df.E.To, Idx: 0}, r, nil, nil) != nil {
								bad = c.Pos(r)
							}
						}
					}
				}
				c.Decide(nTests > 0 && bad == "" && len(okRets) > 0, "R3.14", "digest-component-needs-parameters:MakeInterest", p.Pos(mi.Pos()), "without parameters, a ParametersSha256Digest component in the name leads to a refusal", "MakeInterest returns bytes for a name that carries a ParametersSha256Digest component although it was given no ApplicationParameters: the reader refuses an Interest with the component and no parameters, and the encoder cuts a trailing one off — the bytes are undecodable or name another Interest")
			}
		}
		if mi := c.Fn("R3.8", "std/ndn/spec_2022", "Spec", "MakeInterest"); mi != nil {
			nSt := 0
			core.Instrs(mi, func(in ssa.Instruction) {
				_, v, ok := storeToField(in, "Interest", "NameV")
				if !ok {
					return
				}
				nSt++
				owned := false
				switch x := core.Strip(v).(type) {
				case *ssa.MakeSlice:
					owned = true
				case *ssa.Call:
					if id, okID := core.Callee(&x.Call); okID && (id.Name == "Clone" || id.Name == "Clip") {
						owned = true
					}
				case *ssa.Slice:
					if _, isMk := core.Strip(x.X).(*ssa.MakeSlice); isMk {
						owned = true
					}
				}
				c.Decide(owned, "R3.8", "interest-name-is-private-copy", c.Pos(in), "MakeInterest encodes from a slice of its own", "MakeInterest hands the caller's name slice to the Interest encoder, which drops a trailing digest component from it and appends a fresh one in place (the digest is patched in afterwards): with spare capacity a second MakeInterest from the same name rewrites the FinalName of the first Interest — decoding its wire no longer yields the name it reports")
			})
			c.Floor("R3.8", "stores of the Interest name in MakeInterest", nSt, 1)
		}
	}

	// ---- R3.9 the standalone name decoder consumes its whole input: ReadName returns a name
	// only on the edge on which the component reader reported the end of the input, or on
	// an edge asserting that nothing remains (a test against 0 — not against a "smallest
	// component" size: 08 00 is a component of two bytes).
	if rn := c.Fn("R3.9", "std/encoding", "", "ReadName"); rn != nil {
		var okRets []ssa.Instruction
		core.Instrs(rn, func(in ssa.Instruction) {
			if r, ok := in.(*ssa.Return); ok && len(r.Results) == 2 && core.IsNilConst(r.Results[1]) {
				okRets = append(okRets, in)
			}
		})
		eof := &core.Atom{Name: "component reader reported io.EOF", Match: func(cond ssa.Value) (int, int) {
			op, x, y, ok := core.Cmp(cond)
			if !ok || (op != token.EQL && op != token.NEQ) {
				return 0, 0
			}
			isEOF := func(v ssa.Value) bool {
				u, isU := core.Strip(v).(*ssa.UnOp)
				if !isU || u.Op != token.MUL {
					return false
				}
				g, isG := u.X.(*ssa.Global)
				return isG && g.Name() == "EOF" && g.Pkg.Pkg.Path() == "io"
			}
			if isEOF(x) || isEOF(y) {
				return core.Iff(op == token.EQL)
			}
			return 0, 0
		}}
		drained := &core.Atom{Name: "nothing remains", Match: func(cond ssa.Value) (int, int) {
			op, x, y, ok := core.Cmp(cond)
			if !ok {
				return 0, 0
			}
			isCall := func(v ssa.Value, name string) bool {
				cl, isC := core.StripConv(v).(*ssa.Call)
				return isC && cl.Call.IsInvoke() && cl.Call.Method.Name() == name
			}
			// Length()-Pos() op 0
			if b, isB := core.StripConv(x).(*ssa.BinOp); isB && b.Op == token.SUB && isCall(b.X, "Length") && isCall(b.Y, "Pos") {
				if k, isC := core.ConstInt(y); isC {
					switch {
					case (op == token.GTR && k == 0) || (op == token.GEQ && k == 1) || (op == token.NEQ && k == 0):
						return -1, 1
					case (op == token.LEQ && k == 0) || (op == token.LSS && k == 1) || (op == token.EQL && k == 0):
						return 1, -1
					}
				}
				return 0, 0
			}
			// Pos() op Length()
			if isCall(x, "Pos") && isCall(y, "Length") {
				switch op {
				case token.LSS:
					return -1, 1
				case token.GEQ, token.EQL:
					return 1, -1
				}
			}
			return 0, 0
		}}
		g := core.GateDeep(rn, okRets, pos(eof), pos(drained))
		c.Decide(len(okRets) > 0 && g.OK && g.PassEdges > 0, "R3.9", "standalone-name-decoder-consumes-input", p.Pos(rn.Pos()), "ReadName returns a name only at the end of its input", "ReadName can return a name while bytes of its input are unread (the loop ends on a test other than 'end of input'): NameFromBytes(n.Bytes()) silently drops a final component — e.g. an empty-valued one, 08 00 — while the packet decoder returns the full name")
	}
	// ---- R3.10 an optional field of the packet API reaches the model as it was given: the
	// value stored into an optional element of the Data / Interest model is the config's
	// pointer (possibly converted) — it is replaced by "absent" only where the config's
	// pointer is itself nil, never depending on the value (0 is a legal FreshnessPeriod).
	for _, mk := range []string{"MakeData", "MakeInterest"} {
		fn := c.Fn("R3.10", "std/ndn/spec_2022", "Spec", mk)
		if fn == nil || len(fn.Params) < 3 {
			continue
		}
		config := ssa.Value(fn.Params[2])
		isCfgField := func(v ssa.Value) (string, bool) {
			root, path := core.FieldPath(v)
			if len(path) == 1 && (root == config || core.Same(root, config)) {
				return path[0], true
			}
			return "", false
		}
		nOpt := 0
		core.Instrs(fn, func(in ssa.Instruction) {
			st, ok := in.(*ssa.Store)
			if !ok {
				return
			}
			fa, ok := st.Addr.(*ssa.FieldAddr)
			if !ok {
				return
			}
			if _, isPtr := st.Val.Type().Underlying().(*types.Pointer); !isPtr {
				return
			}
			tn, fld := core.FieldAddrName(fa)
			if tn != "Data" && tn != "MetaInfo" && tn != "Interest" {
				return
			}
			// does the stored value derive from a config field at all?
			var src string
			bad := ""
			seen := map[ssa.Value]bool{}
			var walk func(v ssa.Value, viaPhi *ssa.Phi, edge int)
			walk = func(v ssa.Value, viaPhi *ssa.Phi, edge int) {
				v = core.Strip(v)
				if seen[v] {
					return
				}
				seen[v] = true
				if f, okF := isCfgField(v); okF {
					src = f
					return
				}
				switch x := v.(type) {
				case *ssa.Call:
					if cal := x.Call.StaticCallee(); cal != nil && cal.Origin() != nil && cal.Origin().Name() == "ConvIntPtr" && len(x.Call.Args) == 1 {
						walk(x.Call.Args[0], viaPhi, edge)
					}
				case *ssa.Phi:
					for i, e := range x.Edges {
						walk(e, x, i)
					}
				case *ssa.Const:
					if x.IsNil() && viaPhi != nil {
						// absent: allowed only where the config pointer is nil
						pred := viaPhi.Block().Preds[edge]
						okNil := false
						for _, f := range core.EdgeFacts(fn, &core.Atom{Name: "config field nil", Match: func(cond ssa.Value) (int, int) {
							op, a, b, okC := core.Cmp(cond)
							if !okC || (op != token.EQL && op != token.NEQ) || !core.IsNilConst(b) {
								return 0, 0
							}
							if _, isF := isCfgField(a); !isF {
								return 0, 0
							}
							return core.Iff(op == token.EQL)
						}}) {
							if f.Holds && (f.E.To == pred || (f.E.To != viaPhi.Block() && len(f.E.To.Preds) == 1 && f.E.To.Dominates(pred)) || (f.E.From == pred && f.E.To == viaPhi.Block())) {
								okNil = true
							}
						}
						if !okNil {
							bad = c.Pos(viaPhi)
						}
					}
				}
			}
			walk(st.Val, nil, 0)
			if src == "" {
				return
			}
			nOpt++
			c.Decide(bad == "", "R3.10", "optional-field-passed-as-given:"+mk+":"+tn+"."+fld, c.Pos(in), "the element is absent only where config."+src+" is nil", mk+" replaces config."+src+" by 'absent' depending on its value (at "+bad+"): a legal boundary value (FreshnessPeriod 0) is not encoded and decodes as absent")
		})
		c.Floor("R3.10", "optional config fields stored into the model by "+mk, nOpt, 2)
	}

	// ---- R3.11 (known-wrong form only) a skip that ends exactly at the end of the input
	// succeeds: in the loop of WireReader.Skip that carries the position over segment
	// boundaries, "position at or past the end of the segment" (non-strict) must not be
	// combined with an error return when the segments run out — then skipping the last
	// element of a segmented wire (an Interest ending in HopLimit) fails although the same
	// bytes in one buffer decode. That another formulation is right is arithmetic and is
	// not decided.
	if sk := c.Fn("R3.11", "std/encoding", "WireReader", "Skip"); sk != nil {
		nonStrict, failsInLoop := false, false
		var at ssa.Instruction
		core.Instrs(sk, func(in ssa.Instruction) {
			iff, ok := in.(*ssa.If)
			if !ok || !core.InLoop(in.Block()) {
				return
			}
			op, x, y, okC := core.Cmp(iff.Cond)
			if !okC {
				return
			}
			_, xPos := core.FieldOf(core.StripConv(x), "pos")
			_, yLen := core.LenOf(core.StripConv(y))
			_, yPos := core.FieldOf(core.StripConv(y), "pos")
			_, xLen := core.LenOf(core.StripConv(x))
			if (xPos && yLen && op == token.GEQ) || (yPos && xLen && op == token.LEQ) {
				if loopHeader(in.Block()) == in.Block() || true {
					nonStrict = true
					at = in
				}
			}
		})
		core.Instrs(sk, func(in ssa.Instruction) {
			r, ok := in.(*ssa.Return)
			if !ok || len(r.Results) != 1 || core.IsNilConst(core.Strip(r.Results[0])) {
				return
			}
			if core.InLoop(in.Block()) || func() bool {
				for _, pr := range in.Block().Preds {
					if core.InLoop(pr) {
						return true
					}
				}
				return false
			}() {
				failsInLoop = true
			}
		})
		if nonStrict && failsInLoop {
			c.Viol("R3.11", "skip-to-exact-end-succeeds", c.Pos(at), "WireReader.Skip carries the position over a segment boundary already when it has reached the END of the segment, and returns an error when no segment follows: a skip that ends exactly at the end of the last segment fails, so a packet whose last element is skipped or read that way (an Interest ending in HopLimit) decodes from one buffer but not from the same bytes split into segments")
		} else {
			c.Ok("R3.11", "skip-to-exact-end-succeeds", p.Pos(sk.Pos()), "the known-wrong combination (non-strict boundary test + error when the segments run out) is absent")
		}
	}

	// ---- R3.6 the segmented reader steps over EVERY exhausted segment: a wire may hold
	// empty segments, also several in a row (the no-copy encoder emits one for an empty
	// content buffer). Every store that advances a WireReader's segment index inside a
	// "current segment exhausted" test is in a loop (or is followed by a bounds test of the
	// new segment before it is read).
	{
		nAdv := 0
		for _, fn := range p.FuncsIn(core.ModPath + "/std/encoding") {
			if core.FuncID(fn).Recv != "WireReader" || strings.HasSuffix(p.File(fn.Pos()), "_test.go") {
				continue
			}
			core.Instrs(fn, func(in ssa.Instruction) {
				fa, v, ok := storeToField(in, "WireReader", "seg")
				if !ok {
					return
				}
				b, isB := core.Strip(v).(*ssa.BinOp)
				if !isB || b.Op != token.ADD {
					return
				}
				if k, isC := core.ConstInt(b.Y); !isC || k != 1 {
					return
				}
				_ = fa
				// the advance follows a test "position at or past the end of the current segment"
				exhausted := false
				for _, pr := range in.Block().Preds {
					if iff, okI := pr.Instrs[len(pr.Instrs)-1].(*ssa.If); okI {
						if op, x, y, okC := core.CmpOrient(iff.Cond, func(v ssa.Value) bool { _, isPos := core.FieldOf(core.StripConv(v), "pos"); return isPos }); okC && (op == token.GEQ || op == token.GTR || op == token.LSS || op == token.LEQ || op == token.EQL) {
							_, isPos := core.FieldOf(core.StripConv(x), "pos")
							_, isLen := core.LenOf(core.StripConv(y))
							if isPos && isLen {
								exhausted = true
							}
						}
					}
				}
				if !exhausted {
					return
				}
				nAdv++
				c.Funcs[core.FuncName(fn)] = true
				c.Decide(core.InLoop(in.Block()), "R3.6", "segment-advance-skips-all-exhausted:"+core.FuncName(fn), c.Pos(in), "the advance to the next segment is repeated while the segment is exhausted", core.FuncName(fn)+" steps over one exhausted segment only: with two empty segments in a row (or an empty one where the previous ends) the reader stays on an empty segment and the next read indexes out of range — ReadData on the wire MakeData produces for content Wire{payload, {}} panics")
			})
		}
		c.Floor("R3.6", "segment advances behind an exhausted-segment test", nAdv, 1)
	}

	// ---- R3.2 primitive tables
	encPk := p.Pkgs[core.ModPath+"/std/encoding"]
	if encPk == nil {
		c.Und("R3.2", "anchor:std/encoding", "-", "package not loaded")
		return
	}
	var findDecl func(recv, name string) *ast.FuncDecl
	// a pure forwarder (`func (v T) M(a) R { return v.mImpl(a) }`) stands for its worker
	forwardsTo := func(fd *ast.FuncDecl, recv string) *ast.FuncDecl {
		if fd.Body == nil || len(fd.Body.List) != 1 {
			return nil
		}
		var call *ast.CallExpr
		switch st := fd.Body.List[0].(type) {
		case *ast.ReturnStmt:
			if len(st.Results) == 1 {
				call, _ = st.Results[0].(*ast.CallExpr)
			}
		case *ast.ExprStmt:
			call, _ = st.X.(*ast.CallExpr)
		}
		if call == nil {
			return nil
		}
		var params []string
		if fd.Type.Params != nil {
			for _, fl := range fd.Type.Params.List {
				for _, nm := range fl.Names {
					params = append(params, nm.Name)
				}
			}
		}
		if len(call.Args) != len(params) {
			return nil
		}
		for i, a := range call.Args {
			if id, ok := a.(*ast.Ident); !ok || id.Name != params[i] {
				return nil
			}
		}
		switch f := call.Fun.(type) {
		case *ast.Ident:
			if recv == "" && f.Name != fd.Name.Name {
				return findDecl("", f.Name)
			}
		case *ast.SelectorExpr:
			if x, ok := f.X.(*ast.Ident); ok && recv != "" && fd.Recv != nil && len(fd.Recv.List[0].Names) == 1 && fd.Recv.List[0].Names[0].Name == x.Name && f.Sel.Name != fd.Name.Name {
				return findDecl(recv, f.Sel.Name)
			}
		}
		return nil
	}
	findDecl = func(recv, name string) *ast.FuncDecl {
		for _, f := range encPk.Syntax {
			for _, d := range f.Decls {
				fd, ok := d.(*ast.FuncDecl)
				if !ok || fd.Name.Name != name {
					continue
				}
				r := ""
				if fd.Recv != nil && len(fd.Recv.List) == 1 {
					if id, ok := fd.Recv.List[0].Type.(*ast.Ident); ok {
						r = id.Name
					}
				}
				if r == recv {
					if w := forwardsTo(fd, recv); w != nil {
						return w
					}
					return fd
				}
			}
		}
		return nil
	}
	firstSwitch := func(fd *ast.FuncDecl) *ast.SwitchStmt {
		var sw *ast.SwitchStmt
		ast.Inspect(fd.Body, func(n ast.Node) bool {
			if s, ok := n.(*ast.SwitchStmt); ok && sw == nil {
				sw = s
			}
			return sw == nil
		})
		return sw
	}
	type prim struct{ recv, name, form string }
	for _, pr := range []prim{{"TLNum", "EncodingLength", "TL"}, {"TLNum", "EncodeInto", "TL"}, {"Nat", "EncodingLength", "Nat"}, {"Nat", "EncodeInto", "Nat"}} {
		fd := findDecl(pr.recv, pr.name)
		key := "table:" + pr.recv + "." + pr.name
		if fd == nil {
			c.Und("R3.2", key, "-", "function not found")
			continue
		}
		sw := firstSwitch(fd)
		var rows []caseRow
		ok := false
		at := fd.Pos()
		if sw != nil {
			rows, ok = extractSwitch(encPk, sw)
			at = sw.Pos()
		} else {
			rows, ok = extractIfChain(encPk, fd.Body.List)
		}
		if !ok {
			c.Und("R3.2", key, p.Pos(at), "no constant-threshold table (switch or if-chain) found (restructured)")
			continue
		}
		msg := checkSizeTable(rows, pr.form)
		c.Decide(msg == "", "R3.2", key, p.Pos(at), fmt.Sprintf("%s table canonical: %v", pr.form, rows), pr.recv+"."+pr.name+" deviates from the NDN "+pr.form+" number code: "+msg)
	}
	// readers: marker → width
	for _, pr := range []prim{{"", "ParseTLNum", ""}, {"", "ReadTLNum", ""}} {
		fd := findDecl("", pr.name)
		key := "table:" + pr.name
		if fd == nil {
			c.Und("R3.2", key, "-", "function not found")
			continue
		}
		sw := firstSwitch(fd)
		var rows []caseRow
		ok := false
		at := fd.Pos()
		if sw != nil {
			rows, ok = extractSwitch(encPk, sw)
			at = sw.Pos()
		} else {
			rows, ok = extractIfChain(encPk, fd.Body.List)
			// the last marker may be the else branch: after <= 0xfc, == 0xfd and == 0xfe
			// the only octet left is 0xff
			if ok && len(rows) == 4 && rows[3].Op == "default" && rows[0].Op == "<=" && rows[0].Thr == 0xfc && rows[1].Op == "==" && rows[1].Thr == 0xfd && rows[2].Op == "==" && rows[2].Thr == 0xfe {
				rows[3].Op, rows[3].Thr = "==", 0xff
			}
		}
		// the one-octet form split off by an early return (`if x <= 0xfc { …; return }`)
		// and the markers in a switch that leaves 0xff to its default clause (after
		// <= 0xfc, 0xfd and 0xfe the only octet left) is the same table
		if ok && len(rows) == 3 && sw != nil {
			var first *caseRow
			for _, st := range fd.Body.List {
				is, isIf := st.(*ast.IfStmt)
				if !isIf || is.Else != nil || st.Pos() > sw.Pos() {
					continue
				}
				be, isB := is.Cond.(*ast.BinaryExpr)
				if !isB || len(is.Body.List) == 0 {
					continue
				}
				if _, isRet := is.Body.List[len(is.Body.List)-1].(*ast.ReturnStmt); !isRet {
					continue
				}
				if k, okK := constOf(encPk, be.Y); okK && ((be.Op == token.LEQ && k == 0xfc) || (be.Op == token.LSS && k == 0xfd)) {
					r := caseRow{Op: "<=", Thr: 0xfc}
					fillRow(encPk, &r, is.Body.List)
					first = &r
				}
			}
			var def *caseRow
			marks := map[uint64]caseRow{}
			for i := range rows {
				if rows[i].Op == "default" {
					def = &rows[i]
				} else if rows[i].Op == "==" {
					marks[rows[i].Thr] = rows[i]
				}
			}
			_, a := marks[0xfd]
			_, b := marks[0xfe]
			if first != nil && def != nil && a && b {
				d := *def
				d.Op, d.Thr = "==", 0xff
				rows = []caseRow{*first, marks[0xfd], marks[0xfe], d}
			}
		}
		// a switch over the first octet that names the three markers and leaves the
		// one-octet form to its default clause is the same table
		if ok && len(rows) == 4 {
			var def *caseRow
			marks := map[uint64]caseRow{}
			for i := range rows {
				if rows[i].Op == "default" {
					def = &rows[i]
				} else if rows[i].Op == "==" {
					marks[rows[i].Thr] = rows[i]
				}
			}
			if def != nil && len(marks) == 3 {
				if _, a := marks[0xfd]; a {
					if _, b := marks[0xfe]; b {
						if _, c3 := marks[0xff]; c3 {
							d := *def
							d.Op, d.Thr = "<=", 0xfc
							rows = []caseRow{d, marks[0xfd], marks[0xfe], marks[0xff]}
						}
					}
				}
			}
		}
		if !ok || len(rows) != 4 {
			c.Und("R3.2", key, p.Pos(at), "no 4-row constant table (switch or if-chain) found")
			continue
		}
		msg := ""
		want := []struct {
			op  string
			thr uint64
			k   []int64
			put string
		}{{"<=", 0xfc, []int64{1}, ""}, {"==", 0xfd, []int64{3, 2}, "16"}, {"==", 0xfe, []int64{5, 4}, "32"}, {"==", 0xff, []int64{9, 8}, "64"}}
		for i, r := range rows {
			w := want[i]
			if r.Op != w.op || r.Thr != w.thr {
				msg = fmt.Sprintf("row %d is %s %#x, want %s %#x", i, r.Op, r.Thr, w.op, w.thr)
				break
			}
			if pr.name == "ParseTLNum" {
				if !hasConst(r, w.k[0]) {
					msg = fmt.Sprintf("row %d advances by %v, want %d", i, r.Consts, w.k[0])
				}
				if w.put != "" && !hasPut(r, w.put) {
					msg = fmt.Sprintf("row %d reads %v, want Uint%s", i, r.Puts, w.put)
				}
			} else if i > 0 && !hasConst(r, w.k[1]) {
				msg = fmt.Sprintf("row %d reads %v more bytes, want %d", i, r.Consts, w.k[1])
			}
		}
		c.Decide(msg == "", "R3.2", key, p.Pos(at), "reader table canonical", pr.name+" deviates from the TLV number code: "+msg)
	}
	if fd := findDecl("", "ParseNat"); fd != nil {
		sw := firstSwitch(fd)
		msg := "no table"
		if sw != nil {
			if rows, ok := extractSwitch(encPk, sw); ok && len(rows) == 5 {
				msg = ""
				want := []struct {
					k   uint64
					put string
				}{{1, ""}, {2, "16"}, {4, "32"}, {8, "64"}}
				for i, w := range want {
					if rows[i].Op != "==" || rows[i].Thr != w.k || (w.put != "" && !hasPut(rows[i], w.put)) {
						msg = fmt.Sprintf("row %d: %v", i, rows[i])
					}
				}
				if rows[4].Op != "default" {
					msg = "missing default (error) row"
				}
			}
		}
		c.Decide(msg == "", "R3.2", "table:ParseNat", p.Pos(fd.Pos()), "ParseNat accepts exactly widths 1,2,4,8", "ParseNat deviates from the NonNegativeInteger code: "+msg)
	} else {
		c.Und("R3.2", "table:ParseNat", "-", "function not found")
	}

	genSizeSwitches(c, "R3.3")
}

// genSizeSwitches checks every size switch of every generated encoder (shared by C03 and C13).
func genSizeSwitches(c *core.Ctx, rule string) {
	p := c.P
	// ---- R3.3 generated encoders
	nFiles, nSw := 0, 0
	nTypeConst := 0
	for _, pk := range p.All {
		for i, fname := range pk.CompiledGoFiles {
			if !strings.HasSuffix(fname, "zz_generated.go") || i >= len(pk.Syntax) {
				continue
			}
			nFiles++
			rel := strings.TrimPrefix(fname, p.Dir+"/")
			file := pk.Syntax[i]
			for _, d := range file.Decls {
				fd, ok := d.(*ast.FuncDecl)
				if !ok || fd.Body == nil || fd.Recv == nil {
					continue
				}
				recv := recvName(fd)
				if !strings.HasSuffix(recv, "Encoder") {
					continue
				}
				perSubject := map[string]int{}
				ast.Inspect(fd.Body, func(n ast.Node) bool {
					sw, ok := n.(*ast.SwitchStmt)
					if !ok {
						return true
					}
					rows, ok := extractSwitch(pk, sw)
					if !ok {
						return true
					}
					if op, _, _ := thresholds(rows); op != "<=" {
						return true
					}
					nSw++
					subj, isLen := subjectOf(sw)
					subjText := types.ExprString(subj)
					form := "NatLV"
					if isLen {
						form = "TL"
					}
					msg := checkSizeTable(rows, form)
					if msg != "" && !isLen {
						// a bare natural (no length prefix) is also canonical for fixed-position naturals
						if m2 := checkSizeTable(rows, "TL"); m2 == "" {
							msg = "value-like subject sized with the TL (length) table"
						}
					}
					perSubject[subjText+"|"+form]++
					if msg != "" {
						c.Viol(rule, fmt.Sprintf("size-switch:%s:%s.%s:%s", rel, recv, fd.Name.Name, subjText), p.Pos(sw.Pos()), fmt.Sprintf("generated encoder sizes/writes %q with a non-canonical %s table: %s", subjText, form, msg))
					}
					return true
				})
				genSubjects[rel+":"+recv+"."+fd.Name.Name] = perSubject
				if fd.Name.Name == "Init" || fd.Name.Name == "EncodeInto" {
					genSteps[rel+":"+recv+"."+fd.Name.Name] = stepsBeforeSwitch(fd)
				}
				// constants written as a TLV number (the type numbers of the fields): the
				// first byte and the cursor step agree with the canonical width of the
				// number — 1 byte only up to 0xfc, 0xfd+2, 0xfe+4, 0xff+8
				if fd.Name.Name == "EncodeInto" {
					nT, badT := constTLNumWrites(pk, fd)
					nTypeConst += nT
					if badT != "" {
						c.Viol(rule, fmt.Sprintf("type-number-width:%s:%s", rel, recv), p.Pos(fd.Pos()), "generated encoder writes a constant TLV number with a non-canonical width: "+badT+" — every decoder reads something else (a first byte of 253..255 announces a longer number)")
					}
				}
			}
		}
	}
	c.Floor(rule, "generated files", nFiles, 11)
	c.Floor(rule, "size switches in generated encoders", nSw, 300)
	c.Floor(rule, "constant TLV numbers written by generated encoders", nTypeConst, 200)
	// twin agreement Init ↔ EncodeInto
	var keys []string
	for k := range genSubjects {
		keys = append(keys, k)
	}
	sort.Strings(keys)
	nTw := 0
	for _, k := range keys {
		if !strings.HasSuffix(k, ".EncodeInto") {
			continue
		}
		init := genSubjects[strings.TrimSuffix(k, ".EncodeInto")+".Init"]
		if init == nil {
			continue
		}
		nTw++
		bad := ""
		for subj, n := range genSubjects[k] {
			if init[subj] < n {
				bad = subj
			}
		}
		if bad != "" {
			c.Viol(rule, "init-encode-twin:"+k, "-", "EncodeInto writes "+bad+" (subject|table) that Init did not size with the same table: announced length ≠ written length")
		}
	}
	// the constant steps (type numbers, fixed-width values) that Init adds to the announced
	// length are the steps by which EncodeInto advances its cursor, in the same order
	nSt := 0
	for _, k := range keys {
		if !strings.HasSuffix(k, ".EncodeInto") {
			continue
		}
		initS, okI := genSteps[strings.TrimSuffix(k, ".EncodeInto")+".Init"]
		encS := genSteps[k]
		if !okI {
			continue
		}
		nSt++
		var subs []string
		for sj := range encS {
			subs = append(subs, sj)
		}
		sort.Strings(subs)
		for _, sj := range subs {
			is, ok := initS[sj]
			if !ok {
				continue
			}
			for _, kE := range encS[sj] {
				for _, kI := range is {
					if kI != kE {
						c.Viol(rule, "init-encode-type-number-step:"+k+":"+sj, "-", fmt.Sprintf("before sizing the length of %s, Init adds %d to the announced length for the element's type number, EncodeInto advances its cursor by %d after writing it: the encoder announces a different number of bytes than it writes (a type number of 253 or more takes 3 octets)", sj, kI, kE))
					}
				}
			}
		}
	}
	c.Floor(rule, "Init/EncodeInto twins compared step by step", nSt, 60)
	genSteps = map[string]map[string][]int64{}
	c.Ok(rule, "generated-size-switches", "-", fmt.Sprintf("%d size switches in %d generated files canonical; %d Init/EncodeInto twins agree", nSw, nFiles, nTw))
	c.Floor(rule, "Init/EncodeInto twins", nTw, 60)
	genSubjects = map[string]map[string]int{}
}

var genSubjects = map[string]map[string]int{}
var genSteps = map[string]map[string][]int64{}

// stepsBeforeSwitch: for every size switch of a generated sizer / writer, the constant by which
// the statement directly before it advances the length / the cursor (the width of the
// element's type number), keyed by the text of the switch's subject.
func stepsBeforeSwitch(fd *ast.FuncDecl) map[string][]int64 {
	out := map[string][]int64{}
	var walk func(list []ast.Stmt)
	walk = func(list []ast.Stmt) {
		for i, st := range list {
			switch x := st.(type) {
			case *ast.SwitchStmt:
				if i == 0 {
					continue
				}
				as, ok := list[i-1].(*ast.AssignStmt)
				if !ok || as.Tok != token.ADD_ASSIGN || len(as.Lhs) != 1 || len(as.Rhs) != 1 {
					continue
				}
				id, ok := as.Lhs[0].(*ast.Ident)
				bl, ok2 := as.Rhs[0].(*ast.BasicLit)
				if !ok || !ok2 || (id.Name != "l" && id.Name != "pos") || bl.Kind != token.INT {
					continue
				}
				k, err := strconv.ParseInt(bl.Value, 0, 64)
				if err != nil {
					continue
				}
				subj, _ := subjectOf(x)
				if subj != nil {
					key := types.ExprString(subj)
					out[key] = append(out[key], k)
				}
			case *ast.IfStmt:
				walk(x.Body.List)
				if eb, ok := x.Else.(*ast.BlockStmt); ok {
					walk(eb.List)
				}
			case *ast.BlockStmt:
				walk(x.List)
			case *ast.ForStmt:
				walk(x.Body.List)
			case *ast.RangeStmt:
				walk(x.Body.List)
			}
		}
	}
	walk(fd.Body.List)
	return out
}

func recvName(fd *ast.FuncDecl) string {
	if fd.Recv == nil || len(fd.Recv.List) != 1 {
		return ""
	}
	t := fd.Recv.List[0].Type
	if s, ok := t.(*ast.StarExpr); ok {
		t = s.X
	}
	if id, ok := t.(*ast.Ident); ok {
		return id.Name
	}
	return ""
}

var _ = token.ADD

// usesPhi: v is phi itself or a phi that merges it.
func usesPhi(v ssa.Value, phi *ssa.Phi, seen map[*ssa.Phi]bool) bool {
	v = core.StripConv(v)
	if v == ssa.Value(phi) {
		return true
	}
	if p2, ok := v.(*ssa.Phi); ok {
		for _, e := range p2.Edges {
			if core.StripConv(e) == ssa.Value(phi) {
				return true
			}
		}
	}
	return false
}

// constTLNumWrites scans the statement lists of a generated EncodeInto for
// `buf[pos] = <const>` followed by the cursor step `pos += W` (with an optional
// binary.BigEndian.PutUintN(buf[pos+1:], <const>) in between) and checks the width.
func constTLNumWrites(pk *packages.Package, fd *ast.FuncDecl) (n int, bad string) {
	constOf := func(e ast.Expr) (uint64, bool) {
		tv, ok := pk.TypesInfo.Types[e]
		if !ok || tv.Value == nil {
			return 0, false
		}
		v, exact := constant.Uint64Val(constant.ToInt(tv.Value))
		return v, exact
	}
	isBufPos := func(e ast.Expr) bool {
		ix, ok := e.(*ast.IndexExpr)
		if !ok {
			return false
		}
		x, ok1 := ix.X.(*ast.Ident)
		i, ok2 := ix.Index.(*ast.Ident)
		return ok1 && ok2 && x.Name == "buf" && i.Name == "pos"
	}
	check := func(list []ast.Stmt) {
		for i, st := range list {
			as, ok := st.(*ast.AssignStmt)
			if !ok || as.Tok != token.ASSIGN || len(as.Lhs) != 1 || len(as.Rhs) != 1 || !isBufPos(as.Lhs[0]) {
				continue
			}
			first, isC := constOf(as.Rhs[0])
			if !isC {
				continue
			}
			// what follows
			var put uint64
			putBits := 0
			step := uint64(0)
			variable := false
			for j := i + 1; j < len(list) && j <= i+2; j++ {
				switch x := list[j].(type) {
				case *ast.ExprStmt:
					if cl, ok := x.X.(*ast.CallExpr); ok && len(cl.Args) == 2 {
						if sel, ok := cl.Fun.(*ast.SelectorExpr); ok && strings.HasPrefix(sel.Sel.Name, "PutUint") {
							fmt.Sscanf(strings.TrimPrefix(sel.Sel.Name, "PutUint"), "%d", &putBits)
							var isK bool
							put, isK = constOf(cl.Args[1])
							if !isK {
								variable = true // a length written by a size switch, not a constant
							}
						}
					}
				case *ast.AssignStmt:
					if x.Tok == token.ADD_ASSIGN && len(x.Lhs) == 1 && len(x.Rhs) == 1 {
						if id, ok := x.Lhs[0].(*ast.Ident); ok && id.Name == "pos" {
							step, _ = constOf(x.Rhs[0])
						}
					}
				}
				if step != 0 {
					break
				}
			}
			// a TLV number written from a constant: first byte directly followed by the step
			// (1-byte form), or by a PutUintN of a constant and then the step
			if step == 0 || variable || (putBits == 0 && step != 1) {
				continue
			}
			if putBits == 0 {
				if _, direct := list[i+1].(*ast.AssignStmt); !direct {
					continue
				}
			}
			n++
			ok2 := false
			switch step {
			case 1:
				ok2 = first <= 0xfc && putBits == 0
			case 3:
				ok2 = first == 0xfd && putBits == 16 && put > 0xfc && put <= 0xffff
			case 5:
				ok2 = first == 0xfe && putBits == 32 && put > 0xffff && put <= 0xffffffff
			case 9:
				ok2 = first == 0xff && putBits == 64 && put > 0xffffffff
			}
			if !ok2 && bad == "" {
				bad = fmt.Sprintf("first byte %d, %d-bit tail %d, cursor step %d", first, putBits, put, step)
			}
		}
	}
	ast.Inspect(fd.Body, func(nd ast.Node) bool {
		switch x := nd.(type) {
		case *ast.BlockStmt:
			check(x.List)
		case *ast.CaseClause:
			check(x.Body)
		}
		return true
	})
	return n, bad
}
