package props

import (
	"fmt"
	"go/token"
	"go/types"
	"sort"
	"strings"

	"ndndcheck/core"

	"golang.org/x/tools/go/ssa"
)

// c03SizedAsWritten — R3.17 "the standalone name and component encoders produce the same
// bytes as the packet encoder": a standalone encoder sizes its buffer from the header
// numbers it is about to write. The numbers whose EncodingLength is added up for the buffer
// (or returned by the sizing sibling) are the numbers EncodeInto then writes: sizing the
// header from another quantity (the component count instead of the encoded length) is right
// for every name in the test suite and two octets short from 253 octets on, where the
// number needs its 3-octet form — the last component is cut off.
func c03SizedAsWritten(c *core.Ctx) {
	p := c.P
	type pair struct{ sizer, writer *ssa.Function }
	var pairs []pair
	if f := c.Fn("R3.17", "std/encoding", "Name", "Bytes"); f != nil {
		pairs = append(pairs, pair{f, f})
	}
	s, w := c.Fn("R3.17", "std/encoding", "Component", "EncodingLength"), c.Fn("R3.17", "std/encoding", "Component", "EncodeInto")
	if s != nil && w != nil {
		pairs = append(pairs, pair{s, w})
	}
	n := 0
	for _, pr := range pairs {
		collect := func(fn *ssa.Function, method string) ([]string, bool) {
			var out []string
			ok := true
			core.Instrs(fn, func(in ssa.Instruction) {
				cl, isCall := in.(*ssa.Call)
				if !isCall {
					return
				}
				cal := cl.Call.StaticCallee()
				if cal == nil || cal.Name() != method || cal.Signature.Recv() == nil {
					return
				}
				if core.NamedName(cal.Signature.Recv().Type()) != "TLNum" {
					return
				}
				s := c03Canon(cl.Call.Args[0], 8)
				if strings.Contains(s, "?") {
					ok = false
				}
				out = append(out, s)
			})
			sort.Strings(out)
			return out, ok
		}
		sized, ok1 := collect(pr.sizer, "EncodingLength")
		written, ok2 := collect(pr.writer, "EncodeInto")
		key := "header-sized-as-written:" + core.FuncName(pr.writer)
		if !ok1 || !ok2 {
			c.Ok("R3.17", key, p.Pos(pr.writer.Pos()), "a header number of a shape the rule does not canonicalise: not compared")
			continue
		}
		n += len(written)
		c.Decide(strings.Join(sized, " ; ") == strings.Join(written, " ; "), "R3.17", key, p.Pos(pr.sizer.Pos()), fmt.Sprintf("the %d header numbers sized are the ones written", len(written)), "the buffer is sized from the header numbers ["+strings.Join(sized, " ; ")+"] but the encoder writes ["+strings.Join(written, " ; ")+"]: where the two differ in their encoded size (a number reaching 253 needs three octets) the buffer is short and the end of the encoding is cut off, or long and padded with zero octets")
	}
	c.Floor("R3.17", "header numbers written by the standalone encoders", n, 4)
}

var c03Env = map[*ssa.Parameter]string{}

// c03Canon: a canonical text of a value built from parameters, constants, fields, len and
// static calls; "?" marks what it does not know.
func c03Canon(v ssa.Value, d int) string {
	if d == 0 {
		return "?"
	}
	switch x := v.(type) {
	case *ssa.Const:
		if x.Value == nil {
			return "nil"
		}
		return "k:" + x.Value.ExactString()
	case *ssa.Convert:
		return c03Canon(x.X, d)
	case *ssa.ChangeType:
		return c03Canon(x.X, d)
	case *ssa.Parameter:
		if s, ok := c03Env[x]; ok {
			return s
		}
		for i, pp := range x.Parent().Params {
			if pp == x {
				return fmt.Sprintf("p%d", i)
			}
		}
	case *ssa.Field:
		return c03Canon(x.X, d-1) + "." + fmt.Sprint(x.Field)
	case *ssa.FieldAddr:
		return c03Canon(x.X, d-1) + "." + fmt.Sprint(x.Field)
	case *ssa.UnOp:
		if x.Op == token.MUL {
			if al, ok := x.X.(*ssa.Alloc); ok {
				if sv, ok := core.StoredOnce(al); ok {
					return c03Canon(sv, d-1)
				}
				return "?"
			}
			return c03Canon(x.X, d-1)
		}
	case *ssa.Alloc:
		if sv, ok := core.StoredOnce(x); ok {
			return c03Canon(sv, d-1)
		}
	case *ssa.Call:
		if b, ok := x.Call.Value.(*ssa.Builtin); ok && b.Name() == "len" {
			return "len(" + c03Canon(x.Call.Args[0], d-1) + ")"
		}
		if cal := x.Call.StaticCallee(); cal != nil {
			var as []string
			for _, a := range x.Call.Args {
				as = append(as, c03Canon(a, d-1))
			}
			// a one-line accessor of the repository (Component.Length() = TLNum(len(c.Val)))
			// stands for what it returns
			if cal.Blocks != nil && len(cal.Blocks) == 1 && len(cal.Blocks[0].Instrs) <= 8 && len(cal.Params) == len(as) && strings.HasPrefix(core.PkgPathOf(cal), core.ModPath) {
				if ret, ok := cal.Blocks[0].Instrs[len(cal.Blocks[0].Instrs)-1].(*ssa.Return); ok && len(ret.Results) == 1 {
					saved := map[*ssa.Parameter]string{}
					for i, pp := range cal.Params {
						if old, had := c03Env[pp]; had {
							saved[pp] = old
						}
						c03Env[pp] = as[i]
					}
					r := c03Canon(ret.Results[0], d-1)
					for _, pp := range cal.Params {
						if old, had := saved[pp]; had {
							c03Env[pp] = old
						} else {
							delete(c03Env, pp)
						}
					}
					if !strings.Contains(r, "?") {
						return r
					}
				}
			}
			return core.FuncName(cal) + "(" + strings.Join(as, ",") + ")"
		}
	case *ssa.Global:
		return "g:" + x.Name()
	}
	return "?"
}

// c03EmptyNameAccepted — R3.18 "any name (0..N components)": the packet readers refuse a
// packet whose Name element is missing, not one whose name has no components. MakeData and
// MakeInterest build the zero-component name and ReadPacket accepts it; a reader that tests
// the number of components instead of the presence of the element refuses a packet its
// siblings accept. In the Spec readers no refusal depends on len(…NameV) being zero.
func c03EmptyNameAccepted(c *core.Ctx) {
	n := 0
	for _, rn := range [][2]string{{"Spec", "ReadData"}, {"", "ReadPacket"}, {"", "checkInterest"}} {
		name := rn[1]
		fn := c.Fn("R3.18", "std/ndn/spec_2022", rn[0], name)
		if fn == nil {
			continue
		}
		bad := ""
		nNil := 0
		core.Instrs(fn, func(in ssa.Instruction) {
			op, x, y, ok := func() (token.Token, ssa.Value, ssa.Value, bool) {
				v, isV := in.(ssa.Value)
				if !isV {
					return 0, nil, nil, false
				}
				return core.Cmp(v)
			}()
			if !ok {
				return
			}
			isNameV := func(v ssa.Value) bool {
				ld, ok := core.Strip(v).(*ssa.UnOp)
				if !ok || ld.Op != token.MUL {
					return false
				}
				fa, ok := ld.X.(*ssa.FieldAddr)
				if !ok {
					return false
				}
				_, f := core.FieldAddrName(fa)
				return f == "NameV"
			}
			for _, side := range [][2]ssa.Value{{x, y}, {y, x}} {
				if core.IsNilConst(side[1]) && isNameV(side[0]) {
					nNil++
				}
				if l, isLen := core.LenOf(core.StripConv(side[0])); isLen && isNameV(l) {
					if k, isK := core.ConstInt(side[1]); isK && k <= 1 && (op == token.EQL || op == token.LSS || op == token.LEQ || op == token.GTR || op == token.NEQ || op == token.GEQ) {
						// a guard of an index into the name (its last component) is not a refusal
						// of the empty name as such
						indexed := false
						core.Instrs(fn, func(i2 ssa.Instruction) {
							if ia, ok := i2.(*ssa.IndexAddr); ok && isNameV(ia.X) {
								indexed = true
							}
						})
						if !indexed {
							bad = c.Pos(in)
						}
					}
				}
			}
		})
		n += nNil
		c.Decide(bad == "", "R3.18", "missing-name-refused-not-empty-name:"+name, c.P.Pos(fn.Pos()), fmt.Sprintf("%d presence tests of the name, none on its component count", nNil), name+" decides on the number of components of the decoded name ("+bad+"): a packet whose name has zero components — which MakeData/MakeInterest build and the sibling readers accept — is refused (or told apart) here; the readers are to refuse a missing Name element only")
	}
	c.Floor("R3.18", "presence tests of the decoded name in the Spec readers", n, 2)
}

// c03ReaderBase — R3.19 "whether presented contiguously or split into segments at arbitrary
// offsets": the segmented reader reports positions (Pos) and takes positions (Range) in one
// coordinate system. Range is given what Pos returned (the signature-covered range, the
// digest-covered range, the wire of an element). If one of the two is made relative to the
// first entry of the reader's offset table and the other is not, they agree on every reader
// whose table starts at zero — every top-level reader — and differ on a sub-reader that
// Delegate builds from a later segment: the covered ranges of a packet received in several
// segments are shifted.
func c03ReaderBase(c *core.Ctx) {
	pos, rng := c.Fn("R3.19", "std/encoding", "WireReader", "Pos"), c.Fn("R3.19", "std/encoding", "WireReader", "Range")
	if pos == nil || rng == nil {
		return
	}
	readsBase := func(fn *ssa.Function) (bool, int) {
		base, n := false, 0
		core.Instrs(fn, func(in ssa.Instruction) {
			ia, ok := in.(*ssa.IndexAddr)
			if !ok {
				return
			}
			ld, ok := core.Strip(ia.X).(*ssa.UnOp)
			if !ok {
				return
			}
			fa, ok := ld.X.(*ssa.FieldAddr)
			if !ok {
				return
			}
			if _, f := core.FieldAddrName(fa); f != "accSz" {
				return
			}
			n++
			if k, isK := core.ConstInt(ia.Index); isK && k == 0 {
				base = true
			}
		})
		return base, n
	}
	pb, pn := readsBase(pos)
	rb, rn := readsBase(rng)
	c.Decide(pb == rb, "R3.19", "segmented-reader-positions-one-base", c.P.Pos(rng.Pos()), fmt.Sprintf("Pos and Range both %s the first entry of the offset table", map[bool]string{true: "use", false: "ignore"}[pb]), fmt.Sprintf("WireReader.Pos %s the first entry of the reader's offset table and WireReader.Range %s it: the two agree only on a reader whose table starts at zero; on a sub-reader built by Delegate from a later segment the range cut out for a position that Pos reported is shifted (signature- and digest-covered ranges of a packet received in several segments)", map[bool]string{true: "is relative to", false: "ignores"}[pb], map[bool]string{true: "adds", false: "ignores"}[rb]))
	c.Floor("R3.19", "uses of the offset table in WireReader.Pos and Range", pn+rn, 2)
}

// c03OneOctetThreshold — R3.20 "every length field is exact": a hand-written sizer or
// writer of std/encoding that takes a shortcut for numbers that fit one header octet draws
// the line where the number code draws it — at 252 (0xfc). 253, 254 and 255 are the markers
// of the longer forms. In the functions EncodingLength / EncodeInto / Bytes of std/encoding
// (and what they call inside the package), a comparison of a computed integer with a
// constant K written `<= K` with K in 253..255, or `< K` with K in 254..256 (and the
// mirrored `>` / `>=` forms), decides "one octet" for a number that needs three.
func c03OneOctetThreshold(c *core.Ctx) {
	p := c.P
	n, nCmp := 0, 0
	for _, fn := range p.FuncsIn(core.ModPath + "/std/encoding") {
		if strings.HasSuffix(p.File(fn.Pos()), "_test.go") || fn.Signature.Recv() == nil {
			continue
		}
		switch fn.Name() {
		case "EncodingLength", "EncodeInto", "Bytes":
		default:
			continue
		}
		// the number tables themselves are R3.2's
		if id := core.FuncID(fn); id.Recv == "TLNum" || id.Recv == "Nat" {
			continue
		}
		n++
		bad := ""
		core.InstrsDeep(fn, func(in ssa.Instruction) {
			iff, ok := in.(*ssa.If)
			if !ok {
				return
			}
			op, x, y, okC := core.Cmp(iff.Cond)
			if !okC {
				return
			}
			k, isK := core.ConstInt(y)
			if !isK {
				return
			}
			if b, isB := x.Type().Underlying().(*types.Basic); !isB || b.Info()&types.IsInteger == 0 || b.Kind() == types.Uint8 {
				return // (a comparison of an octet with a marker is the reader's business)
			}
			nCmp++
			switch op {
			case token.LEQ, token.GTR:
				if k >= 253 && k <= 255 {
					bad = c.Pos(iff)
				}
			case token.LSS, token.GEQ:
				if k >= 254 && k <= 256 {
					bad = c.Pos(iff)
				}
			}
		})
		c.Decide(bad == "", "R3.20", "one-octet-threshold-is-252:"+core.FuncName(fn), p.Pos(fn.Pos()), "no comparison with a constant draws the one-octet line above 252", core.FuncName(fn)+" decides that a number fits one header octet by a comparison at "+bad+" that lets 253, 254 or 255 through: those are the markers of the longer forms — the size announced and the bytes written differ by two, the encoding is truncated or does not parse back")
	}
	c.Floor("R3.20", "hand-written EncodingLength / EncodeInto / Bytes methods of std/encoding", n, 4)
}

// c03NameReserveNotCapped — R3.21 "any name (0..N components)": a name reader reserves
// room for the components by the announced length (l/2+1 at most) and then reads into
// what it reserved; a reserve capped by a constant (min(l/2+1, 64)) makes the reader stop
// — with an error — at that many components. No allocation of an enc.Name in a parser of
// the repository is sized by min(·, constant).
func c03NameReserveNotCapped(c *core.Ctx) {
	p := c.P
	n, bad := 0, ""
	for _, fn := range p.Funcs() {
		if fn.Pkg == nil || !strings.HasPrefix(fn.Pkg.Pkg.Path(), core.ModPath+"/std/") || fn.Blocks == nil || strings.HasSuffix(p.File(fn.Pos()), "_test.go") {
			continue
		}
		core.Instrs(fn, func(in ssa.Instruction) {
			mk, ok := in.(*ssa.MakeSlice)
			if !ok {
				return
			}
			nt, isN := mk.Type().(*types.Named)
			if !isN || nt.Obj().Name() != "Name" || nt.Obj().Pkg() == nil || nt.Obj().Pkg().Path() != core.ModPath+"/std/encoding" {
				return
			}
			if _, isK := core.ConstInt(mk.Len); isK {
				return
			}
			n++
			if cl, isCall := core.StripConv(mk.Len).(*ssa.Call); isCall {
				if b, isB := cl.Call.Value.(*ssa.Builtin); isB && b.Name() == "min" {
					for _, a := range cl.Call.Args {
						if _, isK := core.ConstInt(a); isK {
							bad = c.Pos(mk)
						}
					}
				}
			}
		})
	}
	c.Decide(bad == "", "R3.21", "name-reserve-not-capped-by-a-constant", "-", fmt.Sprintf("%d allocations of a name sized by a computed length, none capped by a constant", n), "a name reader reserves min(·, constant) components at "+bad+" and reads into what it reserved: a name with more components than the constant is refused (ErrBufferOverflow) although its encoding is well-formed")
	c.Floor("R3.21", "allocations of a name sized by a computed length in std/", n, 3)
}
