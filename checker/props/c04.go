package props

import (
	"os"
	"fmt"
	"go/token"
	"go/types"
	"sort"
	"strings"

	"ndndcheck/core"

	"golang.org/x/tools/go/ssa"
)

// c04Frozen lists sinks that were read and found safe for a reason the dominating-
// comparison engine cannot see. Key: function + kind + description of the operand.
var c04Frozen = map[string]string{
	"std/encoding.ParseComponent:slice:ParseTLNum()": "exported helper of the ParseTLNum family, which is documented as 'used internally, so panic on index out of bounds'; it has no caller in the repository, in particular none on a receive path (the receive paths use ReadComponent, which is checked)",
}

var c04FrozenIdx = map[string]string{}

// C04 — No byte sequence can crash or exhaust a decoder or the receive path.
func C04(c *core.Ctx) {
	c.Explain = "Absence of a report is NOT a proof that no input can panic or exhaust a decoder: value reasoning beyond dominating comparisons, termination and memory proportionality in general are not decided. Decided structural necessary conditions over every function of the decode/receive surface (all generated parsers discovered by scanning, the readers, the hand-written packet entry points, stream framing, link-layer receive and reassembly, thread dispatch): (R4.1) every integer that originates from the wire (ReadTLNum, binary.BigEndian.Uint*, the int arguments of the ParseReader methods, the numeric fields of a decoded LpPacket, the thread id taken from a PIT token) and reaches an allocation size, a slice bound or an index is bounded above by a dominating comparison, and when a 64-bit unsigned value is converted to int the bound is taken on the unsigned value or a ≥ 0 test dominates too; (R4.1s sibling contradiction) every ParseReader method that uses its length argument rejects a negative one first, as its siblings do; (R4.2) a frame that fails to decode reaches no dispatch, reassembly or store update, and the dispatch functions are entered only with the matching packet kind; (R4.3) the generated parse loop refuses an element whose announced length exceeds what is left of its reader before any field reader runs, which bounds every per-field allocation by the input size."
	c.RuleText = "instances: functions of the decode/receive surface (discovered: every (*XParsingContext).Parse of every package with a zz_generated.go, plus the listed hand-written functions); in each, every make/slice/index operation whose operand has an untrusted origin. Non-trivial = a sink with ≥1 untrusted leaf."
	p := c.P

	spec := &core.TaintSpec{
		SourceCall: func(id core.CalleeID) bool {
			if id.Pkg == "std/encoding" && (id.Name == "ReadTLNum" || id.Name == "ParseTLNum") {
				return true
			}
			if id.Pkg == "encoding/binary" && strings.HasPrefix(id.Name, "Uint") {
				return true
			}
			return false
		},
		SourceParam: func(pr *ssa.Parameter) bool {
			fn := pr.Parent()
			id := core.FuncID(fn)
			if id.Pkg == "std/encoding" && (id.Recv == "BufferReader" || id.Recv == "WireReader") {
				switch id.Name {
				case "ReadBuf", "ReadWire", "Skip", "Delegate", "Range":
					return pr != fn.Params[0]
				}
			}
			if id.Pkg == "fw/dispatch" && id.Name == "GetFWThread" {
				return true
			}
			if id.Pkg == "fw/face" && id.Name == "reassemblePacket" {
				return pr.Name() == "fragIndex" || pr.Name() == "fragCount"
			}
			return false
		},
		SourceField: func(typ, field string) bool {
			if typ == "LpPacket" {
				switch field {
				case "FragIndex", "FragCount", "Sequence":
					return true
				}
			}
			return false
		},
	}

	// ---- the surface
	var surface []*ssa.Function
	addFn := func(pkg, recv, name string) {
		if f := p.Func(pkg, recv, name); f != nil && f.Blocks != nil {
			surface = append(surface, f)
		} else {
			c.Und("R4.1", "anchor:"+core.CalleeID{Pkg: pkg, Recv: recv, Name: name}.String(), "-", "function of the decode surface not found")
		}
	}
	models, genFiles := discoverModels(p)
	c.Floor("R4.1", "generated files", genFiles, 11)
	nParsers := 0
	for _, m := range models {
		if f := p.Func(m.Pkg.PkgPath, m.Name+"ParsingContext", "Parse"); f != nil && f.Blocks != nil {
			surface = append(surface, f)
			nParsers++
		}
	}
	c.Floor("R4.1", "generated parsers", nParsers, 79)
	for _, r := range []string{"BufferReader", "WireReader"} {
		for _, m := range []string{"Read", "ReadByte", "ReadBuf", "ReadWire", "Skip", "Delegate", "Range", "Pos", "Length"} {
			addFn("std/encoding", r, m)
		}
	}
	for _, f := range []string{"ReadTLNum", "ReadName", "ReadComponent", "NameFromBytes", "ComponentFromBytes", "ParseComponent", "NewWireReader"} {
		addFn("std/encoding", "", f)
	}
	addFn("std/ndn/spec_2022", "", "ReadPacket")
	addFn("std/ndn/spec_2022", "", "checkInterest")
	addFn("std/ndn/spec_2022", "Spec", "ReadData")
	addFn("std/ndn/spec_2022", "Spec", "ReadInterest")
	addFn("fw/face", "", "readTlvStream")
	if p.Func("fw/face", "", "readTlvDatagrams") != nil {
		addFn("fw/face", "", "readTlvDatagrams")
	}
	addFn("fw/face", "NDNLPLinkService", "handleIncomingFrame")
	addFn("fw/face", "NDNLPLinkService", "reassemblePacket")
	addFn("fw/face", "linkServiceBase", "dispatchInterest")
	addFn("fw/face", "linkServiceBase", "dispatchData")
	addFn("fw/dispatch", "", "GetFWThread")
	addFn("fw/fw", "", "HashNameToFwThread")
	addFn("fw/fw", "", "HashNameToAllPrefixFwThreads")
	addFn("std/engine/face", "StreamFace", "Run")

	// helpers split off a function of the surface belong to it
	{
		have := map[*ssa.Function]bool{}
		for _, f := range surface {
			have[f] = true
		}
		for _, f := range append([]*ssa.Function{}, surface...) {
			if strings.HasSuffix(p.File(f.Pos()), "zz_generated.go") {
				continue
			}
			for _, g := range core.Reach(f) {
				if !have[g] && g.Blocks != nil {
					have[g] = true
					surface = append(surface, g)
				}
			}
		}
	}

	// ---- R4.1 tainted sinks
	nSinks, nOK := 0, 0
	perKind := map[string]int{}
	type agg struct {
		n   int
		pos string
		why string
	}
	bad := map[string]*agg{}
	for _, fn := range surface {
		c.Funcs[core.FuncName(fn)] = true
		isGen := strings.HasSuffix(p.File(fn.Pos()), "zz_generated.go")
		for _, s := range spec.TaintedSinks(fn) {
			nSinks++
			perKind[s.Kind]++
			v := spec.Bounded(p, fn, s)
			if os.Getenv("NDNDCHECK_DEBUG") != "" {
				fmt.Fprintf(os.Stderr, "DEBUG sink %s %s %s val=%v leaves=%v ok=%v %s\n", core.FuncName(fn), s.Kind, c.Pos(s.Instr), s.Val, s.Leaves, v.OK, v.Reason)
			}
			if v.OK {
				nOK++
				continue
			}
			desc := describeOperand(s)
			key := fmt.Sprintf("%s:%s:%s", core.FuncName(fn), s.Kind, desc)
			if isGen {
				// one finding per template instance kind, not per model
				key = fmt.Sprintf("generated-parser:%s:%s", s.Kind, desc)
			}
			if why, ok := c04Frozen[key]; ok {
				c.Ok("R4.1", "frozen:"+key, c.Pos(s.Instr), "read and found safe: "+why)
				nOK++
				continue
			}
			if a, ok := bad[key]; ok {
				a.n++
			} else {
				bad[key] = &agg{1, c.Pos(s.Instr), v.Reason}
			}
		}
	}
	var keys []string
	for k := range bad {
		keys = append(keys, k)
	}
	sort.Strings(keys)
	for _, k := range keys {
		a := bad[k]
		c.Viol("R4.1", "untrusted-integer:"+k, a.pos, fmt.Sprintf("%s (%d site(s), first at %s): a crafted input can panic or exhaust memory here", a.why, a.n, a.pos))
	}
	c.Ok("R4.1", "untrusted-integer-sinks", "-", fmt.Sprintf("%d sinks with an untrusted operand in %d functions (%v); %d bounded by dominating comparisons or frozen after reading", nSinks, len(surface), perKind, nOK))
	c.Floor("R4.1", "sinks with an untrusted operand", nSinks, 12)
	c.Extra["surface_functions"] = len(surface)
	c.Extra["tainted_sinks"] = nSinks

	// ---- R4.1s sibling contradiction: negative length arguments of reader methods
	for _, r := range []string{"BufferReader", "WireReader"} {
		for _, m := range []string{"ReadBuf", "ReadWire", "Skip", "Delegate"} {
			fn := p.Func("std/encoding", r, m)
			if fn == nil {
				continue
			}
			l := ssa.Value(fn.Params[1])
			negL := &core.Atom{Name: "l<0", Match: func(cond ssa.Value) (int, int) {
				op, x, y, ok := core.Cmp(cond)
				if !ok || core.Strip(x) != l {
					// newPos < 0 where newPos = pos + l (Skip idiom)
					if ok {
						if b, isB := core.Strip(x).(*ssa.BinOp); isB && b.Op == token.ADD && (core.Strip(b.Y) == l || core.Strip(b.X) == l) {
							if k, isC := core.ConstInt(y); isC && k == 0 && op == token.LSS {
								return 1, -1
							}
						}
					}
					return 0, 0
				}
				k, isC := core.ConstInt(y)
				if !isC {
					return 0, 0
				}
				switch {
				case op == token.LSS && k == 0, op == token.LEQ && k == -1:
					return 1, -1
				case op == token.GEQ && k == 0, op == token.GTR && k == -1:
					return -1, 1
				case op == token.LEQ && k == 0: // l <= 0 also excludes negatives on the false edge
					return 0, -1
				case op == token.GTR && k == 0:
					return -1, 0
				}
				return 0, 0
			}}
			var uses []ssa.Instruction
			core.Instrs(fn, func(in ssa.Instruction) {
				switch x := in.(type) {
				case *ssa.Slice:
					for _, b := range []ssa.Value{x.Low, x.High} {
						if b != nil && (core.StripConv(b) == l || derives(b, l)) {
							uses = append(uses, in)
						}
					}
				case *ssa.MakeSlice:
					if core.StripConv(x.Len) == l || derives(x.Len, l) {
						uses = append(uses, in)
					}
				case *ssa.Store:
					// r.pos += l (a negative value moves the cursor backwards)
					if fa, ok := x.Addr.(*ssa.FieldAddr); ok {
						if _, f := core.FieldAddrName(fa); f == "pos" && derives(x.Val, l) {
							uses = append(uses, in)
						}
					}
				}
			})
			if len(uses) == 0 {
				continue
			}
			g := core.Gate(fn, uses, neg(negL))
			c.Decide(g.OK && g.PassEdges > 0, "R4.1", "negative-length-rejected:"+r+"."+m, p.Pos(fn.Pos()), fmt.Sprintf("%d uses of the length argument are unreachable for a negative value", len(uses)), r+"."+m+" uses its length argument as a slice bound / cursor advance without rejecting negative values (its siblings Skip/Delegate do): int(l) of a wire length ≥ 2^63 is negative and makes it panic or move backwards")
		}
	}

	// ---- R4.4 in the readers, a loop index into a buffer allocated in the same function is
	// compared with that buffer's length (an index expressed in another coordinate system,
	// e.g. segment numbers of the source, runs past the destination)
	nIdx, nIdxDecided := 0, 0
	for _, r := range []string{"BufferReader", "WireReader"} {
		for _, m := range []string{"Read", "ReadByte", "UnreadByte", "ReadBuf", "ReadWire", "Skip", "Delegate", "Range", "Pos", "Length"} {
			fn := p.Func("std/encoding", r, m)
			if fn == nil || fn.Blocks == nil {
				continue
			}
			for i, sk := range core.IndexSinks(fn) {
				nIdx++
				// only destination buffers allocated in this function: their length is the
				// make() argument, so a loop index must be compared with exactly that
				if _, isMake := core.Strip(sk.Container).(*ssa.MakeSlice); !isMake {
					continue
				}
				v := core.IndexGuarded(fn, sk, nil)
				if !v.Decided || v.Form != "x[i]" {
					continue
				}
				nIdxDecided++
				key := fmt.Sprintf("reader-index-guard:%s.%s:%s#%d", r, m, v.Form, i)
				if why, ok := c04FrozenIdx[fmt.Sprintf("%s.%s:%s", r, m, v.Form)]; ok && !v.OK {
					c.Ok("R4.4", key, c.Pos(sk.Instr), "read and found safe: "+why)
					continue
				}
				c.Decide(v.OK, "R4.4", key, c.Pos(sk.Instr), v.Form+" is under a dominating guard "+v.Need, r+"."+m+": "+v.Form+" has no dominating guard "+v.Need+": the reader can index out of range")
			}
		}
	}
	c.Extra["reader_index_sinks"] = nIdx
	c.Extra["reader_index_sinks_decided"] = nIdxDecided

	// ---- R4.2 decode-error gate in handleIncomingFrame
	if hf := p.Func("fw/face", "NDNLPLinkService", "handleIncomingFrame"); hf != nil {
		var eff []ssa.Instruction
		for _, ci := range core.FindCalls(hf,
			core.CalleeID{Pkg: "fw/face", Recv: "NDNLPLinkService", Name: "reassemblePacket"},
			core.CalleeID{Pkg: "fw/face", Recv: "linkServiceBase", Name: "dispatchInterest"},
			core.CalleeID{Pkg: "fw/face", Recv: "linkServiceBase", Name: "dispatchData"}) {
			eff = append(eff, ci)
		}
		c.Floor("R4.2", "dispatch/reassembly call sites", len(eff), 3)
		// the first ReadPacket's error
		var firstErr ssa.Value
		core.Instrs(hf, func(in ssa.Instruction) {
			if e, ok := in.(*ssa.Extract); ok && e.Index == 2 && firstErr == nil && isCallTo(e.Tuple, core.CalleeID{Pkg: "std/ndn/spec_2022", Name: "ReadPacket"}) {
				firstErr = e
			}
		})
		okErr := &core.Atom{Name: "ReadPacket err==nil", Match: func(cond ssa.Value) (int, int) {
			op, x, y, ok := core.Cmp(cond)
			if ok && (op == token.EQL || op == token.NEQ) && core.IsNilConst(y) && core.Strip(x) == firstErr {
				return core.Iff(op == token.EQL)
			}
			return 0, 0
		}}
		g := core.Gate(hf, eff, pos(okErr))
		c.Decide(firstErr != nil && g.OK && g.PassEdges > 0, "R4.2", "decode-error-gate", p.Pos(hf.Pos()), "reassembly and dispatch are reachable only when the frame decoded", "a frame that failed to decode reaches reassembly or dispatch (state changes on garbage)")
		for _, kind := range []string{"Interest", "Data"} {
			var d []ssa.Instruction
			for _, ci := range core.FindCalls(hf, core.CalleeID{Pkg: "fw/face", Recv: "linkServiceBase", Name: "dispatch" + kind}) {
				d = append(d, ci)
			}
			k := kind
			nn := atomValNonNil("L3."+k+"!=nil", func(v ssa.Value) bool {
				_, path := core.FieldPath(v)
				return len(path) >= 2 && path[len(path)-1] == k && path[len(path)-2] == "L3"
			})
			g := core.Gate(hf, d, pos(nn))
			c.Decide(len(d) > 0 && g.OK && g.PassEdges > 0, "R4.2", "dispatch-kind-gate:"+k, p.Pos(hf.Pos()), "dispatch"+k+" reachable only when L3."+k+" != nil (its own panic is unreachable)", "dispatch"+k+" can be called with a packet that is not "+k+": it panics")
		}
	}

	// ---- R4.6 in the hand-written part of the decode surface, a constant index or a
	// last-element index into a slice that was not allocated in the function (a decoded
	// name, a fragment list, a token) needs a dominating length guard: an empty Name
	// element or an absent fragment is a well-formed TLV
	nConst, nConstDecided := 0, 0
	for _, fn := range surface {
		if strings.HasSuffix(fn.Name(), "Parse") && strings.HasSuffix(core.FuncName(fn), "ParsingContext.Parse") {
			continue // generated parsers index fixed-size scratch buffers only
		}
		for i, sk := range core.IndexSinks(fn) {
			switch core.Strip(sk.Container).(type) {
			case *ssa.MakeSlice, *ssa.Alloc:
				continue
			}
			if _, isArr := core.Deref(sk.Container.Type()).Underlying().(*types.Array); isArr {
				continue // fixed-size array: the compiler checks constant indices
			}
			// only slices that come out of a decoded value: a field of a struct reached
			// through a pointer, or a parameter (slices built locally are not untrusted)
			cont := core.Strip(sk.Container)
			_, isParam := cont.(*ssa.Parameter)
			_, path := core.FieldPath(cont)
			if !isParam && len(path) == 0 {
				continue
			}
			v := core.IndexGuarded(fn, sk, nil)
			if !v.Decided || v.Form == "x[i]" {
				continue // variable indices are R4.1 / R4.4
			}
			nConst++
			nConstDecided++
			key := fmt.Sprintf("decoded-slice-index-guarded:%s:%s#%d", core.FuncName(fn), v.Form, i)
			c.Decide(v.OK, "R4.6", key, c.Pos(sk.Instr), v.Form+" is under a dominating guard "+v.Need, core.FuncName(fn)+": "+v.Form+" has no dominating guard "+v.Need+": a packet in which that element is empty or absent (e.g. an Interest with an empty Name and ApplicationParameters) makes the receive path panic")
		}
	}
	c.Extra["decoded_slice_const_index_sinks"] = nConst
	c.Floor("R4.6", "constant / last-element indices into decoded slices", nConstDecided, 2)

	c04Round4(c)
	c04Round4b(c)
	c04ReadLoops(c)
	c04StringAccum(c)
	// ---- R4.11 (shared with C03 R3.6) the segmented reader steps over every exhausted segment
	// ---- R4.16 (shared with C10 R10.3) a message whose last fragment arrived leaves the
	// reassembly store whether or not its payload decodes: removal that waits for a
	// successful parse leaves the entry behind on the error returns — a frame that fails to
	// decode has then changed forwarder state, and the next message reusing that sequence
	// number is lost
	c.Import(C10, "R4.16", "a completed message can stay in the partial-message store (its removal is not on every path from the completion): a message whose payload fails to decode leaves state behind", 1, func(k string) bool {
		return strings.HasPrefix(k, "R10.3:completed-message-removed")
	})
	// R4.19: a frame whose FragIndex is not below its FragCount is dropped before anything of
	// the partial-message store is touched: reassembly evicts and creates entries for an
	// unknown message before it looks at the slot, so a frame that is refused there has
	// already changed forwarder state
	c.Import(C10, "R4.19", "a received frame reaches reassembly with an unchecked FragIndex/FragCount: the store of partial messages is evicted and extended for a frame that is then refused (state changes on a frame that fails to decode), or a slot outside the message is addressed", 1, func(k string) bool {
		return strings.HasPrefix(k, "R10.5:reassembly-bounds")
	})
	c.Import(C03, "R4.11", "a wire with two empty segments in a row (which the no-copy encoder emits for an empty content buffer) makes the segmented reader index out of range: ReadData / ReadPacket panic", 1, func(k string) bool {
		return strings.HasPrefix(k, "R3.6:segment-advance")
	})

	// ---- R4.7 optional elements of a decoded message are dereferenced only where they were
	// found present: in the function, through the presence of a coupled element, or at
	// every call site (static and through interfaces, up to four levels) of the function
	reportOptionalDerefs(c, "R4.7", []string{"fw/fw", "fw/face", "fw/dispatch", "fw/table"}, map[string]string{
		"fw/face.InternalTransport.Receive:Packet.LpPacket":         "frames on the internal transport's queue are produced by this forwarder's own NDNLP link service, which always wraps in an LpPacket (C17 R17.5 checks the producing side)",
		"fw/face.InternalTransport.Receive:LpPacket.IncomingFaceId": "the internal face is created with incoming-face indication enabled and every OutPkt of the forwarder names its incoming face (C17 R17.5 checks both)",
	}, 40, "a packet that omits the element makes the forwarder's receive path panic (nil pointer dereference)")

	// ---- R4.5 stream framing makes progress: the compaction test and the "too much data"
	// test on the number of pending bytes leave no value for which the buffer is neither
	// compacted nor the stream rejected (one-sided comparison contradiction)
	if sf := c.Fn("R4.5", "fw/face", "", "readTlvStream"); sf != nil {
		c04StreamProgress(c, sf)
	}

	// ---- R4.3 generated parse loop: announced length ≤ what is left of the reader
	nGuard, badGuard := 0, ""
	for _, m := range models {
		fn := p.Func(m.Pkg.PkgPath, m.Name+"ParsingContext", "Parse")
		if fn == nil || fn.Blocks == nil {
			continue
		}
		reader := ssa.Value(fn.Params[1])
		// l: second ReadTLNum result; typ: first
		var reads []ssa.Value
		core.Instrs(fn, func(in ssa.Instruction) {
			if e, ok := in.(*ssa.Extract); ok && e.Index == 0 && isCallTo(e.Tuple, core.CalleeID{Pkg: "std/encoding", Name: "ReadTLNum"}) {
				reads = append(reads, e)
			}
		})
		if len(reads) < 2 {
			badGuard = m.Name + " (cannot find T and L reads)"
			continue
		}
		lv := reads[1]
		var signedOperand ssa.Value
		fits := &core.Atom{Name: "l<=remaining", Match: func(cond ssa.Value) (int, int) {
			op, x, y, ok := core.Cmp(cond)
			if !ok {
				return 0, 0
			}
			if core.StripConv(y) == lv {
				x, y = y, x
				op = core.Swap(op)
			}
			if core.StripConv(x) != lv {
				return 0, 0
			}
			// y = reader.Length() - reader.Pos()
			b, isB := core.StripConv(y).(*ssa.BinOp)
			if !isB || b.Op != token.SUB {
				return 0, 0
			}
			isM := func(v ssa.Value, name string) bool {
				cl, ok := core.StripConv(v).(*ssa.Call)
				return ok && cl.Call.IsInvoke() && cl.Call.Method.Name() == name && cl.Call.Value == reader
			}
			if !isM(b.X, "Length") || !isM(b.Y, "Pos") {
				return 0, 0
			}
			// a comparison in the signed domain bounds nothing for l ≥ 2^63 (negative)
			if bt, ok := x.Type().Underlying().(*types.Basic); ok && bt.Info()&types.IsUnsigned == 0 {
				signedOperand = x
			}
			switch op {
			case token.GTR:
				return -1, 1
			case token.LEQ:
				return 1, -1
			}
			return 0, 0
		}}
		// effects: everything that consumes l after the header: the type switch, i.e. any
		// instruction in a block dominated by the block that ends the header reads
		var eff []ssa.Instruction
		core.Instrs(fn, func(in ssa.Instruction) {
			switch x := in.(type) {
			case *ssa.MakeSlice:
				eff = append(eff, in)
			case ssa.CallInstruction:
				if x.Common().IsInvoke() && x.Common().Value == reader {
					switch x.Common().Method.Name() {
					case "ReadBuf", "ReadWire", "Skip", "Delegate":
						eff = append(eff, in)
					}
				}
			}
		})
		if len(eff) == 0 {
			continue
		}
		nGuard++
		g := core.Gate(fn, eff, pos(fits))
		if !(g.OK && g.PassEdges > 0) {
			badGuard = strings.TrimPrefix(m.Pkg.PkgPath, core.ModPath+"/") + "." + m.Name
		} else if signedOperand != nil {
			g2 := core.Gate(fn, eff, pos(core.AtomNonNegative(signedOperand)))
			if !(g2.OK && g2.PassEdges > 0) {
				badGuard = strings.TrimPrefix(m.Pkg.PkgPath, core.ModPath+"/") + "." + m.Name + " (the guard compares the length after conversion to a signed integer and no ≥ 0 test dominates: a length ≥ 2^63 is negative and passes)"
			}
		}
	}
	c.Decide(badGuard == "" && nGuard >= 70, "R4.3", "generated-parser-length-fits-reader", "-", fmt.Sprintf("in %d generated parsers every field reader / allocation is behind l ≤ reader.Length()-reader.Pos()", nGuard), "generated parser of "+badGuard+" runs field readers (allocations of l bytes, make(enc.Name, l/2+1), Skip, Delegate) without first refusing an element whose announced length exceeds the rest of its reader: a 13-byte frame announcing a 2^40-byte name makes the parser allocate until the process dies")
}

func derives(v, l ssa.Value) bool {
	for i := 0; i < 5; i++ {
		v = core.StripConv(v)
		if v == l {
			return true
		}
		b, ok := v.(*ssa.BinOp)
		if !ok {
			return false
		}
		if core.StripConv(b.Y) == l {
			return true
		}
		v = b.X
	}
	return false
}

// describeOperand renders the untrusted operand of a sink without register names.
func describeOperand(s core.Sink) string {
	var parts []string
	for _, l := range s.Leaves {
		switch x := l.(type) {
		case *ssa.Extract:
			if cl, ok := x.Tuple.(*ssa.Call); ok {
				if id, ok := core.Callee(&cl.Call); ok {
					parts = append(parts, id.Name+"()")
					continue
				}
			}
		case *ssa.Call:
			if id, ok := core.Callee(&x.Call); ok {
				parts = append(parts, id.Name+"()")
				continue
			}
		case *ssa.Parameter:
			parts = append(parts, "param "+x.Name())
			continue
		case *ssa.UnOp:
			_, path := core.FieldPath(x)
			if len(path) > 0 {
				parts = append(parts, "*."+path[len(path)-1])
				continue
			}
			inner := core.DerefOnce(x)
			if _, path := core.FieldPath(inner); len(path) > 0 {
				parts = append(parts, "*."+path[len(path)-1])
				continue
			}
		}
		parts = append(parts, "value")
	}
	sort.Strings(parts)
	// de-duplicate
	var out []string
	for i, s := range parts {
		if i == 0 || s != parts[i-1] {
			out = append(out, s)
		}
	}
	return strings.Join(out, "+")
}

// c04StreamProgress decides R4.5 on the stream receive loop.
func c04StreamProgress(c *core.Ctx, fn *ssa.Function) {
	p := c.P
	// the compaction: copy(buf, buf[low:high])
	var cp *ssa.Call
	var low, high ssa.Value
	core.InstrsDeep(fn, func(in ssa.Instruction) {
		cl, ok := isBuiltinCall(in, "copy")
		if !ok {
			return
		}
		dst := core.Strip(cl.Call.Args[0])
		sameBuf := func(x ssa.Value) bool {
			if core.Same(x, dst) {
				return true
			}
			// a re-slice of the buffer as destination (what is moved is C11's business)
			d, ok := dst.(*ssa.Slice)
			return ok && core.Same(x, d.X)
		}
		if sl, ok := core.Strip(cl.Call.Args[1]).(*ssa.Slice); ok && sl.Low != nil && sl.High != nil && sameBuf(sl.X) {
			cp, low, high = cl, sl.Low, sl.High
		}
	})
	if cp == nil {
		c.Und("R4.5", "stream-compaction", p.Pos(fn.Pos()), "no copy(buf, buf[low:high]) compaction found in readTlvStream")
		return
	}
	family := func(v ssa.Value) map[ssa.Value]bool {
		set := map[ssa.Value]bool{}
		var walk func(v ssa.Value)
		walk = func(v ssa.Value) {
			v = core.Resolve(core.StripConv(v))
			if v == nil || set[v] {
				return
			}
			set[v] = true
			switch x := v.(type) {
			case *ssa.Phi:
				for _, e := range x.Edges {
					walk(e)
				}
			case *ssa.BinOp:
				if x.Op == token.ADD || x.Op == token.SUB {
					walk(x.X)
				}
			}
		}
		walk(v)
		return set
	}
	hi, lo := family(high), family(low)
	isPending := func(v ssa.Value) bool {
		b, ok := core.StripConv(v).(*ssa.BinOp)
		if !ok || b.Op != token.SUB {
			return false
		}
		if hi[core.Resolve(core.StripConv(b.X))] && lo[core.Resolve(core.StripConv(b.Y))] && !lo[core.Resolve(core.StripConv(b.X))] {
			return true
		}
		// the same quantity seen from a worker that was handed buf[low:high] and walks it
		// with a cursor of its own: len(pending) - cursor
		if l, isLen := core.LenOf(b.X); isLen {
			if sl, isSl := core.Resolve(l).(*ssa.Slice); isSl && sl.Low != nil && sl.High != nil {
				return lo[core.Resolve(core.StripConv(sl.Low))] && hi[core.Resolve(core.StripConv(sl.High))]
			}
		}
		return false
	}
	// unconditional compaction on every iteration of the receive loop?
	outer := enclosingLoops(cp.Block())
	if len(outer) > 0 && everyIterationPasses(fn, outer[len(outer)-1], func(x ssa.Instruction) bool { return x == ssa.Instruction(cp) }) {
		c.Ok("R4.5", "stream-compaction-covers-pending", c.Pos(cp), "the unread bytes are moved to the front on every iteration of the receive loop")
		return
	}
	// pending OP const comparisons: (op, K, true-successor)
	type cmp struct {
		in      *ssa.If
		op      token.Token
		k       int64
		isConst bool
	}
	var cmps []cmp
	var allBlocks []*ssa.BasicBlock
	for _, g := range core.Reach(fn) {
		allBlocks = append(allBlocks, g.Blocks...)
	}
	for _, b := range allBlocks {
		if len(b.Instrs) == 0 {
			continue
		}
		ifi, ok := b.Instrs[len(b.Instrs)-1].(*ssa.If)
		if !ok {
			continue
		}
		op, x, y, ok := core.Cmp(ifi.Cond)
		if !ok {
			continue
		}
		if isPending(y) {
			x, y = y, x
			op = core.Swap(op)
		}
		if !isPending(x) {
			continue
		}
		k, isC := core.ConstInt(y)
		cmps = append(cmps, cmp{ifi, op, k, isC})
	}
	// compaction gate: the nearest branch the copy is control-dependent on (walking up the
	// dominator tree inside the receive loop) must be pending < K or pending <= K
	shiftMax, haveShift := int64(0), false
	var loopH *ssa.BasicBlock
	if len(outer) > 0 {
		loopH = outer[len(outer)-1]
	}
	for b := cp.Block(); b != nil && b != loopH; b = b.Idom() {
		d := b.Idom()
		if d == nil || len(b.Preds) != 1 || b.Preds[0] != d {
			continue // a join point: not gated by d alone
		}
		ifi, ok := d.Instrs[len(d.Instrs)-1].(*ssa.If)
		if !ok {
			continue
		}
		for _, q := range cmps {
			if q.in != ifi || !q.isConst {
				continue
			}
			op := q.op
			if d.Succs[1] == b {
				op = core.Negate(op)
			}
			switch op {
			case token.LSS:
				shiftMax, haveShift = q.k-1, true
			case token.LEQ:
				shiftMax, haveShift = q.k, true
			}
		}
		break
	}
	// further conditions the compaction depends on inside the receive loop (found on the
	// dominator chain above the pending-bytes test): "low offset > 0" only skips a move
	// that would be a no-op; anything that excludes pending == 0 (high > low, pending > 0)
	// also skips the reset of the two offsets — when every block received so far has been
	// delivered the offsets then stay where they are, the buffer is used up to its end, and
	// Read is called with an empty slice.
	extraBad := ""
	gateSeen := false
	for b := cp.Block(); b != nil && b != loopH; b = b.Idom() {
		d := b.Idom()
		if d == nil || len(b.Preds) != 1 || b.Preds[0] != d {
			continue
		}
		ifi, ok := d.Instrs[len(d.Instrs)-1].(*ssa.If)
		if !ok {
			continue
		}
		if !gateSeen { // the pending-bytes test itself
			gateSeen = true
			continue
		}
		if d == loopH {
			break
		}
		op, x, y, okC := core.Cmp(ifi.Cond)
		if !okC {
			extraBad = c.Pos(ifi) + " (a condition that is not a comparison)"
			continue
		}
		if d.Succs[1] == b {
			op = core.Negate(op)
		}
		rx, ry := core.Resolve(core.StripConv(x)), core.Resolve(core.StripConv(y))
		kx, xC := core.ConstInt(x)
		ky, yC := core.ConstInt(y)
		switch {
		case lo[rx] && !hi[rx] && yC && ky == 0 && (op == token.GTR || op == token.NEQ):
			// low > 0: nothing to move otherwise
		case lo[ry] && !hi[ry] && xC && kx == 0 && (op == token.LSS || op == token.NEQ):
		default:
			extraBad = c.Pos(ifi) + " (" + ifi.Cond.String() + ")"
		}
	}
	if extraBad != "" && haveShift {
		c.Viol("R4.5", "stream-compaction-covers-pending", c.Pos(cp), "the compaction of the stream receive buffer — and with it the reset of the receive and parse offsets — also depends on "+extraBad+": when that does not hold (e.g. nothing is pending because every block received so far was delivered) the offsets stay where they are; the buffer is used up to its end and Read is then called with an empty slice (the receive loop spins or ends the face) although the stream is well-formed")
		return
	}
	// rejection: pending > K / >= K whose asserted edge returns an error
	rejectMin, haveReject := int64(0), false
	returnsErr := func(b *ssa.BasicBlock) bool {
		for i := 0; i < 3 && b != nil; i++ {
			if r, ok := b.Instrs[len(b.Instrs)-1].(*ssa.Return); ok {
				// the error result (last) is not nil
				return len(r.Results) >= 1 && !core.IsNilConst(r.Results[len(r.Results)-1])
			}
			if len(b.Succs) != 1 {
				return false
			}
			b = b.Succs[0]
		}
		return false
	}
	nonConstReject := false
	for _, q := range cmps {
		tb, fb := q.in.Block().Succs[0], q.in.Block().Succs[1]
		op := q.op
		switch {
		case returnsErr(tb):
		case returnsErr(fb):
			op = core.Negate(op)
		default:
			continue
		}
		if !q.isConst {
			nonConstReject = true
			continue
		}
		var m int64
		switch op {
		case token.GTR:
			m = q.k + 1
		case token.GEQ:
			m = q.k
		default:
			continue
		}
		if !haveReject || m < rejectMin {
			rejectMin, haveReject = m, true
		}
	}
	switch {
	case !haveShift:
		c.Viol("R4.5", "stream-compaction-covers-pending", c.Pos(cp), "the compaction of the stream receive buffer is conditional, but not on a test pending-bytes < / <= constant: cannot show that a full buffer is always compacted or the stream rejected (Read would be called with no room, forever)")
	case !haveReject:
		why := "no test rejects a stream whose pending bytes exceed a constant"
		if nonConstReject {
			why = "the test that rejects too much pending data does not compare with a constant"
		}
		c.Viol("R4.5", "stream-compaction-covers-pending", c.Pos(cp), fmt.Sprintf("%s, while the buffer is compacted only up to %d pending bytes: with more pending bytes and the buffer full, Read is called with an empty slice on every iteration (the receive loop spins)", why, shiftMax))
	default:
		// the buffer has room for the largest block the de-framer accepts: a block whose
		// announced length is the maximum plus its own type and length octets (up to 9 + 9).
		// A smaller buffer can never hold such a block completely: no error fires, the
		// buffer is full, and Read is called with an empty slice for ever.
		core.Instrs(fn, func(in ssa.Instruction) {
			var k int64
			isC := false
			switch x := in.(type) {
			case *ssa.MakeSlice:
				k, isC = core.ConstInt(x.Len)
			case *ssa.Alloc: // make([]byte, <constant>) is lowered to new [N]byte + slice
				if at, okA := core.Deref(x.Type()).Underlying().(*types.Array); okA && x.Heap {
					if b, okB := at.Elem().Underlying().(*types.Basic); okB && b.Kind() == types.Uint8 {
						k, isC = at.Len(), true
					}
				}
			default:
				return
			}
			if isC && haveReject {
				c.Decide(k >= rejectMin+18, "R4.5", "stream-buffer-holds-largest-block", c.Pos(in), fmt.Sprintf("the receive buffer has %d bytes, the largest accepted block needs at most %d", k, rejectMin+17), fmt.Sprintf("the stream receive buffer has %d bytes, but a block announcing the largest accepted length needs up to %d with its type and length octets: such a block never completes, the buffer fills up, no error is raised and the receive loop reads into an empty slice for ever", k, rejectMin+17))
			}
		})
		c.Decide(shiftMax+1 >= rejectMin, "R4.5", "stream-compaction-covers-pending", c.Pos(cp),
			fmt.Sprintf("pending ≤ %d is compacted, pending ≥ %d is rejected: no value in between", shiftMax, rejectMin),
			fmt.Sprintf("the receive buffer is compacted only while pending ≤ %d but the stream is rejected only from pending ≥ %d: for the values in between with the buffer full, Read is called with an empty slice on every iteration (the receive loop spins)", shiftMax, rejectMin))
	}
}

// c04Round4 — rules added for defects a bug-hunting agent demonstrated on the unmodified tree.
//
// R4.8 a datagram socket keeps frame boundaries: the stream de-framer, which carries its
// receive and parse offsets from one Read to the next, is never given a UDP connection (a
// truncated datagram would be completed with the bytes of the next one; an oversize
// announcement would end the face).
//
// R4.9 the result of a decoder is used only when decoding succeeded: for every call of a
// generated Parse* function or of ReadPacket/ReadData/ReadInterest whose error result is
// looked at, no field of the decoded value is reachable on the edge asserting err != nil.
//
// R4.7b the consumers of decoded routing and sync messages dereference optional elements
// only where they were found present (same rule as R4.7, packages dv/… and std/sync, std/schema/svs).
//
// R4.10 the link service's store of partially reassembled messages is bounded: creating an
// entry is preceded by a test of the store's size (or of an age), so that a peer cannot
// pin memory with first fragments of messages it never completes.
func c04Round4(c *core.Ctx) {
	p := c.P
	// ---- R4.8
	if rs := p.Func("fw/face", "", "readTlvStream"); rs != nil {
		n := 0
		for _, ci := range p.Callers(rs) {
			if strings.HasSuffix(p.File(ci.Parent().Pos()), "_test.go") {
				continue
			}
			n++
			_, args := core.CallArgs(ci.Common())
			bad := ""
			if len(args) > 0 {
				v := core.Strip(args[0])
				if mi, ok := v.(*ssa.MakeInterface); ok {
					v = mi.X
				}
				ts := v.Type().String()
				if strings.Contains(ts, "net.UDPConn") || strings.Contains(ts, "net.PacketConn") || strings.Contains(ts, "net.IPConn") {
					bad = ts
				}
			}
			c.Decide(bad == "", "R4.8", "stream-deframer-not-on-datagrams:"+core.FuncName(ci.Parent()), c.Pos(ci), "the stream de-framer reads from a stream connection", core.FuncName(ci.Parent())+" runs the stream de-framer (offsets carried across reads) over a datagram socket ("+bad+"): a truncated datagram is completed with the bytes of the next one — the link service receives a frame spliced from two datagrams and the good packet is lost — and a short datagram announcing a large block ends the face")
		}
		c.Floor("R4.8", "stream de-framer call sites", n, 2)
	}

	// ---- R4.9
	isDecoder := func(id core.CalleeID) bool {
		if strings.HasPrefix(id.Name, "Parse") && id.Recv == "" && (strings.Contains(id.Pkg, "std/") || strings.Contains(id.Pkg, "dv/")) {
			return true
		}
		if id.Pkg == "std/ndn/spec_2022" && (id.Name == "ReadPacket" || id.Name == "ReadData" || id.Name == "ReadInterest") {
			return true
		}
		return false
	}
	nDec, nUse := 0, 0
	for _, pk := range p.All {
		rel := strings.TrimPrefix(pk.PkgPath, core.ModPath+"/")
		for _, fn := range p.FuncsIn(pk.PkgPath) {
			file := p.File(fn.Pos())
			if strings.HasSuffix(file, "_test.go") || strings.HasSuffix(file, "zz_generated.go") || strings.Contains(rel, "/tests/") || strings.Contains(rel, "examples") {
				continue
			}
			core.Instrs(fn, func(in ssa.Instruction) {
				cl, ok := in.(*ssa.Call)
				if !ok {
					return
				}
				id, ok := core.Callee(&cl.Call)
				if !ok || !isDecoder(id) {
					return
				}
				tup, ok := cl.Type().(*types.Tuple)
				if !ok || tup.Len() < 2 {
					return
				}
				var res, errv ssa.Value
				for _, r := range core.Refs(cl) {
					if ex, ok := r.(*ssa.Extract); ok {
						if ex.Index == 0 {
							res = ex
						}
						if ex.Index == tup.Len()-1 && types.Identical(ex.Type(), types.Universe.Lookup("error").Type()) {
							errv = ex
						}
					}
				}
				if res == nil || errv == nil {
					return
				}
				if _, isPtr := res.Type().Underlying().(*types.Pointer); !isPtr {
					return
				}
				nDec++
				failed := atomNonNil("decode error", errv)
				absent := atomNonNil("decoded value", res)
				// dereferences of the result (directly, or after a spill to a local)
				var uses []ssa.Instruction
				var collect func(v ssa.Value, d int)
				collect = func(v ssa.Value, d int) {
					if d > 2 {
						return
					}
					for _, r := range core.Refs(v) {
						switch x := r.(type) {
						case *ssa.FieldAddr:
							if x.X == v {
								uses = append(uses, x)
							}
						case *ssa.UnOp:
							if x.Op == token.MUL && x.X == v {
								uses = append(uses, x)
							}
						case *ssa.Store:
							if x.Val == v {
								if al, isAl := x.Addr.(*ssa.Alloc); isAl {
									for _, r2 := range core.Refs(al) {
										if u, isU := r2.(*ssa.UnOp); isU && u.Op == token.MUL {
											collect(u, d+1)
										}
									}
								}
							}
						}
					}
				}
				collect(res, 0)
				if len(uses) == 0 {
					return
				}
				nUse += len(uses)
				c.Funcs[core.FuncName(fn)] = true
				top := core.RootOf(fn)
				if top == nil {
					top = fn
				}
				g := core.GateDeep(top, uses, neg(failed))
				ok2 := g.OK && g.PassEdges > 0
				if !ok2 {
					g2 := core.GateDeep(top, uses, pos(absent))
					ok2 = g2.OK && g2.PassEdges > 0
				}
				c.Decide(ok2, "R4.9", "decoded-value-used-only-on-success:"+core.FuncName(fn)+":"+id.Name, c.Pos(cl), fmt.Sprintf("%d field accesses of the decoded value, all unreachable when the decoder returned an error", len(uses)), core.FuncName(fn)+" reads fields of the value returned by "+id.Name+" on a path on which the decoder reported an error (the error is logged or ignored and execution falls through): an undecodable input makes it dereference nil")
			})
		}
	}
	c.Floor("R4.9", "decoder calls whose result is dereferenced", nDec, 8)
	c.Extra["decoded_value_field_accesses"] = nUse

	// ---- R4.7b
	reportOptionalDerefs(c, "R4.7b", []string{"dv/dv", "dv/table", "dv/nfdc", "std/sync", "std/schema/svs", "std/schema"}, nil, 4, "an advertisement or sync message that omits the element crashes the routing daemon / sync node (nil pointer dereference in a goroutine without recover)")

	// ---- R4.12 a nil pointer must not be wrapped into a non-nil interface on the receive
	// path: where a function hands out an interface value made from a pointer that can be
	// nil (the result of a function with a `return nil`), the callers' `== nil` tests never
	// fire and the method call that follows dereferences nil.
	{
		nMI := 0
		mayReturnNil := func(f *ssa.Function) bool {
			if f == nil || f.Blocks == nil {
				return false
			}
			r := false
			core.Instrs(f, func(in ssa.Instruction) {
				if ret, ok := in.(*ssa.Return); ok && len(ret.Results) >= 1 && core.IsNilConst(core.Strip(ret.Results[0])) {
					r = true
				}
			})
			return r
		}
		for _, rel := range []string{"fw/face", "fw/fw", "fw/dispatch", "fw/table"} {
			for _, fn := range p.FuncsIn(core.ModPath + "/" + rel) {
				if strings.HasSuffix(p.File(fn.Pos()), "_test.go") {
					continue
				}
				core.Instrs(fn, func(in ssa.Instruction) {
					mi, ok := in.(*ssa.MakeInterface)
					if !ok {
						return
					}
					if _, isPtr := mi.X.Type().Underlying().(*types.Pointer); !isPtr {
						return
					}
					cl, isCall := core.Strip(mi.X).(*ssa.Call)
					if !isCall {
						return
					}
					cal := cl.Call.StaticCallee()
					if cal == nil || cal.Pkg == nil || !strings.HasPrefix(cal.Pkg.Pkg.Path(), core.ModPath) {
						return
					}
					nMI++
					if !mayReturnNil(cal) {
						return
					}
					// wrapped only behind a != nil test of the pointer?
					g := core.GateDeep(fn, []ssa.Instruction{in}, pos(atomNonNil("pointer != nil", mi.X)))
					if g.OK && g.PassEdges > 0 {
						return
					}
					c.Viol("R4.12", "nil-pointer-not-wrapped-into-interface:"+core.FuncName(fn), c.Pos(in), core.FuncName(fn)+" converts the result of "+core.FuncName(cal)+", which can be a nil pointer, into an interface value without testing it: the interface is then not nil, a caller's `== nil` guard does not fire and the method call behind it runs on a nil pointer (a crafted PIT token naming a thread that does not exist crashes the face's receive goroutine)")
				})
			}
		}
		c.Decide(true, "R4.12", "nil-pointer-not-wrapped-into-interface", "-", fmt.Sprintf("%d conversions of a repository function's pointer result into an interface inspected", nMI), "")
	}

	// ---- R4.2b a fragment that is refused changes nothing: on the edges on which
	// reassemblePacket refuses a fragment (index outside the stored message), the store of
	// partial messages is not written before the function returns — otherwise a spoofed or
	// damaged frame destroys the message being reassembled
	if ra := c.Fn("R4.2", "fw/face", "NDNLPLinkService", "reassemblePacket"); ra != nil {
		isStoreWrite := func(in ssa.Instruction) bool {
			if mu, ok := in.(*ssa.MapUpdate); ok {
				if _, path := core.FieldPath(mu.Map); len(path) > 0 {
					return true
				}
			}
			if cl, ok := isBuiltinCall(in, "delete"); ok {
				if _, path := core.FieldPath(cl.Call.Args[0]); len(path) > 0 {
					return true
				}
			}
			if cl, ok := isBuiltinCall(in, "clear"); ok {
				if _, path := core.FieldPath(cl.Call.Args[0]); len(path) > 0 {
					return true
				}
			}
			return false
		}
		outside := &core.Atom{Name: "fragment index outside the stored message", Match: func(cond ssa.Value) (int, int) {
			op, x, y, ok := core.CmpOrient(cond, func(v ssa.Value) bool { return !core.IsLen(core.StripConv(v)) })
			if !ok {
				return 0, 0
			}
			l, isLen := core.LenOf(core.StripConv(y))
			if !isLen {
				return 0, 0
			}
			// the stored message: looked up in the store here, or a local that holds the
			// result of the (comma-ok) lookup made at the top — possibly joined with the
			// freshly made slot list on the path that creates the entry
			var fromStore func(v ssa.Value, d int) bool
			fromStore = func(v ssa.Value, d int) bool {
				if d > 4 {
					return false
				}
				switch y := core.Strip(v).(type) {
				case *ssa.Lookup:
					_, path := core.FieldPath(y.X)
					return len(path) > 0
				case *ssa.Extract:
					if lk, isLk := y.Tuple.(*ssa.Lookup); isLk && y.Index == 0 {
						_, path := core.FieldPath(lk.X)
						return len(path) > 0
					}
				case *ssa.Phi:
					for _, e := range y.Edges {
						if fromStore(e, d+1) {
							return true
						}
					}
				}
				return false
			}
			if !fromStore(l, 0) {
				if _, path := core.FieldPath(l); len(path) == 0 {
					return 0, 0
				}
			}
			if _, isPar := core.StripConv(x).(*ssa.Parameter); !isPar {
				return 0, 0
			}
			switch op {
			case token.GEQ:
				return 1, -1
			case token.LSS:
				return -1, 1
			}
			return 0, 0
		}}
		nRef, bad := 0, ""
		for _, f := range core.EdgeFactsDeep(ra, outside) {
			if !f.Holds || len(f.E.To.Preds) != 1 {
				continue
			}
			nRef++
			core.Instrs(f.E.To.Parent(), func(in ssa.Instruction) {
				if isStoreWrite(in) && (in.Block() == f.E.To || f.E.To.Dominates(in.Block())) {
					bad = c.Pos(in)
				}
			})
		}
		c.Decide(nRef > 0 && bad == "", "R4.2", "refused-fragment-changes-no-state", p.Pos(ra.Pos()), "the refusal of a fragment whose index lies outside the stored message writes nothing to the store", "reassemblePacket writes to the store of partial messages ("+bad+") on the path on which it refuses a fragment: a frame that is rejected (spoofed or damaged FragIndex) destroys the message being reassembled — a refused frame must change no state other than counters")
	}

	// ---- R4.10
	if ra := c.Fn("R4.10", "fw/face", "NDNLPLinkService", "reassemblePacket"); ra != nil {
		bounded := false
		var create ssa.Instruction
		check := func(fn *ssa.Function) {
			core.InstrsDeep(fn, func(in ssa.Instruction) {
				if mu, ok := in.(*ssa.MapUpdate); ok {
					if t, isMap := mu.Map.Type().Underlying().(*types.Map); isMap {
						if _, isU := t.Key().Underlying().(*types.Basic); isU && fn == ra {
							if _, path := core.FieldPath(mu.Map); len(path) > 0 {
								create = in
							}
						}
					}
				}
				if b, ok := in.(*ssa.BinOp); ok && (b.Op == token.GEQ || b.Op == token.GTR || b.Op == token.LSS || b.Op == token.LEQ) {
					for _, side := range []ssa.Value{b.X, b.Y} {
						if l, isLen := core.LenOf(core.StripConv(side)); isLen {
							if t, isMap := l.Type().Underlying().(*types.Map); isMap {
								if _, isU := t.Key().Underlying().(*types.Basic); isU {
									if _, path := core.FieldPath(l); len(path) > 0 {
										bounded = true
									}
								}
							}
						}
					}
				}
			})
		}
		check(ra)
		if hf := p.Func("fw/face", "NDNLPLinkService", "handleIncomingFrame"); hf != nil {
			check(hf)
		}
		if create == nil {
			c.Und("R4.10", "reassembly-store-bounded", p.Pos(ra.Pos()), "no creation of a partial-message entry found in reassemblePacket")
		} else {
			// … on every path: the entry is created either on an edge asserting that the store
			// is not full, or after the store was emptied
			if bounded && create.Parent() == ra {
				store := create.(*ssa.MapUpdate).Map
				notFull := &core.Atom{Name: "store not full", Match: func(cond ssa.Value) (int, int) {
					op, x, y, ok := core.Cmp(cond)
					if !ok {
						return 0, 0
					}
					l, isLen := core.LenOf(core.StripConv(x))
					if !isLen {
						if l2, isLen2 := core.LenOf(core.StripConv(y)); isLen2 {
							l, op, isLen = l2, core.Swap(op), true
						}
					}
					if !isLen || !(core.Strip(l) == core.Strip(store) || core.Same(l, store)) {
						return 0, 0
					}
					switch op {
					case token.GEQ, token.GTR:
						return -1, 1
					case token.LSS, token.LEQ:
						return 1, -1
					}
					return 0, 0
				}}
				isClear := func(in ssa.Instruction) bool {
					if cl, ok := in.(*ssa.Call); ok {
						if b, isB := cl.Call.Value.(*ssa.Builtin); isB && b.Name() == "clear" && len(cl.Call.Args) == 1 {
							return core.Strip(cl.Call.Args[0]) == core.Strip(store) || core.Same(cl.Call.Args[0], store)
						}
					}
					if st, ok := in.(*ssa.Store); ok {
						if _, isMk := core.Strip(st.Val).(*ssa.MakeMap); isMk {
							return core.Same(st.Addr, store) || sameFieldAddr(st.Addr, store)
						}
					}
					return false
				}
				cut, per := core.CutEdges(ra, pos(notFull))
				path := core.ReachInstr(ra, create, cut, isClear)
				if path != nil || per[0] == 0 {
					bounded = false
				}
			}
			c.Decide(bounded, "R4.10", "reassembly-store-bounded", c.Pos(create), "on every path an entry is created only while the store is not full, or after it was emptied", "reassemblePacket can create an entry (a slot list of FragCount elements) on a path that neither found the store below its limit nor emptied it (e.g. for fragments that are not the first of their message): 2000 frames of 22 bytes announcing FragCount=8800 make a face retain about 400 MB — memory out of proportion to the input, over a history of frames")
		}
	}
}

// c04Round4b — rules prompted by the second hunt on the repaired tree.
//
// R4.13 "memory in proportion to the input": the slot table of a partially reassembled
// message is not sized by the fragment count a single frame announces (up to 8800 slots of
// 24 bytes for an 18-byte frame). (Known finding on the current tree.)
//
// R4.14 "a frame that fails to decode changes no forwarder state other than counters": the
// UDP listener creates the on-demand face of an unknown endpoint only on an edge asserting
// that the datagram decodes (one element, ReadPacket without error).
//
// R4.15 the segmented reader reserves room in proportion to what is read: the capacity of
// the wire that ReadWire returns does not derive from the number of segments of the whole
// input (a packet of many small elements in many segments cost segments x reads memory).
func c04Round4b(c *core.Ctx) {
	p := c.P
	// ---- R4.13
	if ra := c.Fn("R4.13", "fw/face", "NDNLPLinkService", "reassemblePacket"); ra != nil {
		var sized []string
		nMake := 0
		core.InstrsDeep(ra, func(in ssa.Instruction) {
			ms, ok := in.(*ssa.MakeSlice)
			if !ok {
				return
			}
			nMake++
			if _, isPar := core.StripConv(ms.Len).(*ssa.Parameter); isPar {
				sized = append(sized, c.Pos(in))
			}
		})
		c.Decide(len(sized) == 0, "R4.13", "reassembly-slots-not-sized-by-announced-count", p.Pos(ra.Pos()), fmt.Sprintf("%d allocations in reassemblePacket, none sized by the announced fragment count", nMake), "reassemblePacket allocates the slot table of a message by the FragCount of the first frame that arrives ("+strings.Join(sized, ", ")+"; accepted up to the maximum packet size): one 18-byte frame allocates and retains about 214 KB, 32 of them pin 6.8 MB per face, and every further one discards those and allocates again — memory out of proportion to the input")
	}
	// ---- R4.14
	if run := c.Fn("R4.14", "fw/face", "UDPListener", "Run"); run != nil {
		var creates []ssa.Instruction
		core.Instrs(run, func(in ssa.Instruction) {
			if ci, ok := in.(ssa.CallInstruction); ok {
				if id, okID := core.Callee(ci.Common()); okID && (id.Name == "MakeUnicastUDPTransport" || id.Name == "MakeNDNLPLinkService") {
					creates = append(creates, in)
				}
			}
		})
		decodes := &core.Atom{Name: "ReadPacket err == nil", Match: func(cond ssa.Value) (int, int) {
			op, x, y, ok := core.Cmp(cond)
			if !ok || (op != token.EQL && op != token.NEQ) {
				return 0, 0
			}
			if core.IsNilConst(x) {
				x, y = y, x
			}
			if !core.IsNilConst(y) {
				return 0, 0
			}
			ex, isEx := core.Strip(x).(*ssa.Extract)
			if !isEx {
				return 0, 0
			}
			cl, isCall := ex.Tuple.(*ssa.Call)
			if !isCall {
				return 0, 0
			}
			if id, okID := core.Callee(&cl.Call); !okID || id.Name != "ReadPacket" {
				return 0, 0
			}
			return core.Iff(op == token.EQL)
		}}
		g := core.GateDeep(run, creates, pos(decodes))
		c.Decide(len(creates) > 0 && g.OK && g.PassEdges > 0, "R4.14", "udp-face-only-for-a-decodable-datagram", p.Pos(run.Pos()), fmt.Sprintf("%d face-creating calls in the UDP listener, behind a successful decode of the datagram", len(creates)), "the UDP listener creates and registers an on-demand face for a datagram from an unknown endpoint without having decoded it: a datagram that fails to decode adds a face-table entry, dispatch entries, two goroutines and buffers for the idle lifetime of a UDP face — state other than counters")
	}
	// ---- R4.15
	if rw := c.Fn("R4.15", "std/encoding", "WireReader", "ReadWire"); rw != nil {
		bad := ""
		nMake := 0
		core.Instrs(rw, func(in ssa.Instruction) {
			ms, ok := in.(*ssa.MakeSlice)
			if !ok {
				return
			}
			nMake++
			seen := map[ssa.Value]bool{}
			var walk func(v ssa.Value) bool
			walk = func(v ssa.Value) bool {
				v = core.StripConv(v)
				if v == nil || seen[v] {
					return false
				}
				seen[v] = true
				if l, isLen := core.LenOf(v); isLen {
					if _, path := core.FieldPath(l); len(path) > 0 && path[len(path)-1] == "wire" {
						return true
					}
				}
				switch x := v.(type) {
				case *ssa.BinOp:
					return walk(x.X) || walk(x.Y)
				case *ssa.Phi:
					for _, e := range x.Edges {
						if walk(e) {
							return true
						}
					}
				}
				return false
			}
			if walk(ms.Cap) || walk(ms.Len) {
				bad = c.Pos(in)
			}
		})
		c.Decide(nMake > 0 && bad == "", "R4.15", "segmented-read-reserves-in-proportion", p.Pos(rw.Pos()), fmt.Sprintf("%d allocations in ReadWire, none sized by the segment count of the whole input", nMake), "WireReader.ReadWire sizes the wire it returns by the number of segments of the whole input ("+bad+"), for every read however short: an 8800-byte packet of 4398 empty elements split into one-byte segments allocates 480 MB through the segmented reader and 106 KB through the contiguous one")
	}
}

// sameFieldAddr: addr is the address of the field that v was loaded from.
func sameFieldAddr(addr, v ssa.Value) bool {
	u, ok := core.Strip(v).(*ssa.UnOp)
	if !ok {
		return false
	}
	fa1, ok1 := u.X.(*ssa.FieldAddr)
	fa2, ok2 := addr.(*ssa.FieldAddr)
	return ok1 && ok2 && fa1.Field == fa2.Field && (fa1.X == fa2.X || core.Same(fa1.X, fa2.X))
}
