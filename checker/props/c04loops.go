package props

import (
	"fmt"
	"go/token"
	"go/types"
	"os"
	"sort"
	"strings"

	"ndndcheck/core"

	"golang.org/x/tools/go/ssa"
)

// c04ReadLoops — R4.17 "never spins": a receive loop does not go round again on a failed
// read of a stream connection. A read error of a TCP/Unix/WebSocket connection is permanent
// (the peer closed it, the stream ended, the framing is broken): a loop that calls the read
// again at once on the same connection never blocks any more and turns for ever — on bytes
// the peer chose (gorilla/websocket even panics at the thousandth repeated read). In every
// loop of the face packages that reads from a connection, the edge on which the read's error
// is non-nil leads out of the loop on every path: the read is not reached again — unless the
// path asks a function value the caller supplied about this error and branches on its answer.
//
// Datagram sockets are different (an ICMP error or a too-long datagram fails one read, not
// the socket): reads whose receiver is a packet connection are not instances.
func c04ReadLoops(c *core.Ctx) {
	p := c.P
	type site struct {
		fn   *ssa.Function
		call *ssa.Call
		desc string
	}
	var sites []site
	for _, pk := range []string{"/std/engine/face", "/fw/face"} {
		for _, fn := range p.FuncsIn(core.ModPath + pk) {
			if strings.HasSuffix(p.File(fn.Pos()), "_test.go") {
				continue
			}
			core.Instrs(fn, func(in ssa.Instruction) {
				cl, ok := in.(*ssa.Call)
				if !ok || !core.InLoop(cl.Block()) {
					return
				}
				d, ok := c04StreamRead(cl)
				if ok {
					sites = append(sites, site{fn, cl, d})
				}
			})
		}
	}
	sort.Slice(sites, func(i, j int) bool { return c.Pos(sites[i].call) < c.Pos(sites[j].call) })
	n := 0
	for _, s := range sites {
		// the error result
		var errv ssa.Value
		res := s.call.Call.Signature().Results()
		for _, r := range *s.call.Referrers() {
			if ex, ok := r.(*ssa.Extract); ok && ex.Index == res.Len()-1 {
				errv = ex
			}
		}
		if res.Len() == 1 {
			errv = s.call
		}
		if errv == nil {
			continue // the error is discarded: other rules (error discipline) look at that
		}
		n++
		bad := ""
		tested := false
		for _, b := range s.fn.Blocks {
			iff, ok := b.Instrs[len(b.Instrs)-1].(*ssa.If)
			if !ok {
				continue
			}
			for k, onErr := range c04ErrEdges(iff.Cond, errv) {
				if !onErr {
					continue
				}
				tested = true
				succ := b.Succs[k]
				// is the read reached again from there?
				seen := map[*ssa.BasicBlock]bool{succ: true}
				q := []*ssa.BasicBlock{succ}
				for len(q) > 0 && bad == "" {
					x := q[0]
					q = q[1:]
					if os.Getenv("NDND_DEBUG") != "" {
						fmt.Fprintf(os.Stderr, "R4.17 %s: from b%d edge %d: visit b%d delegated=%v\n", core.FuncName(s.fn), b.Index, k, x.Index, c04Delegated(x, errv))
					}
					if x == s.call.Block() {
						bad = fmt.Sprintf("from the error branch at %s the loop goes round to the read again", c.Pos(iff))
						break
					}
					if c04Delegated(x, errv) {
						continue // somebody else decides about this error: its answer is tested
					}
					for _, y := range x.Succs {
						// the join of a short circuit (`p != nil && p(err)`): coming from
						// the side on which the left operand already decided, the branch
						// on the phi goes one way only
						if len(y.Instrs) > 0 {
							if yif, isIf := y.Instrs[len(y.Instrs)-1].(*ssa.If); isIf {
								if phi, isPhi := yif.Cond.(*ssa.Phi); isPhi && phi.Block() == y && len(y.Instrs) == 2 {
									for pi, pr := range y.Preds {
										if pr != x || pi >= len(phi.Edges) {
											continue
										}
										if kc, isK := phi.Edges[pi].(*ssa.Const); isK && kc.Value != nil {
											only := y.Succs[1]
											if kc.Value.String() == "true" {
												only = y.Succs[0]
											}
											if !seen[only] {
												seen[only] = true
												q = append(q, only)
											}
											y = nil
										}
									}
								}
							}
						}
						if y != nil && !seen[y] {
							seen[y] = true
							q = append(q, y)
						}
					}
				}
			}
		}
		if !tested {
			bad = "the error of the read is never tested"
		}
		c.Decide(bad == "", "R4.17", "read-error-leaves-the-receive-loop:"+core.FuncName(s.fn)+":"+s.desc, c.Pos(s.call), "the branch on which the read failed leaves the loop on every path", "a receive loop reads from a stream connection ("+s.desc+") and "+bad+": a read error of such a connection is permanent, every further read fails at once, so the loop spins (and gorilla/websocket panics at the 1000th repeated read) — on bytes, or a close, chosen by the peer")
	}
	c.Floor("R4.17", "stream reads inside receive loops of the face packages", n, 3)
}

// c04Delegated: the block hands the error to a function value (a predicate or handler the
// caller or the owner of the face supplied) and branches on the answer: whether the loop goes
// on is that function's decision (ignoreError for a transient condition; an error handler
// that may declare the error harmless).
func c04Delegated(b *ssa.BasicBlock, errv ssa.Value) bool {
	for _, in := range b.Instrs {
		cl, ok := in.(*ssa.Call)
		if !ok || cl.Call.IsInvoke() {
			continue
		}
		has := false
		for i, a := range cl.Call.Args {
			if core.Strip(a) != errv {
				continue
			}
			if g := cl.Call.StaticCallee(); g == nil {
				has = true // a callback (function value) receives the error
			} else if g.Blocks != nil && i < len(g.Params) {
				// a helper of the face that hands the error on to such a callback
				// (readFailed(err) bool { ...; return f.onError(err) != nil })
				par := ssa.Value(g.Params[i])
				core.Instrs(g, func(in2 ssa.Instruction) {
					if c2, ok2 := in2.(*ssa.Call); ok2 && !c2.Call.IsInvoke() && c2.Call.StaticCallee() == nil {
						for _, a2 := range c2.Call.Args {
							if core.Strip(a2) == par {
								has = true
							}
						}
					}
				})
			}
		}
		if !has {
			continue
		}
		// the answer is tested
		for _, r := range *cl.Referrers() {
			switch x := r.(type) {
			case *ssa.If:
				return true
			case *ssa.BinOp:
				for _, r2 := range *x.Referrers() {
					if _, ok := r2.(*ssa.If); ok {
						return true
					}
				}
			case *ssa.Phi:
				// `p != nil && p(err)`: the answer reaches the branch through the short circuit
				for _, r2 := range *x.Referrers() {
					if _, ok := r2.(*ssa.If); ok {
						return true
					}
				}
			}
		}
	}
	return false
}

// c04ErrEdges: for a branch condition, which of the two successors (0 = true, 1 = false) is
// taken (possibly) with errv non-nil. `err != nil`, `err == nil`, and `err != nil || x` (the
// true edge of a disjunction containing the test) are recognised.
func c04ErrEdges(cond ssa.Value, errv ssa.Value) [2]bool {
	var out [2]bool
	op, x, y, ok := core.Cmp(cond)
	if ok && (op == token.NEQ || op == token.EQL) {
		if core.IsNilConst(x) {
			x, y = y, x
		}
		if core.IsNilConst(y) && core.Strip(x) == errv {
			if op == token.NEQ {
				out[0] = true
			} else {
				out[1] = true
			}
		}
	}
	return out
}

// c04StreamRead: the call reads from a stream connection.
func c04StreamRead(cl *ssa.Call) (string, bool) {
	res := cl.Call.Signature().Results()
	if res.Len() == 0 {
		return "", false
	}
	if n, ok := res.At(res.Len() - 1).Type().(*types.Named); !ok || n.Obj().Name() != "error" {
		return "", false
	}
	var name string
	var recv types.Type
	if cl.Call.IsInvoke() {
		name = cl.Call.Method.Name()
		recv = cl.Call.Value.Type()
	} else if cal := cl.Call.StaticCallee(); cal != nil && cal.Signature.Recv() != nil {
		name = cal.Name()
		recv = cal.Signature.Recv().Type()
	} else if cal != nil {
		// a helper that takes the connection as an io.Reader
		name = cal.Name()
		if cal.Pkg == nil || !strings.HasPrefix(name, "Read") {
			return "", false
		}
		for _, a := range cl.Call.Args {
			if c04IsStreamConn(a.Type()) {
				return cal.Pkg.Pkg.Name() + "." + name, true
			}
			if mi, ok := a.(*ssa.MakeInterface); ok && c04IsStreamConn(mi.X.Type()) {
				return cal.Pkg.Pkg.Name() + "." + name, true
			}
		}
		return "", false
	}
	if !strings.HasPrefix(name, "Read") && name != "NextReader" {
		return "", false
	}
	if !c04IsStreamConn(recv) {
		return "", false
	}
	return types.TypeString(recv, func(p *types.Package) string { return p.Name() }) + "." + name, true
}

func c04IsStreamConn(t types.Type) bool {
	s := types.TypeString(t, nil)
	switch s {
	case "net.Conn", "*net.TCPConn", "*net.UnixConn", "*github.com/gorilla/websocket.Conn", "io.Reader", "*bufio.Reader":
		return true
	}
	return false
}

// c04StringAccum — R4.18 "never allocates memory out of proportion to the input": a text
// built from a value that came off the wire is not accumulated by string concatenation in a
// loop over that value. `s = s + piece` once per octet (or per component) copies everything
// built so far each time: the memory allocated is quadratic in the length of the value
// (one 8 KB name costs about 100 MB to print), and the names of dropped packets are printed
// at the default log level on the receiving goroutines. In std/encoding no loop carries a
// string that it extends by concatenation.
func c04StringAccum(c *core.Ctx) {
	p := c.P
	n := 0
	nloops := 0
	for _, fn := range p.FuncsIn(core.ModPath + "/std/encoding") {
		if strings.HasSuffix(p.File(fn.Pos()), "_test.go") {
			continue
		}
		rec := fn.Signature.Recv()
		isFmt := fn.Name() == "String" || fn.Name() == "ToString"
		if rec == nil || !isFmt {
			continue
		}
		n++
		bad := ""
		for _, b := range fn.Blocks {
			for _, in := range b.Instrs {
				phi, ok := in.(*ssa.Phi)
				if !ok {
					break
				}
				if bt, ok := phi.Type().Underlying().(*types.Basic); !ok || bt.Info()&types.IsString == 0 {
					continue
				}
				if !core.InLoop(b) {
					continue
				}
				nloops++
				// an incoming value that is a concatenation containing the phi itself
				var grows func(v ssa.Value, d int) bool
				grows = func(v ssa.Value, d int) bool {
					if d == 0 {
						return false
					}
					switch x := v.(type) {
					case *ssa.BinOp:
						if x.Op != token.ADD {
							return false
						}
						return x.X == ssa.Value(phi) || x.Y == ssa.Value(phi) || grows(x.X, d-1) || grows(x.Y, d-1)
					case *ssa.Phi:
						if x == phi {
							return false
						}
						for _, e := range x.Edges {
							if e == ssa.Value(phi) {
								continue
							}
							if grows(e, d-1) {
								return true
							}
						}
					}
					return false
				}
				for _, e := range phi.Edges {
					if grows(e, 6) {
						bad = c.Pos(e.(ssa.Instruction))
					}
				}
			}
		}
		c.Decide(bad == "", "R4.18", "text-form-not-built-by-concatenation:"+core.FuncName(fn), p.Pos(fn.Pos()), "no loop of the formatter extends a string by concatenation", "the formatter extends a string by concatenation once per element of its value (at "+bad+"): each step copies the text built so far, so printing a value of n octets allocates memory quadratic in n — about 100 MB for one 8 KB name component, and the names of dropped packets are printed on the receive path")
	}
	_ = nloops
	c.Floor("R4.18", "text formatters (String/ToString methods) of std/encoding", n, 8)
}
