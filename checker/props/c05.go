package props

import (
	"fmt"
	"go/token"
	"go/types"
	"sort"
	"strings"

	"ndndcheck/core"

	"golang.org/x/tools/go/ssa"
)

// atomLenFieldPositive: len(X.field) > 0 for any X (returns the base through *base).
func atomLenFieldPositive(field string, baseOK func(ssa.Value) bool) *core.Atom {
	return &core.Atom{Name: "len(." + field + ")>0", Match: func(cond ssa.Value) (int, int) {
		op, x, y, ok := core.Cmp(cond)
		if !ok {
			return 0, 0
		}
		l, isLen := core.LenOf(x)
		k, isC := core.ConstInt(y)
		if !isLen || !isC {
			l, isLen = core.LenOf(y)
			k, isC = core.ConstInt(x)
			op = core.Swap(op)
		}
		if !isLen || !isC {
			return 0, 0
		}
		b, okF := core.FieldOf(l, field)
		if !okF || (baseOK != nil && !baseOK(b)) {
			return 0, 0
		}
		switch {
		case (op == token.GTR && k == 0) || (op == token.GEQ && k == 1) || (op == token.NEQ && k == 0):
			return 1, -1
		case (op == token.EQL && k == 0) || (op == token.LSS && k == 1) || (op == token.LEQ && k == 0):
			return -1, 1
		}
		return 0, 0
	}}
}

// atomFieldNotNil: X.field != nil for any X accepted by baseOK.
func atomAnyFieldNotNil(field string, baseOK func(ssa.Value) bool) *core.Atom {
	return &core.Atom{Name: "." + field + "!=nil", Match: func(cond ssa.Value) (int, int) {
		op, x, y, ok := core.Cmp(cond)
		if !ok || (op != token.EQL && op != token.NEQ) {
			return 0, 0
		}
		if core.IsNilConst(x) {
			x, y = y, x
		}
		if !core.IsNilConst(y) {
			return 0, 0
		}
		b, okF := core.FieldOf(x, field)
		if !okF || (baseOK != nil && !baseOK(b)) {
			return 0, 0
		}
		return core.Iff(op == token.NEQ)
	}}
}

// producers returns, for a function result, the instructions at which a non-nil
// result value is committed: the Return itself for a direct value, the last
// instruction of the predecessor block for each non-nil phi edge, the spill store when
// a defer forces results through a local.
func producers(fn *ssa.Function, isNil func(ssa.Value) bool) []ssa.Instruction {
	var out []ssa.Instruction
	seen := map[ssa.Instruction]bool{}
	seenPhi := map[*ssa.Phi]bool{}
	var commit func(v ssa.Value, at ssa.Instruction)
	commit = func(v ssa.Value, at ssa.Instruction) {
		v = core.Strip(v)
		if phi, ok := v.(*ssa.Phi); ok {
			if seenPhi[phi] {
				return
			}
			seenPhi[phi] = true
			for i, e := range phi.Edges {
				pred := phi.Block().Preds[i]
				commit(e, pred.Instrs[len(pred.Instrs)-1])
			}
			return
		}
		if isNil(v) || seen[at] {
			return
		}
		seen[at] = true
		out = append(out, at)
	}
	core.Instrs(fn, func(in ssa.Instruction) {
		r, ok := in.(*ssa.Return)
		if !ok || len(r.Results) == 0 {
			return
		}
		v := core.Strip(r.Results[0])
		if u, ok := v.(*ssa.UnOp); ok {
			if al, ok := u.X.(*ssa.Alloc); ok {
				for _, ref := range core.Refs(al) {
					if st, ok := ref.(*ssa.Store); ok && st.Addr == al {
						commit(st.Val, st)
					}
				}
				return
			}
		}
		commit(v, r)
	})
	return out
}

// delegate follows a straight-line wrapper (no branch) to the single method of the same
// receiver type it calls, so that a lookup split into "wrapper + worker" is analysed at
// the worker (at most three levels).
func delegate(fn *ssa.Function) *ssa.Function {
	for depth := 0; fn != nil && depth < 3; depth++ {
		n := 0
		for _, b := range fn.Blocks {
			if b != fn.Recover {
				n++
			}
		}
		if n != 1 || fn.Signature.Recv() == nil {
			return fn
		}
		var next *ssa.Function
		cnt := 0
		core.Instrs(fn, func(in ssa.Instruction) {
			ci, ok := in.(ssa.CallInstruction)
			if !ok {
				return
			}
			if _, isDefer := in.(*ssa.Defer); isDefer {
				return
			}
			cal := ci.Common().StaticCallee()
			if cal == nil || cal.Blocks == nil || cal.Signature.Recv() == nil || cal.Pkg != fn.Pkg {
				return
			}
			if types.Identical(cal.Signature.Recv().Type(), fn.Signature.Recv().Type()) {
				next = cal
				cnt++
			}
		})
		if cnt != 1 {
			return fn
		}
		fn = next
	}
	return fn
}

// lockKinds returns the sorted set of mutex operations called in fn on a field named
// mutexField ("Lock", "RLock").
func lockKinds(fn *ssa.Function, mutexField string) string {
	set := map[string]bool{}
	core.Instrs(fn, func(in ssa.Instruction) {
		ci, ok := in.(ssa.CallInstruction)
		if !ok {
			return
		}
		id, ok := core.Callee(ci.Common())
		if !ok || id.Pkg != "sync" || (id.Name != "Lock" && id.Name != "RLock") {
			return
		}
		if _, isDefer := in.(*ssa.Defer); isDefer {
			return
		}
		r, _ := core.CallArgs(ci.Common())
		if fa, ok := core.Strip(r).(*ssa.FieldAddr); ok {
			if _, f := core.FieldAddrName(fa); f == mutexField {
				set[id.Name] = true
			}
		}
	})
	var out []string
	for k := range set {
		out = append(out, k)
	}
	sort.Strings(out)
	return strings.Join(out, "+")
}

// C05 — FIB lookup is longest-prefix match under every update history (narrow claim).
func C05(c *core.Ctx) {
	c.Explain = "Narrow claim. Longest-prefix-match correctness over all update histories and observational identity of the two FIB implementations are behavioural and are NOT decided. Decided structural necessary conditions, for every implementation of table.FibStrategy discovered through the type checker: (R5.1) the store strategy=nil in UnSetStrategyEnc is unreachable for the empty (root) name — the root strategy can be replaced but not unset; (R5.2) a lookup result is produced only from a node/entry whose next-hop list is non-empty (FindNextHopsEnc) or whose strategy is non-nil (FindStrategyEnc), and the listings append only such entries; (R5.4) the name-tree descent recurses only into a child whose component equals the name's component at that depth, next-hop update/removal act only on the entry whose face id equals the argument; (R5.3) sibling agreement of the implementations on the lock kind per interface method."
	c.RuleText = "instances: FibStrategy implementations × interface methods, discovered on each run. Non-trivial = has at least one branch edge to decide."
	p := c.P
	// ---- R5.5 (shared with C08 R8.4/R8.5) pruning removes only nodes that hold nothing:
	// a prune that unlinks a node (or an ancestor) still carrying next hops, a strategy or
	// children makes later lookups miss a registered prefix
	c.Import(C08, "R5.5", "FIB pruning can remove a live entry, so a later longest-prefix lookup misses a prefix that is still registered", 4, func(k string) bool {
		return (strings.HasPrefix(k, "R8.4:") && (strings.Contains(k, "fibStrategyTreeEntry") || strings.Contains(k, "FibStrategyHashTable"))) ||
			strings.HasPrefix(k, "R8.5:hashtable-virtual-entries-reclaimed")
	})
	fib := p.Named("fw/table", "FibStrategy")
	if fib == nil {
		c.Und("R5.1", "anchor:FibStrategy", "-", "interface not found")
		return
	}
	impls := p.Implementations(fib)
	c.Floor("R5.1", "FibStrategy implementations", len(impls), 2)
	isNilOrEmpty := func(v ssa.Value) bool { return core.IsNilConst(v) }
	locks := map[string]map[string]string{}
	for _, t := range impls {
		tn := t.Obj().Name()
		// ---- R5.1
		if fn := p.MethodOf(t, "UnSetStrategyEnc"); fn != nil && fn.Blocks != nil {
			c.Funcs[core.FuncName(fn)] = true
			name := ssa.Value(fn.Params[1])
			root := &core.Atom{Name: "len(name)==0", Match: func(cond ssa.Value) (int, int) {
				op, x, y, ok := core.Cmp(cond)
				if !ok {
					return 0, 0
				}
				l, isLen := core.LenOf(x)
				k, isC := core.ConstInt(y)
				if !isLen || !isC || l != name {
					return 0, 0
				}
				switch {
				case (op == token.EQL && k == 0) || (op == token.LSS && k == 1) || (op == token.LEQ && k == 0):
					return 1, -1
				case (op == token.NEQ && k == 0) || (op == token.GTR && k == 0) || (op == token.GEQ && k == 1):
					return -1, 1
				}
				return 0, 0
			}}
			var stores []ssa.Instruction
			core.Instrs(fn, func(in ssa.Instruction) {
				if _, v, ok := storeToField(in, "baseFibStrategyEntry", "strategy"); ok && core.IsNilConst(v) {
					stores = append(stores, in)
				}
			})
			if len(stores) == 0 {
				c.Und("R5.1", "unset-store:"+tn, p.Pos(fn.Pos()), "no strategy=nil store found in UnSetStrategyEnc")
			} else {
				res := core.GateDeep(fn, stores, neg(root))
				c.Decide(res.OK && res.PassEdges > 0, "R5.1", "root-strategy-not-unsettable:"+tn, c.Pos(stores[0]),
					"strategy=nil is unreachable for the empty name",
					tn+".UnSetStrategyEnc can clear the root entry's strategy (no len(name)==0 guard): afterwards strategy lookups return nil for names without a more specific choice")
			}
		} else {
			c.Und("R5.1", "anchor:"+tn+".UnSetStrategyEnc", "-", "method not found")
		}
		// ---- R5.2
		if fn := delegate(p.MethodOf(t, "FindNextHopsEnc")); fn != nil && fn.Blocks != nil {
			c.Funcs[core.FuncName(fn)] = true
			var eff []ssa.Instruction
			eff = append(eff, producers(fn, isNilOrEmpty)...)
			core.Instrs(fn, func(in ssa.Instruction) {
				if _, ok := in.(*ssa.MakeSlice); ok {
					eff = append(eff, in)
				}
			})
			res := core.GateDeep(fn, eff, pos(atomLenFieldPositive("nexthops", nil)))
			c.Decide(len(eff) > 0 && res.OK && res.PassEdges > 0, "R5.2", "nexthop-result-from-nonempty-entry:"+tn, p.Pos(fn.Pos()),
				"a non-nil result is produced only on the edge asserting len(entry.nexthops) > 0",
				tn+".FindNextHopsEnc can answer from an entry without next hops (the walk towards shorter prefixes stops too early); path: "+p.PathString(res.Path))
		}
		if fn := delegate(p.MethodOf(t, "FindStrategyEnc")); fn != nil && fn.Blocks != nil {
			c.Funcs[core.FuncName(fn)] = true
			eff := producers(fn, isNilOrEmpty)
			res := core.GateDeep(fn, eff, pos(atomAnyFieldNotNil("strategy", nil)))
			c.Decide(len(eff) > 0 && res.OK && res.PassEdges > 0, "R5.2", "strategy-result-from-entry-with-strategy:"+tn, p.Pos(fn.Pos()),
				"a non-nil result is produced only on the edge asserting entry.strategy != nil",
				tn+".FindStrategyEnc can answer from an entry that has no strategy; path: "+p.PathString(res.Path))
		}
		for _, lst := range [][2]string{{"GetAllFIBEntries", "nexthops"}, {"GetAllForwardingStrategies", "strategy"}} {
			fn := p.MethodOf(t, lst[0])
			if fn == nil || fn.Blocks == nil {
				c.Und("R5.2", "anchor:"+tn+"."+lst[0], "-", "method not found")
				continue
			}
			c.Funcs[core.FuncName(fn)] = true
			var apps []ssa.Instruction
			core.InstrsDeep(fn, func(in ssa.Instruction) {
				if cl, ok := isBuiltinCall(in, "append"); ok {
					// appends to the result list (element type FibStrategyEntry)
					if strings.Contains(cl.Type().String(), "FibStrategyEntry") {
						apps = append(apps, in)
					}
				}
			})
			var a *core.Atom
			if lst[1] == "nexthops" {
				a = atomLenFieldPositive("nexthops", nil)
			} else {
				a = atomAnyFieldNotNil("strategy", nil)
			}
			res := core.GateDeep(fn, apps, pos(a))
			c.Decide(len(apps) > 0 && res.OK && res.PassEdges > 0, "R5.2", "listing-filter:"+tn+"."+lst[0], p.Pos(fn.Pos()),
				"entries are listed only under "+a.Name,
				tn+"."+lst[0]+" lists entries that hold no "+lst[1])
		}
		// ---- R5.4c replacing a next-hop list behaves like the insertions it stands for: in the
		// function that turns the given []FibNextHopEntry into the table's own entries, a face
		// that is listed again overwrites the cost of the entry already made for it (as a
		// second InsertNextHopEnc does) — it is neither skipped nor entered twice
		if tn == "FibStrategyTree" {
			nBuild := 0
			for _, fn := range p.FuncsIn(core.ModPath + "/fw/table") {
				if fn.Signature.Recv() != nil || len(fn.Params) != 1 || strings.HasSuffix(p.File(fn.Pos()), "_test.go") {
					continue
				}
				sl, ok := fn.Params[0].Type().Underlying().(*types.Slice)
				if !ok {
					continue
				}
				if n, isN := sl.Elem().(*types.Named); !isN || n.Obj().Name() != "FibNextHopEntry" {
					continue
				}
				nBuild++
				c.Funcs[core.FuncName(fn)] = true
				sameFace := &core.Atom{Name: "existing.Nexthop==listed.Nexthop", Match: func(cond ssa.Value) (int, int) {
					op, x, y, ok := core.Cmp(cond)
					if ok && (op == token.EQL || op == token.NEQ) {
						_, fx := core.FieldOf(x, "Nexthop")
						_, fy := core.FieldOf(y, "Nexthop")
						if fx && fy {
							return core.Iff(op == token.EQL)
						}
						return 0, 0
					}
					// a hit in a map keyed by the face id
					if ex, isEx := core.Strip(cond).(*ssa.Extract); isEx && ex.Index == 1 {
						if lk, isLk := ex.Tuple.(*ssa.Lookup); isLk && lk.CommaOk {
							if _, isF := core.FieldOf(lk.Index, "Nexthop"); isF {
								return 1, -1
							}
						}
					}
					return 0, 0
				}}
				var upd []ssa.Instruction
				core.InstrsDeep(fn, func(in ssa.Instruction) {
					if fa, _, ok := storeToField(in, "FibNextHopEntry", "Cost"); ok {
						if _, fresh := core.Strip(fa.X).(*ssa.Alloc); !fresh {
							upd = append(upd, in)
						}
					}
				})
				ok2 := false
				if len(upd) > 0 {
					res := core.GateDeep(fn, upd, pos(sameFace))
					ok2 = res.OK && res.PassEdges > 0
				}
				c.Decide(ok2, "R5.4", "replaced-list-keeps-last-cost:"+core.FuncName(fn), p.Pos(fn.Pos()), "a face listed again overwrites the cost of its entry", core.FuncName(fn)+" builds the table's next-hop list from the list given to SetNextHopsEnc without overwriting the cost of a face that is listed again (it is skipped, or entered twice): SetNextHopsEnc([f/10, f/30]) leaves cost 10 where InsertNextHopEnc(f,10); InsertNextHopEnc(f,30) leaves 30 — lookups and the FIB listing no longer show exactly the (face, cost) values the update history produced")
			}
			c.Floor("R5.4", "functions that build the table's next-hop list from a given list", nBuild, 1)
		}
		// ---- R5.4 update / removal act on the matching face id only
		for _, m := range []string{"InsertNextHopEnc", "RemoveNextHopEnc"} {
			fn := p.MethodOf(t, m)
			if fn == nil || fn.Blocks == nil {
				c.Und("R5.4", "anchor:"+tn+"."+m, "-", "method not found")
				continue
			}
			c.Funcs[core.FuncName(fn)] = true
			nh := ssa.Value(fn.Params[2])
			eq := &core.Atom{Name: "entry.Nexthop==nexthop", Match: func(cond ssa.Value) (int, int) {
				op, x, y, ok := core.Cmp(cond)
				if !ok || (op != token.EQL && op != token.NEQ) {
					return 0, 0
				}
				isF := func(v ssa.Value) bool { _, ok := core.FieldOf(v, "Nexthop"); return ok }
				if (isF(x) && core.Same(y, nh)) || (isF(y) && core.Same(x, nh)) {
					return core.Iff(op == token.EQL)
				}
				return 0, 0
			}}
			var eff []ssa.Instruction
			core.InstrsDeep(fn, func(in ssa.Instruction) {
				if m == "InsertNextHopEnc" {
					// in-place cost update of an existing entry (not of a freshly allocated one)
					if fa, _, ok := storeToField(in, "FibNextHopEntry", "Cost"); ok {
						if _, fresh := core.Strip(fa.X).(*ssa.Alloc); !fresh {
							eff = append(eff, in)
						}
					}
				} else {
					if _, v, ok := storeToField(in, "baseFibStrategyEntry", "nexthops"); ok {
						if _, isSl := core.Strip(v).(*ssa.Slice); isSl || isSlicesDelete(v) {
							eff = append(eff, in)
						}
					}
				}
			})
			res := core.GateDeep(fn, eff, pos(eq))
			c.Decide(len(eff) > 0 && res.OK && res.PassEdges > 0, "R5.4", "acts-on-matching-face:"+tn+"."+m, p.Pos(fn.Pos()),
				"the existing-entry update/removal is reachable only on the edge asserting entry.Nexthop == nexthop",
				tn+"."+m+" can update/remove a next hop whose face id differs from the argument")
			if m == "InsertNextHopEnc" {
				// a new next hop is appended when no existing one matched
				nApp := 0
				core.InstrsDeep(fn, func(in ssa.Instruction) {
					if _, v, ok := storeToField(in, "baseFibStrategyEntry", "nexthops"); ok && isAppend(v) {
						nApp++
					}
				})
				c.Decide(nApp > 0, "R5.4", "insert-appends-new:"+tn, p.Pos(fn.Pos()), "a new next hop is appended", tn+".InsertNextHopEnc never appends a new next hop")
			}
		}
		// lock kinds per method
		locks[tn] = map[string]string{}
		for _, m := range []string{"FindNextHopsEnc", "FindStrategyEnc", "InsertNextHopEnc", "ClearNextHopsEnc", "RemoveNextHopEnc", "GetAllFIBEntries", "SetStrategyEnc", "UnSetStrategyEnc", "GetAllForwardingStrategies"} {
			if fn := p.MethodOf(t, m); fn != nil && fn.Blocks != nil {
				k := lockKinds(fn, "fibStrategyRWMutex")
				if d := delegate(fn); d != fn && k == "" {
					k = lockKinds(d, "fibStrategyRWMutex")
				}
				if k == "" {
					// the lock is taken by a helper that returns with it held
					core.Instrs(fn, func(in ssa.Instruction) {
						cl, ok := in.(*ssa.Call)
						if !ok || cl.Call.StaticCallee() == nil {
							return
						}
						for l := range core.AcquireSummary(cl.Call.StaticCallee()) {
							if strings.HasSuffix(l, ".fibStrategyRWMutex") {
								if strings.HasPrefix(l, "W:") {
									k = "Lock"
								} else if k == "" {
									k = "RLock"
								}
							}
						}
					})
				}
				locks[tn][m] = k
			}
		}
	}
	// ---- R5.8 updates act on the entry of exactly the named prefix: the entry whose next
	// hops or strategy a FIB method overwrites comes from the exact-match search (or from
	// the node-creating fill), never from the longest-prefix search used by lookups
	nUpd := 0
	sl58 := &core.Slicer{P: p}
	for _, fn := range p.FuncsIn(core.ModPath + "/fw/table") {
		if fn.Signature.Recv() == nil || !strings.Contains(fn.Signature.Recv().Type().String(), "FibStrategyTree") || strings.HasSuffix(p.File(fn.Pos()), "_test.go") {
			continue
		}
		core.Instrs(fn, func(in ssa.Instruction) {
			fa, _, ok := storeToField(in, "baseFibStrategyEntry", "nexthops")
			if !ok {
				fa, _, ok = storeToField(in, "baseFibStrategyEntry", "strategy")
			}
			if !ok || isFreshObject(fa.X) {
				return
			}
			nUpd++
			bad := ""
			base := fa.X
			for {
				if f2, ok := core.Strip(base).(*ssa.FieldAddr); ok {
					base = f2.X
					continue
				}
				break
			}
			for _, l := range sl58.Leaves(base) {
				cl, isCall := l.Val.(*ssa.Call)
				if !isCall {
					if l.Kind == "alloc" || l.Kind == "make" {
						continue
					}
					bad = l.Desc()
					continue
				}
				id, _ := core.Callee(&cl.Call)
				switch id.Name {
				case "findExactMatchEntryEnc", "fillTreeToPrefixEnc":
				default:
					bad = l.Desc()
				}
			}
			c.Decide(bad == "", "R5.8", fmt.Sprintf("update-targets-exact-entry:%s#%d", core.FuncName(fn), nUpd), c.Pos(in), "the updated entry comes from the exact-match search or the fill", core.FuncName(fn)+" overwrites the next hops / strategy of an entry obtained from "+bad+": an update for a prefix that has no node of its own changes its nearest ancestor instead (e.g. unsetting an unknown prefix strips the strategy of a shorter one)")
		})
	}
	c.Floor("R5.8", "entry updates in the tree FIB", nUpd, 3)

	// ---- R5.7 hash-table FIB: virtualDetails.md (the depth from which lookups under a
	// virtual prefix start probing) never under-estimates: it is set to len(name) on a
	// fresh entry, or raised by max(md, x) — and when it is recomputed in a loop over the
	// names under the virtual prefix, every name takes part (no filter)
	nMd := 0
	for _, fn := range p.FuncsIn(core.ModPath + "/fw/table") {
		if strings.HasSuffix(p.File(fn.Pos()), "_test.go") {
			continue
		}
		core.Instrs(fn, func(in ssa.Instruction) {
			fa, v, ok := storeToField(in, "virtualDetails", "md")
			if !ok {
				return
			}
			nMd++
			fname := core.FuncName(fn)
			c.Funcs[fname] = true
			isMaxOf := func(x ssa.Value, acc func(ssa.Value) bool) bool {
				cl, ok := core.Strip(x).(*ssa.Call)
				if !ok {
					return false
				}
				b, ok := cl.Call.Value.(*ssa.Builtin)
				if !ok || b.Name() != "max" {
					return false
				}
				for _, a := range cl.Call.Args {
					if acc(a) {
						return true
					}
				}
				return false
			}
			isOwnMd := func(a ssa.Value) bool {
				u, ok := core.Strip(a).(*ssa.UnOp)
				if !ok {
					return false
				}
				fa2, ok := u.X.(*ssa.FieldAddr)
				return ok && fa2.Field == fa.Field && core.Same(fa2.X, fa.X)
			}
			good, why := false, "the stored value is neither len(name) on a fresh entry nor max(md, …)"
			switch {
			case isFreshObject(fa.X):
				good = isLenLike(p, v, 0)
			case isMaxOf(v, isOwnMd):
				good = true
				if h := loopHeader(in.Block()); h != nil && !everyIterationPasses(fn, h, func(x ssa.Instruction) bool { return x == in }) {
					good, why = false, "the max() accumulation skips some of the names (it is conditional inside the loop)"
				}
			case func() bool { k, isC := core.ConstInt(v); return isC && k == 0 }():
				// reset before a recomputation: sound only when the very next thing is a
				// loop in which EVERY iteration raises md by max(md, x) (no filter) — the
				// maximum over all the remaining names; md is not read in between
				good, why = false, "md is reset to 0 without an unconditional max() over all remaining names following it"
				var acc ssa.Instruction
				core.Instrs(fn, func(x ssa.Instruction) {
					fa3, v3, ok3 := storeToField(x, "virtualDetails", "md")
					if ok3 && x != in && fa3.Field == fa.Field && core.Same(fa3.X, fa.X) && isMaxOf(v3, isOwnMd) && core.InLoop(x.Block()) {
						acc = x
					}
				})
				if acc != nil {
					h := loopHeader(acc.Block())
					if h != nil && everyIterationPasses(fn, h, func(x ssa.Instruction) bool { return x == acc }) {
						// the loop is entered from the reset on every path
						fr := core.MustFollow(fn, core.After(in), func(x ssa.Instruction) bool { return x.Block() == h }, nil)
						if fr.OK {
							good = true
						}
					}
				}
			default:
				// local accumulator: a loop-header phi whose back-edge value is max(phi, x)
				if ph, ok := core.Strip(v).(*ssa.Phi); ok {
					h := ph.Block()
					good = true
					nBack := 0
					for i, e := range ph.Edges {
						if !h.Dominates(h.Preds[i]) {
							continue // entry edge
						}
						nBack++
						if !isMaxOf(e, func(a ssa.Value) bool { return core.Strip(a) == ssa.Value(ph) }) {
							good, why = false, "the recomputation skips some of the names (the max() accumulation is conditional)"
						}
					}
					if nBack == 0 {
						good = false
					}
				}
			}
			c.Decide(good, "R5.7", fmt.Sprintf("md-never-underestimates:%s#%d", fname, nMd), c.Pos(in), "md is len(name) of a fresh entry or raised by max over every name", fname+" can set a virtual entry's md below the length of a real prefix stored under it ("+why+"): lookups start probing below that prefix and miss it — a shorter prefix (or nothing) is returned instead of the longest match")
		})
	}
	c.Floor("R5.7", "stores to virtualDetails.md", nMd, 2)

	// ---- R5.1b every caller of UnSetStrategyEnc rejects the empty (root) name first:
	// this is the guard that protects the root strategy today.
	nUnset := 0
	for _, fn := range p.Funcs() {
		for _, ci := range core.FindCallsDeep(fn, core.CalleeID{Pkg: "fw/table", Recv: "FibStrategy", Name: "UnSetStrategyEnc"}) {
			nUnset++
			c.Funcs[core.FuncName(fn)] = true
			_, a := core.CallArgs(ci.Common())
			arg := a[0]
			empty := &core.Atom{Name: "len(name)==0", Match: func(cond ssa.Value) (int, int) {
				op, x, y, ok := core.Cmp(cond)
				if !ok {
					return 0, 0
				}
				l, isLen := core.LenOf(x)
				k, isC := core.ConstInt(y)
				if !isLen || !isC || !core.Same(l, arg) {
					return 0, 0
				}
				switch {
				case (op == token.EQL && k == 0) || (op == token.LSS && k == 1) || (op == token.LEQ && k == 0):
					return 1, -1
				case (op == token.NEQ && k == 0) || (op == token.GTR && k == 0) || (op == token.GEQ && k == 1):
					return -1, 1
				}
				return 0, 0
			}}
			res := core.GateDeep(fn, []ssa.Instruction{ci}, neg(empty))
			c.Decide(res.OK && res.PassEdges > 0, "R5.1", "unset-caller-rejects-root:"+core.FuncName(fn), c.Pos(ci),
				"UnSetStrategyEnc is unreachable with an empty name",
				core.FuncName(fn)+" can call UnSetStrategyEnc with the empty name: the root strategy can be unset")
		}
	}
	c.Floor("R5.1", "UnSetStrategyEnc call sites", nUnset, 1)

	c05Keys(c, impls)
	c05VirtualFollowsReal(c)

	// ---- R5.3 sibling agreement on lock kind; mutators take the write lock
	mutators := map[string]bool{"InsertNextHopEnc": true, "ClearNextHopsEnc": true, "RemoveNextHopEnc": true, "SetStrategyEnc": true, "UnSetStrategyEnc": true}
	var tns []string
	for tn := range locks {
		tns = append(tns, tn)
	}
	sort.Strings(tns)
	for _, m := range []string{"FindNextHopsEnc", "FindStrategyEnc", "InsertNextHopEnc", "ClearNextHopsEnc", "RemoveNextHopEnc", "GetAllFIBEntries", "SetStrategyEnc", "UnSetStrategyEnc", "GetAllForwardingStrategies"} {
		var kinds []string
		agree := true
		for _, tn := range tns {
			k := locks[tn][m]
			kinds = append(kinds, tn+":"+k)
			if k != locks[tns[0]][m] {
				agree = false
			}
			want := "RLock"
			if mutators[m] {
				want = "Lock"
			}
			if k != want {
				agree = false
			}
		}
		c.Decide(agree, "R5.3", "sibling-lock-kind:"+m, "-", "implementations agree: "+strings.Join(kinds, ", "), "FibStrategy implementations disagree on (or lack) the lock taken by "+m+": "+strings.Join(kinds, ", "))
	}

	// ---- R5.5 hash-table FIB: the maximum depth recorded for a virtual node is only raised
	// on insertion (stored as max(old, len(name)), or initialised in a fresh entry)
	if ins := c.Fn("R5.5", "fw/table", "FibStrategyHashTable", "insertEntryEnc"); ins != nil {
		n := 0
		core.InstrsDeep(ins, func(in ssa.Instruction) {
			fa, v, ok := storeToField(in, "virtualDetails", "md")
			if !ok {
				return
			}
			n++
			_, fresh := core.Strip(fa.X).(*ssa.Alloc)
			isMax := false
			if cl, ok := core.StripConv(v).(*ssa.Call); ok {
				if b, ok := cl.Call.Value.(*ssa.Builtin); ok && b.Name() == "max" {
					for _, a := range cl.Call.Args {
						if _, ok := core.FieldOf(a, "md"); ok {
							isMax = true
						}
					}
				}
			}
			c.Decide(fresh || isMax, "R5.5", fmt.Sprintf("virtual-depth-only-raised#%d", n), c.Pos(in), "md is initialised in a fresh entry or stored as max(md, len(name))", "insertEntryEnc can lower the maximum depth recorded for an existing virtual node: longer prefixes below it are no longer found by the longest-prefix match")
		})
		c.Floor("R5.5", "stores to virtualDetails.md in insertEntryEnc", n, 1)
	}
	// ---- R5.6 tree FIB: an entry is named only as the node of exactly that name
	nName := 0
	for _, fn := range p.FuncsIn(core.ModPath + "/fw/table") {
		core.Instrs(fn, func(in ssa.Instruction) {
			fa, v, ok := storeToField(in, "baseFibStrategyEntry", "name")
			if !ok {
				return
			}
			// only the tree FIB (entries embedded in fibStrategyTreeEntry)
			outer, isEmb := core.Strip(fa.X).(*ssa.FieldAddr)
			if !isEmb {
				return
			}
			if t, _ := core.FieldAddrName(outer); t != "fibStrategyTreeEntry" {
				return
			}
			nName++
			node := core.Strip(outer.X)
			okNode := false
			if cl, ok := node.(*ssa.Call); ok {
				if _, ok := core.IsCall(cl, core.CalleeID{Pkg: "fw/table", Recv: "FibStrategyTree", Name: "fillTreeToPrefixEnc"}); ok {
					_, a := core.CallArgs(&cl.Call)
					okNode = len(a) == 1 && core.Same(a[0], v)
				}
			}
			if _, isRoot := core.FieldOf(node, "root"); isRoot && fn.Name() == "newFibStrategyTableTree" {
				okNode = true
			}
			// inside fillTreeToPrefixEnc itself: the node named is the one the function goes
			// on to return, and the name is the one it was asked for
			if id := core.FuncID(fn); id.Recv == "FibStrategyTree" && core.BaseName(fn) == "fillTreeToPrefixEnc" && len(fn.Params) == 2 && core.Same(v, fn.Params[1]) {
				fr := core.MustFollow(fn, core.After(in), func(x ssa.Instruction) bool {
					r, isR := x.(*ssa.Return)
					return isR && len(r.Results) == 1 && core.Strip(r.Results[0]) == node
				}, func(x ssa.Instruction) bool {
					// any other return ends the path unsuccessfully: make it a non-B, non-stop
					return false
				})
				okNode = fr.OK
			}
			c.Decide(okNode && !core.InLoop(in.Block()), "R5.6", "tree-entry-named-by-own-prefix:"+core.FuncName(fn), c.Pos(in), "entry.name is set on the node returned by fillTreeToPrefixEnc(name) for that same name", core.FuncName(fn)+" names a tree node with a name that is not the node's own prefix (e.g. intermediate nodes created for a longer name): listings report next hops and strategies under the wrong prefix")
		})
	}
	c.Floor("R5.6", "stores to a tree entry's name", nName, 2)
	// and every node that is given next hops or a strategy has its name: the node
	// fillTreeToPrefixEnc(name) hands out is named — by fillTreeToPrefixEnc on every path to
	// its return, or by the caller right after the call — unless it already carried one
	// (a node first created as an intermediate node of a longer prefix has none)
	if fill := c.Fn("R5.6", "fw/table", "FibStrategyTree", "fillTreeToPrefixEnc"); fill != nil {
		isNameStoreOn := func(node ssa.Value) func(ssa.Instruction) bool {
			return func(in ssa.Instruction) bool {
				fa, _, ok := storeToField(in, "baseFibStrategyEntry", "name")
				if !ok {
					return false
				}
				outer, isEmb := core.Strip(fa.X).(*ssa.FieldAddr)
				return isEmb && (core.Strip(outer.X) == core.Strip(node) || core.Same(outer.X, node))
			}
		}
		named := func(node ssa.Value) *core.Atom {
			return &core.Atom{Name: "node.name!=nil", Match: func(cond ssa.Value) (int, int) {
				op, x, y, ok := core.Cmp(cond)
				if !ok || (op != token.EQL && op != token.NEQ) || !core.IsNilConst(y) {
					return 0, 0
				}
				if b, okF := core.FieldOfDeep(x, "name"); okF && (core.Strip(b) == core.Strip(node) || core.Same(b, node)) {
					return core.Iff(op == token.NEQ)
				}
				return 0, 0
			}}
		}
		inFill := true
		nRet := 0
		core.Instrs(fill, func(in ssa.Instruction) {
			r, ok := in.(*ssa.Return)
			if !ok || len(r.Results) != 1 || core.IsNilConst(r.Results[0]) {
				return
			}
			nRet++
			node := r.Results[0]
			cut, _ := core.CutEdges(fill, core.Lit{A: named(node), Want: true})
			if core.ReachInstr(fill, r, cut, isNameStoreOn(node)) != nil {
				inFill = false
			}
		})
		inCallers := true
		nCalls := 0
		for _, cs := range p.Callers(fill) {
			caller := cs.Parent()
			if m := core.BaseName(caller); m != "InsertNextHopEnc" && m != "SetStrategyEnc" {
				continue
			}
			nCalls++
			node := cs.Value()
			if node == nil {
				inCallers = false
				continue
			}
			cut, _ := core.CutEdges(caller, core.Lit{A: named(node), Want: true})
			if !core.MustFollowCut(caller, core.After(cs), isNameStoreOn(node), nil, cut).OK {
				inCallers = false
			}
		}
		c.Decide((inFill && nRet > 0) || (inCallers && nCalls > 0), "R5.6", "tree-entry-with-payload-is-named", p.Pos(fill.Pos()), "the node handed out by fillTreeToPrefixEnc(name) is named on every path (unless it already has a name)", "a tree node can receive next hops or a strategy while its name is still nil (a node first created as an intermediate node of a longer prefix): listings report that entry under '/' and the two FIB implementations disagree")
	}

	// ---- R5.4 tree descent compares the right component
	for _, fnm := range []string{"findLongestPrefixEntryEnc", "findExactMatchEntryEnc"} {
		fn := c.Fn("R5.4", "fw/table", "fibStrategyTreeEntry", fnm)
		if fn == nil {
			continue
		}
		name := ssa.Value(fn.Params[1])
		var rec []ssa.Instruction
		var recCalls []ssa.Instruction
		for _, ci := range core.FindCallsDeep(fn, core.CalleeID{Pkg: "fw/table", Recv: "fibStrategyTreeEntry", Name: core.BaseName(fn)}) {
			rec = append(rec, ci)
			recCalls = append(recCalls, ci)
		}
		// iterative form: the cursor (a phi) advances to one of its own children; the
		// step is the jump that carries the child into the phi
		core.Instrs(fn, func(in ssa.Instruction) {
			ph, ok := in.(*ssa.Phi)
			if !ok {
				return
			}
			for i, e := range ph.Edges {
				u, ok := core.Strip(e).(*ssa.UnOp)
				if !ok || u.Op != token.MUL {
					continue
				}
				ia, ok := u.X.(*ssa.IndexAddr)
				if !ok {
					continue
				}
				if _, okF := core.FieldOfDeep(ia.X, "children"); !okF {
					continue
				}
				pred := ph.Block().Preds[i]
				rec = append(rec, pred.Instrs[len(pred.Instrs)-1])
			}
		})
		compEq := &core.Atom{Name: "name[child.depth-1]==child.component", Match: func(cond ssa.Value) (int, int) {
			cl, ok := core.Strip(cond).(*ssa.Call)
			if !ok {
				return 0, 0
			}
			if _, ok := core.IsCall(cl, core.CalleeID{Pkg: "std/encoding", Recv: "Component", Name: "Equal"}); !ok {
				return 0, 0
			}
			r, a := core.CallArgs(&cl.Call)
			// one side: At(name, child.depth-1); other side: child.component
			isAt := func(v ssa.Value) (ssa.Value, bool) {
				at, ok := core.Strip(v).(*ssa.Call)
				if !ok {
					return nil, false
				}
				if _, ok := core.IsCall(at, core.CalleeID{Pkg: "fw/table", Name: "At"}); !ok || !core.Same(at.Call.Args[0], name) {
					return nil, false
				}
				b, ok := core.StripConv(at.Call.Args[1]).(*ssa.BinOp)
				if !ok || b.Op != token.SUB {
					return nil, false
				}
				if k, isC := core.ConstInt(b.Y); !isC || k != 1 {
					return nil, false
				}
				base, ok := core.FieldOf(b.X, "depth")
				return base, ok
			}
			isComp := func(v ssa.Value) (ssa.Value, bool) { return core.FieldOfDeep(v, "component") }
			x, y := r, a[0]
			if _, ok := isAt(x); !ok {
				x, y = y, x
			}
			b1, ok1 := isAt(x)
			b2, ok2 := isComp(y)
			if ok1 && ok2 && core.Same(b1, b2) {
				return 1, -1
			}
			return 0, 0
		}}
		res := core.GateDeep(fn, rec, pos(compEq))
		c.Decide(len(rec) > 0 && res.OK && res.PassEdges > 0, "R5.4", "tree-descent-compares-component:"+fnm, p.Pos(fn.Pos()),
			"descent recurses only into a child whose component equals the name's component at child.depth-1",
			"the name-tree descent can enter a child whose component was not compared (or compared at the wrong depth) with the looked-up name")
		// the recursion is into that same child
		for _, ci := range recCalls {
			r, a := core.CallArgs(ci.(ssa.CallInstruction).Common())
			_, isElem := core.Strip(r).(*ssa.UnOp)
			c.Decide(isElem && core.Same(a[0], name), "R5.4", fmt.Sprintf("tree-descent-passes-name:%s", fnm), c.Pos(ci), "recursion passes the same name", "descent recursion changes the looked-up name")
		}
	}
}

// isSlicesDelete: v is the result of slices.Delete / slices.DeleteFunc.
func isSlicesDelete(v ssa.Value) bool {
	cl, ok := core.Strip(v).(*ssa.Call)
	if !ok {
		return false
	}
	// append(x[:i], x[i+1:]...): the removal idiom
	if b, isB := cl.Call.Value.(*ssa.Builtin); isB && b.Name() == "append" && len(cl.Call.Args) == 2 {
		s0, ok0 := core.Strip(cl.Call.Args[0]).(*ssa.Slice)
		s1, ok1 := core.Strip(cl.Call.Args[1]).(*ssa.Slice)
		return ok0 && ok1 && s0.High != nil && s1.Low != nil && core.Same(s0.X, s1.X)
	}
	id, ok := core.Callee(&cl.Call)
	return ok && id.Pkg == "slices" && strings.HasPrefix(id.Name, "Delete")
}

// isLenLike: v is a length — len(x), a non-negative constant, or a parameter to which
// every call site passes a length.
func isLenLike(p *core.Prog, v ssa.Value, depth int) bool {
	v = core.StripConv(v)
	if _, ok := core.LenOf(v); ok {
		return true
	}
	if k, isC := core.ConstInt(v); isC && k >= 0 {
		return true
	}
	par, ok := v.(*ssa.Parameter)
	if !ok || depth > 2 {
		return false
	}
	fn := par.Parent()
	idx := -1
	for i, q := range fn.Params {
		if q == par {
			idx = i
		}
	}
	sites := p.Callers(fn)
	if idx < 0 || len(sites) == 0 {
		return false
	}
	for _, cs := range sites {
		args := cs.Common().Args
		if cs.Common().IsInvoke() || idx >= len(args) || !isLenLike(p, args[idx], depth+1) {
			return false
		}
	}
	return true
}

// c05Keys — three conditions on the keys under which FIB entries are kept:
//
// R5.9 the name and the strategy stored in an entry are private copies: a value stored
// into an entry's name/strategy field traces, through the private helpers, to Clone() (or
// a constant / package-level default), never to the bare parameter of an exported method.
// The hash table recomputes its table keys from the stored name when it prunes, so a name
// whose backing array the caller reuses removes or hides a different live entry.
//
// R5.10 the root prefix (the empty name, nil included) is an ordinary prefix for next-hop
// insertion, removal, clearing and strategy setting: none of these operations branches on
// the emptiness of its name argument (only UnSetStrategyEnc may: R5.1).
//
// R5.11 the hash-table FIB keys entries by the name hash alone, so the byte stream that
// Component.HashInto feeds the hasher must be uniquely decodable: it includes the length
// of the value (type ‖ value alone lets one component whose value embeds the 8-byte type
// of another hash like two components, /a/b ≡ /<a‖type‖b>).
func c05Keys(c *core.Ctx, impls []*types.Named) {
	p := c.P
	exportedMethod := func(fn *ssa.Function) bool {
		return fn != nil && fn.Parent() == nil && fn.Signature.Recv() != nil && fn.Object() != nil && fn.Object().Exported()
	}
	var owned func(v ssa.Value, depth int, seen map[ssa.Value]bool) (bool, string)
	owned = func(v ssa.Value, depth int, seen map[ssa.Value]bool) (bool, string) {
		v = core.Strip(v)
		if seen[v] {
			return true, ""
		}
		seen[v] = true
		switch x := v.(type) {
		case *ssa.Const, *ssa.MakeSlice:
			return true, ""
		case *ssa.Call:
			if id, ok := core.Callee(&x.Call); ok && (id.Name == "Clone" || id.Name == "Clip") {
				return true, ""
			}
			if b, ok := x.Call.Value.(*ssa.Builtin); ok && b.Name() == "append" {
				return owned(x.Call.Args[0], depth, seen)
			}
			return false, "the result of " + calleeName(x)
		case *ssa.Slice:
			if _, isAl := core.Strip(x.X).(*ssa.Alloc); isAl {
				return true, ""
			}
			return owned(x.X, depth, seen)
		case *ssa.UnOp:
			if x.Op == token.MUL {
				if _, isG := x.X.(*ssa.Global); isG {
					return true, ""
				}
				if al, isAl := x.X.(*ssa.Alloc); isAl {
					all := true
					why := ""
					n := 0
					for _, r := range core.Refs(al) {
						if st, ok := r.(*ssa.Store); ok && st.Addr == ssa.Value(al) {
							n++
							if ok2, w := owned(st.Val, depth, seen); !ok2 {
								all, why = false, w
							}
						}
					}
					return all && n > 0, why
				}
			}
			return false, "a value loaded from " + describeValue(x.X)
		case *ssa.Phi:
			for _, e := range x.Edges {
				if ok, w := owned(e, depth, seen); !ok {
					return false, w
				}
			}
			return true, ""
		case *ssa.Parameter:
			fn := x.Parent()
			if exportedMethod(fn) || depth == 0 {
				return false, "parameter " + x.Name() + " of " + core.FuncName(fn)
			}
			idx := -1
			for i, q := range fn.Params {
				if q == x {
					idx = i
				}
			}
			sites := p.Callers(fn)
			if len(sites) == 0 || idx < 0 {
				return false, "parameter " + x.Name() + " of " + core.FuncName(fn)
			}
			for _, ci := range sites {
				if ps := ci.Parent().Pos(); ps.IsValid() && strings.HasSuffix(p.Fset.Position(ps).Filename, "_test.go") {
					continue
				}
				recv, args := core.CallArgs(ci.Common())
				all := args
				if fn.Signature.Recv() != nil {
					all = append([]ssa.Value{recv}, args...)
				}
				if idx >= len(all) {
					return false, "an argument of " + core.FuncName(ci.Parent())
				}
				if ok, w := owned(all[idx], depth-1, seen); !ok {
					return false, w
				}
			}
			return true, ""
		}
		return false, describeValue(v)
	}
	nStores := 0
	for _, t := range impls {
		tn := t.Obj().Name()
		for _, fn := range p.FuncsIn(core.ModPath + "/fw/table") {
			root := fn
			for root.Parent() != nil {
				root = root.Parent()
			}
			id := core.FuncID(root)
			if id.Recv != tn && !(tn == "FibStrategyTree" && id.Recv == "fibStrategyTreeEntry") {
				continue
			}
			core.Instrs(fn, func(in ssa.Instruction) {
				for _, fld := range []string{"name", "strategy"} {
					_, v, ok := storeToField(in, "baseFibStrategyEntry", fld)
					if !ok || core.IsNilConst(v) {
						continue
					}
					nStores++
					c.Funcs[core.FuncName(fn)] = true
					okO, why := owned(v, 3, map[ssa.Value]bool{})
					c.Decide(okO, "R5.9", fmt.Sprintf("stored-%s-is-private-copy:%s", fld, core.FuncName(fn)), c.Pos(in), "the stored "+fld+" is a private copy (Clone / constant / package default)", tn+" keeps the caller's slice as the entry's "+fld+" ("+why+"): when the caller reuses the backing array (names built by append on a shared prefix) the entry's key changes under the table; the hash table then prunes or hides a different live entry")
				}
			})
		}
		// ---- R5.10
		for _, m := range []string{"InsertNextHopEnc", "RemoveNextHopEnc", "ClearNextHopsEnc", "SetStrategyEnc"} {
			fn := p.MethodOf(t, m)
			if fn == nil || fn.Blocks == nil || len(fn.Params) < 2 {
				continue
			}
			name := ssa.Value(fn.Params[1])
			empty := &core.Atom{Name: "name is empty", Match: func(cond ssa.Value) (int, int) {
				op, x, y, ok := core.Cmp(cond)
				if !ok {
					return 0, 0
				}
				if core.IsNilConst(x) {
					x, y = y, x
				}
				if core.IsNilConst(y) && (core.Strip(x) == name || core.Same(x, name)) && (op == token.EQL || op == token.NEQ) {
					return core.Iff(op == token.EQL)
				}
				l, isLen := core.LenOf(x)
				k, isC := core.ConstInt(y)
				if isLen && isC && (l == name || core.Same(l, name)) && k <= 1 {
					switch {
					case (op == token.EQL && k == 0) || (op == token.LSS && k == 1) || (op == token.LEQ && k == 0):
						return 1, -1
					case (op == token.NEQ && k == 0) || (op == token.GTR && k == 0) || (op == token.GEQ && k == 1):
						return -1, 1
					}
				}
				return 0, 0
			}}
			facts := core.EdgeFactsDeep(fn, empty)
			pos0 := p.Pos(fn.Pos())
			if len(facts) > 0 {
				pos0 = c.Pos(facts[0].E.From.Instrs[len(facts[0].E.From.Instrs)-1])
			}
			c.Decide(len(facts) == 0, "R5.10", "root-prefix-not-special-cased:"+tn+"."+m, pos0, "the operation does not branch on the emptiness of its name", tn+"."+m+" treats the empty (root) name differently from other names: the operation is skipped or altered for the root prefix, so the two FIB implementations diverge and a next hop / strategy registered on / cannot be changed like any other")
		}
	}
	c.Floor("R5.9", "stores of an entry name / strategy", nStores, 4)
	// ---- R5.12 an entry of the hash-table FIB is accepted only when its name IS the looked-up
	// prefix: the tables are keyed by the 64-bit hash of the name, and a second name with
	// the same hash is computed directly (unkeyed xxHash), so a hit under a hash must be
	// confirmed by comparing the stored name — or the tables must be keyed by the name.
	for _, t := range impls {
		if t.Obj().Name() != "FibStrategyHashTable" {
			continue
		}
		st, _ := t.Underlying().(*types.Struct)
		hashKeyed := false
		if st != nil {
			for i := 0; i < st.NumFields(); i++ {
				if st.Field(i).Name() == "realTable" {
					if mt, isM := st.Field(i).Type().Underlying().(*types.Map); isM {
						if b, isB := mt.Key().Underlying().(*types.Basic); isB && b.Info()&types.IsInteger != 0 {
							hashKeyed = true
						}
					}
				}
			}
		}
		// ... or a key of another type that is still made from the hash alone (the hash
		// printed as a string, say): the value used as key on realTable derives from a
		// call of Name.Hash / PrefixHash
		var fromHash func(v ssa.Value, d int, seen map[ssa.Value]bool) bool
		fromHash = func(v ssa.Value, d int, seen map[ssa.Value]bool) bool {
			v = core.StripConv(v)
			if v == nil || d > 6 || seen[v] {
				return false
			}
			seen[v] = true
			switch x := v.(type) {
			case *ssa.Call:
				if id, ok := core.Callee(&x.Call); ok && (id.Name == "Hash" || id.Name == "PrefixHash") && id.Pkg == "std/encoding" {
					return true
				}
				if cal := x.Call.StaticCallee(); cal != nil && cal.Blocks != nil && cal.Pkg != nil && strings.HasPrefix(cal.Pkg.Pkg.Path(), core.ModPath) {
					found := false
					core.Instrs(cal, func(in ssa.Instruction) {
						if r, isR := in.(*ssa.Return); isR {
							for _, rv := range r.Results {
								if fromHash(rv, d+1, seen) {
									found = true
								}
							}
						}
					})
					return found
				}
				for _, a := range x.Call.Args {
					if fromHash(a, d+1, seen) {
						return true
					}
				}
			case *ssa.Phi:
				for _, e := range x.Edges {
					if fromHash(e, d+1, seen) {
						return true
					}
				}
			case *ssa.IndexAddr:
				return fromHash(x.X, d+1, seen)
			case *ssa.Index:
				return fromHash(x.X, d+1, seen)
			case *ssa.UnOp:
				return fromHash(x.X, d+1, seen)
			case *ssa.Extract:
				return fromHash(x.Tuple, d+1, seen)
			}
			return false
		}
		for _, fn := range p.FuncsIn(core.ModPath + "/fw/table") {
			if core.FuncID(core.RootOf(fn)).Recv != "FibStrategyHashTable" {
				continue
			}
			core.Instrs(fn, func(in ssa.Instruction) {
				var key, m ssa.Value
				switch x := in.(type) {
				case *ssa.Lookup:
					key, m = x.Index, x.X
				case *ssa.MapUpdate:
					key, m = x.Key, x.Map
				}
				if key == nil {
					return
				}
				if _, isRT := core.FieldOf(m, "realTable"); isRT && fromHash(key, 0, map[ssa.Value]bool{}) {
					hashKeyed = true
				}
			})
		}
		compares := false
		for _, fn := range p.FuncsIn(core.ModPath + "/fw/table") {
			if core.FuncID(core.RootOf(fn)).Recv != "FibStrategyHashTable" {
				continue
			}
			core.Instrs(fn, func(in ssa.Instruction) {
				ci, ok := in.(ssa.CallInstruction)
				if !ok {
					return
				}
				id, ok := core.Callee(ci.Common())
				if !ok || id.Name != "Equal" || id.Pkg != "std/encoding" {
					return
				}
				r, a := core.CallArgs(ci.Common())
				for _, v := range append([]ssa.Value{r}, a...) {
					if v == nil {
						continue
					}
					if _, isName := core.FieldOf(v, "name"); isName {
						compares = true
					}
				}
			})
		}
		c.Decide(!hashKeyed || compares, "R5.12", "hashtable-hit-confirmed-by-name", p.Pos(t.Obj().Pos()), "the tables are keyed by the name, or a hit is confirmed by comparing the stored name", "the hash-table FIB keys its tables by the 64-bit hash of the name and accepts the entry found under a hash without comparing its name: for two names with the same hash (computable for the unkeyed xxHash) a lookup of one returns the next hops and the strategy of the other, and inserting one overwrites the other — the name-tree FIB keeps them apart")
	}

	// ---- R5.11
	if hi := c.Fn("R5.11", "std/encoding", "Component", "HashInto"); hi != nil {
		fed := false
		core.Instrs(hi, func(in ssa.Instruction) {
			cl, ok := isBuiltinCall(in, "len")
			if !ok {
				return
			}
			if _, isVal := core.FieldOf(cl.Call.Args[0], "Val"); !isVal {
				return
			}
			// the length reaches a call argument (PutUintNN / Write / append)
			seen := map[ssa.Value]bool{}
			var walk func(v ssa.Value)
			walk = func(v ssa.Value) {
				if seen[v] {
					return
				}
				seen[v] = true
				for _, r := range core.Refs(v) {
					switch x := r.(type) {
					case ssa.CallInstruction:
						fed = true
					case *ssa.Convert:
						walk(x)
					case *ssa.BinOp:
						walk(x)
					case *ssa.Store:
						fed = true
					}
				}
			}
			walk(cl)
		})
		c.Decide(fed, "R5.11", "name-hash-delimits-components", p.Pos(hi.Pos()), "the component hash input includes the length of the value", "Component.HashInto feeds the hasher type ‖ value without the value's length: the hash input of a name is not uniquely decodable (/a/b and the one-component name a‖<8-byte type>‖b hash alike), and the hash-table FIB, which keys entries by this hash alone, answers lookups for one name with the next hops of the other (and indexes past the shorter name)")
	}
}

// c05VirtualFollowsReal — R5.13 "a strategy lookup returns the strategy of the longest prefix
// that has one" (hash-table FIB): the virtual tables describe the names that are in the real
// table. pruneTables takes a name out of a virtual node's name set, or drops the virtual node,
// only behind the deletion of that name's real entry — an entry that stays (kept alive by its
// strategy after its next hops are gone) stays reachable through its virtual node; otherwise
// lookups for longer names fall through to a shorter prefix.
func c05VirtualFollowsReal(c *core.Ctx) {
	p := c.P
	fn := c.Fn("R5.13", "fw/table", "FibStrategyHashTable", "pruneTables")
	if fn == nil {
		return
	}
	isRealDelete := func(in ssa.Instruction) bool { return isMapDelete(in, "realTable") }
	n, bad := 0, ""
	core.InstrsDeep(fn, func(in ssa.Instruction) {
		cl, ok := isBuiltinCall(in, "delete")
		if !ok || len(cl.Call.Args) != 2 {
			return
		}
		m := core.Strip(cl.Call.Args[0])
		virt := false
		if _, okF := core.FieldOf(m, "virtTable"); okF {
			virt = true
		}
		if _, okF := core.FieldOf(m, "virtTableNames"); okF {
			virt = true
		}
		// the name set of one virtual node: a value looked up in virtTableNames
		var lk *ssa.Lookup
		switch x := m.(type) {
		case *ssa.Lookup:
			lk = x
		case *ssa.Extract:
			lk, _ = x.Tuple.(*ssa.Lookup)
		}
		if lk != nil {
			if _, okF := core.FieldOf(lk.X, "virtTableNames"); okF {
				virt = true
			}
		}
		if !virt {
			return
		}
		n++
		// (path-sensitive in the `pruned := false; if … { delete(real); pruned = true };
		// if !pruned { return }` idiom: the edges that contradict the flag are cut)
		cut := core.FlagCuts(in.Parent(), []ssa.Instruction{in})
		if in.Parent() != fn {
			if !core.PrecedesDeep(fn, in, isRealDelete) {
				bad = c.Pos(in)
			}
		} else if core.ReachInstr(fn, in, cut, isRealDelete) != nil {
			bad = c.Pos(in)
		}
	})
	c.Decide(bad == "", "R5.13", "virtual-tables-follow-the-real-table", p.Pos(fn.Pos()), fmt.Sprintf("%d removals from the virtual tables, each behind the deletion of the real entry", n), "pruneTables removes a name from the virtual tables at "+bad+" on a path on which its real entry was not deleted (the entry stays, e.g. kept by its strategy after its next hops were cleared): the entry is no longer reachable through its virtual node, and the strategy (or next-hop) lookup of a longer name falls through to a shorter prefix")
	c.Floor("R5.13", "removals from the virtual tables in pruneTables", n, 3)
}
