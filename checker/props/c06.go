package props

import (
	"go/types"
	"fmt"
	"go/token"
	"sort"
	"strings"

	"ndndcheck/core"

	"golang.org/x/tools/go/ssa"
)

// C06 — The FIB always equals the flattening of the currently registered routes.
func C06(c *core.Ctx) {
	c.Explain = "Decides structural necessary conditions of C06; the flattening itself over all histories is behavioural and not decided. (R6.1) in RibEntry.updateNexthopsEnc every call that mutates the FIB (ClearNextHopsEnc / InsertNextHopEnc / SetNextHopsEnc) is reachable only on the edge asserting that the entry is a named one (Name != nil) — name-less filler nodes would address the root FIB entry; the recursion into children is unconditional so inheritance still propagates through fillers; (R6.2) inherited routes are collected only when the entry itself holds no capture route, only child-inherit routes are taken from ancestors, and the ancestor walk has an exit on the edge asserting HasCaptureRoute() of the loop cursor placed after that ancestor's routes were taken; (R6.3) the per-face cost is overwritten only under 'absent ∨ cheaper'; (R6.4) every function that stores to RibEntry.routes or Route.Cost/Flags reaches updateNexthopsEnc of that entry on all exits, face removal reaches Rib.CleanUpFace, which recurses into every child; (R6.5) the face-cleanup scan over an entry's routes has no exit other than exhaustion (routes are keyed by (face, origin), so several may match); (R6.13) HasCaptureRoute computes its answer from the entry's routes on every call, or — when it answers from a stored field of the entry — every store to RibEntry.routes / Route.Flags is followed on all exits by a rewrite of that field."
	c.RuleText = "instances: FIB-mutator calls in fw/table/rib.go, the ancestor walk, the min-cost map update, every function storing to RibEntry.routes / Route.Cost / Route.Flags (discovered by scanning stores), face-table removal. Non-trivial = has a branch edge or path to decide."
	p := c.P
	c06NamesArePrivate(c)
	// ---- R6.9 (shared with C08 R8.4) the RIB's prune walk unlinks only entries that have
	// neither routes nor children: otherwise sibling subtrees are orphaned and their routes
	// no longer reach the FIB
	c.Import(C08, "R6.9", "RIB pruning can detach an entry that still has routes or children: the routes below it stay registered but are no longer flattened into the FIB", 2, func(k string) bool {
		return strings.HasPrefix(k, "R8.4:") && strings.Contains(k, "RibEntry")
	})

	// ---- R6.10 (shared with C08 R8.4) the FIB the routes are flattened into prunes only
	// empty nodes: a prune walk that tests the start node instead of the node it is about to
	// unlink (in either twin of the name-tree FIB's prune function, or in the hash-table
	// FIB's) detaches a prefix that still has next hops when a route below it is withdrawn —
	// the prefix keeps its routes in the RIB and forwards to nobody
	c.Import(C08, "R6.10", "a FIB prune walk can detach an entry that still holds next hops: a prefix that has routes loses its FIB entry when a route below it is withdrawn", 2, func(k string) bool {
		return strings.HasPrefix(k, "R8.4:") && (strings.Contains(k, "fibStrategyTreeEntry") || strings.Contains(k, "FibStrategy"))
	})

	// ---- R6.11 (shared with C05 R5.7) "against both FIB implementations": the hash-table FIB
	// finds an entry longer than its m components only through the virtual node's maximum
	// depth; if a later insertion can lower it, a registered, route-bearing prefix is no
	// longer found by the lookup although the listing still shows it
	c.Import(C05, "R6.11", "the hash-table FIB can under-estimate the depth of the entries below a virtual node: a prefix that has routes is not found by FindNextHopsEnc any more", 1, func(k string) bool {
		return strings.HasPrefix(k, "R5.7:md-never-underestimates")
	})

	up := c.Fn("R6.1", "fw/table", "RibEntry", "updateNexthopsEnc")
	if up != nil {
		r := ssa.Value(up.Params[0])
		named := &core.Atom{Name: "entry.Name!=nil", Match: func(cond ssa.Value) (int, int) {
			op, x, y, ok := core.Cmp(cond)
			if !ok || (op != token.EQL && op != token.NEQ) {
				return 0, 0
			}
			if core.IsNilConst(x) {
				x, y = y, x
			}
			if core.IsNilConst(y) && isFieldLoad(x, r, "Name") {
				return core.Iff(op == token.NEQ)
			}
			return 0, 0
		}}
		var muts []ssa.Instruction
		for _, ci := range core.FindCallsDeep(up,
			core.CalleeID{Pkg: "fw/table", Recv: "FibStrategy", Name: "ClearNextHopsEnc"},
			core.CalleeID{Pkg: "fw/table", Recv: "FibStrategy", Name: "InsertNextHopEnc"},
			core.CalleeID{Pkg: "fw/table", Recv: "FibStrategy", Name: "SetNextHopsEnc"},
			core.CalleeID{Pkg: "fw/table", Recv: "FibStrategy", Name: "RemoveNextHopEnc"}) {
			muts = append(muts, ci)
			_, a := core.CallArgs(ci.Common())
			c.Decide(isFieldLoad(a[0], r, "Name"), "R6.1", "fib-mutation-uses-entry-name:"+calleeName(ci), c.Pos(ci), "FIB is addressed by the entry's own name", "FIB mutation addresses a name other than the RIB entry's own")
		}
		c.Floor("R6.1", "FIB mutator calls in updateNexthopsEnc", len(muts), 2)
		res := core.GateDeep(up, muts, pos(named))
		c.Decide(res.OK && res.PassEdges > 0, "R6.1", "fib-writes-only-for-named-entries", p.Pos(up.Pos()),
			"the FIB mutators (ClearNextHopsEnc / InsertNextHopEnc / SetNextHopsEnc) are reachable only when the entry has a name",
			"a name-less filler RIB node can write to the FIB: a nil name addresses the root entry in both FIB implementations, so inherited routes show up as next hops of '/'; path: "+p.PathString(res.Path))
		// R6.1b: next hops are installed only for entries that hold routes of their own
		hasRoutes := atomLenFieldPositive("routes", func(b ssa.Value) bool { return core.Same(b, r) })
		var inserts []ssa.Instruction
		for _, ci := range core.FindCallsDeep(up, core.CalleeID{Pkg: "fw/table", Recv: "FibStrategy", Name: "InsertNextHopEnc"}, core.CalleeID{Pkg: "fw/table", Recv: "FibStrategy", Name: "SetNextHopsEnc"}) {
			inserts = append(inserts, ci)
		}
		res = core.GateDeep(up, inserts, pos(hasRoutes))
		c.Decide(len(inserts) > 0 && res.OK && res.PassEdges > 0, "R6.1", "fib-inserts-only-for-entries-with-routes", p.Pos(up.Pos()),
			"InsertNextHopEnc / SetNextHopsEnc reachable only when len(entry.routes) > 0",
			"an entry without routes of its own gets inherited next hops installed under its name: when that entry is pruned afterwards (last route removed) nothing refreshes the FIB entry again and next hops of later-removed routes remain; path: "+p.PathString(res.Path))
		// recursion into children on every exit path
		isRec := func(in ssa.Instruction) bool {
			cc, ok := core.IsCall(in, core.CalleeID{Pkg: "fw/table", Recv: "RibEntry", Name: "updateNexthopsEnc"})
			if !ok {
				return false
			}
			rv, _ := core.CallArgs(cc)
			return rangeComponent(rv, 1, func(v ssa.Value) bool { return isFieldLoad(v, r, "children") })
		}
		okRec := true
		nRec := 0
		core.InstrsDeep(up, func(in ssa.Instruction) {
			if isRec(in) {
				nRec++
				h := loopHeader(in.Block())
				if h == nil || !everyIterationPasses(up, h, func(x ssa.Instruction) bool { return x == in }) {
					okRec = false
				}
			}
		})
		// every return is preceded by a children loop: each Return's block is reached only through a range over r.children
		core.Instrs(up, func(in ssa.Instruction) {
			if _, ok := in.(*ssa.Return); ok {
				hasRange := core.PrecedesDeep(up, in, func(x ssa.Instruction) bool {
					rg, ok := x.(*ssa.Range)
					return ok && isFieldLoad(rg.X, r, "children")
				})
				if !hasRange {
					okRec = false
				}
			}
		})
		c.Decide(okRec && nRec > 0, "R6.4", "recompute-recurses-into-all-children", p.Pos(up.Pos()), "every exit of updateNexthopsEnc has iterated over all children, calling updateNexthopsEnc on each", "updateNexthopsEnc can return without recomputing every child: a change of an inherited route does not reach longer prefixes")

		// ---- R6.2
		capOf := func(recvOK func(ssa.Value) bool) *core.Atom {
			return &core.Atom{Name: "HasCaptureRoute()", Match: func(cond ssa.Value) (int, int) {
				cl, ok := core.Strip(cond).(*ssa.Call)
				if !ok {
					return 0, 0
				}
				if _, ok := core.IsCall(cl, core.CalleeID{Pkg: "fw/table", Recv: "RibEntry", Name: "HasCaptureRoute"}); !ok {
					return 0, 0
				}
				rv, _ := core.CallArgs(&cl.Call)
				if !recvOK(core.Strip(rv)) {
					return 0, 0
				}
				return 1, -1
			}}
		}
		selfCap := capOf(func(v ssa.Value) bool { return core.Same(v, r) })
		// the ancestor loop: a phi cursor advanced by .parent
		var cursor *ssa.Phi
		core.InstrsDeep(up, func(in ssa.Instruction) {
			phi, ok := in.(*ssa.Phi)
			if !ok {
				return
			}
			for _, e := range phi.Edges {
				if b, ok := core.FieldOf(e, "parent"); ok && core.Strip(b) == ssa.Value(phi) {
					cursor = phi
				}
			}
		})
		if cursor == nil {
			c.Viol("R6.2", "ancestor-walk", p.Pos(up.Pos()), "no ancestor walk (cursor advanced through .parent) in updateNexthopsEnc: child-inherit routes of shorter prefixes are not inherited")
		} else {
			hdr := cursor.Block()
			cf := cursor.Parent() // the walk may live in a private helper
			// whole walk is skipped when the entry itself captures
			res := core.GateDeep(up, []ssa.Instruction{hdr.Instrs[0]}, neg(selfCap))
			c.Decide(res.OK && res.PassEdges > 0, "R6.2", "capture-entry-inherits-nothing", p.Pos(up.Pos()), "the ancestor walk is unreachable when the entry holds a capture route", "an entry holding a capture route still inherits routes from shorter prefixes")
			// only child-inherit routes are appended inside the walk
			var apps []ssa.Instruction
			for _, b := range cf.Blocks {
				if hh := enclosingLoops(b); containsBlock(hh, hdr) {
					for _, in := range b.Instrs {
						if _, ok := isBuiltinCall(in, "append"); ok {
							apps = append(apps, in)
						}
					}
				}
			}
			inh := atomCallTrue("route.HasChildInheritFlag()", callIs(core.CalleeID{Pkg: "fw/table", Recv: "Route", Name: "HasChildInheritFlag"}))
			res = core.GateDeep(up, apps, pos(inh))
			c.Decide(len(apps) > 0 && res.OK && res.PassEdges > 0, "R6.2", "inherit-only-child-inherit-routes", p.Pos(up.Pos()), "ancestor routes are appended only under HasChildInheritFlag()", "routes of shorter prefixes are inherited although they lack the child-inherit flag")
			// exit on capture of the cursor, after that ancestor's routes were taken
			curCap := capOf(func(v ssa.Value) bool { return v == ssa.Value(cursor) })
			okStop, early := false, false
			for _, f := range core.EdgeFacts(cf, curCap) {
				if !f.Holds {
					continue
				}
				// the true edge leaves the loop
				leaves := core.ReachAvoiding(cf, f.E.To, map[*ssa.BasicBlock]bool{hdr: true}, nil) == nil
				// and the test comes after the loop over cursor.routes
				after := false
				for _, b := range cf.Blocks {
					for _, in := range b.Instrs {
						if u, ok := in.(*ssa.UnOp); ok && isFieldLoad(u, cursor, "routes") && b.Dominates(f.E.From) && b != f.E.From {
							after = true
						}
					}
				}
				if leaves && after {
					okStop = true
				}
				if leaves && !after {
					early = true
				}
			}
			okStop = okStop && !early
			c.Decide(okStop, "R6.2", "inheritance-stops-at-capture-ancestor", p.Pos(up.Pos()), "the walk exits on HasCaptureRoute() of the ancestor after taking that ancestor's routes", "inheritance does not stop at the nearest shorter prefix holding a capture route (the ancestor walk never tests the cursor's capture flag after taking its routes)")
		}

		// ---- R6.3 min cost
		var upd []ssa.Instruction
		var mapV ssa.Value
		core.InstrsDeep(up, func(in ssa.Instruction) {
			if mu, ok := in.(*ssa.MapUpdate); ok {
				if _, isMake := core.Strip(mu.Map).(*ssa.MakeMap); isMake {
					upd = append(upd, in)
					mapV = mu.Map
				}
			}
		})
		if len(upd) == 0 {
			c.Und("R6.3", "min-cost-map", p.Pos(up.Pos()), "no local face→cost map update found")
		} else {
			absent := &core.Atom{Name: "face-present-in-map", Match: func(cond ssa.Value) (int, int) {
				e, ok := core.Strip(cond).(*ssa.Extract)
				if ok && e.Index == 1 {
					if lk, ok := e.Tuple.(*ssa.Lookup); ok && lk.X == mapV {
						return 1, -1
					}
				}
				return 0, 0
			}}
			cheaper := &core.Atom{Name: "route.Cost<recorded", Match: func(cond ssa.Value) (int, int) {
				op, x, y, ok := core.Cmp(cond)
				if !ok {
					return 0, 0
				}
				isCost := func(v ssa.Value) bool { _, ok := core.FieldOf(v, "Cost"); return ok }
				isRec := func(v ssa.Value) bool {
					e, ok := core.Strip(v).(*ssa.Extract)
					if !ok || e.Index != 0 {
						return false
					}
					lk, ok := e.Tuple.(*ssa.Lookup)
					return ok && lk.X == mapV
				}
				if isRec(x) && isCost(y) {
					x, y = y, x
					op = core.Swap(op)
				}
				if !isCost(x) || !isRec(y) {
					return 0, 0
				}
				switch op {
				case token.LSS:
					return 1, -1
				case token.GEQ:
					return -1, 1
				}
				return 0, 0
			}}
			res := core.GateDeep(up, upd, neg(absent), pos(cheaper))
			c.Decide(res.OK && res.PerLit[0] > 0 && res.PerLit[1] > 0, "R6.3", "min-cost-per-face", c.Pos(upd[0]), "cost recorded only when the face is new or the route is strictly cheaper", "the per-face cost can be overwritten by a route that is not cheaper: the FIB does not hold the minimum cost among contributing routes")
		}
	}

	// ---- R6.4 every mutation of routes recomputes
	nMut := 0
	for _, fn := range p.FuncsIn(core.ModPath + "/fw/table") {
		core.Instrs(fn, func(in ssa.Instruction) {
			fa, _, okR := storeToField(in, "RibEntry", "routes")
			fa2, _, okC := storeToField(in, "Route", "Cost")
			fa3, _, okF := storeToField(in, "Route", "Flags")
			if !okR && !okC && !okF {
				return
			}
			var entry ssa.Value
			what := "routes"
			if okR && isFreshObject(fa.X) {
				return // a snapshot / newly created entry, not the table's own
			}
			if okR {
				entry = fa.X
			} else if okC {
				what = "Cost"
				_ = fa2
			} else {
				what = "Flags"
				_ = fa3
			}
			// stores into a freshly allocated Route (constructor) are not mutations
			if !okR {
				base := fa2
				if okF {
					base = fa3
				}
				if _, fresh := core.Strip(base.X).(*ssa.Alloc); fresh {
					return
				}
			}
			nMut++
			// the mutation may sit in a worker split off the exported operation: the
			// obligation then continues after the worker's call site
			fr := core.MustFollowDeep(core.RootOf(fn), core.After(in), func(x ssa.Instruction) bool {
				cc, ok := core.IsCall(x, core.CalleeID{Pkg: "fw/table", Recv: "RibEntry", Name: "updateNexthopsEnc"})
				if !ok {
					return false
				}
				if entry == nil {
					return true
				}
				rv, _ := core.CallArgs(cc)
				return core.Same(rv, entry)
			}, nil)
			if !fr.OK {
				// the store sits in a walk over the whole subtree (removeFaceRoutes): the
				// recompute may follow the walk — started from the node the walk started
				// from, it recurses into every child (recompute-recurses-into-all-children)
				if site := treeWalkSite(p, fn); site != nil {
					walkRecv, _ := core.CallArgs(site.Common())
					fr = core.MustFollowDeep(core.RootOf(site.Parent()), core.After(site), func(x ssa.Instruction) bool {
						cc, ok := core.IsCall(x, core.CalleeID{Pkg: "fw/table", Recv: "RibEntry", Name: "updateNexthopsEnc"})
						if !ok {
							return false
						}
						rv, _ := core.CallArgs(cc)
						return walkRecv != nil && core.Same(rv, walkRecv)
					}, nil)
				}
			}
			c.Decide(fr.OK, "R6.4", fmt.Sprintf("mutation-recomputes:%s:%s", core.FuncName(fn), what), c.Pos(in), "store to "+what+" is followed by updateNexthopsEnc of that entry on all exits", core.FuncName(fn)+" changes a route ("+what+") without recomputing the entry's next hops on some path: the FIB no longer mirrors the RIB")
		})
	}
	c.Floor("R6.4", "route mutation stores", nMut, 3)
	c06CaptureAnswerIsCurrent(c)
	// ---- R6.4b the refresh comes before the pruning. An entry that lost its last route is
	// refreshed (its FIB entry is cleared or refilled with inherited next hops) and then
	// detached; once detached it is never reached by a refresh again, so pruning first leaves
	// the FIB entry of the removed routes behind for good.
	{
		nPr := 0
		for _, fn := range p.FuncsIn(core.ModPath + "/fw/table") {
			if strings.HasSuffix(p.File(fn.Pos()), "_test.go") || fn.Signature.Recv() == nil {
				continue
			}
			if n, ok := core.Deref(fn.Signature.Recv().Type()).(*types.Named); !ok || n.Obj().Name() != "RibTable" {
				continue
			}
			core.Instrs(fn, func(in ssa.Instruction) {
				ci, ok := in.(ssa.CallInstruction)
				if !ok {
					return
				}
				cal := ci.Common().StaticCallee()
				if cal == nil {
					return
				}
				isPrune := false
				if id := core.FuncID(cal); id.Recv == "RibEntry" && id.Name == "pruneIfEmpty" {
					isPrune = true
				} else if prunesSubtree(p, cal) {
					isPrune = true
				}
				if !isPrune {
					return
				}
				nPr++
				c.Funcs[core.FuncName(fn)] = true
				recv, _ := core.CallArgs(ci.Common())
				before := core.Precedes(fn, in, func(x ssa.Instruction) bool {
					if _, isDefer := x.(*ssa.Defer); isDefer {
						return false
					}
					cc, ok := core.IsCall(x, core.CalleeID{Pkg: "fw/table", Recv: "RibEntry", Name: "updateNexthopsEnc"})
					if !ok {
						return false
					}
					rv, _ := core.CallArgs(cc)
					return recv != nil && (core.Strip(rv) == core.Strip(recv) || core.Same(rv, recv))
				})
				c.Decide(before, "R6.4", fmt.Sprintf("refresh-before-prune:%s#%d", core.FuncName(fn), nPr), c.Pos(in), "the entry is refreshed before it is pruned", core.FuncName(fn)+" prunes RIB entries before their next hops were recomputed: an entry that lost its last route is detached first and never refreshed again — its FIB entry keeps the next hops of the removed routes (a dead face among them) for good")
			})
		}
		c.Floor("R6.4", "prune calls in RIB mutators", nPr, 2)
	}
	// face removal → CleanUpFace
	cu := ribCleanupWorker(p)
	if cu == nil {
		c.Und("R6.4", "anchor:rib-cleanup-worker", "-", "no RIB function that removes the routes of a face from an entry and recurses into the children was found")
	}
	if rm := c.Fn("R6.4", "fw/face", "Table", "Remove"); rm != nil && cu != nil {
		// Remove calls the worker, or a wrapper whose every path calls the worker, with its id
		var call ssa.Instruction
		core.Instrs(rm, func(in ssa.Instruction) {
			ci, ok := in.(ssa.CallInstruction)
			if !ok {
				return
			}
			sc := ci.Common().StaticCallee()
			if sc == nil {
				return
			}
			_, a := core.CallArgs(ci.Common())
			if len(a) != 1 || !core.Same(a[0], rm.Params[1]) {
				return
			}
			if sc == cu {
				call = in
				return
			}
			// wrapper: forwards its own parameter to the worker on every path
			for _, wc := range core.FindCallsDeep(sc, core.FuncID(cu)) {
				_, wa := core.CallArgs(wc.Common())
				if len(wa) == 1 && core.Same(wa[0], sc.Params[1]) && core.MustFollowDeep(sc, core.Point{Block: sc.Blocks[0], Idx: 0}, func(x ssa.Instruction) bool { return x == ssa.Instruction(wc) }, nil).OK {
					call = in
				}
			}
		})
		ok := call != nil && core.MustFollowDeep(rm, core.Point{Block: rm.Blocks[0], Idx: 0}, func(in ssa.Instruction) bool { return in == call }, nil).OK
		c.Decide(ok, "R6.4", "face-removal-cleans-rib", p.Pos(rm.Pos()), "face.Table.Remove always reaches the RIB cleanup of that face id", "removing a face does not clean its routes out of the RIB")
	}
	if cu != nil {
		c.Funcs[core.FuncName(cu)] = true
		r := ssa.Value(cu.Params[0])
		okRec := false
		for _, ci := range core.FindCallsDeep(cu, core.FuncID(cu)) {
			rv, a := core.CallArgs(ci.Common())
			if rangeComponent(rv, 1, func(v ssa.Value) bool { return isFieldLoad(v, r, "children") }) && core.Same(a[0], cu.Params[1]) {
				h := loopHeader(ci.Block())
				okRec = h != nil && everyIterationPasses(cu, h, func(x ssa.Instruction) bool { return x == ssa.Instruction(ci) })
				// the children loop is entered on every path (not behind an early return)
				okRec = okRec && core.MustFollowDeep(cu, core.Point{Block: cu.Blocks[0], Idx: 0}, func(x ssa.Instruction) bool {
					rg, ok := x.(*ssa.Range)
					return ok && isFieldLoad(rg.X, r, "children")
				}, nil).OK
			}
		}
		c.Decide(okRec, "R6.4", "cleanup-recurses-into-all-children", p.Pos(cu.Pos()), "CleanUpFace visits every child on every path", "CleanUpFace does not visit every RIB entry: routes of the dead face survive in part of the tree")
		// ---- R6.5 scan over routes has only the exhaustion exit
		faceEq := &core.Atom{Name: "route.FaceID==faceId", Match: func(cond ssa.Value) (int, int) {
			op, x, y, ok := core.Cmp(cond)
			if !ok || (op != token.EQL && op != token.NEQ) {
				return 0, 0
			}
			isF := func(v ssa.Value) bool { _, ok := core.FieldOf(v, "FaceID"); return ok }
			fid := ssa.Value(cu.Params[1])
			if (isF(x) && y == fid) || (isF(y) && x == fid) {
				return core.Iff(op == token.EQL)
			}
			return 0, 0
		}}
		facts := core.EdgeFacts(cu, faceEq)
		if len(facts) == 0 {
			c.Viol("R6.5", "cleanup-scan", p.Pos(cu.Pos()), "CleanUpFace does not compare route.FaceID with the face being removed")
		} else {
			h := loopHeader(facts[0].E.From)
			ok := h != nil
			if ok {
				// every edge leaving the loop starts at the header
				for _, b := range cu.Blocks {
					if !containsBlock(enclosingLoops(b), h) {
						continue
					}
					for _, s := range b.Succs {
						if !containsBlock(enclosingLoops(s), h) && s != h && b != h {
							ok = false
						}
					}
				}
			}
			c.Decide(ok, "R6.5", "cleanup-scans-all-routes", p.Pos(cu.Pos()), "the scan over an entry's routes ends only by exhaustion", "the face-cleanup scan leaves the loop early (break/return after a match): further routes of the same face — routes are keyed by (face, origin) — stay registered and keep a next hop to the dead face")
		}
	}
	// AddEncRoute: update-in-place only for the same (face, origin) key
	if add := c.Fn("R6.4", "fw/table", "RibTable", "AddEncRoute"); add != nil {
		route := ssa.Value(add.Params[2])
		keyAtom := func(field string) *core.Atom {
			return &core.Atom{Name: "existing." + field + "==route." + field, Match: func(cond ssa.Value) (int, int) {
				op, x, y, ok := core.Cmp(cond)
				if !ok || (op != token.EQL && op != token.NEQ) {
					return 0, 0
				}
				bx, okx := core.FieldOf(x, field)
				by, oky := core.FieldOf(y, field)
				if okx && oky && (core.Same(bx, route) != core.Same(by, route)) {
					return core.Iff(op == token.EQL)
				}
				return 0, 0
			}}
		}
		var eff []ssa.Instruction
		core.InstrsDeep(add, func(in ssa.Instruction) {
			if fa, _, ok := storeToField(in, "Route", "Cost"); ok {
				if _, fresh := core.Strip(fa.X).(*ssa.Alloc); !fresh {
					eff = append(eff, in)
				}
			}
		})
		for _, f := range []string{"FaceID", "Origin"} {
			res := core.GateDeep(add, eff, pos(keyAtom(f)))
			c.Decide(len(eff) > 0 && res.OK && res.PassEdges > 0, "R6.4", "route-key:"+f, p.Pos(add.Pos()), "an existing route is updated only when "+f+" matches", "AddEncRoute can overwrite a route whose "+f+" differs from the registered one")
		}
	}
}

func containsBlock(bs []*ssa.BasicBlock, b *ssa.BasicBlock) bool {
	for _, x := range bs {
		if x == b {
			return true
		}
	}
	return false
}

// ribCleanupWorker discovers the RIB function that removes the routes of one face from an
// entry and recurses into the entry's children (by structure, not by name): it compares
// route.FaceID with one of its parameters, stores to RibEntry.routes and calls itself.
func ribCleanupWorker(p *core.Prog) *ssa.Function {
	for _, fn := range p.FuncsIn(core.ModPath + "/fw/table") {
		if fn.Parent() != nil || len(fn.Params) != 2 {
			continue
		}
		cmp, store, rec := false, false, false
		core.Instrs(fn, func(in ssa.Instruction) {
			switch x := in.(type) {
			case *ssa.BinOp:
				if x.Op == token.EQL || x.Op == token.NEQ {
					_, okx := core.FieldOf(x.X, "FaceID")
					_, oky := core.FieldOf(x.Y, "FaceID")
					if (okx && core.Same(x.Y, fn.Params[1])) || (oky && core.Same(x.X, fn.Params[1])) {
						cmp = true
					}
				}
			case *ssa.Store:
				if _, _, ok := storeToField(in, "RibEntry", "routes"); ok {
					store = true
				}
			case ssa.CallInstruction:
				if x.Common().StaticCallee() == fn {
					rec = true
				}
			}
		})
		if cmp && store && rec {
			return fn
		}
	}
	return nil
}

// treeWalkSite: fn calls itself (a walk over a subtree) and has exactly one call site
// outside itself; that site is where the walk is started.
func treeWalkSite(p *core.Prog, fn *ssa.Function) ssa.CallInstruction {
	rec := false
	var outside []ssa.CallInstruction
	for _, ci := range p.Callers(fn) {
		if ci.Parent() == fn {
			rec = true
		} else {
			outside = append(outside, ci)
		}
	}
	if rec && len(outside) == 1 {
		return outside[0]
	}
	return nil
}

// prunesSubtree: g is a walk over a subtree of the RIB that calls pruneIfEmpty on every
// node it visits (on all paths from its entry).
func prunesSubtree(p *core.Prog, g *ssa.Function) bool {
	if g == nil || g.Blocks == nil {
		return false
	}
	rec := false
	core.Instrs(g, func(in ssa.Instruction) {
		if ci, ok := in.(ssa.CallInstruction); ok && ci.Common().StaticCallee() == g {
			rec = true
		}
	})
	if !rec {
		return false
	}
	fr := core.MustFollow(g, core.Point{Block: g.Blocks[0], Idx: 0}, func(x ssa.Instruction) bool {
		cc, ok := core.IsCall(x, core.CalleeID{Pkg: "fw/table", Recv: "RibEntry", Name: "pruneIfEmpty"})
		if !ok {
			return false
		}
		rv, _ := core.CallArgs(cc)
		return len(g.Params) > 0 && core.Same(rv, g.Params[0])
	}, nil)
	return fr.OK
}

// c06NamesArePrivate — R6.12 "once a route is removed no next hop remains": the RIB finds
// the entry to remove by comparing the components kept in its tree with the name of the
// command. What the tree keeps is therefore a copy of its own: every value stored into
// RibEntry.component / RibEntry.Name traces to Clone() (of the component, or of the name
// it is taken from) or to a name the RIB already holds — never to the bare name argument
// of an exported method, which is decoded from (and aliases) a packet buffer that is
// reused: afterwards the tree holds another name, unregistration cannot find the entry,
// and the route and its next hop stay.
func c06NamesArePrivate(c *core.Ctx) {
	p := c.P
	var ownedN func(v ssa.Value, depth int, seen map[ssa.Value]bool) (bool, string)
	isClone := func(x *ssa.Call) bool {
		id, ok := core.Callee(&x.Call)
		return ok && id.Name == "Clone"
	}
	ribField := func(v ssa.Value) bool {
		_, path := core.FieldPath(v)
		return len(path) > 0 && (path[len(path)-1] == "Name" || path[len(path)-1] == "component")
	}
	ownedN = func(v ssa.Value, depth int, seen map[ssa.Value]bool) (bool, string) {
		v = core.Strip(v)
		if v == nil || seen[v] {
			return true, ""
		}
		seen[v] = true
		switch x := v.(type) {
		case *ssa.Const, *ssa.MakeSlice:
			return true, ""
		case *ssa.Call:
			if isClone(x) {
				return true, ""
			}
			if b, ok := x.Call.Value.(*ssa.Builtin); ok && b.Name() == "append" {
				return ownedN(x.Call.Args[0], depth, seen)
			}
			// At(name, i): an element of the name
			if cal := x.Call.StaticCallee(); cal != nil && cal.Name() == "At" && len(x.Call.Args) == 2 {
				return ownedN(x.Call.Args[0], depth, seen)
			}
			return false, "the result of " + calleeName(x)
		case *ssa.Slice:
			return ownedN(x.X, depth, seen)
		case *ssa.UnOp:
			if x.Op == token.MUL {
				if ia, ok := x.X.(*ssa.IndexAddr); ok {
					return ownedN(ia.X, depth, seen)
				}
				if ribField(x) {
					return true, "" // what the RIB already holds
				}
				if al, isAl := x.X.(*ssa.Alloc); isAl {
					all, why, n := true, "", 0
					for _, r := range core.Refs(al) {
						if st, ok := r.(*ssa.Store); ok && st.Addr == ssa.Value(al) {
							n++
							if ok2, w := ownedN(st.Val, depth, seen); !ok2 {
								all, why = false, w
							}
						}
					}
					return all && n > 0, why
				}
			}
			return false, "a value loaded from " + describeValue(x.X)
		case *ssa.Phi:
			for _, e := range x.Edges {
				if ok, w := ownedN(e, depth, seen); !ok {
					return false, w
				}
			}
			return true, ""
		case *ssa.Parameter:
			fn := x.Parent()
			exported := fn.Parent() == nil && fn.Object() != nil && fn.Object().Exported()
			if exported || depth == 0 {
				return false, "parameter " + x.Name() + " of " + core.FuncName(fn)
			}
			idx := -1
			for i, q := range fn.Params {
				if q == x {
					idx = i
				}
			}
			sites := p.Callers(fn)
			if len(sites) == 0 || idx < 0 {
				return false, "parameter " + x.Name() + " of " + core.FuncName(fn)
			}
			for _, ci := range sites {
				if ps := ci.Parent().Pos(); ps.IsValid() && strings.HasSuffix(p.Fset.Position(ps).Filename, "_test.go") {
					continue
				}
				recv, args := core.CallArgs(ci.Common())
				all := args
				if fn.Signature.Recv() != nil {
					all = append([]ssa.Value{recv}, args...)
				}
				if idx >= len(all) {
					return false, "an argument of " + core.FuncName(ci.Parent())
				}
				if ok, w := ownedN(all[idx], depth-1, seen); !ok {
					return false, w
				}
			}
			return true, ""
		}
		return false, describeValue(v)
	}
	n := 0
	for _, fn := range p.FuncsIn(core.ModPath + "/fw/table") {
		if strings.HasSuffix(p.File(fn.Pos()), "_test.go") {
			continue
		}
		core.Instrs(fn, func(in ssa.Instruction) {
			st, ok := in.(*ssa.Store)
			if !ok {
				return
			}
			fa, ok := st.Addr.(*ssa.FieldAddr)
			if !ok {
				return
			}
			t, f := core.FieldAddrName(fa)
			if t != "RibEntry" || (f != "component" && f != "Name") || core.IsNilConst(core.Strip(st.Val)) {
				return
			}
			n++
			c.Funcs[core.FuncName(fn)] = true
			okO, why := ownedN(st.Val, 3, map[ssa.Value]bool{})
			c.Decide(okO, "R6.12", fmt.Sprintf("rib-keeps-a-private-copy:%s:%s", f, core.FuncName(fn)), c.Pos(in), "the stored "+f+" is a copy (Clone) or taken from a name the RIB already holds", "the RIB keeps the caller's storage as an entry's "+f+" ("+why+"): names decoded from a packet alias its buffer; once that buffer is reused the tree holds another name, rib/unregister cannot find the entry, and the route and its next hop stay for ever")
		})
	}
	c.Floor("R6.12", "stores of a name or component into a RIB entry", n, 2)
}

// c06CaptureAnswerIsCurrent — R6.13. HasCaptureRoute decides where inheritance stops
// (R6.2). Today it walks the entry's routes; if it answers from a stored field of the entry
// instead (a remembered answer), that field has to be rewritten after every store that
// changes the entry's routes or a route's flags — a mutator that skips it (the face-cleanup
// walk, say) leaves a prefix behaving as 'capture' after its capture route is gone.
func c06CaptureAnswerIsCurrent(c *core.Ctx) {
	p := c.P
	hc := p.Func("fw/table", "RibEntry", "HasCaptureRoute")
	if hc == nil {
		c.Und("R6.13", "anchor:HasCaptureRoute", "-", "fw/table.RibEntry.HasCaptureRoute not found")
		return
	}
	inTable := func(g *ssa.Function) bool {
		return g != nil && g.Pkg != nil && g.Pkg.Pkg.Path() == core.ModPath+"/fw/table" && len(g.Blocks) > 0
	}
	// fields of RibEntry the answer is read from (through helpers in the package, depth 3)
	read := map[string]bool{}
	var walkR func(g *ssa.Function, d int, seen map[*ssa.Function]bool)
	walkR = func(g *ssa.Function, d int, seen map[*ssa.Function]bool) {
		if seen[g] || d > 3 {
			return
		}
		seen[g] = true
		core.Instrs(g, func(in ssa.Instruction) {
			if fa, ok := in.(*ssa.FieldAddr); ok {
				if t, f := core.FieldAddrName(fa); t == "RibEntry" {
					read[f] = true
				}
			}
			if ci, ok := in.(ssa.CallInstruction); ok {
				if h := ci.Common().StaticCallee(); inTable(h) {
					walkR(h, d+1, seen)
				}
			}
		})
	}
	walkR(hc, 0, map[*ssa.Function]bool{})
	var cached []string
	for f := range read {
		if f != "routes" {
			cached = append(cached, f)
		}
	}
	sort.Strings(cached)
	if len(cached) == 0 {
		c.Decide(read["routes"], "R6.13", "capture-answer-from-routes", p.Pos(hc.Pos()), "HasCaptureRoute computes its answer from the entry's routes on every call (nothing remembered)", "HasCaptureRoute reads neither the entry's routes nor a field kept current with them: inheritance cannot stop at a capture route")
		return
	}
	// writers of a remembered field, transitively (depth 3)
	writes := func(field string) func(g *ssa.Function) bool {
		memo := map[*ssa.Function]bool{}
		var w func(g *ssa.Function, d int) bool
		w = func(g *ssa.Function, d int) bool {
			if v, ok := memo[g]; ok {
				return v
			}
			memo[g] = false
			if !inTable(g) || d > 3 {
				return false
			}
			found := false
			core.Instrs(g, func(in ssa.Instruction) {
				if found {
					return
				}
				if _, _, ok := storeToField(in, "RibEntry", field); ok {
					found = true
					return
				}
				if ci, ok := in.(ssa.CallInstruction); ok {
					if h := ci.Common().StaticCallee(); h != nil && h != g && w(h, d+1) {
						found = true
					}
				}
			})
			memo[g] = found
			return found
		}
		return func(g *ssa.Function) bool { return w(g, 0) }
	}
	n := 0
	for _, field := range cached {
		wr := writes(field)
		for _, fn := range p.FuncsIn(core.ModPath + "/fw/table") {
			core.Instrs(fn, func(in ssa.Instruction) {
				fa, _, okR := storeToField(in, "RibEntry", "routes")
				fa3, _, okF := storeToField(in, "Route", "Flags")
				if !okR && !okF {
					return
				}
				if okR && isFreshObject(fa.X) {
					return
				}
				if okF {
					if _, fresh := core.Strip(fa3.X).(*ssa.Alloc); fresh {
						return
					}
				}
				what := "routes"
				if okF {
					what = "Flags"
				}
				n++
				fr := core.MustFollowDeep(core.RootOf(fn), core.After(in), func(x ssa.Instruction) bool {
					if _, _, ok := storeToField(x, "RibEntry", field); ok {
						return true
					}
					if ci, ok := x.(ssa.CallInstruction); ok {
						if h := ci.Common().StaticCallee(); h != nil && wr(h) {
							return true
						}
					}
					return false
				}, nil)
				c.Decide(fr.OK, "R6.13", fmt.Sprintf("capture-answer-current:%s:%s:%s", field, core.FuncName(fn), what), c.Pos(in), "the store to "+what+" is followed on all exits by a rewrite of RibEntry."+field+", which HasCaptureRoute answers from", core.FuncName(fn)+" changes an entry's "+what+" and can return without rewriting RibEntry."+field+", the remembered answer HasCaptureRoute gives: a prefix keeps (or never gets) its capture behaviour after the route that decided it changed, so longer prefixes inherit wrongly")
			})
		}
	}
	c.Floor("R6.13", "route stores checked against the remembered capture answer", n, 3)
}
