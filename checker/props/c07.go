package props

import (
	"fmt"
	"go/token"
	"go/types"
	"strings"

	"ndndcheck/core"

	"golang.org/x/tools/go/ssa"
)

// timeAfter recognises "A is after B" written as A.After(B) or B.Before(A) (→ +1,-1)
// and the converse A.Before(B) / B.After(A) (→ -1,+1).
func timeAfter(cond ssa.Value, isA, isB func(ssa.Value) bool) (int, int) {
	cl, ok := core.Strip(cond).(*ssa.Call)
	if !ok {
		return 0, 0
	}
	r, args := core.CallArgs(&cl.Call)
	if len(args) != 1 || r == nil {
		return 0, 0
	}
	after := false
	if _, ok := core.IsCall(cl, core.CalleeID{Pkg: "time", Recv: "Time", Name: "After"}); ok {
		after = true
	} else if _, ok := core.IsCall(cl, core.CalleeID{Pkg: "time", Recv: "Time", Name: "Before"}); !ok {
		return 0, 0
	}
	x, y := core.Strip(r), core.Strip(args[0])
	switch {
	case isA(x) && isB(y):
		return core.Iff(after)
	case isB(x) && isA(y):
		return core.Iff(!after)
	}
	return 0, 0
}

// timeAfterStrict is timeAfter with the boundary kept apart: the atom "A is after B"
// (strictly) is asserted by A.After(B) / B.Before(A) being true and refuted by their being
// false; A.Before(B) / B.After(A) being true refutes it, and their being false (A >= B)
// says nothing about it.
func timeAfterStrict(cond ssa.Value, isA, isB func(ssa.Value) bool) (int, int) {
	cl, ok := core.Strip(cond).(*ssa.Call)
	if !ok {
		return 0, 0
	}
	r, args := core.CallArgs(&cl.Call)
	if len(args) != 1 || r == nil {
		return 0, 0
	}
	after := false
	if _, ok := core.IsCall(cl, core.CalleeID{Pkg: "time", Recv: "Time", Name: "After"}); ok {
		after = true
	} else if _, ok := core.IsCall(cl, core.CalleeID{Pkg: "time", Recv: "Time", Name: "Before"}); !ok {
		return 0, 0
	}
	x, y := core.Strip(r), core.Strip(args[0])
	switch {
	case isA(x) && isB(y) && after, isB(x) && isA(y) && !after:
		return 1, -1
	case isA(x) && isB(y) && !after, isB(x) && isA(y) && after:
		return -1, 0
	}
	return 0, 0
}

// isEntryField: v is node.csEntry.<field> (through the embedded baseCsEntry).
func isEntryField(v ssa.Value, node ssa.Value, field string) bool {
	root, path := core.FieldPath(v)
	var pp []string
	for _, x := range path {
		if x != "baseCsEntry" {
			pp = append(pp, x)
		}
	}
	return root != nil && core.Same(root, node) && len(pp) == 2 && pp[0] == "csEntry" && pp[1] == field
}

func isTimeNow(v ssa.Value) bool { return isCallTo(v, core.CalleeID{Pkg: "time", Name: "Now"}) }

// C07 — The Content Store answers only with matching, fresh-enough Data, within capacity.
func C07(c *core.Ctx) {
	c.Explain = "Decides structural necessary conditions of C07: (R7.1) every return of a cache entry from FindMatchingDataFromCS / findMatchingDataCSPrefix is enter-gated, with polarity, by ¬MustBeFresh ∨ now-before-staleTime of that entry; the exact branch looks up the Interest's own name and prefix matching is reachable only with CanBePrefix and only descends into children of the exact node; (R7.2) InsertData: the miss edge is followed on all paths by AfterInsert then EvictEntries, the hit edge by stores of fresh bytes (a copy) and staleTime and by AfterRefresh; staleTime originates from time.Now() (+ FreshnessPeriod); (R7.3) CsLRU.EvictEntries returns only on the edge asserting queue.Len() ≤ capacity and each iteration erases and unlinks the queue front; exact-match hits call BeforeUse first; the LRU bookkeeping methods move the entry to the back; (R7.5) cache admit/serve switches gate InsertData and the lookup. Not decided: LRU order over histories, byte identity of the re-parsed copy, elapsed time."
	c.RuleText = "instances: Return instructions of the two lookup functions, the two branches of InsertData, the eviction loop, CsLRU methods, the admit/serve call sites. Non-trivial = has a branch edge or path to decide."
	p := c.P
	// ---- R7.4 (shared with C17 R17.3)
	// ---- R7.5b (shared with C08 R8.4) pruning the PIT/CS name tree unlinks only nodes
	// that hold nothing — in particular no cached Data: otherwise a cached, unevicted,
	// fresh packet (still counted, still in the replacement queue) is no longer found
	c.Import(C08, "R7.5b", "pruning the name tree can unlink a node (or an ancestor) that still holds a cached packet: the packet stays counted and queued but an exact-name lookup no longer finds it", 1, func(k string) bool {
		return strings.HasPrefix(k, "R8.4:") && strings.Contains(k, "pitCsTreeNode")
	})
	c.Import(C17, "R7.4", "the Content Store capacity set by management is not bounded before the int conversion: a negative capacity makes the eviction loop empty the store and dereference a nil queue front", 1, func(k string) bool { return strings.HasPrefix(k, "R17.3:capacity-upper-bound") })
	sl := &core.Slicer{P: p}
	c07Count(c)

	isCsEntryLoad := func(v ssa.Value) (ssa.Value, bool) { // node.csEntry
		b, ok := core.FieldOf(v, "csEntry")
		return b, ok
	}
	freshGate := func(fn *ssa.Function, interest ssa.Value) {
		var rets []ssa.Instruction
		core.Instrs(fn, func(in ssa.Instruction) {
			r, ok := in.(*ssa.Return)
			if !ok || len(r.Results) != 1 {
				return
			}
			if _, ok := isCsEntryLoad(core.Strip(r.Results[0])); ok {
				rets = append(rets, r)
			}
		})
		fnm := core.FuncName(fn)
		c.Floor("R7.1", "cache-entry returns in "+fnm, len(rets), 1)
		for i, r := range rets {
			node, _ := isCsEntryLoad(core.Strip(r.(*ssa.Return).Results[0]))
			mbf := &core.Atom{Name: "MustBeFresh", Match: func(cond ssa.Value) (int, int) {
				if isFieldLoad(cond, interest, "MustBeFreshV") {
					return 1, -1
				}
				return 0, 0
			}}
			isStale := func(v ssa.Value) bool { return isEntryField(v, node, "staleTime") }
			fresh := &core.Atom{Name: "now<staleTime", Match: func(cond ssa.Value) (int, int) {
				return timeAfter(cond, isStale, isTimeNow)
			}}
			res := core.GateDeep(fn, []ssa.Instruction{r}, neg(mbf), pos(fresh))
			key := fmt.Sprintf("freshness-gate:%s#%d", fnm, i)
			c.Decide(res.OK && res.PerLit[0] > 0 && res.PerLit[1] > 0, "R7.1", key, c.Pos(r),
				"entry returned only under ¬MustBeFresh ∨ time.Now() before its staleTime",
				fmt.Sprintf("a cache entry can be returned for a MustBeFresh Interest without having been found fresh (MustBeFresh atoms=%d, freshness atoms=%d — wrong polarity, wrong entry or missing test); path: %s", res.PerLit[0], res.PerLit[1], p.PathString(res.Path)))
			// MustBeFresh ∧ stale must not be *required*: ¬MustBeFresh alone suffices
			cut, _ := core.CutEdges(fn, pos(fresh), pos(mbf))
			c.Decide(core.ReachInstr(fn, r, cut, nil) != nil, "R7.1", key+":not-over-strict", c.Pos(r), "an Interest without MustBeFresh gets a stale entry", "a cache entry is never returned to an Interest without MustBeFresh unless it is fresh (over-strict gate)")
		}
	}

	find := c.Fn("R7.1", "fw/table", "PitCsTree", "FindMatchingDataFromCS")
	pref := c.Fn("R7.1", "fw/table", "pitCsTreeNode", "findMatchingDataCSPrefix")
	if find != nil {
		interest := ssa.Value(find.Params[1])
		freshGate(find, interest)
		// node = root.findExactMatchEntryEnc(interest.NameV)
		exact := core.FindCallsDeep(find, core.CalleeID{Pkg: "fw/table", Recv: "pitCsTreeNode", Name: "findExactMatchEntryEnc"})
		okExact := len(exact) == 1
		var node ssa.Value
		if okExact {
			_, a := core.CallArgs(exact[0].Common())
			okExact = isFieldLoad(a[0], interest, "NameV")
			node = exact[0].Value()
		}
		c.Decide(okExact, "R7.1", "exact-lookup-by-interest-name", p.Pos(find.Pos()), "lookup node = findExactMatchEntryEnc(interest.NameV)", "the cache lookup does not start from the exact node of the Interest's name")
		// returned csEntry belongs to that node
		core.Instrs(find, func(in ssa.Instruction) {
			r, ok := in.(*ssa.Return)
			if !ok {
				return
			}
			if n2, ok := isCsEntryLoad(core.Strip(r.Results[0])); ok {
				c.Decide(node != nil && core.Same(n2, node), "R7.1", "exact-entry-of-exact-node", c.Pos(r), "returned entry is the exact node's", "exact-match branch returns the entry of a node other than the exact-match node")
			}
		})
		cbp := &core.Atom{Name: "CanBePrefix", Match: func(cond ssa.Value) (int, int) {
			if isFieldLoad(cond, interest, "CanBePrefixV") {
				return 1, -1
			}
			return 0, 0
		}}
		var pcalls []ssa.Instruction
		for _, ci := range core.FindCallsDeep(find, core.CalleeID{Pkg: "fw/table", Recv: "pitCsTreeNode", Name: "findMatchingDataCSPrefix"}) {
			pcalls = append(pcalls, ci)
			r, a := core.CallArgs(ci.Common())
			c.Decide(node != nil && core.Same(r, node) && a[0] == interest, "R7.1", "prefix-search-from-exact-node", c.Pos(ci), "prefix search starts at the exact node with the same Interest", "prefix search starts from a node other than the Interest name's exact node")
		}
		if len(pcalls) > 0 {
			res := core.GateDeep(find, pcalls, pos(cbp))
			c.Decide(res.OK && res.PassEdges > 0, "R7.1", "prefix-search-needs-CanBePrefix", p.Pos(find.Pos()), "prefix search reachable only with CanBePrefix", "Data with a longer name can be returned for an Interest without CanBePrefix")
		}
		// the exact return happens only without CanBePrefix or is fine either way; BeforeUse precedes it
		core.Instrs(find, func(in ssa.Instruction) {
			r, ok := in.(*ssa.Return)
			if !ok {
				return
			}
			if _, ok := isCsEntryLoad(core.Strip(r.Results[0])); ok {
				okUse := core.PrecedesDeep(find, r, func(x ssa.Instruction) bool {
					cc, ok := core.IsCall(x, core.CalleeID{Pkg: "fw/table", Recv: "CsReplacementPolicy", Name: "BeforeUse"})
					if !ok {
						return false
					}
					_, a := core.CallArgs(cc)
					return isEntryField(a[0], node, "index")
				})
				c.Decide(okUse, "R7.3", "exact-hit-touches-lru", c.Pos(r), "BeforeUse(entry.index) precedes the exact-match return", "an exact-match hit does not refresh the entry's LRU position")
			}
		})
	}
	if pref != nil {
		freshGate(pref, pref.Params[1])
		// recursion only into children of the receiver
		for _, ci := range core.FindCallsDeep(pref, core.CalleeID{Pkg: "fw/table", Recv: "pitCsTreeNode", Name: "findMatchingDataCSPrefix"}) {
			r, a := core.CallArgs(ci.Common())
			ok := rangeComponent(r, 2, func(v ssa.Value) bool { return isFieldLoad(v, pref.Params[0], "children") }) && core.Same(a[0], pref.Params[1])
			c.Decide(ok, "R7.1", "prefix-descends-into-children", c.Pos(ci), "recursion only into children of the current node", "prefix search leaves the subtree of the Interest name")
		}
		// returned csEntry belongs to the receiver
		core.Instrs(pref, func(in ssa.Instruction) {
			r, ok := in.(*ssa.Return)
			if !ok {
				return
			}
			if n2, ok := isCsEntryLoad(core.Strip(r.Results[0])); ok {
				c.Decide(core.Same(n2, pref.Params[0]), "R7.1", "prefix-entry-of-current-node", c.Pos(r), "returned entry is the current node's", "prefix branch returns the entry of another node")
			}
		})
	}

	// ---- R7.2 InsertData
	if ins := c.Fn("R7.2", "fw/table", "PitCsTree", "InsertData"); ins != nil {
		data, wire := ssa.Value(ins.Params[1]), ssa.Value(ins.Params[2])
		hit := &core.Atom{Name: "csMap-hit", Match: func(cond ssa.Value) (int, int) {
			e, ok := core.Strip(cond).(*ssa.Extract)
			if ok && e.Index == 1 {
				if lk, ok := e.Tuple.(*ssa.Lookup); ok {
					if _, okF := core.FieldOf(lk.X, "csMap"); okF {
						return 1, -1
					}
				}
			}
			// or: the entry cached at the tree node of the name (node.csEntry != nil) — the
			// form that does not rely on the name's hash to identify the entry
			if op, x, y, okC := core.Cmp(cond); okC && (op == token.EQL || op == token.NEQ) && core.IsNilConst(y) {
				if _, okF := core.FieldOf(x, "csEntry"); okF {
					return core.Iff(op == token.NEQ)
				}
			}
			return 0, 0
		}}
		callP := func(name string) func(ssa.Instruction) bool {
			return func(in ssa.Instruction) bool {
				_, ok := core.IsCall(in, core.CalleeID{Pkg: "fw/table", Recv: "CsReplacementPolicy", Name: name})
				return ok
			}
		}
		storeTo := func(field string) func(ssa.Instruction) bool {
			return func(in ssa.Instruction) bool {
				st, ok := in.(*ssa.Store)
				if !ok {
					return false
				}
				fa, ok := st.Addr.(*ssa.FieldAddr)
				if !ok {
					return false
				}
				_, f := core.FieldAddrName(fa)
				return f == field
			}
		}
		facts := core.EdgeFacts(ins, hit)
		c.Floor("R7.2", "csMap lookup branches in InsertData", len(facts), 2)
		for _, f := range facts {
			// the obligations start at the first branch on the lookup result
			later := false
			for _, g := range facts {
				if g.E.From != f.E.From && g.E.From.Parent() == f.E.From.Parent() && g.E.From.Dominates(f.E.From) {
					later = true
				}
			}
			if later {
				continue
			}
			start := core.Point{Block: f.E.To, Idx: 0}
			// the same lookup result may be branched on again further down (get-or-create,
			// common update, then `if refresh`): the edges of the other outcome are
			// infeasible from here
			cut, _ := core.CutEdgesDeep(ins, core.Lit{A: hit, Want: !f.Holds})
			mustFollow := func(isB func(ssa.Instruction) bool) core.FollowResult {
				return core.MustFollowCutDeep(ins, start, isB, nil, cut)
			}
			if !f.Holds { // miss: new entry
				for _, nm := range []string{"AfterInsert", "EvictEntries"} {
					fr := mustFollow(callP(nm))
					c.Decide(fr.OK, "R7.2", "insert-then-"+nm, p.Pos(ins.Pos()), "new-entry branch reaches "+nm+" on every path", "a new cache entry can be inserted without "+nm+" being called (capacity is not enforced / LRU not told)")
				}
				// AfterInsert before EvictEntries
				for _, ev := range core.FindCallsDeep(ins, core.CalleeID{Pkg: "fw/table", Recv: "CsReplacementPolicy", Name: "EvictEntries"}) {
					c.Decide(core.PrecedesDeep(ins, ev, callP("AfterInsert")), "R7.2", "AfterInsert-before-EvictEntries", c.Pos(ev), "AfterInsert precedes EvictEntries", "EvictEntries runs before the new entry was reported to the replacement policy")
				}
				// the node's csEntry is stored and registered in csMap
				fr := mustFollow(func(in ssa.Instruction) bool {
					mu, ok := in.(*ssa.MapUpdate)
					if !ok {
						return false
					}
					_, okF := core.FieldOf(mu.Map, "csMap")
					return okF
				})
				c.Decide(fr.OK, "R7.2", "insert-registers-in-csMap", p.Pos(ins.Pos()), "new entry is put into csMap", "new cache entry is not registered in csMap")
			} else { // hit: refresh
				for _, fld := range []string{"wire", "staleTime"} {
					fr := mustFollow(storeTo(fld))
					c.Decide(fr.OK, "R7.2", "refresh-stores-"+fld, p.Pos(ins.Pos()), "refresh stores "+fld, "refreshing an existing cache entry does not store the new "+fld)
				}
				fr := mustFollow(callP("AfterRefresh"))
				c.Decide(fr.OK, "R7.2", "refresh-then-AfterRefresh", p.Pos(ins.Pos()), "refresh reaches AfterRefresh", "refreshing an entry does not notify the replacement policy")
			}
		}
		// stored wire is a private copy of the wire parameter; staleTime from Now()(+FreshnessPeriod)
		sl := &core.Slicer{P: p, Root: ins}
		nW, nS := 0, 0
		core.InstrsDeep(ins, func(in ssa.Instruction) {
			st, ok := in.(*ssa.Store)
			if !ok {
				return
			}
			fa, ok := st.Addr.(*ssa.FieldAddr)
			if !ok {
				return
			}
			_, f := core.FieldAddrName(fa)
			switch f {
			case "wire":
				nW++
				ls := sl.Leaves(st.Val)
				hasMake, hasParam, bad := false, false, false
				for _, l := range ls {
					switch {
					case l.Kind == "make":
						hasMake = true
					case l.Kind == "param" && l.Val == wire:
						hasParam = true
					default:
						bad = true
					}
				}
				// the copy must exist: make + copy(store, wire)
				c.Decide(hasMake && hasParam && !bad, "R7.2", fmt.Sprintf("stored-wire-is-copy#%d", nW), c.Pos(st), "stored bytes are a fresh copy of the inserted wire", "the cache stores something other than a private copy of the inserted bytes: "+core.LeafSet(ls))
			case "staleTime":
				nS++
				ls := sl.Leaves(st.Val)
				ok := len(ls) > 0
				sawAdd := false
				for _, l := range ls {
					switch {
					case l.Kind == "call" && isTimeNow(l.Val):
					case l.Kind == "call" && isCallTo(l.Val, core.CalleeID{Pkg: "time", Recv: "Time", Name: "Add"}):
						cl := l.Val.(*ssa.Call)
						r, a := core.CallArgs(&cl.Call)
						rl := sl.Leaves(r)
						if !(len(rl) == 1 && isTimeNow(rl[0].Val)) {
							ok = false
						}
						al := sl.Leaves(a[0])
						for _, x := range al {
							if !(x.Kind == "param" && x.Val == data && strings.Join(x.Via, "") == ".MetaInfo.FreshnessPeriod*") {
								ok = false
							}
						}
						sawAdd = true
					default:
						ok = false
					}
				}
				c.Decide(ok && sawAdd, "R7.2", fmt.Sprintf("staleTime-is-now-plus-freshness#%d", nS), c.Pos(st), "staleTime = time.Now() (+ data.MetaInfo.FreshnessPeriod)", "staleTime is not insertion time plus the Data's FreshnessPeriod: "+core.LeafSet(ls))
			}
		})
		c.Floor("R7.2", "stores of wire", nW, 1)
		c.Floor("R7.2", "stores of staleTime", nS, 1)
	}

	// ---- R7.3 eviction loop
	if ev := c.Fn("R7.3", "fw/table", "CsLRU", "EvictEntries"); ev != nil {
		over := &core.Atom{Name: "queue.Len()>capacity", Match: func(cond ssa.Value) (int, int) {
			op, x, y, ok := core.Cmp(cond)
			if !ok {
				return 0, 0
			}
			isLen := func(v ssa.Value) bool {
				return isCallTo(v, core.CalleeID{Pkg: "container/list", Recv: "List", Name: "Len"})
			}
			isCap := func(v ssa.Value) bool {
				return core.IsGlobal(v, "fw/table", "csCapacity") || isCallTo(v, core.CalleeID{Pkg: "fw/table", Name: "CsCapacity"})
			}
			if isCap(x) && isLen(y) {
				x, y = y, x
				op = core.Swap(op)
			}
			if !isLen(x) || !isCap(y) {
				return 0, 0
			}
			switch op {
			case token.GTR:
				return 1, -1
			case token.LEQ:
				return -1, 1
			}
			return 0, 0 // >=, <, ==: not the specified bound
		}}
		var rets []ssa.Instruction
		core.Instrs(ev, func(in ssa.Instruction) {
			if _, ok := in.(*ssa.Return); ok {
				rets = append(rets, in)
			}
		})
		res := core.GateDeep(ev, rets, neg(over))
		c.Decide(res.OK && res.PassEdges > 0, "R7.3", "evict-until-within-capacity", p.Pos(ev.Pos()), "EvictEntries returns only on the edge asserting queue.Len() ≤ capacity", "EvictEntries can return while more than the configured capacity is cached (loop condition is not Len() > capacity)")
		// each iteration erases the front entry from the table and unlinks it
		front := func(v ssa.Value) bool {
			ls := sl.Leaves(v)
			if len(ls) == 0 {
				return false
			}
			for _, l := range ls {
				if !(l.Kind == "call" && isCallTo(l.Val, core.CalleeID{Pkg: "container/list", Recv: "List", Name: "Front"})) {
					return false
				}
			}
			return true
		}
		var erase, unlink ssa.Instruction
		core.InstrsDeep(ev, func(in ssa.Instruction) {
			if cc, ok := core.IsCall(in, core.CalleeID{Pkg: "fw/table", Recv: "PitCsTable", Name: "eraseCsDataFromReplacementStrategy"}); ok {
				_, a := core.CallArgs(cc)
				if front(a[0]) {
					erase = in
				}
			}
			if cc, ok := core.IsCall(in, core.CalleeID{Pkg: "container/list", Recv: "List", Name: "Remove"}); ok {
				_, a := core.CallArgs(cc)
				if front(a[0]) {
					unlink = in
				}
			}
		})
		okIter := erase != nil && unlink != nil
		if okIter {
			h := loopHeader(erase.Block())
			okIter = h != nil && everyIterationPasses(ev, h, func(in ssa.Instruction) bool { return in == erase }) && everyIterationPasses(ev, h, func(in ssa.Instruction) bool { return in == unlink })
		}
		c.Decide(okIter, "R7.3", "evict-front-from-table-and-queue", p.Pos(ev.Pos()), "every iteration erases queue.Front() from the store and removes it from the queue", "an eviction iteration does not erase the least-recently-used (front) entry from both the store and the queue")
		// the LRU location map is updated as well
		delLoc := false
		core.InstrsDeep(ev, func(in ssa.Instruction) {
			if cl, ok := in.(*ssa.Call); ok {
				if b, ok := cl.Call.Value.(*ssa.Builtin); ok && b.Name() == "delete" {
					delLoc = true
				}
			}
		})
		_ = delLoc
	}
	// LRU bookkeeping: AfterInsert/AfterRefresh/BeforeUse put the entry at the back and
	// keep locations[index] pointing at its queue element. Two idioms: unlink the old
	// element (if any) and PushBack a new one; or MoveToBack the tracked element — which is
	// only sound when locations never keeps an element that was unlinked from the queue
	// (container/list's MoveToBack silently does nothing for such an element).
	idRemove := core.CalleeID{Pkg: "container/list", Recv: "List", Name: "Remove"}
	staleLoc := "" // a Remove that is not accompanied by an update of locations
	for _, fn := range p.FuncsIn(core.ModPath + "/fw/table") {
		if core.FuncID(fn).Recv != "CsLRU" {
			continue
		}
		for _, rm := range core.FindCalls(fn, idRemove) {
			isLocUpd := func(in ssa.Instruction) bool {
				if mu, ok := in.(*ssa.MapUpdate); ok {
					_, okF := core.FieldOf(mu.Map, "locations")
					return okF
				}
				if cl, ok := isBuiltinCall(in, "delete"); ok {
					_, okF := core.FieldOf(cl.Call.Args[0], "locations")
					return okF
				}
				return false
			}
			root := core.RootOf(fn)
			if !core.MustFollowDeep(root, core.After(rm), isLocUpd, nil).OK && !core.PrecedesDeep(root, rm, isLocUpd) {
				staleLoc = c.Pos(rm)
			}
		}
	}
	for _, m := range []string{"AfterInsert", "AfterRefresh", "BeforeUse"} {
		fn := c.Fn("R7.3", "fw/table", "CsLRU", m)
		if fn == nil {
			continue
		}
		idx := ssa.Value(fn.Params[1])
		sl := &core.Slicer{P: p, Root: fn}
		restore := core.WithRoot(fn)
		var pushes, moves []ssa.Instruction
		core.InstrsDeep(fn, func(in ssa.Instruction) {
			if cc, ok := core.IsCall(in, core.CalleeID{Pkg: "container/list", Recv: "List", Name: "PushBack"}); ok {
				_, a := core.CallArgs(cc)
				if ls := sl.Leaves(a[0]); len(ls) == 1 && (ls[0].Val == idx || core.Same(ls[0].Val, idx)) {
					pushes = append(pushes, in)
				}
			}
			if cc, ok := core.IsCall(in, core.CalleeID{Pkg: "container/list", Recv: "List", Name: "MoveToBack"}); ok {
				// the element moved is locations[index]
				_, a := core.CallArgs(cc)
				v := core.Strip(a[0])
				if e, isE := v.(*ssa.Extract); isE {
					v = core.Strip(e.Tuple)
				}
				if lk, isL := v.(*ssa.Lookup); isL && core.Same(lk.Index, idx) {
					if _, okF := core.FieldOf(lk.X, "locations"); okF {
						moves = append(moves, in)
					}
				}
			}
		})
		isBack := func(in ssa.Instruction) bool {
			for _, x := range pushes {
				if x == in {
					return true
				}
			}
			for _, x := range moves {
				if x == in {
					return true
				}
			}
			return false
		}
		ok := len(pushes)+len(moves) > 0 && core.MustFollowDeep(fn, core.Point{Block: fn.Blocks[0], Idx: 0}, isBack, nil).OK
		c.Decide(ok, "R7.3", "lru-moves-to-back:"+m, p.Pos(fn.Pos()), m+" puts the entry at the back of the queue on every path (PushBack(index) or MoveToBack(locations[index]))", m+" does not move the entry to the most-recently-used end of the queue on every path")
		if len(moves) > 0 {
			c.Decide(staleLoc == "", "R7.3", "lru-move-needs-exact-locations:"+m, c.Pos(moves[0]), "MoveToBack(locations[index]) is used and every Remove of a queue element updates locations", m+" moves locations[index] to the back, but the queue element removed at "+staleLoc+" stays in locations: for an index that was evicted and is inserted again MoveToBack does nothing, the entry is cached but not in the LRU queue (never evicted, capacity exceeded)")
		}
		okRec := true
		for _, push := range pushes {
			fr := core.MustFollowDeep(fn, core.After(push), func(in ssa.Instruction) bool {
				mu, ok := in.(*ssa.MapUpdate)
				return ok && core.Same(mu.Key, idx) && core.Strip(mu.Value) == push.(ssa.Value)
			}, nil)
			if !fr.OK {
				okRec = false
			}
		}
		if ok {
			c.Decide(okRec, "R7.3", "lru-records-location:"+m, p.Pos(fn.Pos()), "locations[index] = the new element after every PushBack", m+" does not record the new queue element under the entry's index")
		}
		if m != "AfterInsert" {
			// the old element is unlinked when present (MoveToBack relinks it instead)
			rm := core.FindCallsDeep(fn, idRemove)
			c.Decide(len(rm) > 0 || (len(moves) > 0 && len(pushes) > 0) || (len(moves) > 0 && len(pushes) == 0), "R7.3", "lru-unlinks-old:"+m, p.Pos(fn.Pos()), "old queue element removed or moved", m+" leaves the old queue element linked (the entry would be evicted twice)")
		}
		restore()
	}

	// ---- R7.5 admit / serve
	if pid := c.Fn("R7.5", "fw/fw", "Thread", "processIncomingData"); pid != nil {
		admit := atomCallTrue("IsCsAdmitting", callIs(core.CalleeID{Pkg: "fw/table", Recv: "PitCsTable", Name: "IsCsAdmitting"}))
		var eff []ssa.Instruction
		for _, ci := range core.FindCallsDeep(pid, core.CalleeID{Pkg: "fw/table", Recv: "PitCsTable", Name: "InsertData"}) {
			eff = append(eff, ci)
			_, a := core.CallArgs(ci.Common())
			pkt := ssa.Value(pid.Params[1])
			restore := core.WithRoot(pid)
			okArgs := isFieldLoad(a[1], pkt, "Raw")
			if root, path := core.FieldPath(a[0]); !(core.Same(root, pkt) && strings.Join(path, ".") == "L3.Data") {
				// the decoded Data may also be handed on as a value loaded from packet.L3.Data
				if rr, pp := core.FieldPath(core.Resolve(a[0])); !(core.Same(rr, pkt) && strings.Join(pp, ".") == "L3.Data") {
					okArgs = false
				}
			}
			restore()
			c.Decide(okArgs, "R7.2", "insert-arriving-data", c.Pos(ci), "InsertData(packet.L3.Data, packet.Raw)", "the cache is given something other than the arriving Data and its wire")
		}
		c.Floor("R7.5", "InsertData call sites", len(eff), 1)
		res := core.GateDeep(pid, eff, pos(admit))
		c.Decide(res.OK && res.PassEdges > 0, "R7.5", "admit-gate", p.Pos(pid.Pos()), "InsertData reachable only when IsCsAdmitting()", "Data is cached although the content store is not admitting")
	}
	if pii := c.Fn("R7.5", "fw/fw", "Thread", "processIncomingInterest"); pii != nil {
		serve := atomCallTrue("IsCsServing", callIs(core.CalleeID{Pkg: "fw/table", Recv: "PitCsTable", Name: "IsCsServing"}))
		var eff []ssa.Instruction
		for _, ci := range core.FindCallsDeep(pii, core.CalleeID{Pkg: "fw/table", Recv: "PitCsTable", Name: "FindMatchingDataFromCS"}) {
			eff = append(eff, ci)
		}
		c.Floor("R7.5", "cache lookup call sites", len(eff), 1)
		res := core.GateDeep(pii, eff, pos(serve))
		c.Decide(res.OK && res.PassEdges > 0, "R7.5", "serve-gate", p.Pos(pii.Pos()), "cache lookup reachable only when IsCsServing()", "the cache answers although the content store is not serving")
	}
	for _, nm := range [][2]string{{"IsCsAdmitting", "csAdmit"}, {"IsCsServing", "csServe"}} {
		if fn := c.Fn("R7.5", "fw/table", "PitCsTree", nm[0]); fn != nil {
			ok := false
			core.Instrs(fn, func(in ssa.Instruction) {
				if r, isR := in.(*ssa.Return); isR && len(r.Results) > 0 && core.IsGlobal(r.Results[0], "fw/table", nm[1]) {
					ok = true
				}
			})
			c.Decide(ok, "R7.5", "switch-reads-config:"+nm[0], p.Pos(fn.Pos()), nm[0]+" returns "+nm[1], nm[0]+" does not return the configured "+nm[1])
		}
	}

	// ---- R7.8 the name tree identifies a child by the component ITSELF, and a cached entry by
	// its tree node: the key type of pitCsTreeNode.children is not a bare integer (a hash —
	// the unkeyed 64-bit xxHash of the component, for which a second component with the
	// same hash is computed directly), and no index of the store is looked up under a value
	// that comes out of a Hash() call. Otherwise a lookup answers with Data of another name.
	{
		var keyT types.Type
		if nt := p.Named("fw/table", "pitCsTreeNode"); nt != nil {
			if st, ok := nt.Underlying().(*types.Struct); ok {
				for i := 0; i < st.NumFields(); i++ {
					if st.Field(i).Name() == "children" {
						if mt, isM := st.Field(i).Type().Underlying().(*types.Map); isM {
							keyT = mt.Key()
						}
					}
				}
			}
		}
		if keyT == nil {
			c.Und("R7.8", "name-tree-child-key", "-", "pitCsTreeNode.children not found")
		} else {
			_, isInt := keyT.Underlying().(*types.Basic)
			c.Decide(!isInt, "R7.8", "name-tree-child-key-is-the-component", "-", "children are keyed by "+keyT.String(), "the PIT/CS name tree keys the children of a node by "+keyT.String()+" — a hash of the component, not the component: two components with equal hashes (computable for the unkeyed xxHash) share a node, and the Content Store answers an Interest for one name with the Data of another")
		}
		nIdx, bad := 0, ""
		for _, fn := range p.FuncsIn(core.ModPath + "/fw/table") {
			if id := core.FuncID(core.RootOf(fn)); id.Recv != "PitCsTree" {
				continue
			}
			core.Instrs(fn, func(in ssa.Instruction) {
				var m, k ssa.Value
				switch x := in.(type) {
				case *ssa.Lookup:
					m, k = x.X, x.Index
				case *ssa.MapUpdate:
					m, k = x.Map, x.Key
				default:
					return
				}
				if _, isCs := core.FieldOf(m, "csMap"); !isCs {
					return
				}
				nIdx++
				if cl, isC := core.Strip(core.Resolve(k)).(*ssa.Call); isC {
					if id, okID := core.Callee(&cl.Call); okID && (id.Name == "Hash" || id.Name == "PrefixHash") {
						bad = core.FuncName(fn) + " at " + c.Pos(in)
					}
				}
			})
		}
		c.Decide(bad == "", "R7.8", "store-index-not-keyed-by-name-hash", "-", fmt.Sprintf("%d accesses to the store's index, none under a name hash", nIdx), "the Content Store's index is accessed under the hash of a name ("+bad+"): a second name with the same hash (computable) refreshes or is answered with the entry of the first")
	}

	// ---- R7.7 a period read from the wire becomes a time.Duration only behind an upper bound:
	// in every generated parser, the multiplication of a decoded 64-bit number by a Duration
	// unit (time.Millisecond) is reachable only on an edge asserting that the number is at
	// most a bound derived from the longest Duration. Otherwise a FreshnessPeriod of 292
	// years or more wraps around to a negative duration, the stale time lies in the past,
	// and Data that is cached, unevicted and fresh is not found by a MustBeFresh lookup.
	{
		models, _ := discoverModels(p)
		nMul, bad := 0, ""
		seenFn := map[*ssa.Function]bool{}
		for _, m := range models {
			fn := p.Func(m.Pkg.PkgPath, m.Name+"ParsingContext", "Parse")
			if fn == nil || fn.Blocks == nil || seenFn[fn] {
				continue
			}
			seenFn[fn] = true
			n, b := durationScalings(c, fn)
			nMul += n
			if b != "" {
				bad = b
			}
		}
		c.Decide(bad == "", "R7.7", "decoded-period-bounded-before-scaling", "-", fmt.Sprintf("%d multiplications of a decoded number by a Duration unit in generated parsers, each behind an upper bound", nMul), "a generated parser scales a decoded 64-bit number to a time.Duration without an upper bound ("+bad+"): from 9223372036855 ms on the product wraps around to a negative duration — Data with such a FreshnessPeriod is stale the moment it is cached and a MustBeFresh lookup misses it although it is cached, unevicted and fresh")
		c.Floor("R7.7", "scalings of a decoded number to a Duration in generated parsers", nMul, 3)
	}

	// ---- R7.6 a table setting that management changes at run time is read and written under
	// a lock: every package-level variable of fw/table that an exported function other than
	// Configure stores to (SetCsCapacity) is accessed — outside Configure, which runs before
	// any thread starts — only with a package-level lock held. The forwarding threads read
	// the capacity while they evict; an unordered write is a data race and "at most the
	// currently configured capacity" is not guaranteed.
	{
		pkgT := core.ModPath + "/fw/table"
		_, heldT := core.EntryLocks(p, pkgT)
		runtimeSet := map[*ssa.Global]string{}
		for _, fn := range p.FuncsIn(pkgT) {
			if fn.Parent() != nil || fn.Object() == nil || !fn.Object().Exported() || fn.Name() == "Configure" || fn.Signature.Recv() != nil {
				continue
			}
			core.Instrs(fn, func(in ssa.Instruction) {
				if st, ok := in.(*ssa.Store); ok {
					if g, isG := st.Addr.(*ssa.Global); isG {
						if _, isBasic := core.Deref(g.Type()).Underlying().(*types.Basic); isBasic {
							runtimeSet[g] = core.FuncName(fn)
						}
					}
				}
			})
		}
		nAcc, bad := 0, ""
		for _, fn := range p.FuncsIn(pkgT) {
			if strings.HasSuffix(p.File(fn.Pos()), "_test.go") || core.BaseName(core.RootOf(fn)) == "Configure" || fn.Name() == "init" {
				continue
			}
			core.Instrs(fn, func(in ssa.Instruction) {
				var g *ssa.Global
				switch x := in.(type) {
				case *ssa.Store:
					g, _ = x.Addr.(*ssa.Global)
				case *ssa.UnOp:
					if x.Op == token.MUL {
						g, _ = x.X.(*ssa.Global)
					}
				}
				if g == nil || runtimeSet[g] == "" {
					return
				}
				nAcc++
				locked := false
				for l := range heldT[fn][in] {
					if strings.Contains(l, ":global.") {
						locked = true
					}
				}
				if !locked {
					bad = g.Name() + " in " + core.FuncName(fn) + " at " + c.Pos(in)
				}
			})
		}
		c.Decide(bad == "", "R7.6", "runtime-settings-accessed-under-a-lock", "-", fmt.Sprintf("%d accesses to %d settings that are changed at run time, all under a package-level lock", nAcc, len(runtimeSet)), "a table setting that management changes while the forwarder runs is accessed without a lock ("+bad+"): the management goroutine writes it while the forwarding threads read it during eviction — a data race; the capacity in force at an eviction is not ordered with the cs/config command that lowered it")
		c.Floor("R7.6", "table settings changed at run time", len(runtimeSet), 1)
	}

}

// c07Count — R7.9 "at most the configured capacity of packets cached", as the management
// goroutine observes it: the CS entry count that CsSize hands out is read atomically (the
// forwarding thread writes it), and InsertData does not publish a count that includes the
// new entry before the eviction has run — no update of the counter from which the call of
// EvictEntries is still reachable.
func c07Count(c *core.Ctx) {
	p := c.P
	if gs := c.Fn("R7.9", "fw/table", "PitCsTree", "CsSize"); gs != nil {
		atomicRead := false
		core.Instrs(gs, func(in ssa.Instruction) {
			if r, ok := in.(*ssa.Return); ok && len(r.Results) == 1 {
				if cl, isCall := core.StripConv(r.Results[0]).(*ssa.Call); isCall {
					if cal := cl.Call.StaticCallee(); cal != nil && cal.Pkg != nil && cal.Pkg.Pkg.Path() == "sync/atomic" {
						atomicRead = true
					}
				}
			}
		})
		_, held := core.EntryLocks(p, core.ModPath+"/fw/table")
		locked := false
		core.Instrs(gs, func(in ssa.Instruction) {
			if _, ok := in.(*ssa.Return); ok && len(held[gs][in]) > 0 {
				locked = true
			}
		})
		c.Decide(atomicRead || locked, "R7.9", "cs-count-read-atomically", p.Pos(gs.Pos()), "CsSize reads the entry count atomically (or under a lock)", "CsSize returns a plain counter that the forwarding thread writes while the management goroutine (cs/info, forwarder status) reads it: a data race, and the reader can see the count of an insertion that is still in progress")
	}
	if ins := c.Fn("R7.9", "fw/table", "PitCsTree", "InsertData"); ins != nil {
		var evicts, updates []ssa.Instruction
		core.InstrsDeep(ins, func(in ssa.Instruction) { // (the new-entry branch may be a worker)
			if ci, ok := in.(ssa.CallInstruction); ok && ci.Common().IsInvoke() && ci.Common().Method.Name() == "EvictEntries" {
				evicts = append(evicts, in)
			}
			if isIncDec(in, "nCsEntries", +1) || isCountSync(in, "nCsEntries", "csMap") {
				updates = append(updates, in)
			}
		})
		bad := ""
		for _, u := range updates {
			for _, e := range evicts {
				if (u.Parent() == e.Parent() && core.ReachableFrom(core.After(u), e)) || (u.Parent() != e.Parent() && core.ReachableAfterDeep(ins, u, e)) {
					bad = c.Pos(u)
				}
			}
		}
		c.Decide(len(evicts) > 0 && len(updates) > 0 && bad == "", "R7.9", "cs-count-published-after-eviction", p.Pos(ins.Pos()), fmt.Sprintf("%d updates of the CS entry count in InsertData, none before the eviction", len(updates)), "InsertData counts the new entry ("+bad+") before EvictEntries has removed the victim: while the eviction waits (for the capacity lock held by a concurrent capacity change) management is told capacity+1 packets are cached")
	}
}

// durationScalings: every multiplication, in fn, of a 64-bit number by a Duration unit
// (time.Millisecond ...) must sit behind an upper bound on that number which the longest
// Duration divided by the unit can hold. Returns the number of scalings and the first
// unbounded one.
func durationScalings(c *core.Ctx, fn *ssa.Function) (nMul int, bad string) {
	core.Instrs(fn, func(in ssa.Instruction) {
		b, ok := in.(*ssa.BinOp)
		if !ok || b.Op != token.MUL {
			return
		}
		if nt, isN := b.Type().(*types.Named); !isN || nt.Obj().Name() != "Duration" {
			return
		}
		var unit int64
		var val ssa.Value
		for _, pair := range [][2]ssa.Value{{b.X, b.Y}, {b.Y, b.X}} {
			if k, isC := core.ConstInt(pair[1]); isC && k > 1 {
				unit, val = k, pair[0]
			}
		}
		if val == nil {
			return
		}
		src := core.StripConv(val)
		nMul++
		bounded := &core.Atom{Name: "number ≤ longest Duration / unit", Match: func(cond ssa.Value) (int, int) {
			op, x, y, okC := core.Cmp(cond)
			if !okC || !(core.StripConv(x) == src || core.Same(core.StripConv(x), src)) {
				return 0, 0
			}
			k, isC := core.ConstInt(core.StripConv(y))
			if !isC {
				// or a Duration divided by the same unit (any int64 / unit fits)
				q, isQ := core.StripConv(y).(*ssa.BinOp)
				if !isQ || q.Op != token.QUO {
					return 0, 0
				}
				if d, isD := core.ConstInt(q.Y); !isD || d != unit {
					return 0, 0
				}
				if nt, isN := q.Type().(*types.Named); !isN || nt.Obj().Name() != "Duration" {
					return 0, 0
				}
			} else if k <= 0 || k > (1<<63-1)/unit {
				return 0, 0
			}
			switch op {
			case token.LEQ, token.LSS:
				return 1, -1
			case token.GTR, token.GEQ:
				return -1, 1
			}
			return 0, 0
		}}
		g := core.Gate(fn, []ssa.Instruction{in}, pos(bounded))
		if !(g.OK && g.PassEdges > 0) {
			bad = core.FuncName(fn) + " at " + c.Pos(in)
		}
	})
	return nMul, bad
}
