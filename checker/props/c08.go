package props

import (
	"fmt"
	"go/token"
	"go/types"
	"strings"

	"ndndcheck/core"

	"golang.org/x/tools/go/ssa"
)

// storeToField reports whether in is a store to a field named field (of struct typ, ""
// for any) and returns the FieldAddr and stored value.
func storeToField(in ssa.Instruction, typ, field string) (*ssa.FieldAddr, ssa.Value, bool) {
	st, ok := in.(*ssa.Store)
	if !ok {
		return nil, nil, false
	}
	fa, ok := st.Addr.(*ssa.FieldAddr)
	if !ok {
		return nil, nil, false
	}
	t, f := core.FieldAddrName(fa)
	if f != field || (typ != "" && t != typ) {
		return nil, nil, false
	}
	return fa, st.Val, true
}

// isIncDec: in stores X.field = X.field ± 1 (delta +1 or -1).
func isIncDec(in ssa.Instruction, field string, delta int) bool {
	// the atomic form: x.field.Add(±1) on a sync/atomic integer
	if cl, isCall := in.(*ssa.Call); isCall {
		if g := cl.Call.StaticCallee(); g != nil && g.Name() == "Add" && g.Pkg != nil && g.Pkg.Pkg.Path() == "sync/atomic" && len(cl.Call.Args) == 2 {
			if fa, isFA := core.Strip(cl.Call.Args[0]).(*ssa.FieldAddr); isFA {
				if _, f := core.FieldAddrName(fa); f == field {
					if k, isK := core.ConstInt(cl.Call.Args[1]); isK && ((delta > 0 && k == 1) || (delta < 0 && k == -1)) {
						return true
					}
				}
			}
		}
	}
	fa, v, ok := storeToField(in, "", field)
	if !ok {
		return false
	}
	b, ok := core.StripConv(v).(*ssa.BinOp)
	if !ok {
		return false
	}
	k, isC := core.ConstInt(b.Y)
	if !isC || k != 1 {
		return false
	}
	if (delta > 0 && b.Op != token.ADD) || (delta < 0 && b.Op != token.SUB) {
		return false
	}
	base, ok := core.FieldOf(b.X, field)
	return ok && core.Same(base, fa.X)
}

func isBuiltinCall(in ssa.Instruction, name string) (*ssa.Call, bool) {
	cl, ok := in.(*ssa.Call)
	if !ok {
		return nil, false
	}
	b, ok := cl.Call.Value.(*ssa.Builtin)
	if !ok || b.Name() != name {
		return nil, false
	}
	return cl, true
}

// isMapOp: delete(X.field, …) or X.field[k] = v.
func isMapDelete(in ssa.Instruction, field string) bool {
	cl, ok := isBuiltinCall(in, "delete")
	if !ok {
		return false
	}
	_, ok = core.FieldOf(cl.Call.Args[0], field)
	return ok
}

func isMapInsert(in ssa.Instruction, field string) bool {
	mu, ok := in.(*ssa.MapUpdate)
	if !ok {
		return false
	}
	_, ok = core.FieldOf(mu.Map, field)
	return ok
}

// isCountSync: in publishes the size of a container as the counter: x.counter = len(x.container)
// or x.counter.Store(int64(len(x.container))) for an atomic counter.
func isCountSync(in ssa.Instruction, counter, container string) bool {
	var val ssa.Value
	if _, v, ok := storeToField(in, "", counter); ok {
		val = v
	} else if cl, ok := in.(*ssa.Call); ok && len(cl.Call.Args) == 2 {
		cal := cl.Call.StaticCallee()
		if cal == nil || cal.Name() != "Store" {
			return false
		}
		fa, isFA := core.Strip(cl.Call.Args[0]).(*ssa.FieldAddr)
		if !isFA {
			return false
		}
		if _, fname := core.FieldAddrName(fa); fname != counter {
			return false
		}
		val = cl.Call.Args[1]
	}
	if val == nil {
		return false
	}
	l, ok := core.LenOf(core.StripConv(val))
	if !ok {
		return false
	}
	_, ok = core.FieldOf(l, container)
	return ok
}

// coOccur: from the anchor instruction every path to exit executes B, or B precedes the
// anchor on every path (same straight-line region).
func coOccur(fn *ssa.Function, anchor ssa.Instruction, isB func(ssa.Instruction) bool) bool {
	if core.MustFollowDeep(fn, core.After(anchor), isB, nil).OK {
		return true
	}
	// B before the anchor, with the anchor following B on all paths
	var bs []ssa.Instruction
	core.InstrsDeep(fn, func(in ssa.Instruction) {
		if isB(in) {
			bs = append(bs, in)
		}
	})
	for _, b := range bs {
		if core.MustFollowDeep(fn, core.After(b), func(in ssa.Instruction) bool { return in == anchor }, nil).OK && core.PrecedesDeep(fn, anchor, isB) {
			return true
		}
	}
	return false
}

// C08 — Forwarder state is reclaimed.
func C08(c *core.Ctx) {
	c.Explain = "Decides structural necessary conditions of C08 (pairing on all exits): (R8.1) in processIncomingInterest every path from the non-duplicate edge after InsertInterest to a function exit schedules the entry's expiry (UpdateExpirationTimer / SetExpirationTimerToNow on that entry) — including the cache-hit return; both helpers reach updatePitExpiry, which pushes or updates the expiry queue; (R8.2) every store csEntry=nil is followed by pruneIfEmpty of that node, PIT removal unlinks token map, counter and prunes the node when empty, every Pop of the expiry queue is followed by the expiry callback and RemoveInterest, the reaper re-arms its timer unless shutting down; (R8.3) counters and containers change together (nPitEntries, nCsEntries, dead-nonce map/queue); (R8.4) the ancestor-walk prune loops of the PIT/CS tree, tree FIB and RIB use only the loop cursor inside the loop; (R8.5) every FIB method that empties next hops or strategy reaches the prune of its implementation. Not decided: the time bound 'no later than shortly after the lifetime', the dead-nonce eviction rate."
	c.RuleText = "instances: entry-creation site × exits, csEntry=nil stores, PIT removal site, queue pops, counter updates, prune loops (three types), emptying stores in both FIB implementations. Non-trivial = has a path or operand set to decide."
	p := c.P
	defer c08Round4b(c)
	defer c08FilledPathIsUsed(c)
	// ---- R8.12 "the reported PIT and CS sizes equal the true number of entries", as the
	// management goroutine observes them: PitSize hands out a count that the forwarding
	// thread writes on every Interest — it is read atomically or under a lock (the CS
	// count's twin is C07 R7.9)
	if ps := c.Fn("R8.12", "fw/table", "PitCsTree", "PitSize"); ps != nil {
		atomicRead := false
		core.Instrs(ps, func(in ssa.Instruction) {
			if r, ok := in.(*ssa.Return); ok && len(r.Results) == 1 {
				if cl, isCall := core.StripConv(r.Results[0]).(*ssa.Call); isCall {
					if cal := cl.Call.StaticCallee(); cal != nil && cal.Pkg != nil && cal.Pkg.Pkg.Path() == "sync/atomic" {
						atomicRead = true
					}
				}
			}
		})
		_, heldT := core.EntryLocks(p, core.ModPath+"/fw/table")
		locked := false
		core.Instrs(ps, func(in ssa.Instruction) {
			if _, ok := in.(*ssa.Return); ok && len(heldT[ps][in]) > 0 {
				locked = true
			}
		})
		c.Decide(atomicRead || locked, "R8.12", "pit-count-read-atomically", p.Pos(ps.Pos()), "PitSize reads the entry count atomically (or under a lock)", "PitSize returns a plain counter that the forwarding thread writes on every Interest while the management goroutine (status/general) reads it: a data race — the reported PIT size is not ordered with the insertions and removals it counts")
	}

	// ---- R8.1
	if pii := c.Fn("R8.1", "fw/fw", "Thread", "processIncomingInterest"); pii != nil {
		dup := atomExtractTrue("duplicate-nonce", 1, callIs(core.CalleeID{Pkg: "fw/table", Recv: "PitCsTable", Name: "InsertInterest"}))
		var entry ssa.Value
		core.InstrsDeep(pii, func(in ssa.Instruction) {
			if e, ok := in.(*ssa.Extract); ok && e.Index == 0 && isCallTo(e.Tuple, core.CalleeID{Pkg: "fw/table", Recv: "PitCsTable", Name: "InsertInterest"}) {
				entry = e
			}
		})
		isSched := func(in ssa.Instruction) bool {
			cc, ok := core.IsCall(in, core.CalleeID{Pkg: "fw/table", Name: "UpdateExpirationTimer"}, core.CalleeID{Pkg: "fw/table", Name: "SetExpirationTimerToNow"})
			return ok && entry != nil && core.Same(cc.Args[0], entry)
		}
		// from the InsertInterest call every path to a normal exit schedules the entry's
		// expiry, except the paths through an edge asserting "duplicate" (nothing was
		// created there); an exit whose test mixes the duplicate outcome with anything
		// else (e.g. a dead-nonce drop decided after the insertion) is not excused
		n := 0
		cutDup, per := core.CutEdgesDeep(pii, pos(dup))
		for _, ci := range core.FindCallsDeep(pii, core.CalleeID{Pkg: "fw/table", Recv: "PitCsTable", Name: "InsertInterest"}) {
			n++
			restore := core.WithRoot(pii)
			fr := core.MustFollowCut(ci.Parent(), core.After(ci), func(x ssa.Instruction) bool {
				if isSched(x) {
					return true
				}
				// a private helper that always schedules
				if cc, ok := x.(ssa.CallInstruction); ok {
					if cal := cc.Common().StaticCallee(); cal != nil && cal.Blocks != nil && cal.Pkg == pii.Pkg && cal != pii {
						return core.MustFollow(cal, core.Point{Block: cal.Blocks[0], Idx: 0}, isSched, nil).OK
					}
				}
				return false
			}, nil, cutDup)
			restore()
			det := ""
			if !fr.OK {
				det = fmt.Sprintf("exit at %s reached without scheduling the entry's expiry; path: %s", c.Pos(fr.Exit), p.PathString(fr.Path))
			}
			c.Decide(fr.OK && per[0] > 0, "R8.1", "pit-entry-expiry-scheduled-on-all-exits", p.Pos(pii.Pos()), "every exit after a non-duplicate InsertInterest passes UpdateExpirationTimer/SetExpirationTimerToNow on that entry", "a PIT entry created or refreshed by InsertInterest is never put on the expiry queue on some path (it is never reaped): "+det)
		}
		c.Floor("R8.1", "InsertInterest calls in the Interest pipeline", n, 1)
	}
	for _, nm := range []string{"UpdateExpirationTimer", "SetExpirationTimerToNow"} {
		if fn := c.Fn("R8.1", "fw/table", "", nm); fn != nil {
			fr := core.MustFollowDeep(fn, core.Point{Block: fn.Blocks[0], Idx: 0}, func(in ssa.Instruction) bool {
				_, ok := core.IsCall(in, core.CalleeID{Pkg: "fw/table", Recv: "PitCsTable", Name: "updatePitExpiry"})
				return ok
			}, nil)
			c.Decide(fr.OK, "R8.1", "helper-reaches-updatePitExpiry:"+nm, p.Pos(fn.Pos()), nm+" always calls updatePitExpiry", nm+" can return without (re)scheduling the entry in the expiry queue")
		}
	}
	if fn := c.Fn("R8.1", "fw/table", "PitCsTree", "updatePitExpiry"); fn != nil {
		fr := core.MustFollowDeep(fn, core.Point{Block: fn.Blocks[0], Idx: 0}, func(in ssa.Instruction) bool {
			_, ok := core.IsCall(in, core.CalleeID{Pkg: "std/utils/priority_queue", Recv: "Queue", Name: "Push"}, core.CalleeID{Pkg: "std/utils/priority_queue", Recv: "Queue", Name: "Update"})
			return ok
		}, nil)
		c.Decide(fr.OK, "R8.1", "updatePitExpiry-queues", p.Pos(fn.Pos()), "updatePitExpiry pushes or updates the queue item on every path", "updatePitExpiry can return without the entry being in the expiry queue")
	}
	// data path: satisfied entries expire now
	if pid := c.Fn("R8.1", "fw/fw", "Thread", "processIncomingData"); pid != nil {
		for i, ci := range core.FindCallsDeep(pid, idSetSatisfied) {
			r, _ := core.CallArgs(ci.Common())
			ok := core.PrecedesDeep(pid, ci, func(in ssa.Instruction) bool {
				cc, ok := core.IsCall(in, core.CalleeID{Pkg: "fw/table", Name: "SetExpirationTimerToNow"})
				return ok && core.Same(cc.Args[0], r)
			})
			c.Decide(ok, "R8.1", fmt.Sprintf("satisfied-entry-expires-now#%d", i), c.Pos(ci), "SetExpirationTimerToNow on the same entry precedes SetSatisfied", "a satisfied PIT entry is not scheduled for prompt removal")
		}
	}

	// ---- R8.2
	nNil := 0
	for _, fn := range p.FuncsIn(core.ModPath + "/fw/table") {
		core.Instrs(fn, func(in ssa.Instruction) {
			fa, v, ok := storeToField(in, "pitCsTreeNode", "csEntry")
			if !ok || !core.IsNilConst(v) {
				return
			}
			nNil++
			fr := core.MustFollowDeep(fn, core.After(in), func(x ssa.Instruction) bool {
				cc, ok := core.IsCall(x, core.CalleeID{Pkg: "fw/table", Recv: "pitCsTreeNode", Name: "pruneIfEmpty"})
				if !ok {
					return false
				}
				r, _ := core.CallArgs(cc)
				return core.Same(r, fa.X)
			}, nil)
			c.Decide(fr.OK, "R8.2", "cs-erase-prunes-node:"+core.FuncName(fn), c.Pos(in), "csEntry=nil is followed by pruneIfEmpty of that node", "a cache entry is erased without pruning its name-tree node: eviction leaves dead branches in the PIT/CS tree")
		})
	}
	c.Floor("R8.2", "csEntry=nil stores", nNil, 1)
	if rm := c.Fn("R8.2", "fw/table", "PitCsTree", "RemoveInterest"); rm != nil {
		// the shrink of node.pitEntries
		var shrink ssa.Instruction
		core.InstrsDeep(rm, func(in ssa.Instruction) {
			if _, v, ok := storeToField(in, "pitCsTreeNode", "pitEntries"); ok {
				if _, isSlice := core.Strip(v).(*ssa.Slice); isSlice {
					shrink = in
				}
			}
		})
		if shrink == nil {
			c.Und("R8.2", "pit-remove-shrink", p.Pos(rm.Pos()), "cannot find the store shrinking node.pitEntries")
		} else {
			c.Decide(coOccur(rm, shrink, func(in ssa.Instruction) bool { return isMapDelete(in, "pitTokenMap") }), "R8.2", "pit-remove-unlinks-token", c.Pos(shrink), "delete(pitTokenMap, token) on every path", "a removed PIT entry stays in the token map (leak; late Data matches a dead entry)")
			c.Decide(coOccur(rm, shrink, func(in ssa.Instruction) bool { return isIncDec(in, "nPitEntries", -1) }), "R8.2", "pit-remove-decrements", c.Pos(shrink), "nPitEntries-- on every path", "PIT size counter is not decremented when an entry is removed")
			// prune when the node has no entries left
			empty := &core.Atom{Name: "len(node.pitEntries)==0", Match: func(cond ssa.Value) (int, int) {
				op, x, y, ok := core.Cmp(cond)
				if !ok {
					return 0, 0
				}
				l, isLen := core.LenOf(x)
				k, isC := core.ConstInt(y)
				if !isC || k != 0 {
					return 0, 0
				}
				// … or the new length itself, computed before the shrink and used as its
				// bound: last := len(entries)-1; entries = entries[:last]; if last == 0
				newLen := false
				if _, v, okS := storeToField(shrink, "pitCsTreeNode", "pitEntries"); okS {
					if sl, isSl := core.Strip(v).(*ssa.Slice); isSl && sl.High != nil && core.StripConv(sl.High) == core.StripConv(x) {
						newLen = true
					}
				}
				if !newLen {
					if !isLen {
						return 0, 0
					}
					if _, ok := core.FieldOf(l, "pitEntries"); !ok {
						return 0, 0
					}
				}
				switch op {
				case token.EQL, token.LEQ:
					return 1, -1
				case token.NEQ, token.GTR:
					return -1, 1
				}
				return 0, 0
			}}
			okPrune := false
			for _, f := range core.EdgeFacts(rm, empty) {
				if f.Holds && (core.ReachableFrom(core.After(shrink), f.E.To.Instrs[0])) {
					okPrune = core.MustFollowDeep(rm, core.Point{Block: f.E.To, Idx: 0}, func(in ssa.Instruction) bool {
						_, ok := core.IsCall(in, core.CalleeID{Pkg: "fw/table", Recv: "pitCsTreeNode", Name: "pruneIfEmpty"})
						return ok
					}, nil).OK
				}
			}
			c.Decide(okPrune, "R8.2", "pit-remove-prunes-node", c.Pos(shrink), "pruneIfEmpty when the node's last PIT entry is removed", "removing the last PIT entry of a node does not prune it: expiry leaves dead branches")
		}
	}
	if up := c.Fn("R8.2", "fw/table", "PitCsTree", "Update"); up != nil {
		pops := core.FindCallsDeep(up, core.CalleeID{Pkg: "std/utils/priority_queue", Recv: "Queue", Name: "Pop"})
		c.Floor("R8.2", "expiry-queue pops", len(pops), 1)
		for _, pop := range pops {
			fr := core.MustFollowDeep(up, core.After(pop), func(in ssa.Instruction) bool {
				cc, ok := core.IsCall(in, core.CalleeID{Pkg: "fw/table", Recv: "PitCsTree", Name: "RemoveInterest"})
				if !ok {
					return false
				}
				_, a := core.CallArgs(cc)
				return core.Strip(a[0]) == pop.Value()
			}, nil)
			c.Decide(fr.OK, "R8.2", "popped-entry-removed", c.Pos(pop), "every popped entry is passed to RemoveInterest", "an entry popped from the expiry queue is not removed from the PIT (it can never be reaped again)")
		}
		// loop condition: due entries only, and all of them
		// re-arm
		quit := &core.Atom{Name: "core.ShouldQuit", Match: func(cond ssa.Value) (int, int) {
			if core.IsGlobal(cond, "fw/core", "ShouldQuit") {
				return 1, -1
			}
			return 0, 0
		}}
		cut, per := core.CutEdges(up, pos(quit))
		okArm := per[0] > 0
		core.Instrs(up, func(in ssa.Instruction) {
			if r, ok := in.(*ssa.Return); ok {
				if core.ReachInstr(up, r, cut, func(x ssa.Instruction) bool {
					_, ok := core.IsCall(x, core.CalleeID{Pkg: "time", Name: "AfterFunc"})
					return ok
				}) != nil {
					okArm = false
				}
			}
		})
		c.Decide(okArm, "R8.2", "reaper-rearms", p.Pos(up.Pos()), "Update re-arms its timer on every exit unless shutting down", "the PIT reaper can return without scheduling its next run: expiry stops")
		// the closure signals updateTimer
		okSig := false
		for _, a := range up.AnonFuncs {
			core.InstrsDeep(a, func(in ssa.Instruction) {
				if s, ok := in.(*ssa.Send); ok {
					if _, ok := core.FieldOf(s.Chan, "updateTimer"); ok {
						okSig = true
					}
				}
			})
		}
		c.Decide(okSig, "R8.2", "reaper-timer-signals", p.Pos(up.Pos()), "the timer callback signals updateTimer", "the re-armed timer does not signal the update channel")
	}
	if th := c.Fn("R8.2", "fw/fw", "Thread", "Run"); th != nil {
		ok := len(core.FindCallsDeep(th, core.CalleeID{Pkg: "fw/table", Recv: "PitCsTable", Name: "Update"})) > 0 && len(core.FindCallsDeep(th, core.CalleeID{Pkg: "fw/table", Recv: "DeadNonceList", Name: "RemoveExpiredEntries"})) > 0
		c.Decide(ok, "R8.2", "thread-runs-reapers", p.Pos(th.Pos()), "forwarding thread calls PIT Update and DNL RemoveExpiredEntries", "the forwarding thread loop no longer drives the PIT reaper and the dead-nonce expiry")
	}

	// ---- R8.3 counters
	type pair struct {
		pkg, recv, fn string
		anchor        func(ssa.Instruction) bool
		partner       func(ssa.Instruction) bool
		key, what     string
		floor         int
	}
	pairs := []pair{
		{"fw/table", "PitCsTree", "InsertInterest", func(in ssa.Instruction) bool { return isIncDec(in, "nPitEntries", +1) }, func(in ssa.Instruction) bool { return isMapInsert(in, "pitTokenMap") }, "pit-insert-count+token", "nPitEntries++ ↔ pitTokenMap insert", 1},
		{"fw/table", "PitCsTree", "InsertInterest", func(in ssa.Instruction) bool { return isIncDec(in, "nPitEntries", +1) }, func(in ssa.Instruction) bool {
			_, v, ok := storeToField(in, "pitCsTreeNode", "pitEntries")
			return ok && isAppend(v)
		}, "pit-insert-count+list", "nPitEntries++ ↔ append to node.pitEntries", 1},
		// the CS counter either steps with the container or is re-published from the
		// container's size (len(csMap)) after the change
		{"fw/table", "PitCsTree", "InsertData", func(in ssa.Instruction) bool { return isMapInsert(in, "csMap") }, func(in ssa.Instruction) bool {
			return isIncDec(in, "nCsEntries", +1) || isCountSync(in, "nCsEntries", "csMap")
		}, "cs-insert-count+map", "csMap insert ↔ nCsEntries++ / nCsEntries = len(csMap)", 1},
		{"fw/table", "PitCsTree", "eraseCsDataFromReplacementStrategy", func(in ssa.Instruction) bool { return isMapDelete(in, "csMap") }, func(in ssa.Instruction) bool {
			return isIncDec(in, "nCsEntries", -1) || isCountSync(in, "nCsEntries", "csMap")
		}, "cs-erase-count+map", "delete(csMap) ↔ nCsEntries-- / nCsEntries = len(csMap)", 1},
		{"fw/table", "DeadNonceList", "Insert", func(in ssa.Instruction) bool { return isMapInsert(in, "list") }, func(in ssa.Instruction) bool {
			_, ok := core.IsCall(in, core.CalleeID{Pkg: "std/utils/priority_queue", Recv: "Queue", Name: "Push"})
			return ok
		}, "dnl-insert-map+queue", "dead-nonce map insert ↔ expiry queue push", 1},
		{"fw/table", "DeadNonceList", "RemoveExpiredEntries", func(in ssa.Instruction) bool {
			_, ok := core.IsCall(in, core.CalleeID{Pkg: "std/utils/priority_queue", Recv: "Queue", Name: "Pop"})
			return ok
		}, func(in ssa.Instruction) bool { return isMapDelete(in, "list") }, "dnl-expire-queue+map", "dead-nonce queue pop ↔ map delete", 1},
	}
	for _, pr := range pairs {
		fn := c.Fn("R8.3", pr.pkg, pr.recv, pr.fn)
		if fn == nil {
			continue
		}
		n := 0
		core.InstrsDeep(fn, func(in ssa.Instruction) {
			if !pr.anchor(in) {
				return
			}
			n++
			c.Decide(coOccur(fn, in, pr.partner), "R8.3", pr.key, c.Pos(in), pr.what+" on every path", "counter/container pair broken in "+core.FuncName(fn)+": "+pr.what+" do not happen together on every path")
		})
		c.Floor("R8.3", pr.key, n, pr.floor)
	}
	// size getters return the counters
	for _, g := range [][2]string{{"PitSize", "nPitEntries"}, {"CsSize", "nCsEntries"}} {
		if fn := c.Fn("R8.3", "fw/table", "PitCsTree", g[0]); fn != nil {
			ok := false
			core.Instrs(fn, func(in ssa.Instruction) {
				if r, isR := in.(*ssa.Return); isR {
					_, ok = core.FieldOf(r.Results[0], g[1])
					if !ok { // an atomic counter: return int(x.counter.Load())
						if cl, isCall := core.StripConv(r.Results[0]).(*ssa.Call); isCall && len(cl.Call.Args) == 1 {
							if cal := cl.Call.StaticCallee(); cal != nil && cal.Name() == "Load" {
								if fa, isFA := core.Strip(cl.Call.Args[0]).(*ssa.FieldAddr); isFA {
									_, fname := core.FieldAddrName(fa)
									ok = fname == g[1]
								}
							}
						}
					}
				}
			})
			c.Decide(ok, "R8.3", "size-getter:"+g[0], p.Pos(fn.Pos()), g[0]+" returns "+g[1], g[0]+" does not return "+g[1])
		}
	}
	// DNL expiry condition and bound
	if fn := c.Fn("R8.3", "fw/table", "DeadNonceList", "Insert"); fn != nil {
		// lifetime: Now().Add(deadNonceListLifetime)
		ok := false
		core.InstrsDeep(fn, func(in ssa.Instruction) {
			if cc, isC := core.IsCall(in, core.CalleeID{Pkg: "time", Recv: "Time", Name: "Add"}); isC {
				r, a := core.CallArgs(cc)
				if isTimeNow(r) && core.IsGlobal(a[0], "fw/table", "deadNonceListLifetime") {
					ok = true
				}
			}
		})
		c.Decide(ok, "R8.3", "dnl-lifetime", p.Pos(fn.Pos()), "dead-nonce records expire at Now()+deadNonceListLifetime", "dead-nonce records are not scheduled to expire after the configured lifetime")
		// one expiry item per record: the queue push is reachable only on the edge asserting
		// that the record was not in the map. A second item for a record that is already
		// there outlives the first: when the first expires the record is deleted, and the
		// second later deletes a FRESH record of the same pair before its lifetime is over
		// (the removal pops a hash and deletes the map entry without looking at the time of
		// the record) — a looping Interest with a nonce recorded as dead is forwarded.
		var pushes []ssa.Instruction
		core.InstrsDeep(fn, func(in ssa.Instruction) {
			if ci, isCI := in.(ssa.CallInstruction); isCI {
				if id, okID := core.Callee(ci.Common()); okID && id.Name == "Push" {
					if r, _ := core.CallArgs(ci.Common()); r != nil {
						if _, isQ := core.FieldOf(r, "expirationQueue"); isQ {
							pushes = append(pushes, in)
						}
					}
				}
			}
		})
		exists := &core.Atom{Name: "record already in the list", Match: func(cond ssa.Value) (int, int) {
			e, isE := core.Strip(cond).(*ssa.Extract)
			if !isE || e.Index != 1 {
				return 0, 0
			}
			lk, isL := e.Tuple.(*ssa.Lookup)
			if !isL || !lk.CommaOk {
				return 0, 0
			}
			if _, isList := core.FieldOf(lk.X, "list"); !isList {
				return 0, 0
			}
			return 1, -1
		}}
		g := core.GateDeep(fn, pushes, neg(exists))
		c.Decide(len(pushes) > 0 && g.OK && g.PassEdges > 0, "R8.3", "dnl-one-expiry-item-per-record", p.Pos(fn.Pos()), "an expiry item is queued only for a record that was not in the list", "DeadNonceList.Insert queues an expiry item also for a (name, nonce) pair that is already recorded: the older item deletes the record when it expires, and the newer one later deletes a fresh record of the same pair before its lifetime is over — within that lifetime a looping Interest carrying the dead nonce is forwarded again")
	}

	// ---- R8.5c hash-table FIB: when the longest name under a virtual node is removed, the
	// node's depth is recomputed from the REMAINING names only (reset, then max over all of
	// them): with the old depth as the starting value it never decreases, and the node
	// outlives its last real name.
	if pt := c.Fn("R8.5", "fw/table", "FibStrategyHashTable", "pruneTables"); pt != nil {
		var acc ssa.Instruction
		core.Instrs(pt, func(in ssa.Instruction) {
			if _, v, ok := storeToField(in, "virtualDetails", "md"); ok && core.InLoop(in.Block()) {
				if cl, isC := core.Strip(v).(*ssa.Call); isC {
					if b, isB := cl.Call.Value.(*ssa.Builtin); isB && b.Name() == "max" {
						acc = in
					}
				}
			}
		})
		if acc == nil {
			c.Ok("R8.5", "virtual-depth-recomputed-from-remaining-names", p.Pos(pt.Pos()), "no in-place max() accumulation of a virtual node's depth in pruneTables (recomputed otherwise: decided by C05 R5.7)")
		} else {
			h := loopHeader(acc.Block())
			reset := false
			if h != nil && len(h.Instrs) > 0 {
				reset = core.Precedes(pt, h.Instrs[0], func(x ssa.Instruction) bool {
					_, v, ok := storeToField(x, "virtualDetails", "md")
					if !ok || core.InLoop(x.Block()) && loopHeader(x.Block()) == h {
						return false
					}
					k, isC := core.ConstInt(v)
					return isC && k == 0
				})
			}
			c.Decide(reset, "R8.5", "virtual-depth-recomputed-from-remaining-names", c.Pos(acc), "the depth is reset before the maximum over the remaining names is taken", "pruneTables raises a virtual node's depth by max(md, l) over the remaining names starting from the OLD depth: the depth never decreases, the 'no name at this depth any more' test never fires again, and the virtual entry survives the removal of its last real name (one dead entry per virtual prefix)")
		}
	}
	// ---- R8.3b the LRU's index of queue positions follows the queue: every removal of a
	// queue element is followed by an update of `locations` (a new position after a
	// re-push, or the deletion of the record when the entry is evicted)
	{
		nRm := 0
		for _, fn := range p.FuncsIn(core.ModPath + "/fw/table") {
			if core.FuncID(fn).Recv != "CsLRU" {
				continue
			}
			core.Instrs(fn, func(in ssa.Instruction) {
				ci, ok := in.(ssa.CallInstruction)
				if !ok {
					return
				}
				id, ok := core.Callee(ci.Common())
				if !ok || id.Pkg != "container/list" || id.Name != "Remove" {
					return
				}
				nRm++
				// (the two updates are independent: either order within the same step)
				okIdx := coOccur(fn, in, func(x ssa.Instruction) bool {
					return isMapDelete(x, "locations") || isMapInsert(x, "locations")
				})
				fr := struct{ OK bool }{okIdx}
				c.Decide(fr.OK, "R8.3", "lru-index-follows-queue:"+core.FuncName(fn), c.Pos(in), "the removal of a queue element is followed by an update of the position index", core.FuncName(fn)+" removes an element from the LRU queue without updating the position index: one record (and its detached list element) stays behind per Data name ever evicted")
			})
		}
		c.Floor("R8.3", "removals from the LRU queue", nRm, 2)
	}

	// ---- R8.4 prune loops use the cursor
	for _, t := range [][3]string{{"fw/table", "pitCsTreeNode", "pruneIfEmpty"}, {"fw/table", "fibStrategyTreeEntry", "pruneIfEmpty"}, {"fw/table", "fibStrategyTreeEntry", "pruneIfEmptyEnc"}, {"fw/table", "RibEntry", "pruneIfEmpty"}} {
		fn := p.Func(t[0], t[1], t[2])
		if fn == nil {
			if t[2] == "pruneIfEmptyEnc" {
				continue // duplicate helper, may be removed
			}
			c.Und("R8.4", "anchor:"+t[1]+"."+t[2], "-", "prune function not found")
			continue
		}
		c.Funcs[core.FuncName(fn)] = true
		recv := ssa.Value(fn.Params[0])
		bad := ""
		nLoop := 0
		for _, b := range fn.Blocks {
			if loopHeader(b) == nil {
				continue
			}
			nLoop++
			for _, in := range b.Instrs {
				if _, isPhi := in.(*ssa.Phi); isPhi {
					continue
				}
				for _, op := range in.Operands(nil) {
					if *op == recv {
						bad = c.Pos(in)
					}
				}
			}
		}
		key := "prune-loop-uses-cursor:" + t[1] + "." + t[2]
		if nLoop == 0 {
			c.Viol("R8.4", key, p.Pos(fn.Pos()), "prune function has no ancestor-walk loop: empty ancestors are never unlinked")
			continue
		}
		c.Decide(bad == "", "R8.4", key, p.Pos(fn.Pos()), "loop body refers only to the loop cursor", "the ancestor-walk loop refers to the start node instead of the loop cursor (at "+bad+"): only the first level is ever unlinked, empty ancestors stay")
		// R8.4b: inside the loop a node is unlinked only when the *cursor* itself is empty:
		// every emptiness condition of the type must be asserted on the cursor on each iteration.
		var cursor *ssa.Phi
		core.InstrsDeep(fn, func(in ssa.Instruction) {
			if phi, ok := in.(*ssa.Phi); ok {
				for _, e := range phi.Edges {
					if b, ok := core.FieldOf(e, "parent"); ok && core.Strip(b) == ssa.Value(phi) {
						cursor = phi
					}
				}
			}
		})
		payload := map[string][]string{
			"pitCsTreeNode":        {"children", "pitEntries", "csEntry"},
			"fibStrategyTreeEntry": {"children", "nexthops", "strategy"},
			"RibEntry":             {"children", "routes"},
		}[t[1]]
		if cursor == nil {
			c.Und("R8.4", "prune-cursor:"+t[1]+"."+t[2], p.Pos(fn.Pos()), "cannot identify the loop cursor (a phi advanced through .parent)")
		} else {
			var unlinks []ssa.Instruction
			for _, b := range fn.Blocks {
				if loopHeader(b) == nil {
					continue
				}
				for _, in := range b.Instrs {
					if _, ok := isBuiltinCall(in, "delete"); ok {
						unlinks = append(unlinks, in)
					}
					if _, _, ok := storeToField(in, "", "children"); ok {
						unlinks = append(unlinks, in)
					}
					// the unlinking may be a helper (parent.removeChild(cur)): the call is
					// the effect
					if cl, ok := in.(*ssa.Call); ok {
						if g := cl.Call.StaticCallee(); g != nil && g != fn && g.Blocks != nil && g.Pkg == fn.Pkg {
							does := false
							core.InstrsDeep(g, func(x ssa.Instruction) {
								if _, ok := isBuiltinCall(x, "delete"); ok {
									does = true
								}
								if _, _, ok := storeToField(x, "", "children"); ok {
									does = true
								}
							})
							if does {
								unlinks = append(unlinks, in)
							}
						}
					}
				}
			}
			isCur := func(v ssa.Value) bool { return core.Strip(v) == ssa.Value(cursor) }
			for _, f := range payload {
				fld := f
				empty := &core.Atom{Name: "cursor." + fld + " empty", Match: func(cond ssa.Value) (int, int) {
					op, x, y, ok := core.Cmp(cond)
					if !ok {
						return 0, 0
					}
					// nil test
					if (op == token.EQL || op == token.NEQ) && core.IsNilConst(y) {
						if b, okF := core.FieldOfDeep(x, fld); okF && isCur(b) {
							return core.Iff(op == token.EQL)
						}
						return 0, 0
					}
					k, isC := core.ConstInt(y)
					if !isC || k != 0 {
						return 0, 0
					}
					okBase := false
					if l, isLen := core.LenOf(x); isLen {
						if b, okF := core.FieldOfDeep(l, fld); okF && isCur(b) {
							okBase = true
						}
					} else if cl, isCall := core.Strip(x).(*ssa.Call); isCall && fld == "children" {
						if id, okID := core.Callee(&cl.Call); okID && id.Name == "getChildrenCount" {
							if rv, _ := core.CallArgs(&cl.Call); rv != nil && isCur(rv) {
								okBase = true
							}
						}
					}
					if !okBase {
						return 0, 0
					}
					switch op {
					case token.EQL, token.LEQ:
						return 1, -1
					case token.NEQ, token.GTR:
						return -1, 1
					}
					return 0, 0
				}}
				res := core.GateDeep(fn, unlinks, pos(empty))
				c.Decide(len(unlinks) > 0 && res.OK && res.PassEdges > 0, "R8.4", "prune-unlinks-only-empty-cursor:"+t[1]+"."+t[2]+":"+fld, p.Pos(fn.Pos()),
					"a node is unlinked only on the edge asserting that the loop cursor's "+fld+" is empty",
					t[1]+"."+t[2]+" can unlink a node whose "+fld+" is not empty (the emptiness test is missing or is made on the start node instead of the loop cursor): live entries below or at that node become unreachable")
			}
		}
		// the loop unlinks from the parent and ascends via .parent
		asc := false
		core.InstrsDeep(fn, func(in ssa.Instruction) {
			if fa, ok := in.(*ssa.FieldAddr); ok {
				if _, f := core.FieldAddrName(fa); f == "parent" && loopHeader(in.Block()) != nil {
					asc = true
				}
			}
		})
		c.Decide(asc, "R8.4", "prune-loop-ascends:"+t[1]+"."+t[2], p.Pos(fn.Pos()), "loop ascends through parent", "prune loop does not ascend to the parent")
	}

	// ---- R8.5 FIB emptying methods reach prune
	fib := p.Named("fw/table", "FibStrategy")
	if fib == nil {
		c.Und("R8.5", "anchor:FibStrategy", "-", "interface not found")
		return
	}
	impls := p.Implementations(fib)
	c.Floor("R8.5", "FibStrategy implementations", len(impls), 2)
	for _, t := range impls {
		tn := t.Obj().Name()
		isPrune := func(in ssa.Instruction) bool {
			_, ok := core.IsCall(in,
				core.CalleeID{Pkg: "fw/table", Recv: "fibStrategyTreeEntry", Name: "pruneIfEmpty"},
				core.CalleeID{Pkg: "fw/table", Recv: "fibStrategyTreeEntry", Name: "pruneIfEmptyEnc"},
				core.CalleeID{Pkg: "fw/table", Recv: "FibStrategyHashTable", Name: "pruneTables"})
			return ok
		}
		nE := 0
		for _, m := range []string{"ClearNextHopsEnc", "RemoveNextHopEnc", "UnSetStrategyEnc"} {
			fn := p.MethodOf(t, m)
			if fn == nil || fn.Blocks == nil {
				c.Und("R8.5", "anchor:"+tn+"."+m, "-", "method not found")
				continue
			}
			c.Funcs[core.FuncName(fn)] = true
			core.InstrsDeep(fn, func(in ssa.Instruction) {
				_, v, okN := storeToField(in, "baseFibStrategyEntry", "nexthops")
				_, v2, okS := storeToField(in, "baseFibStrategyEntry", "strategy")
				empties := false
				if okN {
					switch x := core.Strip(v).(type) {
					case *ssa.MakeSlice, *ssa.Slice:
						empties = true
						_ = x
					case *ssa.Const:
						empties = true
					case *ssa.Call:
						empties = isSlicesDelete(v)
					}
				}
				if okS && core.IsNilConst(v2) {
					empties = true
				}
				if !empties {
					return
				}
				nE++
				fr := core.MustFollowDeep(fn, core.After(in), isPrune, nil)
				c.Decide(fr.OK, "R8.5", "emptying-reaches-prune:"+tn+"."+m, c.Pos(in), "store that can empty the entry is followed by the prune on every path", tn+"."+m+" can empty an entry's next hops/strategy without pruning: the FIB keeps nodes beyond what its live entries require")
			})
		}
		c.Floor("R8.5", "emptying stores in "+tn, nE, 3)
	}
	// R8.5b hash-table FIB: the virtual-table entries created by insertEntryEnc under a
	// given ordering of len(name) vs m are reclaimed by pruneTables under that ordering too
	{
		ins := c.Fn("R8.5", "fw/table", "FibStrategyHashTable", "insertEntryEnc")
		pr := c.Fn("R8.5", "fw/table", "FibStrategyHashTable", "pruneTables")
		if ins != nil && pr != nil {
			isLen := func(v ssa.Value) bool { _, ok := core.LenOf(v); return ok }
			isM := func(v ssa.Value) bool { _, ok := core.FieldOf(v, "m"); return ok }
			isVirt := func(v ssa.Value) bool {
				if _, ok := core.FieldOf(v, "virtTable"); ok {
					return true
				}
				_, ok := core.FieldOf(v, "virtTableNames")
				return ok
			}
			var relIns, relPr core.RelSet
			nI, nP := 0, 0
			core.InstrsDeep(ins, func(in ssa.Instruction) {
				if mu, ok := in.(*ssa.MapUpdate); ok && isVirt(mu.Map) {
					nI++
					relIns |= core.RelReach(ins, in, isLen, isM)
				}
			})
			core.InstrsDeep(pr, func(in ssa.Instruction) {
				if cl, ok := isBuiltinCall(in, "delete"); ok && isVirt(cl.Call.Args[0]) {
					nP++
					relPr |= core.RelReach(pr, in, isLen, isM)
				}
			})
			c.Decide(nI > 0 && nP > 0 && relIns&^relPr == 0, "R8.5", "hashtable-virtual-entries-reclaimed", p.Pos(pr.Pos()),
				fmt.Sprintf("virtual entries are created when len(name) vs m is in %v and reclaimed when it is in %v", relIns, relPr),
				fmt.Sprintf("insertEntryEnc creates virtual-table entries when len(name) vs m is in %v but pruneTables reclaims them only when it is in %v: entries for the missing ordering are never removed", relIns, relPr))
		}
	}
	// RIB: route removal prunes
	for _, m := range []string{"RemoveRouteEnc", "<face-cleanup>"} {
		var fn *ssa.Function
		if m == "<face-cleanup>" {
			fn = ribCleanupWorker(p)
			if fn == nil {
				c.Und("R8.5", "anchor:rib-cleanup-worker", "-", "RIB face-cleanup function not found")
				continue
			}
			m = fn.Name()
		} else if fn = c.Fn("R8.5", "fw/table", "RibTable", m); fn == nil {
			continue
		}
		n := 0
		core.InstrsDeep(fn, func(in ssa.Instruction) {
			_, _, ok := storeToField(in, "RibEntry", "routes")
			if !ok {
				return
			}
			n++
			fr := core.MustFollowDeep(fn, core.After(in), func(x ssa.Instruction) bool {
				_, ok := core.IsCall(x, core.CalleeID{Pkg: "fw/table", Recv: "RibEntry", Name: "pruneIfEmpty"})
				return ok
			}, nil)
			if !fr.OK {
				// the removal sits in a walk over the subtree: the pruning may follow the
				// walk, as a second walk from the same node that prunes every node it visits
				if site := treeWalkSite(p, in.Parent()); site != nil {
					walkRecv, _ := core.CallArgs(site.Common())
					fr = core.MustFollowDeep(core.RootOf(site.Parent()), core.After(site), func(x ssa.Instruction) bool {
						ci, ok := x.(ssa.CallInstruction)
						if !ok || !prunesSubtree(p, ci.Common().StaticCallee()) {
							return false
						}
						rv, _ := core.CallArgs(ci.Common())
						return walkRecv != nil && core.Same(rv, walkRecv)
					}, nil)
				}
			}
			c.Decide(fr.OK, "R8.5", "rib-removal-prunes:"+m, c.Pos(in), "route removal is followed by pruneIfEmpty", "a RIB route is removed without pruning the entry")
		})
		c.Floor("R8.5", "route-removal stores in RIB removal function "+m, n, 1)
	}
	_ = types.Typ
	// ---- R8.10 the reaper wakes up within its tick: the delay it re-arms its timer with is, on
	// every value flow, the tick constant itself or a computed delay that passed an edge
	// asserting "not longer than the tick" (or a min with it). An entry inserted after the
	// timer was armed is only looked at on the next wake-up — a delay computed from the
	// current queue head alone, unbounded, lets it outlive its lifetime by however long the
	// head had left.
	if up := c.Fn("R8.10", "fw/table", "PitCsTree", "Update"); up != nil {
		nArm := 0
		core.InstrsDeep(up, func(in ssa.Instruction) {
			ci, ok := in.(ssa.CallInstruction)
			if !ok || len(ci.Common().Args) < 1 {
				return
			}
			id, okID := core.Callee(ci.Common())
			if !okID || id.Pkg != "time" || (id.Name != "AfterFunc" && id.Name != "NewTimer" && id.Name != "After" && id.Name != "Reset") {
				return
			}
			nArm++
			arg := ci.Common().Args[0]
			if id.Name == "Reset" && len(ci.Common().Args) > 1 {
				arg = ci.Common().Args[1]
			}
			// computed (non-constant) leaves of the delay
			var leaves []ssa.Value
			// where a leaf is used: the timer call, or the return of the helper that
			// computes the delay (nextUpdateDelay())
			rootOf := map[ssa.Value]ssa.Value{}
			atOf := map[ssa.Value]ssa.Instruction{}
			curRoot, curAt := arg, ssa.Instruction(in)
			seen := map[ssa.Value]bool{}
			var walk func(v ssa.Value)
			walk = func(v ssa.Value) {
				v = core.Strip(v)
				if seen[v] {
					return
				}
				seen[v] = true
				rootOf[v], atOf[v] = curRoot, curAt
				switch y := v.(type) {
				case *ssa.Phi:
					for _, e := range y.Edges {
						walk(e)
					}
				case *ssa.Const:
				case *ssa.UnOp:
					if _, isG := y.X.(*ssa.Global); !isG {
						leaves = append(leaves, v)
					}
				case *ssa.Call:
					if g := y.Call.StaticCallee(); g != nil && g.Blocks != nil && strings.HasPrefix(core.PkgPathOf(g), core.ModPath) && len(seen) < 64 {
						nR := 0
						core.Instrs(g, func(ri ssa.Instruction) {
							if r, okR := ri.(*ssa.Return); okR && len(r.Results) == 1 && ri.Block() != g.Recover {
								nR++
								sr, sa := curRoot, curAt
								curRoot, curAt = r.Results[0], ri
								walk(r.Results[0])
								curRoot, curAt = sr, sa
							}
						})
						if nR > 0 {
							return
						}
					}
					if b, isB := y.Call.Value.(*ssa.Builtin); isB && b.Name() == "min" {
						for _, a := range y.Call.Args {
							if _, isC := core.Strip(a).(*ssa.Const); isC {
								return // min(x, constant) is bounded by the constant
							}
							if u, isU := core.Strip(a).(*ssa.UnOp); isU {
								if _, isG := u.X.(*ssa.Global); isG {
									return
								}
							}
						}
					}
					leaves = append(leaves, v)
				default:
					leaves = append(leaves, v)
				}
			}
			walk(arg)
			bad := ""
			for _, leaf := range leaves {
				lf := leaf
				bounded := &core.Atom{Name: "delay ≤ tick", Match: func(cond ssa.Value) (int, int) {
					op, x, y, okC := core.Cmp(cond)
					if !okC {
						return 0, 0
					}
					if core.StripConv(y) == core.StripConv(lf) {
						x, y, op = y, x, core.Swap(op)
					}
					if core.StripConv(x) != core.StripConv(lf) {
						return 0, 0
					}
					if k, isC := core.ConstInt(y); isC && k <= 0 {
						return 0, 0 // a sign test, not an upper bound
					}
					switch op {
					case token.GTR, token.GEQ:
						return -1, 1
					case token.LSS, token.LEQ:
						return 1, -1
					}
					return 0, 0
				}}
				cut, per := core.CutEdges(atOf[lf].Parent(), pos(bounded))
				if per[0] == 0 || core.FlowPath(rootOf[lf], atOf[lf], func(x ssa.Value) bool { return core.Strip(x) == core.Strip(lf) }, cut, nil) {
					bad = describeValue(lf)
				}
			}
			c.Decide(bad == "", "R8.10", fmt.Sprintf("reaper-wakes-within-its-tick#%d", nArm), c.Pos(in), "the re-arm delay is the tick constant or a computed delay bounded by it", "PitCsTree.Update re-arms the reaper's timer with a delay ("+bad+") that no test bounds from above: the reaper sleeps until the expiry of the entry that heads the queue now, and an entry inserted meanwhile with a shorter lifetime stays in the PIT long after its lifetime plus the reaping delay")
		})
		c.Floor("R8.10", "timers armed by the PIT reaper", nArm, 1)
	}

}

func isAppend(v ssa.Value) bool {
	cl, ok := core.Strip(v).(*ssa.Call)
	if !ok {
		return false
	}
	b, ok := cl.Call.Value.(*ssa.Builtin)
	return ok && b.Name() == "append"
}

// c08Round4b — rules prompted by the second hunt on the repaired tree.
//
// R8.6 the expiry queue of the PIT is ordered by a priority that cannot wrap: wherever
// Time.UnixNano of an entry's expiration time becomes the priority, it is behind a test of
// that time against the latest representable one (an InterestLifetime of 2^63 ms put the
// entry at the front of the queue and the next Update removed it — unexpired).
//
// R8.7 "dead-nonce records disappear after their configured lifetime": the expiry loop of
// RemoveExpiredEntries ends only where the queue is empty or its head has not expired —
// every exit is decided by the queue, not by a budget per call (100 per 100 ms tick drain
// at most 1000 records per second; above that rate the list only grows).
//
// R8.8 the readvertiser forgets a prefix whose last route was withdrawn: on the edge on
// which the count is no longer positive the key is deleted from the map.
//
// R8.9 "the FIB and RIB structures hold nothing beyond what their live entries require":
// the removal of a face withdraws its next hops from the FIB as well as its routes from
// the RIB (next hops installed with fib/add-nexthop have no route that would do it).
func c08Round4b(c *core.Ctx) {
	p := c.P
	// ---- R8.6
	if up := c.Fn("R8.6", "fw/table", "PitCsTree", "updatePitExpiry"); up != nil {
		var nanos []ssa.Instruction
		for _, f := range core.Reach(up) {
			core.Instrs(f, func(in ssa.Instruction) {
				if cl, ok := in.(*ssa.Call); ok {
					if cal := cl.Call.StaticCallee(); cal != nil && cal.Name() == "UnixNano" && cal.Pkg != nil && cal.Pkg.Pkg.Path() == "time" {
						nanos = append(nanos, in)
					}
				}
			})
		}
		bad := ""
		for _, n := range nanos {
			recv, _ := core.CallArgs(n.(*ssa.Call).Common())
			beyond := &core.Atom{Name: "time is after the latest representable one", Match: func(cond ssa.Value) (int, int) {
				cl, ok := core.Strip(cond).(*ssa.Call)
				if !ok {
					return 0, 0
				}
				cal := cl.Call.StaticCallee()
				if cal == nil || cal.Pkg == nil || cal.Pkg.Pkg.Path() != "time" || (cal.Name() != "After" && cal.Name() != "Before") {
					return 0, 0
				}
				r, a := core.CallArgs(&cl.Call)
				if len(a) != 1 {
					return 0, 0
				}
				x, y := r, a[0]
				if cal.Name() == "Before" {
					x, y = y, x
				}
				if !(core.Strip(x) == core.Strip(recv) || core.Same(x, recv)) {
					return 0, 0
				}
				// the other side: time.Unix(_, constant)
				mk, isMk := core.Strip(y).(*ssa.Call)
				if !isMk {
					return 0, 0
				}
				if c2 := mk.Call.StaticCallee(); c2 == nil || c2.Name() != "Unix" {
					return 0, 0
				}
				return 1, -1
			}}
			g := core.Gate(n.Parent(), []ssa.Instruction{n}, neg(beyond))
			if !(g.OK && g.PassEdges > 0) {
				bad = c.Pos(n)
			}
		}
		c.Decide(len(nanos) > 0 && bad == "", "R8.6", "pit-expiry-priority-cannot-wrap", p.Pos(up.Pos()), fmt.Sprintf("%d uses of UnixNano as the expiry priority, each behind a test against the latest representable time", len(nanos)), "updatePitExpiry queues the entry by UnixNano of its expiration time without a bound ("+bad+"): beyond the year 2262 (an InterestLifetime of about 236 years, or 2^63 ms) the value wraps to a time long past, the next Update removes the entry although its in-record is unexpired, and Data for it reaches nobody")
	}
	// ---- R8.7
	if rm := c.Fn("R8.7", "fw/table", "DeadNonceList", "RemoveExpiredEntries"); rm != nil {
		var pop *ssa.Call
		core.Instrs(rm, func(in ssa.Instruction) {
			if cl, ok := in.(*ssa.Call); ok {
				if id, okID := core.Callee(&cl.Call); okID && id.Name == "Pop" && core.InLoop(cl.Block()) {
					pop = cl
				}
			}
		})
		if pop == nil {
			c.Und("R8.7", "dnl-expiry-loop", p.Pos(rm.Pos()), "no queue Pop inside a loop found in RemoveExpiredEntries")
		} else {
			h := loopHeader(pop.Block())
			inLoop := func(b *ssa.BasicBlock) bool {
				if b == h {
					return true
				}
				for _, x := range enclosingLoops(b) {
					if x == h {
						return true
					}
				}
				return false
			}
			var dependsOnQueue func(v ssa.Value, seen map[ssa.Value]bool) bool
			dependsOnQueue = func(v ssa.Value, seen map[ssa.Value]bool) bool {
				if v == nil || seen[v] {
					return false
				}
				seen[v] = true
				if cl, ok := v.(*ssa.Call); ok {
					if id, okID := core.Callee(&cl.Call); okID && id.Recv == "Queue" && (id.Name == "Len" || id.Name == "PeekPriority" || id.Name == "Peek") {
						return true
					}
				}
				in, ok := v.(ssa.Instruction)
				if !ok {
					return false
				}
				for _, o := range in.Operands(nil) {
					if o != nil && *o != nil && dependsOnQueue(*o, seen) {
						return true
					}
				}
				return false
			}
			nExit, bad := 0, ""
			for _, b := range rm.Blocks {
				if h == nil || !inLoop(b) || len(b.Instrs) == 0 {
					continue
				}
				for _, s2 := range b.Succs {
					if inLoop(s2) {
						continue
					}
					iff, isIf := b.Instrs[len(b.Instrs)-1].(*ssa.If)
					if !isIf {
						continue
					}
					nExit++
					if !dependsOnQueue(iff.Cond, map[ssa.Value]bool{}) {
						bad = c.Pos(iff)
					}
				}
			}
			c.Decide(nExit > 0 && bad == "", "R8.7", "dnl-expiry-loop-ends-only-with-the-queue", p.Pos(rm.Pos()), fmt.Sprintf("%d exits of the expiry loop, each decided by the queue (empty / head not expired)", nExit), "RemoveExpiredEntries can stop on a condition that does not depend on the queue ("+bad+", a budget per call): called once per tick, it drains at a bounded rate, and above that rate dead-nonce records stay — and suppress Interests — long after their configured lifetime")
		}
	}
	// ---- R8.8
	if wd := c.Fn("R8.8", "fw/mgmt", "NlsrReadvertiser", "Withdraw"); wd != nil {
		positive := &core.Atom{Name: "advertised count > 0", Match: func(cond ssa.Value) (int, int) {
			op, x, y, ok := core.Cmp(cond)
			if !ok {
				return 0, 0
			}
			k, isC := core.ConstInt(y)
			if !isC {
				return 0, 0
			}
			lk, isLk := core.StripConv(x).(*ssa.Lookup)
			if !isLk {
				return 0, 0
			}
			if _, isF := core.FieldOf(lk.X, "advertised"); !isF {
				return 0, 0
			}
			switch {
			case op == token.GTR && k == 0, op == token.GEQ && k == 1:
				return 1, -1
			case op == token.LEQ && k == 0, op == token.LSS && k == 1, op == token.EQL && k == 0:
				return -1, 1
			}
			return 0, 0
		}}
		isDel := func(in ssa.Instruction) bool {
			cl, ok := isBuiltinCall(in, "delete")
			if !ok {
				return false
			}
			_, isF := core.FieldOf(cl.Call.Args[0], "advertised")
			return isF
		}
		nEdge, bad := 0, ""
		for _, f := range core.EdgeFacts(wd, positive) {
			if f.Holds {
				continue
			}
			nEdge++
			if fr := core.MustFollow(wd, core.Point{Block: f.E.To, Idx: 0}, isDel, nil); !fr.OK {
				bad = p.PathString(fr.Path)
			}
		}
		c.Decide(nEdge > 0 && bad == "", "R8.8", "readvertiser-forgets-withdrawn-prefix", p.Pos(wd.Pos()), "where the count of a prefix is no longer positive its key is deleted", "NlsrReadvertiser.Withdraw leaves the key of a prefix in the map when its last route is withdrawn (count 0): one record per prefix ever registered stays for the life of the forwarder")
	}
	// ---- R8.9
	if rmf := c.Fn("R8.9", "fw/face", "Table", "Remove"); rmf != nil {
		isFibSweep := func(in ssa.Instruction) bool {
			ci, ok := in.(ssa.CallInstruction)
			if !ok {
				return false
			}
			id, okID := core.Callee(ci.Common())
			return okID && id.Pkg == "fw/table" && (id.Name == "RemoveNextHopEnc" || id.Name == "CleanUpFaceFib")
		}
		isRibSweep := func(in ssa.Instruction) bool {
			ci, ok := in.(ssa.CallInstruction)
			if !ok {
				return false
			}
			id, okID := core.Callee(ci.Common())
			return okID && id.Name == "CleanUpFace"
		}
		// the FIB sweep is reachable in what Remove calls (it sits in a loop over the FIB
		// entries, so "on every path" is asked of the call of the sweeping helper)
		reaches := func(isB func(ssa.Instruction) bool) bool {
			found := false
			for _, f := range core.Reach(rmf) {
				core.Instrs(f, func(in ssa.Instruction) {
					if isB(in) {
						found = true
					}
				})
			}
			if found {
				return true
			}
			// one level of static callees outside Reach's helper discipline
			core.Instrs(rmf, func(in ssa.Instruction) {
				if ci, ok := in.(*ssa.Call); ok {
					if cal := ci.Call.StaticCallee(); cal != nil && cal.Blocks != nil {
						core.Instrs(cal, func(x ssa.Instruction) {
							if isB(x) {
								found = true
							}
						})
					}
				}
			})
			return found
		}
		c.Decide(reaches(isRibSweep), "R8.9", "face-removal-withdraws-routes", p.Pos(rmf.Pos()), "Table.Remove reaches Rib.CleanUpFace", "the removal of a face does not withdraw its routes from the RIB")
		c.Decide(reaches(isFibSweep), "R8.9", "face-removal-withdraws-fib-nexthops", p.Pos(rmf.Pos()), "Table.Remove reaches the removal of the face's next hops from the FIB", "the removal of a face cleans the RIB but not the FIB: next hops installed with fib/add-nexthop (no route stands for them) stay on the dead face id, with their FIB entries and tree / virtual nodes, for ever — face ids are not reused")
	}
}

// c08FilledPathIsUsed — R8.11 "the name tree has no dead branches": InsertData makes the
// nodes of the Data name (fillTreeToPrefixEnc) before it knows what it will do with them.
// On every path from there to the return the node is occupied — it already holds a cache
// entry, or one is stored into it — or handed to pruneIfEmpty. A branch that decides not to
// cache after all (a capacity of zero, an admission policy) leaves the filled path behind:
// empty nodes that no eviction will ever visit.
func c08FilledPathIsUsed(c *core.Ctx) {
	fn := c.Fn("R8.11", "fw/table", "PitCsTree", "InsertData")
	if fn == nil {
		return
	}
	fills := core.FindCalls(fn, core.CalleeID{Pkg: "fw/table", Recv: "pitCsTreeNode", Name: "fillTreeToPrefixEnc"})
	c.Floor("R8.11", "calls that create the tree path of a Data name in InsertData", len(fills), 1)
	occupied := &core.Atom{Name: "node.csEntry != nil", Match: func(cond ssa.Value) (int, int) {
		op, x, y, ok := core.Cmp(cond)
		if !ok || (op != token.EQL && op != token.NEQ) || !core.IsNilConst(y) {
			return 0, 0
		}
		if _, okF := core.FieldOf(x, "csEntry"); !okF {
			return 0, 0
		}
		return core.Iff(op == token.NEQ)
	}}
	cut, _ := core.CutEdges(fn, core.Lit{A: occupied, Want: true})
	isUse := func(in ssa.Instruction) bool {
		if st, ok := in.(*ssa.Store); ok {
			if fa, okA := st.Addr.(*ssa.FieldAddr); okA {
				if _, f := core.FieldAddrName(fa); f == "csEntry" && !core.IsNilConst(core.Strip(st.Val)) {
					return true
				}
			}
		}
		if _, ok := core.IsCall(in, core.CalleeID{Pkg: "fw/table", Recv: "pitCsTreeNode", Name: "pruneIfEmpty"}); ok {
			return true
		}
		return false
	}
	for i, fc := range fills {
		fr := core.MustFollowCutDeep(fn, core.After(fc), isUse, nil, cut)
		msg := ""
		if fr.Exit != nil {
			msg = "; exit at " + c.Pos(fr.Exit)
		}
		c.Decide(fr.OK, "R8.11", fmt.Sprintf("filled-path-is-occupied-or-pruned#%d", i), c.Pos(fc), "every path from the creation of the node to the return stores a cache entry into it, finds one there, or prunes it", "InsertData can return having created the tree nodes of the Data name without caching anything there and without pruning them"+msg+": empty nodes are left in the name tree for every such packet (no eviction ever visits them) — the tree grows without bound while PIT and CS are empty")
	}
}
