package props

import (
	"fmt"
	"go/token"
	"strings"

	"ndndcheck/core"

	"golang.org/x/tools/go/ssa"
)

// C09 — /localhost traffic never crosses a non-local face.
func C09(c *core.Ctx) {
	c.Explain = "Decides a structural necessary condition of C09, exhaustively over its finite instance set: (R9.1) every call of Face.SendPacket in the repository (the only way a packet reaches a face's link service) is dominated, with the right polarity, by the drop gate nonlocal(receiver of that call) ∧ localhost(first name component of the packet placed in that call's OutPkt) — decided by deleting every CFG edge that asserts the negation of one conjunct and requiring the call to become unreachable from the function entry; (R9.2) in both inbound pipelines every call into fw/table, into a Strategy and every SendPacket is behind the same gate taken on GetFace(*IncomingFaceID), so a rejected packet changes no table; (R9.3) sendFrame is called only inside fw/face, and transportBase.scope is stored only in constructors, with Local stored only under IsLoopback() of the remote address or in the local-only transports. Not decided: that local faces are never over-dropped beyond the presence and polarity of the atoms; the remote-address classification itself."
	c.RuleText = "instances are enumerated from the loaded program on each run: SendPacket call sites (resolved by callee object), the two inbound pipeline functions, sendFrame call sites, stores to transportBase.scope, makeTransportBase call sites. An instance is non-trivial when it has at least one branch edge or path to decide; distinct = distinct rule+construct keys."
	p := c.P

	// ---- R9.1: every SendPacket call site carries the outbound gate on its own receiver.
	nSites := 0
	for _, fn := range p.Funcs() {
		if fn.Pkg == nil || !strings.HasPrefix(fn.Pkg.Pkg.Path(), core.ModPath+"/fw") {
			continue
		}
		// each call site once, in its own function; the gate may sit in the caller of a
		// private helper, so the root is the outermost function the site belongs to
		root := core.RootOf(fn)
		for _, ci := range core.FindCalls(fn, idSendPacket, core.CalleeID{Pkg: "fw/face", Recv: "*", Name: "SendPacket"}) {
			nSites++
			c.Sites++
			c.Funcs[core.FuncName(fn)] = true
			call := ci.Common()
			recv, args := core.CallArgs(call)
			key := fmt.Sprintf("outbound-gate:%s:recv=%s", core.FuncName(fn), describeFaceValue(recv))
			if recv == nil || len(args) != 1 {
				c.Und("R9.1", key, c.Pos(ci), "cannot identify receiver/OutPkt of SendPacket call")
				continue
			}
			pkt := outPktField(args[0], "Pkt")
			if pkt == nil {
				c.Und("R9.1", key, c.Pos(ci), "OutPkt argument is not a local literal with a Pkt field; cannot identify the packet sent")
				continue
			}
			nl := atomNonLocal(recv)
			lh := atomLocalhostName(pkt, nil)
			ne := atomNonEmptyName(pkt, nil)
			res := core.GateDeep(root, []ssa.Instruction{ci}, core.Lit{A: nl}, core.Lit{A: ne}, core.Lit{A: lh})
			if res.OK && res.PerLit[0] > 0 && res.PerLit[2] > 0 {
				c.Ok("R9.1", key, c.Pos(ci), fmt.Sprintf("drop gate nonlocal(recv)∧nonempty(name)∧localhost(name) found (%d pass edges); SendPacket unreachable once they are removed", res.PassEdges))
			} else if res.OK {
				c.Viol("R9.1", key, c.Pos(ci), fmt.Sprintf("SendPacket is unreachable without pass edges but the gate is not the specified one (nonlocal atoms=%d, localhost atoms=%d): over-dropping or dead emission site", res.PerLit[0], res.PerLit[2]))
			} else {
				c.Viol("R9.1", key, c.Pos(ci), fmt.Sprintf("a path reaches SendPacket on which the receiver's scope and the packet name's /localhost component are not both tested with drop polarity (nonlocal atoms matched=%d, localhost atoms matched=%d); path: %s", res.PerLit[0], res.PerLit[2], p.PathString(res.Path)))
			}
		}
	}
	c.Floor("R9.1", "SendPacket call sites", nSites, 3)

	// ---- R9.2: inbound pipelines.
	for _, name := range []string{"processIncomingInterest", "processIncomingData"} {
		fn := c.Fn("R9.2", "fw/fw", "Thread", name)
		if fn == nil {
			continue
		}
		pkt := ssa.Value(fn.Params[1])
		// the incoming face: GetFace(*pkt.IncomingFaceID)
		var face ssa.Value
		for _, ci := range core.FindCallsDeep(fn, idGetFace) {
			a := ci.Common().Args[0]
			if u, ok := core.Strip(a).(*ssa.UnOp); ok && u.Op == token.MUL {
				if base, ok := core.FieldOf(u.X, "IncomingFaceID"); ok && core.Same(base, pkt) {
					face = ci.Value()
				}
			}
		}
		if face == nil {
			c.Und("R9.2", "inbound-face:"+name, p.Pos(fn.Pos()), "cannot find GetFace(*packet.IncomingFaceID)")
			continue
		}
		var effects []ssa.Instruction
		core.InstrsDeep(fn, func(in ssa.Instruction) {
			ci, ok := in.(ssa.CallInstruction)
			if !ok {
				return
			}
			id, ok := core.Callee(ci.Common())
			if !ok {
				return
			}
			if id.Pkg == "fw/table" || (id.Pkg == "fw/fw" && id.Recv == "Strategy") || id.Name == "SendPacket" ||
				(id.Pkg == "fw/fw" && (id.Name == "processOutgoingData" || id.Name == "processOutgoingInterest")) {
				if id.Name == "IsProducer" { // read-only region test
					return
				}
				effects = append(effects, in)
			}
		})
		c.Sites += len(effects)
		nl := atomNonLocal(face)
		lh := atomLocalhostName(pkt, nil)
		ne := atomNonEmptyName(pkt, nil)
		res := core.GateDeep(fn, effects, core.Lit{A: nl}, core.Lit{A: ne}, core.Lit{A: lh})
		key := "inbound-gate:" + name
		switch {
		case len(effects) < 4:
			c.Und("R9.2", key, p.Pos(fn.Pos()), fmt.Sprintf("only %d table/strategy effects found in the pipeline (floor 4)", len(effects)))
		case !res.OK:
			c.Viol("R9.2", key, p.Pos(fn.Pos()), fmt.Sprintf("a table/strategy/send effect is reachable without the inbound /localhost×non-local drop test on the incoming face (nonlocal atoms=%d, localhost atoms=%d); path: %s", res.PerLit[0], res.PerLit[2], p.PathString(res.Path)))
		case res.PerLit[0] == 0 || res.PerLit[2] == 0:
			c.Viol("R9.2", key, p.Pos(fn.Pos()), "effects unreachable but the inbound gate lacks an atom (over-dropping)")
		default:
			c.Ok("R9.2", key, p.Pos(fn.Pos()), fmt.Sprintf("%d effects (table, strategy, send) all behind the inbound gate on GetFace(*IncomingFaceID); %d pass edges", len(effects), res.PassEdges))
		}
	}

	// ---- R9.3a: sendFrame is only called inside fw/face.
	nFrame := 0
	for _, fn := range p.Funcs() {
		for _, ci := range core.FindCallsDeep(fn, core.CalleeID{Pkg: "fw/face", Recv: "*", Name: "sendFrame"}) {
			nFrame++
			ok := fn.Pkg != nil && fn.Pkg.Pkg.Path() == core.ModPath+"/fw/face"
			c.Decide(ok, "R9.3", "sendFrame-caller:"+core.FuncName(fn), c.Pos(ci), "sendFrame called from the link service", "sendFrame called from outside fw/face: a frame can leave a face without passing the forwarder's scope gates")
		}
	}
	c.Floor("R9.3", "sendFrame call sites", nFrame, 1)

	// ---- R9.3b: who may write transportBase.scope, and with what.
	localOnly := map[string]string{ // frozen: transports that are local by construction
		"fw/face.MakeUnixStreamTransport": "unix-domain socket peer is on this host",
		"fw/face.MakeInternalTransport":   "in-process management face",
	}
	isLoop := &core.Atom{Name: "remote.IsLoopback()", Match: func(cond ssa.Value) (int, int) {
		cl, ok := core.Strip(cond).(*ssa.Call)
		if !ok {
			return 0, 0
		}
		if _, ok := core.IsCall(cl, core.CalleeID{Pkg: "net", Recv: "IP", Name: "IsLoopback"}); ok {
			return 1, -1
		}
		return 0, 0
	}}
	nStores, nMake := 0, 0
	for _, fn := range p.FuncsIn(core.ModPath + "/fw/face") {
		fname := core.FuncName(fn)
		core.Instrs(fn, func(in ssa.Instruction) {
			switch in := in.(type) {
			case *ssa.Store:
				fa, ok := in.Addr.(*ssa.FieldAddr)
				if !ok {
					return
				}
				if t, f := core.FieldAddrName(fa); t != "transportBase" || f != "scope" {
					return
				}
				nStores++
				key := "scope-store:" + fname
				if fn.Name() == "makeTransportBase" {
					_, isParam := in.Val.(*ssa.Parameter)
					c.Decide(isParam, "R9.3", key, c.Pos(in), "stores its scope parameter", "makeTransportBase stores something other than its scope parameter")
					return
				}
				if !(strings.HasPrefix(fn.Name(), "Make") || strings.HasPrefix(fn.Name(), "Accept") || strings.HasPrefix(fn.Name(), "New")) || fn.Parent() != nil {
					c.Viol("R9.3", key, c.Pos(in), "transportBase.scope written outside a transport constructor: a face's scope can change after creation")
					return
				}
				k, isC := scopeConst(in.Val)
				if !isC {
					c.Viol("R9.3", key, c.Pos(in), "scope stored from a non-constant value")
					return
				}
				key = fmt.Sprintf("%s:=%d", key, k)
				if k == 1 {
					res := core.GateDeep(fn, []ssa.Instruction{in}, core.Lit{A: isLoop, Want: true})
					c.Decide(res.OK && res.PassEdges > 0, "R9.3", key, c.Pos(in), "scope=Local stored only on the IsLoopback() true edge", "scope=Local stored on a path where the remote address was not found to be loopback")
				} else {
					c.Ok("R9.3", key, c.Pos(in), "stores NonLocal/Unknown (never widens trust)")
				}
			case ssa.CallInstruction:
				cc, ok := core.IsCall(in, core.CalleeID{Pkg: "fw/face", Recv: "transportBase", Name: "makeTransportBase"})
				if !ok {
					return
				}
				nMake++
				_, args := core.CallArgs(cc)
				key := "scope-arg:" + fname
				if len(args) < 4 {
					c.Und("R9.3", key, c.Pos(in), "unexpected makeTransportBase signature")
					return
				}
				checkScopeArg(c, fn, in, args[3], key, isLoop, localOnly)
			}
		})
	}
	c.Floor("R9.3", "scope stores", nStores, 4)
	c.Floor("R9.3", "makeTransportBase calls", nMake, 6)
}

func checkScopeArg(c *core.Ctx, fn *ssa.Function, at ssa.Instruction, v ssa.Value, key string, isLoop *core.Atom, localOnly map[string]string) {
	fname := core.FuncName(fn)
	if k, isC := scopeConst(v); isC {
		if k != 1 {
			c.Ok("R9.3", key, c.Pos(at), "constructor passes NonLocal")
			return
		}
		if why, ok := localOnly[fname]; ok {
			c.Ok("R9.3", key, c.Pos(at), "constant Local in a local-only transport ("+why+")")
		} else {
			c.Viol("R9.3", key, c.Pos(at), "constructor of a network transport passes the constant defn.Local")
		}
		return
	}
	if phi, ok := core.Strip(v).(*ssa.Phi); ok {
		allOK := true
		for i, e := range phi.Edges {
			k, isC := scopeConst(e)
			if !isC {
				allOK = false
				continue
			}
			if k == 1 {
				pred := phi.Block().Preds[i]
				facts := core.EdgeFacts(fn, isLoop)
				cut := map[core.Edge]bool{}
				for _, f := range facts {
					if f.Holds {
						cut[f.E] = true
					}
				}
				// the edge pred→phi block carrying Local must only be reachable via IsLoopback()==true
				path := core.ReachAvoiding(fn, fn.Blocks[0], map[*ssa.BasicBlock]bool{pred: true}, cut)
				if path != nil || len(cut) == 0 {
					allOK = false
				}
			}
		}
		c.Decide(allOK, "R9.3", key, c.Pos(at), "scope argument is Local only on the IsLoopback() true edge", "scope argument can be Local on a path where the remote address was not found to be loopback")
		return
	}
	c.Viol("R9.3", key, c.Pos(at), "scope argument is neither a constant nor a choice of constants")
}

// describeFaceValue gives a stable, line-free description of how a face value is obtained.
func describeFaceValue(v ssa.Value) string {
	if v == nil {
		return "?"
	}
	v = core.Strip(v)
	if cl, ok := v.(*ssa.Call); ok {
		if _, ok := core.IsCall(cl, idGetFace); ok && len(cl.Call.Args) == 1 {
			return "GetFace(" + describeValue(cl.Call.Args[0]) + ")"
		}
		if id, ok := core.Callee(&cl.Call); ok {
			return id.Name + "()"
		}
	}
	return describeValue(v)
}

func describeValue(v ssa.Value) string {
	v = core.Strip(v)
	switch x := v.(type) {
	case *ssa.Parameter:
		return x.Name()
	case *ssa.UnOp:
		if x.Op == token.MUL {
			root, path := core.FieldPath(x)
			if len(path) > 0 {
				return describeValue(root) + "." + strings.Join(path, ".")
			}
			return "*" + describeValue(x.X)
		}
	case *ssa.Const:
		return x.String()
	case *ssa.Phi:
		return "phi"
	case *ssa.Extract:
		return fmt.Sprintf("extract#%d", x.Index)
	case *ssa.Call:
		if id, ok := core.Callee(&x.Call); ok {
			return id.Name + "()"
		}
	}
	return "<" + v.Type().String() + ">"
}
