package props

import (
	"fmt"
	"go/token"
	"strings"

	"ndndcheck/core"

	"golang.org/x/tools/go/ssa"
)

// C09 — /localhost traffic never crosses a non-local face.
func C09(c *core.Ctx) {
	c.Explain = "Decides a structural necessary condition of C09, exhaustively over its finite instance set: (R9.1) every call of Face.SendPacket in the repository (the only way a packet reaches a face's link service) is dominated, with the right polarity, by the drop gate nonlocal(receiver of that call) ∧ localhost(first name component of the packet placed in that call's OutPkt) — decided by deleting every CFG edge that asserts the negation of one conjunct and requiring the call to become unreachable from the function entry; (R9.2) in both inbound pipelines every call into fw/table, into a Strategy and every SendPacket is behind the same gate taken on GetFace(*IncomingFaceID), so a rejected packet changes no table; (R9.3) sendFrame is called only inside fw/face, and transportBase.scope is stored only in constructors, with Local stored only under IsLoopback() of the remote address or in the local-only transports. Not decided: that local faces are never over-dropped beyond the presence and polarity of the atoms; the remote-address classification itself."
	c.RuleText = "instances are enumerated from the loaded program on each run: SendPacket call sites (resolved by callee object), the two inbound pipeline functions, sendFrame call sites, stores to transportBase.scope, makeTransportBase call sites. An instance is non-trivial when it has at least one branch edge or path to decide; distinct = distinct rule+construct keys."
	p := c.P

	// ---- R9.1: every SendPacket call site carries the outbound gate on its own receiver.
	nSites := 0
	for _, fn := range p.Funcs() {
		if fn.Pkg == nil || !strings.HasPrefix(fn.Pkg.Pkg.Path(), core.ModPath+"/fw") {
			continue
		}
		// each call site once, in its own function; the gate may sit in the caller of a
		// private helper, so the root is the outermost function the site belongs to
		root := core.RootOf(fn)
		for _, ci := range core.FindCalls(fn, idSendPacket, core.CalleeID{Pkg: "fw/face", Recv: "*", Name: "SendPacket"}) {
			nSites++
			c.Sites++
			c.Funcs[core.FuncName(fn)] = true
			call := ci.Common()
			recv, args := core.CallArgs(call)
			key := fmt.Sprintf("outbound-gate:%s:recv=%s", core.FuncName(fn), describeFaceValue(recv))
			if recv == nil || len(args) != 1 {
				c.Und("R9.1", key, c.Pos(ci), "cannot identify receiver/OutPkt of SendPacket call")
				continue
			}
			pkt := outPktField(args[0], "Pkt")
			if pkt == nil {
				c.Und("R9.1", key, c.Pos(ci), "OutPkt argument is not a local literal with a Pkt field; cannot identify the packet sent")
				continue
			}
			// the emission sits in a helper that several pipelines share and that is handed
			// the face and the packet (sendOnFace(face, packet, …)): the gate is each
			// caller's — decided at every call of the helper, with the helper's parameters
			// standing for the caller's arguments
			if rp, okR := core.Strip(recv).(*ssa.Parameter); okR && rp.Parent() == fn {
				if pp, okP := core.Strip(pkt).(*ssa.Parameter); okP && pp.Parent() == fn && fn.Parent() == nil && len(p.Callers(fn)) >= 2 {
					idxOf := func(q *ssa.Parameter) int {
						for i, x := range fn.Params {
							if x == q {
								return i
							}
						}
						return -1
					}
					ri, pi := idxOf(rp), idxOf(pp)
					nSites-- // counted per caller below
					for _, cs := range p.Callers(fn) {
						if strings.HasSuffix(p.File(cs.Parent().Pos()), "_test.go") {
							continue
						}
						r0, as := core.CallArgs(cs.Common())
						all := as
						if fn.Signature.Recv() != nil {
							all = append([]ssa.Value{r0}, as...)
						}
						if ri < 0 || pi < 0 || ri >= len(all) || pi >= len(all) {
							continue
						}
						nSites++
						crecv, cpkt := all[ri], all[pi]
						ckey := fmt.Sprintf("outbound-gate:%s:recv=%s", core.FuncName(cs.Parent()), describeFaceValue(crecv))
						res := core.GateDeep(core.RootOf(cs.Parent()), []ssa.Instruction{cs}, core.Lit{A: atomNonLocal(crecv)}, core.Lit{A: atomNonEmptyName(cpkt, nil)}, core.Lit{A: atomLocalhostName(cpkt, nil)})
						if res.OK && res.PerLit[0] > 0 && res.PerLit[2] > 0 {
							c.Ok("R9.1", ckey, c.Pos(cs), fmt.Sprintf("drop gate found at the call of the shared emission helper %s (%d pass edges)", core.FuncName(fn), res.PassEdges))
						} else {
							c.Viol("R9.1", ckey, c.Pos(cs), fmt.Sprintf("the call of the emission helper %s is reachable on a path on which the receiver's scope and the packet name's /localhost component are not both tested with drop polarity (nonlocal atoms matched=%d, localhost atoms matched=%d)", core.FuncName(fn), res.PerLit[0], res.PerLit[2]))
						}
					}
					continue
				}
			}
			nl := atomNonLocal(recv)
			lh := atomLocalhostName(pkt, nil)
			ne := atomNonEmptyName(pkt, nil)
			res := core.GateDeep(root, []ssa.Instruction{ci}, core.Lit{A: nl}, core.Lit{A: ne}, core.Lit{A: lh})
			if res.OK && res.PerLit[0] > 0 && res.PerLit[2] > 0 {
				c.Ok("R9.1", key, c.Pos(ci), fmt.Sprintf("drop gate nonlocal(recv)∧nonempty(name)∧localhost(name) found (%d pass edges); SendPacket unreachable once they are removed", res.PassEdges))
			} else if res.OK {
				c.Viol("R9.1", key, c.Pos(ci), fmt.Sprintf("SendPacket is unreachable without pass edges but the gate is not the specified one (nonlocal atoms=%d, localhost atoms=%d): over-dropping or dead emission site", res.PerLit[0], res.PerLit[2]))
			} else {
				c.Viol("R9.1", key, c.Pos(ci), fmt.Sprintf("a path reaches SendPacket on which the receiver's scope and the packet name's /localhost component are not both tested with drop polarity (nonlocal atoms matched=%d, localhost atoms matched=%d); path: %s", res.PerLit[0], res.PerLit[2], p.PathString(res.Path)))
			}
		}
	}
	c.Floor("R9.1", "SendPacket call sites", nSites, 2)

	// ---- R9.2: inbound pipelines.
	for _, name := range []string{"processIncomingInterest", "processIncomingData"} {
		fn := c.Fn("R9.2", "fw/fw", "Thread", name)
		if fn == nil {
			continue
		}
		pkt := ssa.Value(fn.Params[1])
		// the incoming face: GetFace(*pkt.IncomingFaceID)
		var face ssa.Value
		for _, ci := range core.FindCallsDeep(fn, idGetFace) {
			a := ci.Common().Args[0]
			if u, ok := core.Strip(a).(*ssa.UnOp); ok && u.Op == token.MUL {
				if base, ok := core.FieldOf(u.X, "IncomingFaceID"); ok && core.Same(base, pkt) {
					face = ci.Value()
				}
			}
		}
		if face == nil {
			c.Und("R9.2", "inbound-face:"+name, p.Pos(fn.Pos()), "cannot find GetFace(*packet.IncomingFaceID)")
			continue
		}
		var effects []ssa.Instruction
		core.InstrsDeep(fn, func(in ssa.Instruction) {
			ci, ok := in.(ssa.CallInstruction)
			if !ok {
				return
			}
			id, ok := core.Callee(ci.Common())
			if !ok {
				return
			}
			if id.Pkg == "fw/table" || (id.Pkg == "fw/fw" && id.Recv == "Strategy") || id.Name == "SendPacket" ||
				(id.Pkg == "fw/fw" && (id.Name == "processOutgoingData" || id.Name == "processOutgoingInterest")) {
				if id.Name == "IsProducer" { // read-only region test
					return
				}
				effects = append(effects, in)
			}
		})
		c.Sites += len(effects)
		nl := atomNonLocal(face)
		lh := atomLocalhostName(pkt, nil)
		ne := atomNonEmptyName(pkt, nil)
		res := core.GateDeep(fn, effects, core.Lit{A: nl}, core.Lit{A: ne}, core.Lit{A: lh})
		key := "inbound-gate:" + name
		switch {
		case len(effects) < 4:
			c.Und("R9.2", key, p.Pos(fn.Pos()), fmt.Sprintf("only %d table/strategy effects found in the pipeline (floor 4)", len(effects)))
		case !res.OK:
			c.Viol("R9.2", key, p.Pos(fn.Pos()), fmt.Sprintf("a table/strategy/send effect is reachable without the inbound /localhost×non-local drop test on the incoming face (nonlocal atoms=%d, localhost atoms=%d); path: %s", res.PerLit[0], res.PerLit[2], p.PathString(res.Path)))
		case res.PerLit[0] == 0 || res.PerLit[2] == 0:
			c.Viol("R9.2", key, p.Pos(fn.Pos()), "effects unreachable but the inbound gate lacks an atom (over-dropping)")
		default:
			c.Ok("R9.2", key, p.Pos(fn.Pos()), fmt.Sprintf("%d effects (table, strategy, send) all behind the inbound gate on GetFace(*IncomingFaceID); %d pass edges", len(effects), res.PassEdges))
		}
	}

	// ---- R9.4: the name the gates test is the name of the packet that travels.
	// R9.1/R9.2 accept a gate on pkt.Name, pkt.L3.Interest.NameV or pkt.L3.Data.NameV
	// alike; that is sound only while Pkt.Name is the name of the packet in Pkt.L3.
	c09ScopeNeverUnknown(c)
	c09NameCoherence(c)
	c09RawIsOneElement(c)
	c09ClassifiedAddressIsSet(c)
	c09FallBack(c)

	// ---- R9.3a: sendFrame is only called inside fw/face.
	nFrame := 0
	for _, fn := range p.Funcs() {
		for _, ci := range core.FindCallsDeep(fn, core.CalleeID{Pkg: "fw/face", Recv: "*", Name: "sendFrame"}) {
			nFrame++
			ok := fn.Pkg != nil && fn.Pkg.Pkg.Path() == core.ModPath+"/fw/face"
			c.Decide(ok, "R9.3", "sendFrame-caller:"+core.FuncName(fn), c.Pos(ci), "sendFrame called from the link service", "sendFrame called from outside fw/face: a frame can leave a face without passing the forwarder's scope gates")
		}
	}
	c.Floor("R9.3", "sendFrame call sites", nFrame, 1)

	// ---- R9.3b: who may write transportBase.scope, and with what.
	localOnly := map[string]string{ // frozen: transports that are local by construction
		"fw/face.MakeUnixStreamTransport": "unix-domain socket peer is on this host",
		"fw/face.MakeInternalTransport":   "in-process management face",
	}
	isLoop := &core.Atom{Name: "remote.IsLoopback()", Match: func(cond ssa.Value) (int, int) {
		cl, ok := core.Strip(cond).(*ssa.Call)
		if !ok {
			return 0, 0
		}
		if _, ok := core.IsCall(cl, core.CalleeID{Pkg: "net", Recv: "IP", Name: "IsLoopback"}); ok {
			return 1, -1
		}
		return 0, 0
	}}
	nStores, nMake := 0, 0
	for _, fn := range p.FuncsIn(core.ModPath + "/fw/face") {
		fname := core.FuncName(fn)
		core.Instrs(fn, func(in ssa.Instruction) {
			switch in := in.(type) {
			case *ssa.Store:
				fa, ok := in.Addr.(*ssa.FieldAddr)
				if !ok {
					return
				}
				if t, f := core.FieldAddrName(fa); t != "transportBase" || f != "scope" {
					return
				}
				nStores++
				key := "scope-store:" + fname
				if fn.Name() == "makeTransportBase" {
					_, isParam := in.Val.(*ssa.Parameter)
					c.Decide(isParam, "R9.3", key, c.Pos(in), "stores its scope parameter", "makeTransportBase stores something other than its scope parameter")
					return
				}
				if !(strings.HasPrefix(fn.Name(), "Make") || strings.HasPrefix(fn.Name(), "Accept") || strings.HasPrefix(fn.Name(), "New")) || fn.Parent() != nil {
					c.Viol("R9.3", key, c.Pos(in), "transportBase.scope written outside a transport constructor: a face's scope can change after creation")
					return
				}
				k, isC := scopeConst(in.Val)
				if !isC {
					// computed by a helper of the repository (scopeOfRemote(uri)) or chosen
					// by a phi: the same rule as for the argument of makeTransportBase
					switch core.Strip(in.Val).(type) {
					case *ssa.Call, *ssa.Phi:
						checkScopeArg(c, fn, in, in.Val, key, isLoop, localOnly)
					default:
						c.Viol("R9.3", key, c.Pos(in), "scope stored from a non-constant value")
					}
					return
				}
				key = fmt.Sprintf("%s:=%d", key, k)
				if k == 1 {
					res := core.GateDeep(fn, []ssa.Instruction{in}, core.Lit{A: isLoop, Want: true})
					c.Decide(res.OK && res.PassEdges > 0, "R9.3", key, c.Pos(in), "scope=Local stored only on the IsLoopback() true edge", "scope=Local stored on a path where the remote address was not found to be loopback")
				} else {
					c.Ok("R9.3", key, c.Pos(in), "stores NonLocal/Unknown (never widens trust)")
				}
			case ssa.CallInstruction:
				cc, ok := core.IsCall(in, core.CalleeID{Pkg: "fw/face", Recv: "transportBase", Name: "makeTransportBase"})
				if !ok {
					return
				}
				nMake++
				_, args := core.CallArgs(cc)
				key := "scope-arg:" + fname
				if len(args) < 4 {
					c.Und("R9.3", key, c.Pos(in), "unexpected makeTransportBase signature")
					return
				}
				checkScopeArg(c, fn, in, args[3], key, isLoop, localOnly)
			}
		})
	}
	c.Floor("R9.3", "scope stores", nStores, 1)
	c.Floor("R9.3", "makeTransportBase calls", nMake, 6)
}

func checkScopeArg(c *core.Ctx, fn *ssa.Function, at ssa.Instruction, v ssa.Value, key string, isLoop *core.Atom, localOnly map[string]string) {
	fname := core.FuncName(fn)
	if k, isC := scopeConst(v); isC {
		if k != 1 {
			c.Ok("R9.3", key, c.Pos(at), "constructor passes NonLocal")
			return
		}
		if why, ok := localOnly[fname]; ok {
			c.Ok("R9.3", key, c.Pos(at), "constant Local in a local-only transport ("+why+")")
		} else {
			c.Viol("R9.3", key, c.Pos(at), "constructor of a network transport passes the constant defn.Local")
		}
		return
	}
	if phi, ok := core.Strip(v).(*ssa.Phi); ok {
		allOK := true
		for i, e := range phi.Edges {
			k, isC := scopeConst(e)
			if !isC {
				allOK = false
				continue
			}
			if k == 1 {
				pred := phi.Block().Preds[i]
				facts := core.EdgeFacts(fn, isLoop)
				cut := map[core.Edge]bool{}
				for _, f := range facts {
					if f.Holds {
						cut[f.E] = true
					}
				}
				// the edge pred→phi block carrying Local must only be reachable via IsLoopback()==true
				path := core.ReachAvoiding(fn, fn.Blocks[0], map[*ssa.BasicBlock]bool{pred: true}, cut)
				if path != nil || len(cut) == 0 {
					allOK = false
				}
			}
		}
		c.Decide(allOK, "R9.3", key, c.Pos(at), "scope argument is Local only on the IsLoopback() true edge", "scope argument can be Local on a path where the remote address was not found to be loopback")
		return
	}
	// computed by a function of the repository (remoteScope(uri), uri.Scope()): every
	// return of Local lies behind IsLoopback()==true inside that function
	if cl, ok := core.Strip(v).(*ssa.Call); ok {
		if h := cl.Call.StaticCallee(); h != nil && h.Blocks != nil && h.Pkg != nil && strings.HasPrefix(h.Pkg.Pkg.Path(), core.ModPath) {
			allOK, n := true, 0
			why := ""
			core.Instrs(h, func(in ssa.Instruction) {
				r, isR := in.(*ssa.Return)
				if !isR || len(r.Results) != 1 || in.Block() == h.Recover {
					return
				}
				n++
				k, isC := scopeConst(r.Results[0])
				switch {
				case !isC:
					allOK, why = false, "returns a scope that is not a constant at "+c.P.Pos(r.Pos())
				case k == 1:
					if res := core.Gate(h, []ssa.Instruction{r}, core.Lit{A: isLoop, Want: true}); !res.OK || res.PassEdges == 0 {
						allOK, why = false, "returns Local at "+c.P.Pos(r.Pos())+" on a path where the remote address was not found to be loopback"
					}
				}
			})
			c.Decide(allOK && n > 0, "R9.3", key, c.Pos(at), "scope argument computed by "+core.FuncName(h)+": Local returned only on the IsLoopback() true edge", "scope argument computed by "+core.FuncName(h)+", which "+why)
			return
		}
	}
	c.Viol("R9.3", key, c.Pos(at), "scope argument is neither a constant nor a choice of constants")
}

// describeFaceValue gives a stable, line-free description of how a face value is obtained.
func describeFaceValue(v ssa.Value) string {
	if v == nil {
		return "?"
	}
	v = core.Strip(v)
	if cl, ok := v.(*ssa.Call); ok {
		if _, ok := core.IsCall(cl, idGetFace); ok && len(cl.Call.Args) == 1 {
			return "GetFace(" + describeValue(cl.Call.Args[0]) + ")"
		}
		if id, ok := core.Callee(&cl.Call); ok {
			return id.Name + "()"
		}
	}
	return describeValue(v)
}

func describeValue(v ssa.Value) string {
	v = core.Strip(v)
	switch x := v.(type) {
	case *ssa.Parameter:
		return x.Name()
	case *ssa.UnOp:
		if x.Op == token.MUL {
			root, path := core.FieldPath(x)
			if len(path) > 0 {
				return describeValue(root) + "." + strings.Join(path, ".")
			}
			return "*" + describeValue(x.X)
		}
	case *ssa.Const:
		return x.String()
	case *ssa.Phi:
		return "phi"
	case *ssa.Extract:
		return fmt.Sprintf("extract#%d", x.Index)
	case *ssa.Call:
		if id, ok := core.Callee(&x.Call); ok {
			return id.Name + "()"
		}
	}
	return "<" + v.Type().String() + ">"
}

// c09NameCoherence (R9.4): (a) whenever the layer-3 packet of a defn.Pkt is (re)placed —
// a store to Pkt.L3, or of a non-nil value to Pkt.L3.Data / Pkt.L3.Interest — every later
// hand-over of that Pkt to code outside the function group passes, in between, a store of
// that packet's NameV into Pkt.Name; (b) Pkt.Name is only ever stored from the NameV of
// the same Pkt's layer-3 packet.
func c09NameCoherence(c *core.Ctx) {
	p := c.P
	type l3store struct {
		st   *ssa.Store
		pkt  ssa.Value // the *defn.Pkt
		kind string    // "L3", "Data", "Interest"
	}
	isPktField := func(fa *ssa.FieldAddr, field string) bool {
		t, f := core.FieldAddrName(fa)
		return t == "Pkt" && f == field && strings.HasSuffix(core.TypePkgPath(fa.X.Type()), "/fw/defn")
	}
	var l3s []l3store
	var names []*ssa.Store
	for _, fn := range p.Funcs() {
		if fn.Pkg == nil || !strings.HasPrefix(fn.Pkg.Pkg.Path(), core.ModPath+"/fw") {
			continue
		}
		core.Instrs(fn, func(in ssa.Instruction) {
			st, ok := in.(*ssa.Store)
			if !ok {
				return
			}
			fa, ok := st.Addr.(*ssa.FieldAddr)
			if !ok {
				return
			}
			switch {
			case isPktField(fa, "L3"):
				l3s = append(l3s, l3store{st, fa.X, "L3"})
			case isPktField(fa, "Name"):
				names = append(names, st)
			default:
				t, f := core.FieldAddrName(fa)
				if t != "Packet" || (f != "Data" && f != "Interest") || core.IsNilConst(st.Val) {
					return
				}
				if base, ok := core.FieldOf(fa.X, "L3"); ok {
					if bfa, isFA := core.Strip(fa.X).(*ssa.UnOp); isFA {
						if a, isA := bfa.X.(*ssa.FieldAddr); isA && isPktField(a, "L3") {
							l3s = append(l3s, l3store{st, base, f})
						}
					}
				}
			}
		})
	}
	// the value stored into Pkt.Name is <that pkt>.L3.{Interest,Data}.NameV, or the NameV
	// of the value a given store put there
	nameOf := func(v ssa.Value, pkt ssa.Value, from *l3store) bool {
		if root, path := core.FieldPath(v); root != nil && len(path) == 3 && core.Same(root, pkt) &&
			path[0] == "L3" && (path[1] == "Interest" || path[1] == "Data") && path[2] == "NameV" {
			return from == nil || from.kind == "L3" || from.kind == path[1]
		}
		base, ok := core.FieldOf(v, "NameV")
		if !ok || from == nil {
			return false
		}
		if from.kind != "L3" {
			return core.Same(base, from.st.Val)
		}
		for _, k := range []string{"Interest", "Data"} {
			if b2, ok := core.FieldOf(base, k); ok && core.Same(b2, from.st.Val) {
				return true
			}
		}
		return false
	}
	nA := 0
	for i := range l3s {
		s := &l3s[i]
		fn := s.st.Parent()
		root := core.RootOf(fn)
		restore := core.WithRoot(root)
		set := map[*ssa.Function]bool{}
		for _, g := range core.Reach(root) {
			set[g] = true
		}
		isName := func(in ssa.Instruction) bool {
			st, ok := in.(*ssa.Store)
			if !ok {
				return false
			}
			fa, ok := st.Addr.(*ssa.FieldAddr)
			return ok && isPktField(fa, "Name") && core.Same(fa.X, s.pkt) && nameOf(st.Val, s.pkt, s)
		}
		var hand []ssa.Instruction
		core.InstrsDeep(root, func(in ssa.Instruction) {
			switch x := in.(type) {
			case ssa.CallInstruction:
				if cal := x.Common().StaticCallee(); cal != nil && set[cal] {
					return // its body is part of the group
				}
				for _, a := range x.Common().Args {
					if core.Same(a, s.pkt) {
						hand = append(hand, in)
						return
					}
				}
			case *ssa.Send:
				if core.Same(x.X, s.pkt) {
					hand = append(hand, in)
				}
			}
		})
		bad := ""
		n := 0
		for _, h := range hand {
			if !core.ReachableAfterDeep(root, s.st, h) {
				continue
			}
			n++
			if !core.BetweenDeep(root, s.st, h, isName) {
				bad = p.Pos(h.Pos())
				break
			}
		}
		restore()
		nA++
		c.Sites += n
		c.Funcs[core.FuncName(fn)] = true
		key := fmt.Sprintf("l3-store-then-name:%s:%s", core.FuncName(root), s.kind)
		c.Decide(bad == "", "R9.4", key, c.Pos(s.st),
			fmt.Sprintf("Pkt.%s replaced; each of the %d later hand-overs of the Pkt passes a store Pkt.Name = <that packet>.NameV first", s.kind, n),
			"the layer-3 packet of a Pkt is replaced and the Pkt is handed on at "+bad+" without Pkt.Name being set to the new packet's name: the /localhost gates that read Pkt.Name test a different name than the packet sent")
	}
	c.Floor("R9.4", "stores that replace a Pkt's layer-3 packet", nA, 2)
	for _, st := range names {
		fa := st.Addr.(*ssa.FieldAddr)
		fn := st.Parent()
		root := core.RootOf(fn)
		restore := core.WithRoot(root)
		ok := nameOf(st.Val, fa.X, nil)
		if !ok {
			for i := range l3s {
				s := &l3s[i]
				if core.Same(s.pkt, fa.X) && nameOf(st.Val, fa.X, s) && core.ReachableAfterDeep(root, s.st, st) {
					ok = true
				}
			}
		}
		restore()
		c.Funcs[core.FuncName(fn)] = true
		c.Decide(ok, "R9.4", "name-store:"+core.FuncName(fn), c.Pos(st), "Pkt.Name stored from the NameV of the same Pkt's layer-3 packet", "Pkt.Name is stored from something other than the name of the Pkt's own layer-3 packet")
	}
	c.Floor("R9.4", "stores to Pkt.Name", len(names), 2)
}

// c09RawIsOneElement (R9.5): the bytes that travel are the bytes that were checked. The
// gates test the name of the ONE packet the decoder returned, while every send transmits
// Pkt.Raw as it is; spec.ReadPacket reads every top-level element of its buffer into one
// Packet (the last of each kind wins). So a buffer may become Pkt.Raw only behind a test
// that it consists of exactly one TLV element: a predicate over that buffer (or over the
// buffer it was copied from) which reads a type and a length number and compares the
// length with what remains.
func c09RawIsOneElement(c *core.Ctx) {
	p := c.P
	n := 0
	for _, fn := range p.FuncsIn(core.ModPath + "/fw/face") {
		if strings.HasSuffix(p.File(fn.Pos()), "_test.go") {
			continue
		}
		core.Instrs(fn, func(in ssa.Instruction) {
			_, v, ok := storeToField(in, "Pkt", "Raw")
			if !ok || core.IsNilConst(v) {
				return
			}
			n++
			c.Funcs[core.FuncName(fn)] = true
			buf := core.Strip(v)
			// the buffer, or the one it was copied from
			same := func(x ssa.Value) bool {
				x = core.Strip(x)
				if x == buf || core.Same(x, buf) {
					return true
				}
				okCopy := false
				core.Instrs(fn, func(y ssa.Instruction) {
					if cl, isC := isBuiltinCall(y, "copy"); isC && len(cl.Call.Args) == 2 {
						if core.Strip(cl.Call.Args[0]) == buf && (core.Strip(cl.Call.Args[1]) == x || core.Same(cl.Call.Args[1], x)) {
							okCopy = true
						}
					}
				})
				return okCopy
			}
			single := &core.Atom{Name: "buffer is exactly one TLV element", Match: func(cond ssa.Value) (int, int) {
				cl, ok := core.Strip(cond).(*ssa.Call)
				if !ok {
					return 0, 0
				}
				h := cl.Call.StaticCallee()
				if h == nil || h.Blocks == nil || len(cl.Call.Args) != 1 || !same(cl.Call.Args[0]) {
					return 0, 0
				}
				nRead, cmp := 0, false
				core.Instrs(h, func(y ssa.Instruction) {
					if ci, isCI := y.(ssa.CallInstruction); isCI {
						if id, okID := core.Callee(ci.Common()); okID && id.Name == "ReadTLNum" {
							nRead++
						}
					}
					if b, isB := y.(*ssa.BinOp); isB && (b.Op == token.EQL || b.Op == token.NEQ) {
						// length read == something derived from a Length()/Pos()/len
						for _, side := range [][2]ssa.Value{{b.X, b.Y}, {b.Y, b.X}} {
							// (component 0 is the number; component 1 is the error, and
							// `err != nil` is not the comparison meant here)
							if e, isE := core.StripConv(side[0]).(*ssa.Extract); isE && e.Index == 0 && isCallTo(e.Tuple, core.CalleeID{Pkg: "std/encoding", Name: "ReadTLNum"}) && !core.IsNilConst(side[1]) {
								cmp = true
							}
						}
					}
				})
				if nRead >= 2 && cmp {
					return 1, -1
				}
				return 0, 0
			}}
			g := core.GateDeep(fn, []ssa.Instruction{in}, pos(single))
			c.Decide(g.OK && g.PassEdges > 0, "R9.5", fmt.Sprintf("raw-is-exactly-one-element:%s#%d", core.FuncName(fn), n), c.Pos(in), "the buffer becomes Pkt.Raw only behind a test that it is exactly one TLV element", core.FuncName(fn)+" keeps a received buffer as Pkt.Raw without having established that it holds exactly one TLV element: the decoder reads all elements of the buffer into one packet, the scope gates look at one name, and every send transmits the whole buffer — Data(/localhost/x) || Data(/pub/y) from a local producer leaves on a non-local face, and Data(/localhost/…) || Interest(/app) from a non-local face reaches local applications")
		})
	}
	c.Floor("R9.5", "stores of a received buffer into Pkt.Raw", n, 2)
}

// c09ClassifiedAddressIsSet (R9.3b): the address a constructor classifies with IsLoopback()
// is one it HAS: a parameter, the result of a call, or a field of the object under
// construction that was stored before the test. A field that is only assigned later in the
// constructor is still nil at the test — IsLoopback() of a nil IP is false, so every face
// of that transport (also to 127.0.0.1) becomes non-local and the /localhost exchanges of
// local applications with the forwarder are dropped ("local faces are unaffected").
func c09ClassifiedAddressIsSet(c *core.Ctx) {
	p := c.P
	n := 0
	for _, fn := range p.FuncsIn(core.ModPath + "/fw/face") {
		if strings.HasSuffix(p.File(fn.Pos()), "_test.go") {
			continue
		}
		core.Instrs(fn, func(in ssa.Instruction) {
			cl, ok := in.(*ssa.Call)
			if !ok {
				return
			}
			if _, isL := core.IsCall(cl, core.CalleeID{Pkg: "net", Recv: "IP", Name: "IsLoopback"}); !isL {
				return
			}
			n++
			recv, _ := core.CallArgs(&cl.Call)
			root, path := core.FieldPath(recv)
			if len(path) == 0 {
				c.Ok("R9.3", fmt.Sprintf("classified-address-is-set:%s#%d", core.FuncName(fn), n), c.Pos(in), "the classified address is a local value (parameter, call result)")
				return
			}
			// a field: of the object under construction?
			fresh := false
			switch r := core.Strip(root).(type) {
			case *ssa.Alloc:
				fresh = true
			case *ssa.Call:
				if b, isB := r.Call.Value.(*ssa.Builtin); isB && b.Name() == "new" {
					fresh = true
				}
			}
			if !fresh {
				c.Ok("R9.3", fmt.Sprintf("classified-address-is-set:%s#%d", core.FuncName(fn), n), c.Pos(in), "the classified address is a field of an existing object")
				return
			}
			// the first field of the path must have been stored before the test
			first := path[0]
			stored := core.Precedes(fn, in, func(x ssa.Instruction) bool {
				st, ok := x.(*ssa.Store)
				if !ok {
					return false
				}
				fa, ok := st.Addr.(*ssa.FieldAddr)
				if !ok {
					return false
				}
				_, fld := core.FieldAddrName(fa)
				return fld == first && (core.Strip(fa.X) == core.Strip(root) || core.Same(fa.X, root))
			})
			c.Decide(stored, "R9.3", fmt.Sprintf("classified-address-is-set:%s#%d", core.FuncName(fn), n), c.Pos(in), "the classified field was stored before the test", core.FuncName(fn)+" classifies the field "+strings.Join(path, ".")+" of the object it is constructing with IsLoopback() before that field is assigned: the address is still nil, IsLoopback() is false, and every face made by this constructor — also one to the loopback address — becomes non-local, so a local application attached that way has its /localhost exchanges with the forwarder dropped")
		})
	}
	c.Floor("R9.3", "IsLoopback classifications in fw/face", n, 1) // the constructors may share one classifying helper
	// ---- R9.7 a face id names one face for the life of the process. Packets queued for the
	// forwarding threads carry the id of their arrival face and are classified (local /
	// non-local) when they are processed: if the id of a removed non-local face is handed out
	// again, its queued /localhost packets are attributed to the new — possibly local —
	// face. The id counter of the face table only grows: outside the package's init it is
	// only read or advanced by a positive constant.
	{
		nUse := 0
		for _, fn := range p.FuncsIn(core.ModPath + "/fw/face") {
			if strings.HasSuffix(p.File(fn.Pos()), "_test.go") {
				continue
			}
			core.Instrs(fn, func(in ssa.Instruction) {
				ci, ok := in.(ssa.CallInstruction)
				if !ok || len(ci.Common().Args) == 0 {
					return
				}
				cal := ci.Common().StaticCallee()
				if cal == nil || cal.Pkg == nil || cal.Pkg.Pkg.Path() != "sync/atomic" {
					return
				}
				fa, isFA := ci.Common().Args[0].(*ssa.FieldAddr)
				if !isFA {
					return
				}
				tn, fld := core.FieldAddrName(fa)
				if tn != "Table" || !strings.Contains(strings.ToLower(fld), "faceid") {
					return
				}
				nUse++
				okUse := false
				switch cal.Name() {
				case "Load":
					okUse = true
				case "Add":
					if k, isC := core.ConstInt(ci.Common().Args[1]); isC && k > 0 {
						okUse = true
					}
				case "Store":
					okUse = fn.Name() == "init" || strings.HasPrefix(fn.Name(), "init#")
				}
				c.Decide(okUse, "R9.7", fmt.Sprintf("face-id-never-reused:%s:%s", core.FuncName(fn), cal.Name()), c.Pos(in), "the face id counter is read or advanced", core.FuncName(fn)+" rewrites the face id counter ("+cal.Name()+"): an id that was handed out can be handed out again, and packets still queued with the id of the removed face — /localhost Data from a non-local face among them — are attributed to the face that got the id next, classified by ITS scope, cached and served to local applications")
			})
		}
		c.Floor("R9.7", "uses of the face id counter", nUse, 2)
	}
	// ---- R9.6 the management thread owns no FIB entry behind the RIB's back. The RIB rewrites
	// the whole FIB entry of every name it has a route for (SetNextHopsEnc / ClearNextHopsEnc
	// in RibEntry.updateNexthopsEnc): a next hop that the management thread writes into the
	// FIB directly for /localhost/nfd is replaced by the first rib/register of that name and
	// cleared by the unregister — with a non-local face registered, every management Interest
	// of a local application then dies at the /localhost scope check although the internal
	// face is alive. So: if the RIB rewrites whole entries, the start-up of the management
	// thread installs its prefixes as routes (Rib.AddEncRoute), never with a FIB mutator.
	{
		fibMut := []core.CalleeID{
			{Pkg: "fw/table", Recv: "FibStrategy", Name: "InsertNextHopEnc"},
			{Pkg: "fw/table", Recv: "FibStrategy", Name: "SetNextHopsEnc"},
		}
		up := c.Fn("R9.6", "fw/table", "RibEntry", "updateNexthopsEnc")
		run := c.Fn("R9.6", "fw/mgmt", "Thread", "Run")
		if up != nil && run != nil {
			whole := core.FindCallsDeep(up, core.CalleeID{Pkg: "fw/table", Recv: "FibStrategy", Name: "SetNextHopsEnc"}, core.CalleeID{Pkg: "fw/table", Recv: "FibStrategy", Name: "ClearNextHopsEnc"})
			direct := core.FindCallsDeep(run, fibMut...)
			routes := core.FindCallsDeep(run, core.CalleeID{Pkg: "fw/table", Recv: "RibTable", Name: "AddEncRoute"})
			switch {
			case len(whole) == 0:
				c.Ok("R9.6", "management-prefix-is-a-route", p.Pos(run.Pos()), "the RIB does not rewrite whole FIB entries: a directly installed next hop is not disturbed by route changes")
			case len(direct) > 0:
				c.Viol("R9.6", "management-prefix-is-a-route", c.Pos(direct[0]), "the management thread writes the next hop to its internal face straight into the FIB while the RIB rewrites whole FIB entries: rib/register of /localhost/nfd (or of a longer prefix) on a non-local face replaces it, and every management Interest of a local application is then dropped by the /localhost scope check")
			default:
				c.Decide(len(routes) > 0, "R9.6", "management-prefix-is-a-route", p.Pos(run.Pos()), fmt.Sprintf("the management prefixes are installed as %d RIB route(s)", len(routes)), "the management thread installs no route for its own prefixes at start-up: /localhost exchanges between local applications and the forwarder cannot work")
			}
		}
	}
}

// c09ScopeNeverUnknown — R9.9 (conditional on how the gates are written). The pipelines
// recognise a non-local face by Scope() == NonLocal (or != NonLocal): a face whose scope is
// the third value, defn.Unknown, passes every /localhost gate like a local one. While every
// scope test of the forwarder compares with NonLocal, no transport constructor stores (and
// no helper it takes the scope from returns) defn.Unknown: a remote address that the
// classification cannot parse (an IPv6 link-local address with a zone) must come out
// non-local, not unknown. If the gates compared with Local instead, Unknown would be on
// the safe side and the rule does not apply.
func c09ScopeNeverUnknown(c *core.Ctx) {
	p := c.P
	// how do the gates compare?
	nNonLocal, nLocal := 0, 0
	for _, pk := range []string{"/fw/fw", "/fw/mgmt", "/fw/face", "/fw/table"} {
		for _, fn := range p.FuncsIn(core.ModPath + pk) {
			if strings.HasSuffix(p.File(fn.Pos()), "_test.go") {
				continue
			}
			core.Instrs(fn, func(in ssa.Instruction) {
				b, ok := in.(*ssa.BinOp)
				if !ok || (b.Op != token.EQL && b.Op != token.NEQ) {
					return
				}
				for _, pr := range [][2]ssa.Value{{b.X, b.Y}, {b.Y, b.X}} {
					k, isC := scopeConst(pr[1])
					if !isC {
						continue
					}
					if cl, isCall := core.Strip(pr[0]).(*ssa.Call); isCall {
						if id, okID := core.Callee(&cl.Call); okID && id.Name == "Scope" {
							if k == 0 {
								nNonLocal++
							} else if k == 1 {
								nLocal++
							}
						}
					}
				}
			})
		}
	}
	c.Floor("R9.9", "scope tests of the forwarder (Scope() compared with a constant)", nNonLocal+nLocal, 3)
	if nNonLocal == 0 {
		c.Ok("R9.9", "stored-scope-is-never-unknown", "-", "the gates compare with Local: an unknown scope is treated as non-local")
		return
	}
	// every constant that can become a transport's scope
	bad := ""
	nSrc := 0
	var consts func(v ssa.Value, d int)
	consts = func(v ssa.Value, d int) {
		if d > 4 {
			return
		}
		if k, isC := scopeConst(v); isC {
			nSrc++
			if k == -1 {
				bad = c.Pos(firstInstr(v))
			}
			return
		}
		switch x := core.Strip(v).(type) {
		case *ssa.Phi:
			for _, e := range x.Edges {
				consts(e, d+1)
			}
		case *ssa.Call:
			if h := x.Call.StaticCallee(); h != nil && h.Blocks != nil && h.Pkg != nil && strings.HasPrefix(h.Pkg.Pkg.Path(), core.ModPath) {
				core.Instrs(h, func(in ssa.Instruction) {
					if r, isR := in.(*ssa.Return); isR && len(r.Results) == 1 && in.Block() != h.Recover {
						if k, isC := scopeConst(r.Results[0]); isC {
							nSrc++
							if k == -1 {
								bad = c.Pos(r)
							}
						} else {
							consts(r.Results[0], d+1)
						}
					}
				})
			}
		}
	}
	for _, fn := range p.FuncsIn(core.ModPath + "/fw/face") {
		if strings.HasSuffix(p.File(fn.Pos()), "_test.go") {
			continue
		}
		core.Instrs(fn, func(in ssa.Instruction) {
			switch in := in.(type) {
			case *ssa.Store:
				if fa, ok := in.Addr.(*ssa.FieldAddr); ok {
					if t, f := core.FieldAddrName(fa); t == "transportBase" && f == "scope" && fn.Name() != "makeTransportBase" {
						if k, isC := scopeConst(in.Val); isC {
							nSrc++
							if k == -1 {
								bad = c.Pos(in)
							}
						} else {
							consts(in.Val, 0)
						}
					}
				}
			case ssa.CallInstruction:
				if cc, ok := core.IsCall(in, core.CalleeID{Pkg: "fw/face", Recv: "transportBase", Name: "makeTransportBase"}); ok {
					if _, args := core.CallArgs(cc); len(args) >= 4 {
						if k, isC := scopeConst(args[3]); isC {
							nSrc++
							if k == -1 {
								bad = c.Pos(in)
							}
						} else {
							consts(args[3], 0)
						}
					}
				}
			}
		})
	}
	c.Decide(bad == "", "R9.9", "stored-scope-is-never-unknown", "-", fmt.Sprintf("%d constants can become a transport's scope, none is Unknown (the gates compare with NonLocal %d times)", nSrc, nNonLocal), "a transport's scope can be defn.Unknown (at "+bad+") while the /localhost gates recognise a non-local face by Scope() == NonLocal: a face whose remote address the classification cannot parse (an IPv6 link-local address with a zone) is treated like a local application — /localhost Interests and Data are accepted from it and sent to it")
	c.Floor("R9.9", "constants that can become a transport's scope", nSrc, 6)
}

func firstInstr(v ssa.Value) ssa.Instruction {
	if in, ok := v.(ssa.Instruction); ok {
		return in
	}
	if v.Referrers() != nil && len(*v.Referrers()) > 0 {
		return (*v.Referrers())[0]
	}
	return nil
}
