package props

import (
	"fmt"
	"strings"

	"ndndcheck/core"

	"golang.org/x/tools/go/ssa"
)

// c09FallBack — R9.8 "/localhost exchanges … always work (whatever the FIB says, e.g. a
// route under /localhost towards a non-local face)": a strategy that stops at the first next
// hop it has sent to stops only when the Interest was in fact sent. SendInterest refuses a
// next hop the /localhost scope forbids (and the face the Interest came from) and says so in
// its result; a strategy that leaves its next-hop loop after a send whatever the result
// drops a /localhost Interest whenever a non-local next hop sorts first, although a local
// one follows. For every SendInterest call inside a loop of a strategy's
// AfterReceiveInterest: the function is left from inside the loop body only on the edge on
// which the result is true.
func c09FallBack(c *core.Ctx) {
	p := c.P
	n := 0
	var fns []*ssa.Function
	for _, root := range p.FuncsIn(core.ModPath + "/fw/fw") {
		if root.Name() != "AfterReceiveInterest" || root.Blocks == nil || strings.HasSuffix(p.File(root.Pos()), "_test.go") {
			continue
		}
		// the loop may sit in a private worker of the callback (forwardToBestNexthop)
		for _, g := range core.Reach(root) {
			if g.Blocks != nil && g.Pkg == root.Pkg {
				fns = append(fns, g)
			}
		}
	}
	for _, fn := range fns {
		fn := fn
		core.Instrs(fn, func(in ssa.Instruction) {
			cs, ok := in.(*ssa.Call)
			if !ok {
				return
			}
			cal := cs.Call.StaticCallee()
			if cal == nil || cal.Name() != "SendInterest" {
				return
			}
			// headers of the loops around the call: blocks on a cycle that dominate its block
			// (a body that ends in `return` is not itself on a cycle)
			headers := map[*ssa.BasicBlock]bool{}
			for _, h := range fn.Blocks {
				if h != cs.Block() && h.Dominates(cs.Block()) && core.InLoop(h) {
					headers[h] = true
				}
			}
			if len(headers) == 0 {
				return
			}
			n++
			sent := &core.Atom{Name: "sent", Match: func(cond ssa.Value) (int, int) {
				if core.Strip(cond) == ssa.Value(cs) {
					return core.Iff(true)
				}
				if x, ok := core.StripNot(cond); ok && core.Strip(x) == ssa.Value(cs) {
					return core.Iff(false)
				}
				return 0, 0
			}}
			cut, _ := core.CutEdges(fn, core.Lit{A: sent, Want: true})
			for _, b := range fn.Blocks {
				for _, s := range b.Succs {
					if headers[s] {
						cut[core.Edge{From: b, To: s}] = true
					}
				}
			}
			bad := ""
			for _, b := range fn.Blocks {
				if len(b.Instrs) == 0 {
					continue
				}
				ret, ok := b.Instrs[len(b.Instrs)-1].(*ssa.Return)
				if !ok {
					continue
				}
				if path := core.ReachInstrFrom(core.After(cs), ret, cut, nil); path != nil {
					bad = fmt.Sprintf("the return at %s is reached from the send without a test of its result (path %s)", c.Pos(ret), p.PathString(path))
				}
			}
			c.Decide(bad == "", "R9.8", "strategy-falls-back-when-a-next-hop-is-refused:"+core.FuncName(fn), c.Pos(cs), "the strategy leaves its next-hop loop after a send only when SendInterest reported that the Interest was sent", core.FuncName(fn)+" stops at the first next hop it tried: "+bad+". SendInterest refuses a non-local next hop for a /localhost name (and the incoming face); with such a next hop sorting first (lower cost) the Interest is dropped although a local next hop follows — a /localhost exchange between a local application and a local producer fails because of what the FIB says")
		})
	}
	c.Floor("R9.8", "SendInterest calls inside next-hop loops of strategies", n, 2)
}
