package props

import (
	"fmt"
	"go/token"
	"go/types"
	"sort"
	"strings"

	"ndndcheck/core"

	"golang.org/x/tools/go/ssa"
)

// tlSize is the encoded size of a TLV type or length number.
func tlSize(x int64) int64 {
	switch {
	case x <= 0xfc:
		return 1
	case x <= 0xffff:
		return 3
	case x <= 0xffffffff:
		return 5
	}
	return 9
}

// atomPresent: "value v is present": v != nil, len(v) > 0 and their negations.
func atomPresent(name string, v ssa.Value) *core.Atom {
	return &core.Atom{Name: name, Match: func(cond ssa.Value) (int, int) {
		op, x, y, ok := core.Cmp(cond)
		if !ok {
			return 0, 0
		}
		if core.IsNilConst(y) && core.Same(x, v) {
			switch op {
			case token.NEQ:
				return 1, -1
			case token.EQL:
				return -1, 1
			}
			return 0, 0
		}
		if l, isLen := core.LenOf(x); isLen && core.Same(l, v) {
			if k, isC := core.ConstInt(y); isC {
				switch {
				case (op == token.GTR && k == 0) || (op == token.NEQ && k == 0) || (op == token.GEQ && k == 1):
					return 1, -1
				case (op == token.EQL && k == 0) || (op == token.LEQ && k == 0) || (op == token.LSS && k == 1):
					return -1, 1
				}
			}
		}
		return 0, 0
	}}
}

// C10 — Link-layer fragmentation and reassembly reproduce every packet exactly.
func C10(c *core.Ctx) {
	c.Explain = "The size arithmetic over all packet sizes and MTUs, and byte-exact reproduction under every interleaving, are numeric/behavioural and NOT decided. Decided structural necessary conditions: (R10.1 protocol-field agreement) every LpPacket field the receive path reads to reassemble and deliver (Sequence, FragIndex, FragCount, Fragment, PitToken, CongestionMark) is stored by the send path, the three fragmentation fields only when more than one fragment is produced and on every fragment; frozen exceptions NextHopFaceId and CachePolicy (set by applications, not by the forwarder); (R10.2 reserve/attach agreement) an optional header is attached to a fragment only on paths on which its overhead was subtracted from the MTU — decided by reachability that is path-sensitive in the presence predicate of the attached value; the overhead constants cover the TLV sizes implied by the definition tags, including the Fragment element's own type and length; (R10.3) an oversize packet with fragmentation disabled reaches no sendFrame; every transport sendFrame that writes drops frames longer than MTU() first (siblings; NullTransport writes nothing); a completed message is removed from the partial-message store; (R10.5) reassembly key, slot and slot count are Sequence−FragIndex, FragIndex and FragCount, FragIndex is bounded by the count before it indexes, and the sender numbers consecutive fragments consecutively."
	c.RuleText = "instances: LpPacket fields read on receive vs written on send, optional headers with an overhead constant, the additive terms of computeHeaderOverhead, transport implementations (discovered through the type checker), reassembly call arguments. Non-trivial = has a field set, path or constant sum to decide."
	p := c.P
	defer c10FrameBuffer(c)
	defer c10ReassemblyKey(c)
	defer c10OverheadFresh(c)
	defer c10RemovalOnlyWhenDone(c)
	c10InitialFrameSynchronous(c)
	defer c10HeadersOnEveryFragment(c)
	// fields of the link service by role, not by name: the reassembly store is the map
	// field whose values are fragment lists ([][]byte); the cached overhead is the int
	// field that the overhead function assigns
	reasmField, ovhField := "partialMessageStore", "headerOverhead"
	if ls := p.Named("fw/face", "NDNLPLinkService"); ls != nil {
		if st, ok := ls.Underlying().(*types.Struct); ok {
			var maps []string
			for i := 0; i < st.NumFields(); i++ {
				if m, ok := st.Field(i).Type().Underlying().(*types.Map); ok {
					if s1, ok := m.Elem().Underlying().(*types.Slice); ok {
						if s2, ok := s1.Elem().Underlying().(*types.Slice); ok {
							if b, ok := s2.Elem().Underlying().(*types.Basic); ok && b.Kind() == types.Uint8 {
								maps = append(maps, core.CanonField(st, i))
							}
						}
					}
				}
			}
			if len(maps) == 1 {
				reasmField = maps[0]
			}
		}
	}
	if ch := p.Func("fw/face", "NDNLPLinkService", "computeHeaderOverhead"); ch != nil && ch.Blocks != nil {
		cnt := map[string]int{}
		core.Instrs(ch, func(in ssa.Instruction) {
			if st, ok := in.(*ssa.Store); ok {
				if fa, ok := st.Addr.(*ssa.FieldAddr); ok && core.Same(fa.X, ch.Params[0]) {
					if b, ok := core.Deref(fa.Type()).Underlying().(*types.Basic); ok && b.Info()&types.IsInteger != 0 {
						_, f := core.FieldAddrName(fa)
						cnt[f]++
					}
				}
			}
		})
		if len(cnt) == 1 {
			for f := range cnt {
				ovhField = f
			}
		}
	}
	// ---- R10.4 (shared with C17 R17.3)
	c.Import(C17, "R10.4", "the MTU set by management has no lower bound: an effective MTU <= 0 makes the fragment count a division by zero / negative", 1, func(k string) bool { return strings.HasPrefix(k, "R17.3:mtu-lower-bound") })
	send := c.Fn("R10.1", "fw/face", "", "sendPacket")
	recv := c.Fn("R10.1", "fw/face", "NDNLPLinkService", "handleIncomingFrame")
	reas := c.Fn("R10.1", "fw/face", "NDNLPLinkService", "reassemblePacket")
	if send == nil || recv == nil || reas == nil {
		return
	}

	// ---- R10.1
	read := map[string]bool{}
	for _, fn := range []*ssa.Function{recv, reas} {
		core.Instrs(fn, func(in ssa.Instruction) {
			if fa, ok := in.(*ssa.FieldAddr); ok {
				if t, f := core.FieldAddrName(fa); t == "LpPacket" {
					read[f] = true
				}
			}
		})
	}
	written := map[string][]ssa.Instruction{}
	core.Instrs(send, func(in ssa.Instruction) {
		if st, ok := in.(*ssa.Store); ok {
			if fa, ok := st.Addr.(*ssa.FieldAddr); ok {
				if t, f := core.FieldAddrName(fa); t == "LpPacket" {
					written[f] = append(written[f], in)
				}
			}
		}
	})
	exceptions := map[string]string{"NextHopFaceId": "consumer-chosen next hop: set by applications towards the forwarder, never by the forwarder", "CachePolicy": "local cache policy: set by applications"}
	var fields []string
	for f := range read {
		fields = append(fields, f)
	}
	sort.Strings(fields)
	c.Floor("R10.1", "LpPacket fields read by the receive path", len(fields), 6)
	for _, f := range fields {
		if why, ok := exceptions[f]; ok {
			c.Ok("R10.1", "field-written-by-sender:"+f, "-", "frozen exception: "+why)
			continue
		}
		c.Decide(len(written[f]) > 0, "R10.1", "field-written-by-sender:"+f, p.Pos(send.Pos()), "sendPacket stores LpPacket."+f, "the receiving link service reads LpPacket."+f+" but sendPacket never sets it: a peer cannot reassemble / deliver what this forwarder sends")
	}
	// fragmentation fields: only when >1 fragments, and on every fragment
	multi := &core.Atom{Name: "len(fragments)>1", Match: func(cond ssa.Value) (int, int) {
		op, x, y, ok := core.Cmp(cond)
		if !ok {
			return 0, 0
		}
		if _, isLen := core.LenOf(x); !isLen {
			return 0, 0
		}
		k, isC := core.ConstInt(y)
		if !isC {
			return 0, 0
		}
		switch {
		case op == token.GTR && k == 1, op == token.GEQ && k == 2:
			return 1, -1
		case op == token.LEQ && k == 1, op == token.LSS && k == 2:
			return -1, 1
		}
		return 0, 0
	}}
	for _, f := range []string{"Sequence", "FragIndex", "FragCount"} {
		for i, st := range written[f] {
			g := core.GateDeep(send, []ssa.Instruction{st}, pos(multi))
			h := loopHeader(st.Block())
			okEvery := h != nil && everyIterationPasses(send, h, func(in ssa.Instruction) bool { return in == st })
			c.Decide(g.OK && g.PassEdges > 0 && okEvery, "R10.1", fmt.Sprintf("fragment-field-on-every-fragment:%s#%d", f, i), c.Pos(st), f+" is set on every fragment, and only when the packet was split", "LpPacket."+f+" is not set on every fragment of a split packet (or is set on unfragmented packets)")
		}
	}
	// FragIndex = loop index, FragCount = len(fragments), Sequence consecutive
	sl := &core.Slicer{P: p, Through: func(cl *ssa.Call) []int {
		if id, ok := core.Callee(&cl.Call); ok && id.Name == "IdPtr" {
			return []int{0}
		}
		return nil
	}}
	for _, st := range written["FragCount"] {
		ls := sl.Leaves(st.(*ssa.Store).Val)
		ok := len(ls) > 0
		for _, l := range ls {
			if !(l.Kind == "call" && strings.HasSuffix(l.Desc(), "builtin.len")) {
				ok = false
			}
		}
		c.Decide(ok, "R10.5", "fragcount-is-number-of-fragments", c.Pos(st), "FragCount = len(fragments)", "FragCount is not the number of fragments produced: "+core.LeafSet(ls))
	}
	for _, st := range written["FragIndex"] {
		v := core.StripConv(st.(*ssa.Store).Val)
		if cl, ok := v.(*ssa.Call); ok && len(cl.Call.Args) == 1 {
			v = core.StripConv(cl.Call.Args[0])
		}
		b, isB := v.(*ssa.BinOp)
		okIdx := false
		if isB && b.Op == token.ADD {
			if phi, ok := b.X.(*ssa.Phi); ok && loopHeader(phi.Block()) == phi.Block() {
				okIdx = true
			}
		}
		if phi, ok := v.(*ssa.Phi); ok && loopHeader(phi.Block()) == phi.Block() {
			okIdx = true
		}
		c.Decide(okIdx, "R10.5", "fragindex-is-loop-index", c.Pos(st), "FragIndex = position of the fragment in the split", "FragIndex is not the loop index of the fragment")
	}
	for _, st := range written["Sequence"] {
		// l.nextSequence++ in the same loop, every iteration
		var inc ssa.Instruction
		core.Instrs(send, func(in ssa.Instruction) {
			if isIncDec(in, "nextSequence", +1) {
				inc = in
			}
		})
		h := loopHeader(st.Block())
		c.Decide(inc != nil && h != nil && loopHeader(inc.Block()) == h && everyIterationPasses(send, h, func(in ssa.Instruction) bool { return in == inc }), "R10.5", "sequence-consecutive", c.Pos(st), "nextSequence is incremented once per fragment", "consecutive fragments are not numbered with consecutive sequence numbers (the receiver's base = Sequence − FragIndex breaks)")
	}

	// ---- R10.2 reserve/attach agreement
	facePk := p.Pkgs[core.ModPath+"/fw/face"]
	constVal := func(name string) int64 {
		if o, ok := facePk.Types.Scope().Lookup(name).(*types.Const); ok {
			if v, ok := constInt64(o); ok {
				return v
			}
		}
		return -1
	}
	// the PIT token header has a variable length (a downstream's token is not ours: any
	// length up to 32 bytes): its reservation must grow with the token that is attached —
	// an amount that contains len(<the attached value>) plus the type and length octets
	tokenLenReserve := func() (ssa.Instruction, int64) {
		var found ssa.Instruction
		var constPart int64 = -1
		isTokLen := func(v ssa.Value) bool {
			l, ok := core.LenOf(core.StripConv(v))
			if !ok {
				return false
			}
			for _, st := range written["PitToken"] {
				if core.Same(l, st.(*ssa.Store).Val) || core.Strip(l) == core.Strip(st.(*ssa.Store).Val) {
					return true
				}
			}
			return false
		}
		var tree func(v ssa.Value, d int) (hasLen bool, k int64, encLen bool)
		tree = func(v ssa.Value, d int) (bool, int64, bool) {
			v = core.StripConv(v)
			if d > 6 {
				return false, 0, false
			}
			if isTokLen(v) {
				return true, 0, false
			}
			if kk, isC := core.ConstInt(v); isC {
				return false, kk, false
			}
			if cl, isCall := v.(*ssa.Call); isCall {
				if id, okID := core.Callee(&cl.Call); okID && id.Name == "EncodingLength" {
					return false, 0, true
				}
			}
			if b, isB := v.(*ssa.BinOp); isB && b.Op == token.ADD {
				h1, k1, e1 := tree(b.X, d+1)
				h2, k2, e2 := tree(b.Y, d+1)
				return h1 || h2, k1 + k2, e1 || e2
			}
			return false, 0, false
		}
		core.InstrsDeep(send, func(in ssa.Instruction) {
			b, ok := in.(*ssa.BinOp)
			if !ok || b.Op != token.SUB {
				return
			}
			if hasLen, k, encLen := tree(b.Y, 0); hasLen {
				found = in
				constPart = k
				if encLen {
					constPart++ // the length octets are computed: at least one
				}
			}
		})
		return found, constPart
	}
	for _, h := range []struct{ field, cname string }{{"PitToken", "pitTokenOverhead"}, {"CongestionMark", "congestionMarkOverhead"}} {
		k := constVal(h.cname)
		var reserve ssa.Instruction
		if h.field == "PitToken" {
			if r, kc := tokenLenReserve(); r != nil {
				reserve, k = r, kc
				c.Decide(kc >= 2, "R10.2", "token-reservation-covers-type-and-length", c.Pos(r), fmt.Sprintf("the PIT token reservation is len(token) plus %d (type and length octets)", kc), fmt.Sprintf("the room reserved for the PIT token header is len(token)+%d: the header also has a type and a length octet, the frame exceeds the MTU", kc))
			} else if k >= 0 {
				c.Viol("R10.2", "token-reservation-grows-with-token", p.Pos(send.Pos()), fmt.Sprintf("sendPacket reserves a constant %d bytes (%s) for the PIT token header, but the token it attaches is the downstream's own and can be up to 32 bytes long: with a longer token every full-size fragment exceeds the MTU, the transport drops it and the packet is never delivered", k, h.cname))
			}
		}
		core.InstrsDeep(send, func(in ssa.Instruction) {
			if reserve != nil && h.field == "PitToken" {
				return
			}
			// effectiveMtu -= k, or reserved += k (subtracted from the MTU afterwards)
			if b, ok := in.(*ssa.BinOp); ok && b.Op == token.SUB {
				if kk, isC := core.ConstInt(b.Y); isC && kk == k {
					reserve = in
				}
			}
			if b, ok := in.(*ssa.BinOp); ok && b.Op == token.ADD {
				kx, cx := core.ConstInt(b.X)
				ky, cy := core.ConstInt(b.Y)
				if (cx && kx == k) || (cy && ky == k) {
					// the sum must end up subtracted from something
					var flows func(v ssa.Value, d int) bool
					flows = func(v ssa.Value, d int) bool {
						if d > 6 {
							return false
						}
						for _, r := range core.Refs(v) {
							switch y := r.(type) {
							case *ssa.BinOp:
								if y.Op == token.SUB && y.Y == v {
									return true
								}
								if y.Op == token.ADD && flows(y, d+1) {
									return true
								}
							case *ssa.Phi:
								if flows(y, d+1) {
									return true
								}
							}
						}
						return false
					}
					if flows(b, 0) {
						reserve = in
					}
				}
			}
		})
		key := "reserve-attach:" + h.field
		if reserve == nil || k < 0 {
			c.Viol("R10.2", key, p.Pos(send.Pos()), "no MTU reservation (effectiveMtu -= "+h.cname+") found for the "+h.field+" header that sendPacket attaches")
			continue
		}
		for i, st := range written[h.field] {
			v := st.(*ssa.Store).Val
			a := atomPresent(h.field+" present", v)
			if g := reserve.Parent(); g != send {
				// the room is computed by a helper (payloadRoom(out, mark)): inside it the
				// reservation is passed on every path on which the value is (or may be)
				// present, and in sendPacket the helper runs before the header is attached
				restore := core.WithRoot(send)
				okIn := true
				core.Instrs(g, func(in ssa.Instruction) {
					if r, isR := in.(*ssa.Return); isR {
						if stt := core.ReachUnder(g, r, a, func(x ssa.Instruction) bool { return x == reserve }); stt&(1<<0) != 0 || stt&(1<<1) != 0 {
							okIn = false
						}
					}
				})
				call, _, okF := core.CommonFrame(send, reserve, st)
				okOut := false
				if okF && call.Parent() == send {
					stt := core.ReachUnder(send, st, a, func(x ssa.Instruction) bool { return x == call })
					okOut = stt&(1<<0) == 0 && stt&(1<<1) == 0
				}
				restore()
				c.Decide(okIn && okOut, "R10.2", fmt.Sprintf("%s#%d", key, i), c.Pos(st), "the "+h.field+" header is attached only after "+core.FuncName(g)+" ran, which reserves its overhead whenever the attached value is present", "sendPacket can attach a "+h.field+" header although no room was reserved for it ("+core.FuncName(g)+" tests a different value than the one attached, or runs too late): the frame exceeds the MTU by "+fmt.Sprint(k)+" bytes")
				continue
			}
			states := core.ReachUnder(send, st, a, func(in ssa.Instruction) bool { return in == reserve })
			// the attach store must not be reachable while its value is present (or unknown)
			// without the reservation having been executed
			ok := states&(1<<0) == 0 && states&(1<<1) == 0
			c.Decide(ok, "R10.2", fmt.Sprintf("%s#%d", key, i), c.Pos(st), "the "+h.field+" header is attached only on paths on which its overhead was reserved", "sendPacket can attach a "+h.field+" header although no room was reserved for it (the MTU reservation tests a different value than the one attached): the frame exceeds the MTU by "+fmt.Sprint(k)+" bytes")
		}
	}
	// overhead constants vs definition tags
	models, _ := discoverModels(p)
	tag := map[string]int64{}
	for _, m := range models {
		if m.Name == "LpPacket" && strings.HasSuffix(m.Pkg.PkgPath, "spec_2022") {
			for t, idx := range m.Index {
				tag[m.Fields[idx]] = t
			}
		}
		if m.Name == "Packet" && strings.HasSuffix(m.Pkg.PkgPath, "spec_2022") {
			for t, idx := range m.Index {
				if m.Fields[idx] == "LpPacket" {
					tag["<LpPacket>"] = t
				}
			}
		}
	}
	maxPkt := int64(8800)
	if o, ok := p.Pkgs[core.ModPath+"/fw/defn"].Types.Scope().Lookup("MaxNDNPacketSize").(*types.Const); ok {
		if v, ok := constInt64(o); ok {
			maxPkt = v
		}
	}
	need := func(f string, val int64) int64 { return tlSize(tag[f]) + 1 + val }
	type req struct {
		what string
		have int64
		want int64
	}
	var reqs []req
	if len(tag) >= 6 {
		if constVal("pitTokenOverhead") >= 0 {
			reqs = append(reqs, req{"pitTokenOverhead ≥ T(PitToken)+L+6", constVal("pitTokenOverhead"), need("PitToken", 6)})
		}
		reqs = append(reqs,
			req{"congestionMarkOverhead ≥ T(CongestionMark)+L+8", constVal("congestionMarkOverhead"), need("CongestionMark", 8)},
			req{"lpPacketOverhead ≥ TL(LpPacket)+TL(Fragment)", func() int64 {
				// by role, not by name: the constant the overhead function starts from
				if ch := p.Func("fw/face", "NDNLPLinkService", "computeHeaderOverhead"); ch != nil && ch.Blocks != nil {
					base := int64(-1)
					core.Instrs(ch, func(in ssa.Instruction) {
						st, ok := in.(*ssa.Store)
						if !ok {
							return
						}
						fa, isFA := st.Addr.(*ssa.FieldAddr)
						if !isFA {
							return
						}
						if _, f := core.FieldAddrName(fa); f != ovhField {
							return
						}
						if k, isC := core.ConstInt(st.Val); isC && base < 0 {
							base = k
						}
					})
					if base >= 0 {
						return base
					}
				}
				return constVal("lpPacketOverhead")
			}(), tlSize(tag["<LpPacket>"]) + tlSize(maxPkt) + tlSize(tag["Fragment"]) + tlSize(maxPkt)},
		)
	} else {
		c.Und("R10.2", "definition-tags", "-", "LpPacket definition tags not found")
	}
	// additive terms of computeHeaderOverhead per option
	if ch := c.Fn("R10.2", "fw/face", "NDNLPLinkService", "computeHeaderOverhead"); ch != nil {
		sum := map[string]int64{}
		core.Instrs(ch, func(in ssa.Instruction) {
			st, ok := in.(*ssa.Store)
			if !ok {
				return
			}
			if _, f := core.FieldAddrName(st.Addr.(*ssa.FieldAddr)); f != ovhField {
				return
			}
			b, ok := st.Val.(*ssa.BinOp)
			if !ok || b.Op != token.ADD {
				return
			}
			k, isC := core.ConstInt(b.Y)
			if !isC {
				return
			}
			// which option gates this block
			opt := ""
			for _, f := range core.EdgeFacts(ch, &core.Atom{Name: "opt", Match: func(cond ssa.Value) (int, int) {
				if _, path := core.FieldPath(cond); len(path) >= 2 && path[len(path)-2] == "options" {
					return 1, -1
				}
				return 0, 0
			}}) {
				if f.Holds && (f.E.To == st.Block() || f.E.To.Dominates(st.Block())) {
					_, path := core.FieldPath(f.E.From.Instrs[len(f.E.From.Instrs)-1].(*ssa.If).Cond)
					opt = path[len(path)-1]
				}
			}
			sum[opt] += k
		})
		if len(tag) >= 6 {
			reqs = append(reqs,
				req{"fragmentation terms ≥ Sequence+FragIndex+FragCount", sum["IsFragmentationEnabled"], need("Sequence", 8) + need("FragIndex", 2) + need("FragCount", 2)},
				req{"incoming-face term ≥ IncomingFaceId", sum["IsIncomingFaceIndicationEnabled"], need("IncomingFaceId", 8)},
			)
		}
	}
	for _, r := range reqs {
		c.Decide(r.have >= r.want, "R10.2", "overhead-covers-tlv:"+strings.Fields(r.what)[0], "-", fmt.Sprintf("%s: %d ≥ %d", r.what, r.have, r.want), fmt.Sprintf("header overhead too small: %s requires %d, the code reserves %d: frames of a fragmented packet exceed the MTU", r.what, r.want, r.have))
	}

	// ---- R10.3
	var frames []ssa.Instruction
	for _, ci := range core.FindCallsDeep(send, core.CalleeID{Pkg: "fw/face", Recv: "transport", Name: "sendFrame"}) {
		frames = append(frames, ci)
	}
	c.Floor("R10.3", "sendFrame call sites in sendPacket", len(frames), 1)
	// the length of the packet's bytes (not of a list of fragments: the continuation test
	// of `for i := range fragments` is no size test)
	isWireLen := func(v ssa.Value) bool {
		l, isLen := core.LenOf(v)
		if !isLen {
			return false
		}
		sl, isSl := l.Type().Underlying().(*types.Slice)
		if !isSl {
			return false
		}
		b, isB := sl.Elem().Underlying().(*types.Basic)
		return isB && b.Kind() == types.Byte
	}
	over := &core.Atom{Name: "len(wire)>effectiveMtu", Match: func(cond ssa.Value) (int, int) {
		op, x, y, ok := core.CmpOrient(cond, isWireLen)
		if !ok {
			return 0, 0
		}
		if !isWireLen(x) {
			return 0, 0
		}
		if _, isC := core.ConstInt(y); isC {
			return 0, 0
		}
		switch op {
		case token.GTR:
			return 1, -1
		case token.LEQ:
			return -1, 1
		}
		return 0, 0
	}}
	fragOn := &core.Atom{Name: "IsFragmentationEnabled", Match: func(cond ssa.Value) (int, int) {
		if _, path := core.FieldPath(cond); len(path) > 0 && path[len(path)-1] == "IsFragmentationEnabled" {
			return 1, -1
		}
		return 0, 0
	}}
	g := core.GateDeep(send, frames, neg(over), pos(fragOn))
	c.Decide(g.OK && g.PerLit[0] > 0 && g.PerLit[1] > 0, "R10.3", "oversize-dropped-without-fragmentation", p.Pos(send.Pos()), "no sendFrame is reachable for an oversize packet when fragmentation is disabled", "with fragmentation disabled an oversize packet still reaches sendFrame (it is truncated or sent over the MTU instead of dropped)")
	// transports
	if ti := p.Named("fw/face", "transport"); ti != nil {
		impls := p.Implementations(ti)
		c.Floor("R10.3", "transport implementations", len(impls), 6)
		frozen := map[string]string{"NullTransport": "writes nothing"}
		for _, t := range impls {
			tn := t.Obj().Name()
			fn := p.MethodOf(t, "sendFrame")
			if fn == nil || fn.Blocks == nil {
				continue
			}
			c.Funcs[core.FuncName(fn)] = true
			frame := ssa.Value(fn.Params[1])
			var writes []ssa.Instruction
			// buffers the frame is copied into stand for the frame (the internal transport
			// queues a copy)
			copies := map[ssa.Value]bool{}
			core.Instrs(fn, func(in ssa.Instruction) {
				if cl, ok := isBuiltinCall(in, "copy"); ok && len(cl.Call.Args) == 2 && core.Strip(cl.Call.Args[1]) == frame {
					copies[core.Strip(cl.Call.Args[0])] = true
				}
			})
			core.Instrs(fn, func(in ssa.Instruction) {
				switch x := in.(type) {
				case *ssa.Send:
					writes = append(writes, in)
				case *ssa.Select:
					// a send that gives up when the face is closing is a write all the same
					for _, st := range x.States {
						if st.Dir == types.SendOnly {
							writes = append(writes, in)
							break
						}
					}
				case ssa.CallInstruction:
					for _, a := range x.Common().Args {
						if core.Strip(a) == frame || copies[core.Strip(a)] {
							if b, isB := x.Common().Value.(*ssa.Builtin); isB && b.Name() == "copy" {
								continue
							}
							if id, ok := core.Callee(x.Common()); ok && !strings.HasPrefix(id.Pkg, "fw/core") && id.Pkg != "builtin" {
								// a predicate of the package that only looks at the frame
								// (exceedsMTU(frame) bool) is not a write
								if cal := x.Common().StaticCallee(); cal != nil && id.Pkg == "fw/face" && cal.Signature.Results().Len() == 1 {
									if bt, isB := cal.Signature.Results().At(0).Type().Underlying().(*types.Basic); isB && bt.Kind() == types.Bool {
										continue
									}
								}
								writes = append(writes, in)
							}
						}
					}
				}
			})
			if why, ok := frozen[tn]; ok && len(writes) == 0 {
				c.Ok("R10.3", "transport-mtu-gate:"+tn, p.Pos(fn.Pos()), "frozen exception: "+why)
				continue
			}
			tooBig := &core.Atom{Name: "len(frame)>MTU()", Match: func(cond ssa.Value) (int, int) {
				op, x, y, ok := core.CmpOrient(cond, core.IsLen)
				if !ok {
					return 0, 0
				}
				l, isLen := core.LenOf(x)
				if !isLen || !(core.Strip(l) == frame || core.Strip(core.ResolveBoundary(core.Strip(l))) == frame || core.Same(l, frame)) {
					return 0, 0 // (the test may sit in a predicate helper shared by the transports)
				}
				isMTU := isCallTo(y, core.CalleeID{Pkg: "fw/face", Recv: "*", Name: "MTU"})
				if !isMTU {
					if _, ok := core.FieldOf(y, "mtu"); ok {
						isMTU = true
					}
				}
				if !isMTU {
					return 0, 0
				}
				switch op {
				case token.GTR:
					return 1, -1
				case token.LEQ:
					return -1, 1
				}
				return 0, 0
			}}
			g := core.GateDeep(fn, writes, neg(tooBig))
			c.Decide(len(writes) > 0 && g.OK && g.PassEdges > 0, "R10.3", "transport-mtu-gate:"+tn, p.Pos(fn.Pos()), fmt.Sprintf("%d write(s) unreachable for a frame longer than MTU()", len(writes)), tn+".sendFrame can write a frame longer than the face MTU (siblings drop it first)")
		}
	}
	// completed message leaves the store
	{
		var rets []ssa.Instruction
		core.Instrs(reas, func(in ssa.Instruction) {
			if r, ok := in.(*ssa.Return); ok && len(r.Results) > 0 && !core.IsNilConst(r.Results[0]) {
				rets = append(rets, r)
			}
		})
		okDel := len(rets) > 0
		for _, r := range rets {
			if !core.PrecedesDeep(reas, r, func(in ssa.Instruction) bool { return isMapDelete(in, reasmField) }) {
				okDel = false
			}
		}
		c.Decide(okDel, "R10.3", "completed-message-removed", p.Pos(reas.Pos()), "a reassembled message is deleted from the partial-message store before it is returned", "a completed message stays in the partial-message store: a later message reusing the sequence number is corrupted and memory grows")
	}

	// ---- R10.10 "a packet that fits is sent as one frame": the decision to split (or, with
	// fragmentation off, to drop) is not taken by comparing the packet with the payload room
	// of a FRAGMENT alone — that room is the MTU minus headerOverhead, and headerOverhead
	// charges Sequence/FragIndex/FragCount, which an unfragmented frame never carries.
	{
		fragTerms := false
		if ch := p.Func("fw/face", "NDNLPLinkService", "computeHeaderOverhead"); ch != nil && ch.Blocks != nil {
			for _, f := range core.EdgeFacts(ch, &core.Atom{Name: "fragmentation enabled", Match: func(cond ssa.Value) (int, int) {
				if _, path := core.FieldPath(cond); len(path) >= 1 && path[len(path)-1] == "IsFragmentationEnabled" {
					return 1, -1
				}
				return 0, 0
			}}) {
				if !f.Holds {
					continue
				}
				core.Instrs(ch, func(in ssa.Instruction) {
					if st, ok := in.(*ssa.Store); ok && (st.Block() == f.E.To || f.E.To.Dominates(st.Block())) {
						if fa, ok := st.Addr.(*ssa.FieldAddr); ok {
							if _, fld := core.FieldAddrName(fa); fld == ovhField {
								fragTerms = true
							}
						}
					}
				})
			}
		}
		derivesFromOverhead := func(v ssa.Value) bool {
			seen := map[ssa.Value]bool{}
			var walk func(v ssa.Value, d int) bool
			walk = func(v ssa.Value, d int) bool {
				v = core.StripConv(v)
				if seen[v] || d > 8 {
					return false
				}
				seen[v] = true
				if _, ok := core.FieldOf(v, ovhField); ok {
					return true
				}
				switch x := v.(type) {
				case *ssa.BinOp:
					return walk(x.X, d+1) || walk(x.Y, d+1)
				case *ssa.Phi:
					for _, e := range x.Edges {
						if walk(e, d+1) {
							return true
						}
					}
				case *ssa.Call:
					if cal := x.Call.StaticCallee(); cal != nil && cal.Blocks != nil && cal.Pkg == send.Pkg {
						for _, rv := range core.ReturnedValues(x) {
							if walk(rv, d+1) {
								return true
							}
						}
					}
				}
				return false
			}
			return walk(v, 0)
		}
		nDec := 0
		var badAt ssa.Instruction
		core.InstrsDeep(send, func(in ssa.Instruction) {
			iff, ok := in.(*ssa.If)
			if !ok {
				return
			}
			cond, _ := core.StripNot(iff.Cond)
			op, x, y, isCmp := core.Cmp(cond)
			if !isCmp || op == token.EQL || op == token.NEQ {
				return
			}
			lx, okx := core.LenOf(core.StripConv(x))
			ly, oky := core.LenOf(core.StripConv(y))
			isWire := func(v ssa.Value) bool {
				_, path := core.FieldPath(v)
				return len(path) > 0 && path[len(path)-1] == "Raw"
			}
			switch {
			case okx && isWire(lx) && derivesFromOverhead(y), oky && isWire(ly) && derivesFromOverhead(x):
				nDec++
				badAt = in
			}
		})
		if fragTerms && nDec > 0 {
			c.Viol("R10.10", "fits-decision-charges-fragment-only-headers", c.Pos(badAt), "sendPacket decides 'does the packet fit into one frame?' by comparing its length with the payload room of a fragment (MTU − headerOverhead), and headerOverhead includes the Sequence, FragIndex and FragCount headers that only fragments carry (plus worst-case length octets): packets up to about 30 bytes below the MTU are sent as two frames, or dropped when fragmentation is disabled, although the single frame would fit")
		} else {
			c.Ok("R10.10", "fits-decision-charges-fragment-only-headers", p.Pos(send.Pos()), "the one-frame decision is not taken against the fragment payload room alone")
		}
	}

	// ---- R10.12 the options of a running link service and the header overhead derived from
	// them are written by SetOptions (management goroutine) and read by the send and
	// receive goroutines: every access outside the constructor holds a lock of the link
	// service (a torn overhead sizes fragments for headers that are not the ones attached)
	{
		_, heldF := core.EntryLocks(p, core.ModPath+"/fw/face")
		nAcc, nWr := 0, 0
		var unlocked []string
		for _, fn := range p.FuncsIn(core.ModPath + "/fw/face") {
			if strings.HasSuffix(p.File(fn.Pos()), "_test.go") || core.BaseName(fn) == "MakeNDNLPLinkService" {
				continue
			}
			core.Instrs(fn, func(in ssa.Instruction) {
				fa, ok := in.(*ssa.FieldAddr)
				if !ok {
					return
				}
				t, fld := core.FieldAddrName(fa)
				if t != "NDNLPLinkService" || (fld != "options" && fld != ovhField) {
					return
				}
				nAcc++
				for _, r := range core.Refs(fa) {
					if st, isSt := r.(*ssa.Store); isSt && st.Addr == ssa.Value(fa) {
						nWr++
					}
				}
				lockHeld := false
				for l := range heldF[fn][in] {
					if strings.Contains(l, "NDNLPLinkService.") {
						lockHeld = true
					}
				}
				if !lockHeld {
					unlocked = append(unlocked, core.FuncName(fn))
				}
			})
		}
		if nWr > 0 && len(unlocked) > 0 {
			sort.Strings(unlocked)
			u := unlocked[:0]
			for i, x := range unlocked {
				if i == 0 || x != unlocked[i-1] {
					u = append(u, x)
				}
			}
			c.Viol("R10.12", "options-change-unsynchronised", "-", fmt.Sprintf("NDNLPLinkService.options / %s are rewritten while the face runs (%d stores outside the constructor) and accessed without a lock of the link service in %s: a packet sent during faces/update is fragmented for an overhead that does not match the headers attached (frames over the MTU are dropped by the transport), and the accesses race", ovhField, nWr, strings.Join(u, ", ")))
		} else {
			c.Ok("R10.12", "options-change-unsynchronised", "-", fmt.Sprintf("%d accesses, all under a lock of the link service (or the fields are never rewritten)", nAcc))
		}
		c.Floor("R10.12", "accesses to the link service's options / header overhead", nAcc, 5)
	}

	// ---- R10.11 a link service whose peer does not reassemble must not fragment: the
	// internal transport's Receive hands every frame to the component as one packet (it
	// contains no call of a reassembly routine), so the link service registered on it is
	// created with fragmentation disabled
	if reg := c.Fn("R10.11", "fw/face", "", "RegisterInternalTransport"); reg != nil {
		rcv := c.Fn("R10.11", "fw/face", "InternalTransport", "Receive")
		reassembles := false
		if rcv != nil {
			core.InstrsDeep(rcv, func(in ssa.Instruction) {
				if ci, ok := in.(ssa.CallInstruction); ok {
					if id, okID := core.Callee(ci.Common()); okID && strings.Contains(strings.ToLower(id.Name), "reassembl") {
						reassembles = true
					}
				}
				if fa, ok := in.(*ssa.FieldAddr); ok {
					if _, f := core.FieldAddrName(fa); f == "FragIndex" || f == "FragCount" {
						reassembles = true
					}
				}
			})
		}
		off := false
		core.Instrs(reg, func(in ssa.Instruction) {
			if _, v, ok := storeToField(in, "NDNLPLinkServiceOptions", "IsFragmentationEnabled"); ok {
				if b, isC := core.ConstBool(v); isC && !b {
					off = true
				}
			}
		})
		c.Decide(reassembles || off, "R10.11", "internal-face-does-not-fragment", p.Pos(reg.Pos()), "the internal link service is created with fragmentation disabled (its receiver does not reassemble)", "the internal face's link service fragments packets that exceed its frame limit, but InternalTransport.Receive hands every frame to the component as one packet: a large Interest reaches management as truncated pieces")
	}

	// ---- R10.14 the two directions of the internal face agree on the frame limit. Both carry
	// a whole network packet plus NDNLPv2 headers in one frame (neither side fragments): a size
	// test in a method of the internal transport that compares a frame with a constant below
	// the transport's own frame limit drops packets of legal size in that direction only
	// (8785–8800 octets sent by management).
	{
		nCmp := 0
		lim, haveLim := lookupConst(p, "fw/face", "internalTransportMTU")
		var it *types.Named
		if t := p.Named("fw/face", "InternalTransport"); t != nil {
			it = t
		}
		if it == nil || !haveLim {
			c.Und("R10.14", "anchor:internal-transport", "-", "InternalTransport or its frame-limit constant not found")
		} else {
			seenCmp := map[ssa.Instruction]bool{}
			for _, fn := range p.FuncsIn(core.ModPath + "/fw/face") {
				if fn.Parent() != nil || core.FuncID(fn).Recv != "InternalTransport" {
					continue
				}
				// (the test may sit in a predicate shared by the transports: exceedsMTU(frame))
				core.InstrsDeep(fn, func(in ssa.Instruction) {
					bo, ok := in.(*ssa.BinOp)
					if !ok || seenCmp[in] || (bo.Op != token.GTR && bo.Op != token.GEQ && bo.Op != token.LSS && bo.Op != token.LEQ) {
						return
					}
					seenCmp[in] = true
					x, y := bo.X, bo.Y
					if _, isLen := core.LenOf(y); isLen {
						x, y = y, x
					}
					if _, isLen := core.LenOf(x); !isLen {
						return
					}
					k, isC := core.ConstInt(y)
					if isC && k < 256 {
						return // a presence test (len > 0), not a frame limit
					}
					nCmp++
					c.Decide(!isC || k >= lim, "R10.14", fmt.Sprintf("internal-face-frame-limit:%s", core.FuncName(in.Parent())), c.Pos(in), "frames are measured against the transport's frame limit", fmt.Sprintf("%s measures a frame of the internal face against the constant %d, below the transport's frame limit (%d = largest packet plus link-layer headers) that the other direction applies: a packet of legal size that management sends with its NDNLPv2 headers (PIT token, next-hop face id) is dropped — delivered zero times", core.FuncName(fn), k, lim))
				})
			}
			c.Floor("R10.14", "size tests on frames in the internal transport", nCmp, 2)
		}
	}

	// ---- R10.15 one reassembly store per peer: the UDP listener reads every datagram that
	// reached its socket before the connected socket of a new face existed — the fragments of
	// one packet arrive back to back — so it creates a face for a datagram only on the edge
	// asserting that no face for that remote endpoint exists yet; otherwise each fragment gets
	// a link service (and a reassembly store) of its own and the packet is never delivered.
	if run := c.Fn("R10.15", "fw/face", "UDPListener", "Run"); run != nil {
		makes := core.FindCallsDeep(run, core.CalleeID{Pkg: "fw/face", Recv: "", Name: "MakeUnicastUDPTransport"})
		if len(makes) == 0 {
			c.Und("R10.15", "udp-listener-one-face-per-endpoint", p.Pos(run.Pos()), "the listener no longer creates transports with MakeUnicastUDPTransport")
		}
		for _, mk := range makes {
			if len(mk.Common().Args) == 0 {
				continue
			}
			remote := mk.Common().Args[0]
			noFace := &core.Atom{Name: "no face for the endpoint yet", Match: func(cond ssa.Value) (int, int) {
				op, x, y, ok := core.Cmp(cond)
				if !ok || (op != token.EQL && op != token.NEQ) {
					return 0, 0
				}
				if core.IsNilConst(x) {
					x, y = y, x
				}
				if !core.IsNilConst(y) {
					return 0, 0
				}
				v := core.Strip(x)
				if ex, isEx := v.(*ssa.Extract); isEx {
					v = ex.Tuple
				}
				cl, isCall := v.(*ssa.Call)
				if !isCall {
					return 0, 0
				}
				for _, a := range cl.Call.Args {
					if core.Strip(a) == core.Strip(remote) || core.Same(a, remote) {
						return core.Iff(op == token.EQL)
					}
				}
				return 0, 0
			}}
			g := core.GateDeep(run, []ssa.Instruction{mk}, pos(noFace))
			c.Decide(g.OK && g.PerLit[0] > 0, "R10.15", "udp-listener-one-face-per-endpoint", c.Pos(mk), "a transport is created only when a lookup of the remote endpoint found no face", "UDPListener.Run creates a transport and a link service for every datagram it reads, without looking for a face of that remote endpoint: datagrams already queued at the listener's socket when the first one created the face (the remaining fragments of the same packet) each get a link service of their own, the fragments are spread over several reassembly stores and the packet is delivered zero times")
		}
	}

	// ---- R10.5b one key: every access of the partial-message store in reassemblePacket
	// (lookup, update, delete) uses the base sequence it was handed; deleting the completed
	// message under another number (the frame's own Sequence) leaves it behind unless
	// fragment 0 arrived last, and the store's overflow clear later wipes a message in progress
	if ra := c.Fn("R10.5", "fw/face", "NDNLPLinkService", "reassemblePacket"); ra != nil {
		var keys []ssa.Value
		var at []ssa.Instruction
		isStore := func(m ssa.Value) bool {
			if t, ok := m.Type().Underlying().(*types.Map); ok {
				if _, isSl := t.Elem().Underlying().(*types.Slice); isSl {
					_, path := core.FieldPath(m)
					return len(path) > 0
				}
			}
			return false
		}
		core.InstrsDeep(ra, func(in ssa.Instruction) {
			switch x := in.(type) {
			case *ssa.Lookup:
				if isStore(x.X) {
					keys, at = append(keys, x.Index), append(at, in)
				}
			case *ssa.MapUpdate:
				if isStore(x.Map) {
					keys, at = append(keys, x.Key), append(at, in)
				}
			case *ssa.Call:
				if b, ok := x.Call.Value.(*ssa.Builtin); ok && b.Name() == "delete" && len(x.Call.Args) == 2 && isStore(x.Call.Args[0]) {
					keys, at = append(keys, x.Call.Args[1]), append(at, in)
				}
			}
		})
		bad := ""
		for i, k := range keys {
			if !(core.Strip(k) == core.Strip(keys[0]) || core.Same(k, keys[0])) {
				bad = c.Pos(at[i])
			}
		}
		c.Decide(len(keys) >= 3 && bad == "", "R10.5", "reassembly-store-one-key", p.Pos(ra.Pos()), fmt.Sprintf("%d accesses of the partial-message store, all under the same key", len(keys)), "reassemblePacket accesses the partial-message store under different keys (at "+bad+"): a message completed by a fragment other than the first is removed under the wrong number and stays in the store; with enough leftovers the overflow clear wipes a message that is still being received, which is then never delivered")
	}
	// ---- R10.16 what arrives with a packet is delivered with it: the PIT token and the
	// congestion mark of the received LpPacket are copied to the packet handed up whatever the
	// face's options say (the options govern what this face SENDS); a copy that is made only
	// when an option flag is set drops the peer's mark on every face without that flag
	if recvFn := c.Fn("R10.16", "fw/face", "NDNLPLinkService", "handleIncomingFrame"); recvFn != nil {
		nHdr := 0
		core.InstrsDeep(recvFn, func(in ssa.Instruction) {
			for _, fld := range []string{"CongestionMark", "PitToken"} {
				_, v, ok := storeToField(in, "Pkt", fld)
				if !ok || core.IsNilConst(v) {
					continue
				}
				nHdr++
				gatedBy := ""
				for d := in.Block(); d != nil && d.Idom() != nil; d = d.Idom() {
					id := d.Idom()
					iff, isIf := id.Instrs[len(id.Instrs)-1].(*ssa.If)
					if !isIf || len(d.Preds) != 1 {
						continue
					}
					onOpt := false
					var walk func(v ssa.Value, n int)
					walk = func(v ssa.Value, n int) {
						if n > 4 {
							return
						}
						if _, path := core.FieldPath(v); containsStr(path, "options") {
							onOpt = true
						}
						switch y := v.(type) {
						case *ssa.BinOp:
							walk(y.X, n+1)
							walk(y.Y, n+1)
						case *ssa.UnOp:
							walk(y.X, n+1)
						case *ssa.Phi:
							for _, e := range y.Edges {
								walk(e, n+1)
							}
						}
					}
					walk(iff.Cond, 0)
					if onOpt {
						gatedBy = c.Pos(iff)
					}
				}
				c.Decide(gatedBy == "", "R10.16", "received-header-delivered-whatever-the-options:"+fld, c.Pos(in), "the copy of the received "+fld+" does not depend on an option of the face", "handleIncomingFrame copies the received "+fld+" to the delivered packet only when a face option is set (test at "+gatedBy+"): the options say what this face sends; a "+fld+" sent by the peer is lost on every face without that flag, so the packet is not delivered together with it")
			}
		})
		c.Floor("R10.16", "received link-layer headers copied to the delivered packet", nHdr, 2)
	}

	// ---- R10.17 the payload room that the packet is divided by is positive: every division
	// (and remainder) in the send path whose divisor is not a constant is reachable only on an
	// edge asserting divisor > 0 — room of exactly 0 (a small MTU that management accepts, a
	// PIT token that uses up what the headers left) is a division by zero in the face's send
	// goroutine, which takes the daemon down
	if snd := p.Func("fw/face", "", "sendPacket"); snd != nil {
		nDiv := 0
		core.InstrsDeep(snd, func(in ssa.Instruction) {
			bo, ok := in.(*ssa.BinOp)
			if !ok || (bo.Op != token.QUO && bo.Op != token.REM) {
				return
			}
			if _, isC := core.ConstInt(bo.Y); isC {
				return
			}
			if bt, isB := bo.Y.Type().Underlying().(*types.Basic); !isB || bt.Info()&types.IsInteger == 0 {
				return
			}
			nDiv++
			d := bo.Y
			positive := &core.Atom{Name: "divisor > 0", Match: func(cond ssa.Value) (int, int) {
				op, x, y, okC := core.Cmp(cond)
				if !okC {
					return 0, 0
				}
				k, isC := core.ConstInt(y)
				if !isC || !(core.StripConv(x) == core.StripConv(d) || core.Same(x, d)) {
					return 0, 0
				}
				switch {
				case op == token.LEQ && k >= 0, op == token.LSS && k >= 1, op == token.EQL && k == 0:
					if op == token.EQL {
						return 0, 0 // == 0 excludes zero on the false edge only together with a sign test
					}
					return -1, 1
				case op == token.GTR && k >= 0, op == token.GEQ && k >= 1:
					return 1, -1
				}
				return 0, 0
			}}
			g := core.GateDeep(snd, []ssa.Instruction{in}, pos(positive))
			c.Decide(g.OK && g.PerLit[0] > 0, "R10.17", fmt.Sprintf("divisor-positive:%s#%d", core.FuncName(in.Parent()), nDiv), c.Pos(in), "the division is reachable only behind a test that the divisor is positive", core.FuncName(in.Parent())+" divides by "+describeValue(d)+" on a path that has not established that it is positive (a test that admits 0 is not enough): with room for exactly 0 payload bytes — an accepted small MTU and a PIT token that uses up the rest — the send goroutine panics with a division by zero and the forwarder dies")
		})
		c.Floor("R10.17", "divisions by a computed room in the send path", nDiv, 1)
	}

	// ---- R10.9 the number of fragments is not "quotient + 1": len/size + 1 pieces of at
	// most size bytes include an EMPTY last piece whenever size divides len — the receiver
	// drops an empty fragment as IDLE and never completes the message. (Only this known-wrong
	// form is reported; that any other expression equals ceil(len/size) is arithmetic and
	// not decided.)
	{
		nCnt := 0
		core.InstrsDeep(send, func(in ssa.Instruction) {
			ms, ok := in.(*ssa.MakeSlice)
			if !ok || !strings.Contains(ms.Type().String(), "LpPacket") {
				return
			}
			nCnt++
			v := core.StripConv(ms.Len)
			bad := false
			if b, isB := v.(*ssa.BinOp); isB && b.Op == token.ADD {
				for _, pair := range [][2]ssa.Value{{b.X, b.Y}, {b.Y, b.X}} {
					q, isQ := core.StripConv(pair[0]).(*ssa.BinOp)
					k, isK := core.ConstInt(pair[1])
					if isQ && q.Op == token.QUO && isK && k == 1 {
						// the numerator is the plain length (no +size-1 / -1 adjustment)
						if _, adj := core.StripConv(q.X).(*ssa.BinOp); !adj {
							bad = true
						}
					}
				}
			}
			c.Decide(!bad, "R10.9", fmt.Sprintf("fragment-count-not-floor-plus-one#%d", nCnt), c.Pos(in), "the fragment list is not sized len/size + 1", "the number of fragments is computed as len/size + 1: when the payload room divides the packet length exactly, an extra EMPTY fragment is sent; the receiver discards it as IDLE and the message never completes")
		})
		c.Floor("R10.9", "fragment lists allocated on the send path", nCnt, 1)
		// the same mistake on the other side: a remainder len % size used as the size of the
		// last piece without a test for 0 (the remainder of an exact multiple is 0, the
		// piece has `size` bytes)
		core.InstrsDeep(send, func(in ssa.Instruction) {
			b, ok := in.(*ssa.BinOp)
			if !ok || b.Op != token.REM {
				return
			}
			if _, isLen := core.LenOf(core.StripConv(b.X)); !isLen {
				return
			}
			tested, sized := false, false
			var visit func(v ssa.Value, d int)
			visit = func(v ssa.Value, d int) {
				if d > 4 {
					return
				}
				for _, r := range core.Refs(v) {
					switch x := r.(type) {
					case *ssa.BinOp:
						if k, isC := core.ConstInt(x.Y); isC && k == 0 && (x.Op == token.EQL || x.Op == token.NEQ || x.Op == token.GTR) {
							tested = true
						}
					case *ssa.Phi:
						visit(x, d+1)
					case *ssa.Convert:
						visit(x, d+1)
					case ssa.CallInstruction:
						if id, okID := core.Callee(x.Common()); okID && (id.Name == "ReadWire" || id.Name == "ReadBuf") {
							sized = true
						}
					case *ssa.Slice:
						sized = true
					}
				}
			}
			visit(b, 0)
			if sized {
				c.Decide(tested, "R10.9", "last-piece-size-not-bare-remainder", c.Pos(in), "a remainder used as a piece size is tested against 0", "the size of the last fragment is len % size without a test for 0: when the payload room divides the packet length exactly the last fragment is empty and the bytes it should carry are never sent")
			}
		})
	}

	// ---- R10.8 a message is handed up only after every slot of the stored message was
	// looked at: the "is this slot still empty" tests sit in loops that visit every index of
	// the slot list (a scan that skips slot 0 or the last slot declares a message complete
	// while a fragment is missing — for exactly one arrival order)
	{
		isSlots := func(t types.Type) bool {
			s1, ok := t.Underlying().(*types.Slice)
			if !ok {
				return false
			}
			s2, ok := s1.Elem().Underlying().(*types.Slice)
			if !ok {
				return false
			}
			b, ok := s2.Elem().Underlying().(*types.Basic)
			return ok && b.Kind() == types.Uint8
		}
		nTests, nLib := 0, 0
		seen := map[*ssa.IndexAddr]bool{}
		restore := core.WithRoot(reas)
		core.InstrsDeep(reas, func(in ssa.Instruction) {
			iff, ok := in.(*ssa.If)
			if !ok {
				return
			}
			_, x, y, ok := core.Cmp(iff.Cond)
			if !ok {
				return
			}
			l, isLen := core.LenOf(x)
			if !isLen {
				l, isLen = core.LenOf(y)
			}
			if !isLen {
				return
			}
			// the tested value is an element of a slot list
			u, ok := core.Strip(l).(*ssa.UnOp)
			if !ok || u.Op != token.MUL {
				// an element handed to a predicate by a library traversal
				// (slices.ContainsFunc(parts, func(p []byte) bool { return len(p) == 0 }))
				if par, isP := core.Strip(l).(*ssa.Parameter); isP && par.Parent().Parent() != nil {
					nLib++
				}
				return
			}
			ia, ok := u.X.(*ssa.IndexAddr)
			if !ok || !isSlots(ia.X.Type()) || seen[ia] {
				return
			}
			seen[ia] = true
			nTests++
			tr, why := core.TraversalOf(ia)
			key := "slot-scan-covers-every-slot:" + core.FuncName(in.Parent())
			switch tr {
			case core.TraversalFull:
				c.Ok("R10.8", key, c.Pos(in), "the emptiness test of a slot runs in a loop over every index of the slot list ("+why+")")
			case core.TraversalPartial:
				c.Viol("R10.8", key, c.Pos(in), "the scan that decides whether a message is complete does not look at every slot ("+why+"): a message is declared complete while that fragment is still missing, and is delivered truncated or dropped")
			default:
				c.Und("R10.8", key, c.Pos(in), "cannot classify the loop that scans the slots ("+why+")")
			}
		})
		restore()
		c.Sites += nTests
		if nLib == 0 {
			c.Floor("R10.8", "slot emptiness tests in the reassembly path", nTests, 1)
		}
	}

	// ---- R10.6 the cached header overhead is recomputed after every change of the options
	// it is computed from, and only after the new options are in place
	nOpt := 0
	for _, fn := range p.FuncsIn(core.ModPath + "/fw/face") {
		core.Instrs(fn, func(in ssa.Instruction) {
			fa, _, ok := storeToField(in, "NDNLPLinkService", "options")
			if !ok {
				return
			}
			nOpt++
			c.Funcs[core.FuncName(fn)] = true
			isRecompute := func(x ssa.Instruction) bool {
				cc, ok := core.IsCall(x, core.CalleeID{Pkg: "fw/face", Recv: "NDNLPLinkService", Name: "computeHeaderOverhead"})
				if !ok {
					return false
				}
				r, _ := core.CallArgs(cc)
				return core.Same(r, fa.X)
			}
			fr := core.MustFollowDeep(fn, core.After(in), isRecompute, nil)
			c.Decide(fr.OK, "R10.6", "options-change-recomputes-overhead:"+core.FuncName(fn), c.Pos(in), "every store to the link-service options is followed by computeHeaderOverhead on all exits", core.FuncName(fn)+" changes the link-service options without recomputing the cached header overhead afterwards (it is computed from the previous options): after enabling local fields or fragmentation the frames exceed the MTU")
		})
	}
	c.Floor("R10.6", "stores to NDNLPLinkService.options", nOpt, 2)

	// ---- R10.7 a fragment of a message that has no entry yet always creates the entry
	{
		miss := &core.Atom{Name: "message-entry-exists", Match: func(cond ssa.Value) (int, int) {
			e, ok := core.Strip(cond).(*ssa.Extract)
			if ok && e.Index == 1 {
				if lk, ok := e.Tuple.(*ssa.Lookup); ok {
					if _, okF := core.FieldOf(lk.X, reasmField); okF {
						return 1, -1
					}
				}
			}
			return 0, 0
		}}
		isCreate := func(in ssa.Instruction) bool {
			mu, ok := in.(*ssa.MapUpdate)
			if !ok {
				return false
			}
			_, okF := core.FieldOf(mu.Map, reasmField)
			_, isMake := core.Strip(mu.Value).(*ssa.MakeSlice)
			return okF && isMake
		}
		okCreate, n := true, 0
		for _, f := range core.EdgeFacts(reas, miss) {
			if f.Holds {
				continue
			}
			n++
			if !core.MustFollowDeep(reas, core.Point{Block: f.E.To, Idx: 0}, isCreate, nil).OK {
				okCreate = false
			}
		}
		c.Decide(okCreate && n > 0, "R10.7", "unknown-message-creates-entry", p.Pos(reas.Pos()), "on the edge asserting that the message has no entry, the entry is always created", "reassemblePacket does not create the partial-message entry whenever the message is unknown (creation depends on something other than the missing entry, e.g. on the fragment index): fragments arriving before fragment 0 are lost and the packet is never delivered")
	}

	// ---- R10.5 reassembly arguments and bounds
	for _, ci := range core.FindCallsDeep(recv, core.CalleeID{Pkg: "fw/face", Recv: "NDNLPLinkService", Name: "reassemblePacket"}) {
		_, a := core.CallArgs(ci.Common())
		okKey := false
		if b, ok := core.StripConv(a[1]).(*ssa.BinOp); ok && b.Op == token.SUB {
			_, path := core.FieldPath(core.DerefOnce(b.X))
			okKey = len(path) > 0 && path[len(path)-1] == "Sequence" && core.Strip(b.Y) == core.Strip(a[2])
		}
		c.Decide(okKey, "R10.5", "reassembly-key", c.Pos(ci), "key = *Sequence − FragIndex, and the same FragIndex is passed on", "the reassembly key is not Sequence − FragIndex of the received frame")
		idxLeaves := sl.Leaves(a[2])
		cntLeaves := sl.Leaves(a[3])
		has := func(ls []core.Leaf, f string) bool {
			for _, l := range ls {
				if strings.Contains(strings.Join(l.Via, ""), "."+f) {
					return true
				}
			}
			return false
		}
		c.Decide(has(idxLeaves, "FragIndex") && has(cntLeaves, "FragCount"), "R10.5", "reassembly-index-and-count-sources", c.Pos(ci), "slot = LP.FragIndex, count = LP.FragCount", "reassembly slot/count do not come from the frame's FragIndex/FragCount")
		// FragIndex < FragCount and FragCount bounded before the call
		idxV, cntV := core.Strip(a[2]), core.Strip(a[3])
		inRange := &core.Atom{Name: "fragIndex<fragCount", Match: func(cond ssa.Value) (int, int) {
			op, x, y, ok := core.Cmp(cond)
			if !ok {
				return 0, 0
			}
			if core.Strip(x) == cntV && core.Strip(y) == idxV {
				x, y = y, x
				op = core.Swap(op)
			}
			if core.Strip(x) != idxV || core.Strip(y) != cntV {
				return 0, 0
			}
			switch op {
			case token.LSS:
				return 1, -1
			case token.GEQ:
				return -1, 1
			}
			return 0, 0
		}}
		bounded := &core.Atom{Name: "fragCount<=max", Match: func(cond ssa.Value) (int, int) {
			op, x, y, ok := core.Cmp(cond)
			if !ok || core.Strip(x) != cntV {
				return 0, 0
			}
			if _, isC := core.ConstInt(y); !isC {
				return 0, 0
			}
			switch op {
			case token.LEQ, token.LSS:
				return 1, -1
			case token.GTR, token.GEQ:
				return -1, 1
			}
			return 0, 0
		}}
		g1 := core.GateDeep(recv, []ssa.Instruction{ci}, pos(inRange))
		g2 := core.GateDeep(recv, []ssa.Instruction{ci}, pos(bounded))
		c.Decide(g1.OK && g1.PassEdges > 0 && g2.OK && g2.PassEdges > 0, "R10.5", "reassembly-bounds", c.Pos(ci), "reassembly is entered only with FragIndex < FragCount ≤ a constant bound", "a received frame reaches reassembly with an unchecked FragIndex/FragCount (out-of-range slot or unbounded allocation)")
	}
	{
		// inside reassemblePacket: slot index bounded by the length of the stored slice
		okSlot := false
		for _, s := range core.IndexSinks(reas) {
			if core.Strip(core.StripConv(s.Index)) != ssa.Value(reas.Params[3]) {
				continue
			}
			lt := &core.Atom{Name: "fragIndex<len(slots)", Match: func(cond ssa.Value) (int, int) {
				op, x, y, ok := core.CmpOrient(cond, func(v ssa.Value) bool { return core.StripConv(v) == ssa.Value(reas.Params[3]) })
				if !ok || core.StripConv(x) != ssa.Value(reas.Params[3]) {
					return 0, 0
				}
				if _, isLen := core.LenOf(y); !isLen {
					return 0, 0
				}
				switch op {
				case token.LSS:
					return 1, -1
				case token.GEQ:
					return -1, 1
				}
				return 0, 0
			}}
			g := core.GateDeep(reas, []ssa.Instruction{s.Instr}, pos(lt))
			okSlot = g.OK && g.PassEdges > 0
		}
		c.Decide(okSlot, "R10.5", "slot-index-within-stored-message", p.Pos(reas.Pos()), "the slot index is compared with the length of the stored slot slice", "a fragment whose FragIndex lies outside the slot slice allocated by an earlier fragment of the same message indexes out of range")
	}
}

// c10FrameBuffer — R10.13 "never truncated": when the outgoing frame is assembled by
// copy() into a buffer the link service keeps in a field (copy silently stops at the end of
// its destination, unlike append, which grows), that buffer is allocated with a constant
// size of at least the maximum packet size wherever it is assigned. A buffer sized by a
// run-time quantity read at construction (the MTU of that moment) truncates every longer
// frame once the quantity changes, and the truncated frame is sent.
func c10FrameBuffer(c *core.Ctx) {
	p := c.P
	sp := p.Func("fw/face", "", "sendPacket")
	if sp == nil {
		return
	}
	maxPkt := int64(8800)
	if o, ok := p.Pkgs[core.ModPath+"/fw/defn"].Types.Scope().Lookup("MaxNDNPacketSize").(*types.Const); ok {
		if v, ok := constInt64(o); ok {
			maxPkt = v
		}
	}
	// fields of the link service that are the destination of a copy
	fieldOfDst := func(v ssa.Value) string {
		for depth := 0; depth < 6; depth++ {
			switch x := core.Strip(v).(type) {
			case *ssa.Slice:
				v = x.X
			case *ssa.UnOp:
				if fa, ok := x.X.(*ssa.FieldAddr); ok && x.Op == token.MUL {
					t, f := core.FieldAddrName(fa)
					if t == "NDNLPLinkService" {
						return f
					}
				}
				return ""
			default:
				return ""
			}
		}
		return ""
	}
	copied := map[string]string{}
	core.InstrsDeep(sp, func(in ssa.Instruction) {
		ci, ok := in.(*ssa.Call)
		if !ok {
			return
		}
		if b, isB := ci.Call.Value.(*ssa.Builtin); isB && b.Name() == "copy" && len(ci.Call.Args) == 2 {
			if f := fieldOfDst(ci.Call.Args[0]); f != "" {
				copied[f] = c.Pos(in)
			}
		}
	})
	c.Extra["frame_buffers_filled_by_copy"] = len(copied)
	nStores := 0
	for f, at := range copied {
		var bad []string
		for _, fn := range p.FuncsIn(core.ModPath + "/fw/face") {
			if strings.HasSuffix(p.File(fn.Pos()), "_test.go") {
				continue
			}
			core.Instrs(fn, func(in ssa.Instruction) {
				_, v, ok := storeToField(in, "NDNLPLinkService", f)
				if !ok {
					return
				}
				if fieldOfDst(v) == f { // a re-slice of itself
					return
				}
				nStores++
				k, isC := int64(0), false
				switch x := core.Strip(v).(type) {
				case *ssa.MakeSlice:
					k, isC = core.ConstInt(x.Len)
				case *ssa.Slice:
					if al, okA := core.Strip(x.X).(*ssa.Alloc); okA {
						if at, okT := core.Deref(al.Type()).Underlying().(*types.Array); okT {
							k, isC = at.Len(), true
						}
					}
				}
				need := maxPkt
				if lim, okL := lookupConst(p, "fw/face", "internalTransportMTU"); okL && lim > need {
					need = lim // the internal face does not fragment and has the largest frame limit
				}
				if !isC || k < need {
					bad = append(bad, c.Pos(in))
				}
			})
		}
		c.Decide(len(bad) == 0 && nStores > 0, "R10.13", "copied-frame-buffer-has-constant-full-size:"+f, at, "the buffer the frame is copied into is allocated with a constant size ≥ the largest frame limit of any transport", "the outgoing frame is assembled by copy() into NDNLPLinkService."+f+", which is allocated with a size that is not a constant ≥ the largest frame limit of a transport (the internal face: "+fmt.Sprint(maxPkt)+" plus link-layer headers) ("+strings.Join(bad, ", ")+"): copy stops at the end of the buffer, so a frame longer than the buffer (the MTU was raised since; a near-maximum packet on the internal face, which does not fragment) is truncated and sent")
	}
}

// c10ReassemblyKey — R10.18 "interleaved with the fragments of other packets": NDNLPv2
// sequence numbers are per sender. A link service that reassembles what a multi-access
// transport receives (the UDP multicast group socket: every neighbour on the link) keeps the
// messages of different senders apart — the key of its partial-message store names the
// sender, not the sequence alone. With a bare number as key, two neighbours whose counters
// are close (both start at 0) have their fragments assembled into one packet that neither
// sent. Decided on the shape: the store's key type, and whether a transport without a single
// remote peer hands frames to this link service.
func c10ReassemblyKey(c *core.Ctx) {
	p := c.P
	ls := p.Named("fw/face", "NDNLPLinkService")
	if ls == nil {
		c.Und("R10.18", "anchor:NDNLPLinkService", "-", "type not found")
		return
	}
	st, _ := ls.Underlying().(*types.Struct)
	var key types.Type
	field := ""
	for i := 0; st != nil && i < st.NumFields(); i++ {
		if m, ok := st.Field(i).Type().Underlying().(*types.Map); ok {
			isFrags := func(t types.Type) bool {
				s1, ok := t.Underlying().(*types.Slice)
				if !ok {
					return false
				}
				s2, ok := s1.Elem().Underlying().(*types.Slice)
				if !ok {
					return false
				}
				b, ok := s2.Elem().Underlying().(*types.Basic)
				return ok && b.Kind() == types.Uint8
			}
			if isFrags(m.Elem()) {
				key, field = m.Key(), st.Field(i).Name()
			} else if m2, ok := m.Elem().Underlying().(*types.Map); ok && isFrags(m2.Elem()) {
				key, field = m.Key(), st.Field(i).Name() // per-sender map of messages
			}
		}
	}
	if key == nil {
		c.Und("R10.18", "anchor:NDNLPLinkService partial-message store", "-", "no map field holding fragment lists found")
		return
	}
	// a multi-access transport: its receive routine hands frames to the link service and it
	// joins a group (it has no single remote peer)
	multi := ""
	for _, fn := range p.FuncsIn(core.ModPath + "/fw/face") {
		core.Instrs(fn, func(in ssa.Instruction) {
			cl, ok := in.(*ssa.Call)
			if !ok {
				return
			}
			if cal := cl.Call.StaticCallee(); cal != nil && cal.Pkg != nil && cal.Pkg.Pkg.Path() == "net" && strings.HasPrefix(cal.Name(), "ListenMulticast") {
				if root := core.RootOf(fn); root != nil && root.Signature.Recv() != nil {
					multi = types.TypeString(core.Deref(root.Signature.Recv().Type()), func(*types.Package) string { return "" })
				}
			}
		})
	}
	if multi == "" {
		c.Ok("R10.18", "reassembly-key-identifies-the-sender:"+field, "-", "no transport of fw/face listens on a multicast group: every link service has one peer")
		return
	}
	_, bare := key.Underlying().(*types.Basic)
	if b, ok := key.Underlying().(*types.Basic); ok && b.Info()&types.IsString != 0 {
		bare = false
	}
	c.Decide(!bare, "R10.18", "reassembly-key-identifies-the-sender:"+field, p.Pos(ls.Obj().Pos()), "the key of the partial-message store is not a bare number ("+key.String()+")", "the partial-message store of the link service is keyed by a bare number ("+key.String()+": the sequence number of the first fragment) while "+multi+" receives the frames of every neighbour on a multicast group through one link service: sequence numbers are per sender, so the fragments of two neighbours whose counters are close are assembled into one packet that neither sent, and neither original is delivered")
}

// c10HeadersOnEveryFragment — R10.19 "the peer delivers the original packet together with its
// PIT token and congestion mark": the receiver takes the per-packet headers (PIT token,
// congestion mark, incoming face) from the frame that completes the message — whichever
// fragment arrives last. The sender therefore attaches them to every fragment: in the
// fragment loop of sendPacket no store of such a header is conditional on the position of
// the fragment. Headers on the first fragment only are delivered when the fragments arrive
// in reverse order and lost when they arrive in order.
func c10HeadersOnEveryFragment(c *core.Ctx) {
	send := c.Fn("R10.19", "fw/face", "", "sendPacket")
	if send == nil {
		return
	}
	perPacket := map[string]bool{"PitToken": true, "CongestionMark": true, "IncomingFaceId": true}
	// loop counters: integer phis in blocks on a cycle
	isCounter := func(v ssa.Value) bool {
		for d := 0; d < 4; d++ {
			switch x := core.StripConv(v).(type) {
			case *ssa.Phi:
				b, ok := x.Type().Underlying().(*types.Basic)
				return ok && b.Info()&types.IsInteger != 0 && core.InLoop(x.Block())
			case *ssa.BinOp:
				if _, isK := x.Y.(*ssa.Const); isK {
					v = x.X
					continue
				}
			}
			return false
		}
		return false
	}
	n := 0
	core.Instrs(send, func(in ssa.Instruction) {
		st, ok := in.(*ssa.Store)
		if !ok || !core.InLoop(st.Block()) && !func() bool {
			for _, b := range send.Blocks {
				if core.InLoop(b) && b.Dominates(st.Block()) {
					return true
				}
			}
			return false
		}() {
			return
		}
		fa, ok := st.Addr.(*ssa.FieldAddr)
		if !ok {
			return
		}
		tn, f := core.FieldAddrName(fa)
		if tn != "LpPacket" || !perPacket[f] {
			return
		}
		n++
		bad := ""
		for _, b := range send.Blocks {
			if len(b.Instrs) == 0 {
				continue
			}
			iff, ok := b.Instrs[len(b.Instrs)-1].(*ssa.If)
			if !ok {
				continue
			}
			_, x, y, isCmp := core.Cmp(iff.Cond)
			if !isCmp || !(isCounter(x) || isCounter(y)) {
				continue
			}
			// a test of the position inside the loop body: both outcomes stay in the loop (the
			// loop's own continuation test leaves it on one side)
			stays := true
			for _, s := range b.Succs {
				if s != b && len(core.ReachAvoiding(send, s, map[*ssa.BasicBlock]bool{b: true}, nil)) == 0 {
					stays = false
				}
			}
			if !stays {
				continue
			}
			for _, s := range b.Succs {
				if len(s.Preds) == 1 && (s == st.Block() || s.Dominates(st.Block())) {
					bad = c.Pos(iff)
				}
			}
		}
		c.Decide(bad == "", "R10.19", "per-packet-header-on-every-fragment:"+f, c.Pos(st), "the header is attached whatever the position of the fragment", "sendPacket attaches LpPacket."+f+" only to fragments at certain positions (test of the loop counter at "+bad+"), while the receiving link service takes the per-packet headers from the frame that completes the message, whichever arrives last: with in-order arrival the header of a fragmented packet is lost (a Data loses its PIT token and is dropped by the peer's dispatch; a congestion mark disappears)")
	})
	c.Floor("R10.19", "per-packet headers attached in the fragment loop", n, 3)
}

// c10RemovalOnlyWhenDone — R10.20 "in any order": a partial message leaves the store only
// when it is complete, or when the store is given up as a whole because it is full. A
// removal decided by anything else — the position of the fragment that has just arrived,
// say — assumes an order of arrival: the message is thrown away when its last fragment
// overtakes another one. Every removal from the store in reassemblePacket (delete, clear)
// lies behind a test against the size of the store or of the message's slot table.
func c10RemovalOnlyWhenDone(c *core.Ctx) {
	ra := c.Fn("R10.20", "fw/face", "NDNLPLinkService", "reassemblePacket")
	if ra == nil {
		return
	}
	isStore := func(v ssa.Value) bool {
		m, ok := v.Type().Underlying().(*types.Map)
		if !ok {
			return false
		}
		if s1, ok := m.Elem().Underlying().(*types.Slice); ok {
			_, ok2 := s1.Elem().Underlying().(*types.Slice)
			return ok2
		}
		return false
	}
	// the slot table of a message: looked up in the store at the place of use, or a local
	// holding the result of the lookup made at the top (comma-ok form included), joined
	// with the freshly made table on the path that creates the entry
	var fromStore func(v ssa.Value, d int) bool
	fromStore = func(v ssa.Value, d int) bool {
		if d > 4 {
			return false
		}
		switch y := core.Strip(v).(type) {
		case *ssa.Lookup:
			return isStore(y.X)
		case *ssa.Extract:
			lk, isLk := y.Tuple.(*ssa.Lookup)
			return isLk && y.Index == 0 && isStore(lk.X)
		case *ssa.Phi:
			for _, e := range y.Edges {
				if fromStore(e, d+1) {
					return true
				}
			}
		}
		return false
	}
	sizeTest := func(cond ssa.Value) bool {
		_, x, y, ok := core.Cmp(cond)
		if !ok {
			return false
		}
		for _, side := range []ssa.Value{x, y} {
			if l, isLen := core.LenOf(core.StripConv(side)); isLen {
				if isStore(l) {
					return true
				}
				if fromStore(l, 0) {
					return true
				}
			}
		}
		return false
	}
	n := 0
	core.Instrs(ra, func(in ssa.Instruction) {
		cl, ok := in.(*ssa.Call)
		if !ok {
			return
		}
		b, ok := cl.Call.Value.(*ssa.Builtin)
		if !ok || (b.Name() != "delete" && b.Name() != "clear") || len(cl.Call.Args) == 0 || !isStore(cl.Call.Args[0]) {
			return
		}
		n++
		okGate := false
		for _, blk := range ra.Blocks {
			if len(blk.Instrs) == 0 {
				continue
			}
			iff, isIf := blk.Instrs[len(blk.Instrs)-1].(*ssa.If)
			if !isIf || !sizeTest(iff.Cond) || core.InLoop(blk) {
				continue // (the continuation test of a loop over the slots is not a decision)
			}
			// the side on which the size was reached: `n == len(slots)`, `len(store) >= max`
			op, _, _, _ := core.Cmp(iff.Cond)
			side := 1
			if op == token.EQL || op == token.GEQ || op == token.GTR {
				side = 0
			}
			if s := blk.Succs[side]; len(s.Preds) == 1 && (s == cl.Block() || s.Dominates(cl.Block())) {
				okGate = true
			}
		}
		c.Decide(okGate, "R10.20", fmt.Sprintf("partial-message-removed-only-when-done#%d", n), c.Pos(cl), "the removal lies behind a test of the size of the store or of the message's slot table", "reassemblePacket removes a partial message at "+c.Pos(cl)+" on a condition that is neither its completion nor the store being full: the decision then depends on which fragment has just arrived, i.e. on the order of arrival — a message whose fragments arrive out of order is thrown away and never delivered")
	})
	c.Floor("R10.20", "removals from the partial-message store in reassemblePacket", n, 2)
}

// c10OverheadFresh — R10.21 (conditional; two cooperating edits) "every frame fits within
// the MTU": the link service caches the header overhead. While that number depends on the
// options alone, it is enough to recompute it when the options change. Premise: the
// computation also reads the transport (its MTU). Obligation: SetOptions then recomputes it
// on every path — management writes the options back after every faces/update, which is
// what refreshes the cache after a SetMTU; a SetOptions that returns early "because nothing
// changed" leaves an overhead computed for the old MTU in place.
func c10OverheadFresh(c *core.Ctx) {
	comp := c.Fn("R10.21", "fw/face", "NDNLPLinkService", "computeHeaderOverhead")
	set := c.Fn("R10.21", "fw/face", "NDNLPLinkService", "SetOptions")
	if comp == nil || set == nil {
		return
	}
	readsMTU := ""
	core.InstrsDeep(comp, func(in ssa.Instruction) {
		ci, ok := in.(ssa.CallInstruction)
		if !ok {
			return
		}
		name := ""
		if ci.Common().IsInvoke() {
			name = ci.Common().Method.Name()
		} else if cal := ci.Common().StaticCallee(); cal != nil {
			name = cal.Name()
		}
		if name == "MTU" {
			readsMTU = c.Pos(in)
		}
	})
	if readsMTU == "" {
		c.Ok("R10.21", "cached-overhead-follows-the-mtu", c.P.Pos(comp.Pos()), "premise absent: the cached overhead is computed from the options alone")
		return
	}
	isComp := func(in ssa.Instruction) bool {
		ci, ok := in.(ssa.CallInstruction)
		return ok && ci.Common().StaticCallee() == comp
	}
	fr := core.MustFollow(set, core.Point{Block: set.Blocks[0], Idx: 0}, isComp, nil)
	c.Decide(fr.OK, "R10.21", "cached-overhead-follows-the-mtu", c.P.Pos(set.Pos()), "the overhead depends on the MTU and SetOptions recomputes it on every path", "the cached header overhead depends on the transport's MTU (read at "+readsMTU+") but SetOptions does not recompute it on every path (it returns early): after faces/update has changed the MTU and written unchanged options back, fragments are cut for an overhead computed for the old MTU — frames exceed the new MTU")
}

// c10InitialFrameSynchronous — R10.22 "delivered exactly once": the frame a listener hands
// to LinkService.Run (the datagram that made it create the face) lies in the listener's
// receive buffer, which the listener reuses for the next datagram as soon as Run returns.
// Every implementation of Run uses that parameter before it returns: it is not handed to a
// `go` statement, captured by a function literal, stored, or sent on a channel without
// having been copied (copy / append onto fresh storage / bytes.Clone / slices.Clone).
func c10InitialFrameSynchronous(c *core.Ctx) {
	p := c.P
	n := 0
	for _, fn := range p.FuncsIn(core.ModPath + "/fw/face") {
		if fn.Name() != "Run" || fn.Signature.Recv() == nil || len(fn.Params) != 2 || fn.Blocks == nil {
			continue
		}
		sl, ok := fn.Params[1].Type().Underlying().(*types.Slice)
		if !ok {
			continue
		}
		if b, isB := sl.Elem().Underlying().(*types.Basic); !isB || b.Kind() != types.Byte {
			continue
		}
		n++
		bad := ""
		seen := map[ssa.Value]bool{}
		var walk func(v ssa.Value)
		walk = func(v ssa.Value) {
			if seen[v] || v.Referrers() == nil {
				return
			}
			seen[v] = true
			for _, r := range *v.Referrers() {
				switch x := r.(type) {
				case *ssa.Go:
					bad = "handed to a go statement at " + c.Pos(x)
				case *ssa.Defer:
					// runs before Run returns
				case *ssa.MakeClosure:
					bad = "captured by a function literal at " + c.Pos(x)
				case *ssa.Send:
					if x.X == v {
						bad = "sent on a channel at " + c.Pos(x)
					}
				case *ssa.Store:
					if x.Val == v {
						if _, local := core.Strip(x.Addr).(*ssa.Alloc); !local {
							bad = "stored at " + c.Pos(x)
						} else if al := core.Strip(x.Addr).(*ssa.Alloc); al.Heap {
							bad = "kept in a variable that a function literal captures, at " + c.Pos(x)
						}
					}
				case *ssa.Slice:
					walk(x)
				case *ssa.Phi:
					walk(x)
				case *ssa.ChangeType:
					walk(x)
				case *ssa.Convert:
					walk(x)
				case *ssa.MakeInterface:
					walk(x)
				}
			}
		}
		walk(fn.Params[1])
		c.Funcs[core.FuncName(fn)] = true
		c.Decide(bad == "", "R10.22", "initial-frame-used-before-run-returns:"+core.FuncName(fn), p.Pos(fn.Pos()), "the initial frame is only used by calls made before Run returns", core.FuncName(fn)+" keeps the initial frame beyond its own return ("+bad+"): the listener that accepted the face reuses the buffer holding it for the next datagram — the first frame of a new face is lost and a later one processed twice")
	}
	c.Floor("R10.22", "link services' Run(initial []byte)", n, 2)
}
