package props

import (
	"fmt"
	"go/token"
	"go/types"
	"strings"

	"ndndcheck/core"

	"golang.org/x/tools/go/ssa"
)

// C11 — Stream framing delivers each TLV exactly once for any chunking of the stream
// (narrow: cursor discipline only).
func C11(c *core.Ctx) {
	c.Explain = "Narrow claim. That every partition of every stream is re-framed correctly is a statement about run-time cursor arithmetic and is NOT decided. Decided structural necessary conditions — each one, when broken, loses, duplicates, splits, merges or corrupts blocks for some chunking: (R11.1) fw/face.readTlvStream: bytes are read into the buffer at the write cursor and the cursor advances by exactly the count Read returned; the T and L of the next block are parsed from the window [parse cursor, write cursor); the block size is len(T)+len(L)+L of the two numbers just parsed; the frame handed up is exactly buffer[parse cursor : parse cursor+size], only on the edge asserting that at least size bytes are pending, and the parse cursor then advances by that same size; compaction copies exactly the window [parse cursor, write cursor) to the front and resets the cursors to (write-parse, 0) together; (R11.2) std/engine/face.StreamFace.Run: a fresh buffer of len(T)+len(L)+L bytes per block, T written at 0, L at len(T), the value read with io.ReadFull into the rest, and the whole buffer handed up; (R11.3) every link service copies the frame before retaining anything of it (the transport's buffer is reused), and the stream transports pass the frame to the link service synchronously. (R11.5 = C04 R4.5) the compaction — and the reset of the two cursors — happens for every number of pending bytes up to the rejection bound, zero included, and the buffer holds the largest accepted block."
	c.RuleText = "instances: the Read call, the two ReadTLNum calls, the size expression, the onFrame call, the cursor phis and the compaction of readTlvStream; the buffer, the three offsets and the hand-up of StreamFace.Run; the frame parameter of every handleIncomingFrame implementation; every readTlvStream call site. Non-trivial = a value identity or a gate to decide."
	p := c.P
	c11Forwarder(c)
	c11AppFace(c)
	c11ReadBytesBeforeError(c)
	c.Import(C04, "R11.5", "the receive loop of the stream transport stops making progress on a well-formed stream (buffer used up to its end, Read called with an empty slice): the blocks that follow are lost", 2, func(k string) bool {
		return strings.HasPrefix(k, "R4.5:stream-compaction-covers-pending") || strings.HasPrefix(k, "R4.5:stream-buffer-holds-largest-block")
	})

	// ---- R11.6 (shared with C03 R3.2) both de-framers compute the block boundaries from the
	// T and L that ReadTLNum decodes: its threshold table is the 1/3/5/9 code (a 1-octet form
	// that ends at 0xfb or reaches 0xfd cuts a block of length 252 / 253 at the wrong place)
	c.Import(C03, "R11.6", "the number decoder the de-framers read T and L with deviates from the TLV number code: a block whose type or length sits on the boundary of a form is split or merged", 1, func(k string) bool {
		return strings.HasPrefix(k, "R3.2:table:ReadTLNum")
	})

	// ---- R11.7 a block is written to the stream as a whole: every Write on the stream face's
	// connection is made with the face's send lock held — a block that consists of several
	// buffers is written piece by piece, and a Write that does not take the lock can land
	// between two pieces of another sender's block
	{
		pkgF := core.ModPath + "/std/engine/face"
		_, held := core.EntryLocks(p, pkgF)
		nW := 0
		for _, fn := range p.FuncsIn(pkgF) {
			if strings.HasSuffix(p.File(fn.Pos()), "_test.go") || core.FuncID(core.RootOf(fn)).Recv != "StreamFace" {
				continue
			}
			core.Instrs(fn, func(in ssa.Instruction) {
				ci, ok := in.(ssa.CallInstruction)
				if !ok || !ci.Common().IsInvoke() || ci.Common().Method.Name() != "Write" {
					return
				}
				if _, path := core.FieldPath(ci.Common().Value); len(path) == 0 || path[len(path)-1] != "conn" {
					return
				}
				nW++
				c.Funcs[core.FuncName(fn)] = true
				locked := false
				for k := range held[fn][in] {
					if strings.HasPrefix(k, "W:") && strings.Contains(k, "StreamFace.") {
						locked = true
					}
				}
				c.Decide(locked, "R11.7", fmt.Sprintf("stream-write-under-send-lock:%s#%d", core.FuncName(fn), nW), c.Pos(in), "the connection is written with the send lock held", core.FuncName(fn)+" writes to the stream connection without holding the face's send lock: with two concurrent senders the bytes land between the buffers of the other sender's block — the receiver sees one block split and another merged into it")
			})
		}
		c.Floor("R11.7", "writes to the stream face's connection", nW, 1)

		// ---- R11.10 the lock is held over the whole block, not over each buffer: where a
		// loop hands the buffers of one block to the connection one by one (directly or
		// through a helper that writes), the send lock is already held at that point of the
		// loop — a lock taken and released per buffer keeps single writes apart and lets
		// another sender's block in between two buffers of this one
		isConnWrite := func(in ssa.Instruction) bool {
			ci, ok := in.(ssa.CallInstruction)
			if !ok || !ci.Common().IsInvoke() || ci.Common().Method.Name() != "Write" {
				return false
			}
			return strings.Contains(types.TypeString(ci.Common().Value.Type(), nil), "net.Conn")
		}
		nL := 0
		for _, fn := range p.FuncsIn(pkgF) {
			if strings.HasSuffix(p.File(fn.Pos()), "_test.go") || core.FuncID(core.RootOf(fn)).Recv != "StreamFace" {
				continue
			}
			core.Instrs(fn, func(in ssa.Instruction) {
				if !core.InLoop(in.Block()) {
					return
				}
				writes := isConnWrite(in)
				if cl, ok := in.(*ssa.Call); ok && !writes {
					if cal := cl.Call.StaticCallee(); cal != nil && cal.Blocks != nil && cal.Pkg != nil && cal.Pkg.Pkg.Path() == pkgF {
						core.InstrsDeep(cal, func(x ssa.Instruction) {
							if isConnWrite(x) {
								writes = true
							}
						})
					}
				}
				if !writes {
					return
				}
				nL++
				locked := false
				for k := range held[fn][in] {
					if strings.HasPrefix(k, "W:") && strings.Contains(k, "StreamFace.") {
						locked = true
					}
				}
				c.Decide(locked, "R11.10", fmt.Sprintf("send-lock-spans-the-block:%s#%d", core.FuncName(fn), nL), c.Pos(in), "the send lock is held where the loop passes a buffer of the block on", core.FuncName(fn)+" passes the buffers of one block to the connection in a loop without holding the send lock across the loop (the lock, if any, is taken per buffer): between two buffers of a block another goroutine's Send writes its own — the receiver sees one block split and another merged into it")
			})
		}
		c.Floor("R11.10", "loops that pass the buffers of a block to the stream connection", nL, 1)
	}
	// ---- R11.11 "a length number need not be in its shortest form": the number decoder the
	// de-framers use fails only when its byte source fails. Every error ReadTLNum returns is
	// nil, the error ReadByte returned, or a sentinel variable standing for it (unexpected
	// EOF) — never an error it makes up itself about the VALUE it has read: a decoder that
	// refuses, say, a 3-octet form holding a number below 253 makes the stream de-framers
	// (which read every failure of it as "bytes are missing") wait for ever, and ends a
	// stream face, on a block the peer may send.
	if rt := c.Fn("R11.11", "std/encoding", "", "ReadTLNum"); rt != nil {
		nRet, nLeaf := 0, 0
		bad := ""
		var leaves func(v ssa.Value, seen map[ssa.Value]bool)
		leaves = func(v ssa.Value, seen map[ssa.Value]bool) {
			if seen[v] {
				return
			}
			seen[v] = true
			switch x := v.(type) {
			case *ssa.Phi:
				for _, e := range x.Edges {
					leaves(e, seen)
				}
				return
			case *ssa.Const:
				if x.Value == nil {
					nLeaf++
					return
				}
			case *ssa.Extract:
				if cl, ok := x.Tuple.(*ssa.Call); ok && cl.Call.IsInvoke() && cl.Call.Method.Name() == "ReadByte" {
					nLeaf++
					return
				}
				// the tail of the number read by a helper of the package: its returns
				if cl, ok := x.Tuple.(*ssa.Call); ok {
					if g := cl.Call.StaticCallee(); g != nil && g.Blocks != nil && g.Pkg == rt.Pkg && len(seen) < 64 {
						n0 := 0
						core.Instrs(g, func(in ssa.Instruction) {
							if r, okR := in.(*ssa.Return); okR && x.Index < len(r.Results) && in.Block() != g.Recover {
								n0++
								leaves(r.Results[x.Index], seen)
							}
						})
						if n0 > 0 {
							return
						}
					}
				}
			case *ssa.UnOp:
				if _, isG := x.X.(*ssa.Global); isG && x.Op == token.MUL {
					nLeaf++
					return
				}
				if al, ok := x.X.(*ssa.Alloc); ok && x.Op == token.MUL {
					// the named result kept in a cell: everything stored into it
					for _, r := range *al.Referrers() {
						if st, ok := r.(*ssa.Store); ok && st.Addr == ssa.Value(al) {
							leaves(st.Val, seen)
						}
					}
					return
				}
			}
			if in, ok := v.(ssa.Instruction); ok {
				bad = c.Pos(in) + " (" + v.String() + ")"
			} else {
				bad = v.String()
			}
		}
		core.Instrs(rt, func(in ssa.Instruction) {
			ret, ok := in.(*ssa.Return)
			if !ok || len(ret.Results) != 2 {
				return
			}
			nRet++
			leaves(ret.Results[1], map[ssa.Value]bool{})
		})
		c.Decide(bad == "", "R11.11", "number-decoder-fails-only-with-its-source", c.P.Pos(rt.Pos()), fmt.Sprintf("%d returns; every error returned is nil, ReadByte's error or a sentinel variable (%d leaves)", nRet, nLeaf), "ReadTLNum returns an error of its own making at "+bad+", not the failure of its byte source: it refuses a number for its VALUE or form. The stream de-framers read every failure of ReadTLNum as an incomplete block and wait for more bytes (the face stalls for good), and StreamFace.Run ends the face — on a block whose length is not written in its shortest form, which a peer may send and every parser behind accepts")
		c.Floor("R11.11", "returns of ReadTLNum", nRet, 2)
	}
	// ---- R11.9 a read() that ends inside a type or length number is an incomplete block, not
	// an error: where a de-framer tells "bytes are missing" from other failures by comparing
	// the error of ReadTLNum with the io sentinels by identity (== / !=), ReadTLNum returns
	// those sentinels themselves — never an error constructed around them (fmt.Errorf("%w"))
	{
		rt := c.Fn("R11.9", "std/encoding", "", "ReadTLNum")
		var identityCmp ssa.Instruction
		nCmp := 0
		for _, pkg := range []string{"fw/face", "std/engine/face"} {
			for _, fn := range p.FuncsIn(core.ModPath + "/" + pkg) {
				if strings.HasSuffix(p.File(fn.Pos()), "_test.go") {
					continue
				}
				core.Instrs(fn, func(in ssa.Instruction) {
					bo, ok := in.(*ssa.BinOp)
					if !ok || (bo.Op != token.EQL && bo.Op != token.NEQ) {
						return
					}
					fromRead := func(v ssa.Value) bool {
						found := false
						var walk func(v ssa.Value, n int)
						walk = func(v ssa.Value, n int) {
							if n > 4 || found {
								return
							}
							switch y := core.Strip(v).(type) {
							case *ssa.Extract:
								if y.Index == 1 && isCallTo(y.Tuple, core.CalleeID{Pkg: "std/encoding", Name: "ReadTLNum"}) {
									found = true
								}
							case *ssa.Phi:
								for _, e := range y.Edges {
									walk(e, n+1)
								}
							}
						}
						walk(v, 0)
						return found
					}
					isSentinel := func(v ssa.Value) bool {
						u, ok := core.Strip(v).(*ssa.UnOp)
						if !ok {
							return false
						}
						g, ok := u.X.(*ssa.Global)
						return ok && g.Pkg != nil && g.Pkg.Pkg.Path() == "io"
					}
					if (fromRead(bo.X) && isSentinel(bo.Y)) || (fromRead(bo.Y) && isSentinel(bo.X)) {
						nCmp++
						identityCmp = in
					}
				})
			}
		}
		if rt != nil {
			constructed := ""
			core.Instrs(rt, func(in ssa.Instruction) {
				r, ok := in.(*ssa.Return)
				if !ok || len(r.Results) != 2 {
					return
				}
				seen := map[ssa.Value]bool{}
				var walk func(v ssa.Value)
				walk = func(v ssa.Value) {
					v = core.Strip(v)
					if seen[v] {
						return
					}
					seen[v] = true
					switch y := v.(type) {
					case *ssa.Phi:
						for _, e := range y.Edges {
							walk(e)
						}
					case *ssa.UnOp: // a named result / a global
						if al, isAl := y.X.(*ssa.Alloc); isAl {
							for _, ref := range core.Refs(al) {
								if st, isSt := ref.(*ssa.Store); isSt && st.Addr == ssa.Value(al) {
									walk(st.Val)
								}
							}
						}
					case *ssa.Call:
						if id, okID := core.Callee(&y.Call); okID && (id.Pkg == "fmt" || id.Pkg == "errors") {
							constructed = c.Pos(y)
						}
					case *ssa.MakeInterface:
						if _, isCall := y.X.(*ssa.Call); !isCall {
							constructed = c.Pos(y)
						}
					}
				}
				walk(r.Results[1])
			})
			c.Decide(nCmp == 0 || constructed == "", "R11.9", "incomplete-number-is-not-an-error", p.Pos(rt.Pos()), fmt.Sprintf("%d identity comparisons of ReadTLNum's error with io sentinels; ReadTLNum returns sentinels unwrapped", nCmp), "a de-framer compares the error of ReadTLNum with the io sentinels by identity ("+c.Pos(identityCmp)+") while ReadTLNum returns an error constructed around the sentinel ("+constructed+"): a read() that ends inside a 3- or 5-octet type or length number is taken for a broken stream, the face is torn down and every later block is lost")
		}
	}
	// ---- R11.8 (shared with C10 R10.3) the stream transports of the forwarder drop only
	// frames LONGER than their limit: a block of exactly the maximum packet size is a legal block
	c.Import(C10, "R11.8", "a stream transport of the forwarder refuses a frame that is not longer than its limit (or writes one that is): a block of exactly the maximum size is lost", 2, func(k string) bool {
		return strings.HasPrefix(k, "R10.3:transport-mtu-gate:UnixStreamTransport") || strings.HasPrefix(k, "R10.3:transport-mtu-gate:UnicastTCPTransport")
	})

	// ---- R11.3 frame ownership
	ls := p.Named("fw/face", "LinkService")
	nImpl := 0
	if ls == nil {
		c.Und("R11.3", "anchor:LinkService", "-", "interface not found")
	} else {
		for _, t := range p.Implementations(ls) {
			fn := p.MethodOf(t, "handleIncomingFrame")
			if fn == nil || fn.Blocks == nil {
				continue
			}
			nImpl++
			fname := core.FuncName(fn)
			c.Funcs[fname] = true
			frame := fn.Params[1]
			bad := ""
			for _, r := range core.Refs(frame) {
				switch x := r.(type) {
				case *ssa.DebugRef:
				case *ssa.Call:
					if b, ok := x.Call.Value.(*ssa.Builtin); ok {
						if b.Name() == "len" || (b.Name() == "copy" && len(x.Call.Args) == 2 && x.Call.Args[1] == ssa.Value(frame) && x.Call.Args[0] != ssa.Value(frame)) {
							continue
						}
					}
					bad = c.Pos(r)
				default:
					bad = c.Pos(r)
				}
			}
			c.Decide(bad == "", "R11.3", "frame-copied-not-retained:"+t.Obj().Name(), p.Pos(fn.Pos()), "the frame parameter is only measured and copied from", fname+" uses the transport's frame slice other than by len() and as the source of copy() (at "+bad+"): the receive buffer is reused for the following bytes of the stream, so anything retained is overwritten — delivered packets are corrupted")
		}
	}
	c.Floor("R11.3", "handleIncomingFrame implementations", nImpl, 2)
	// call sites of readTlvStream: the frame callback passes its argument on synchronously
	nSites := 0
	rs := p.Func("fw/face", "", "readTlvStream")
	for _, fn := range p.FuncsIn(core.ModPath + "/fw/face") {
		if strings.HasSuffix(p.File(fn.Pos()), "_test.go") || rs == nil {
			continue
		}
		var sites []ssa.CallInstruction
		for _, ci := range p.Callers(rs) {
			if ci.Parent() == fn {
				sites = append(sites, ci)
			}
		}
		for _, ci := range sites {
			nSites++
			_, a := core.CallArgs(ci.Common())
			// the callback: a function literal, a method value (bound-method wrapper) or a
			// plain function
			var cb *ssa.Function
			var b *ssa.Parameter
			switch x := core.Strip(a[1]).(type) {
			case *ssa.MakeClosure:
				cb = x.Fn.(*ssa.Function)
				if strings.HasPrefix(cb.Synthetic, "bound method wrapper") {
					var real *ssa.Function
					core.Instrs(cb, func(in ssa.Instruction) {
						if ci, ok := in.(ssa.CallInstruction); ok && ci.Common().StaticCallee() != nil {
							real = ci.Common().StaticCallee()
						}
					})
					cb = real
					if cb != nil && len(cb.Params) == 2 {
						b = cb.Params[1]
					}
				} else if len(cb.Params) == 1 {
					b = cb.Params[0]
				}
			case *ssa.Function:
				cb = x
				if len(cb.Params) == 1 {
					b = cb.Params[0]
				}
			}
			okCb := false
			why := "the frame callback cannot be resolved to a function body"
			if cb != nil && cb.Blocks != nil && b != nil {
				okCb = true
				why = ""
				handed := false
				for _, r := range core.Refs(b) {
					switch x := r.(type) {
					case *ssa.DebugRef:
					case *ssa.Go, *ssa.Defer:
						okCb, why = false, "the frame is passed to a goroutine / deferred call at "+c.Pos(r)
					case *ssa.Call:
						if bi, isB := x.Call.Value.(*ssa.Builtin); isB && bi.Name() == "len" {
							continue
						}
						if x.Call.IsInvoke() && x.Call.Method.Name() == "handleIncomingFrame" {
							handed = true
							continue
						}
						okCb, why = false, "the frame is used at "+c.Pos(r)
					case *ssa.Store, *ssa.MapUpdate, *ssa.Send, *ssa.MakeClosure, *ssa.MakeInterface:
						okCb, why = false, "the frame escapes at "+c.Pos(r)
					default:
						okCb, why = false, "the frame is used at "+c.Pos(r)
					}
				}
				if okCb && !handed {
					okCb, why = false, "the frame is never handed to the link service"
				}
				if okCb {
					// "none lost": every path through the callback hands the block up — a
					// callback that drops some blocks (by size, by state) loses well-formed
					// blocks of the stream
					fr := core.MustFollowDeep(cb, core.Point{Block: cb.Blocks[0], Idx: 0}, func(in ssa.Instruction) bool {
						ci, ok := in.(ssa.CallInstruction)
						return ok && ci.Common().IsInvoke() && ci.Common().Method.Name() == "handleIncomingFrame"
					}, nil)
					c.Decide(fr.OK, "R11.3", "every-block-handed-up:"+core.FuncName(fn), c.Pos(ci), "every path through the frame callback reaches linkService.handleIncomingFrame", core.FuncName(fn)+": the frame callback given to readTlvStream can return without handing the block to the link service (e.g. a block longer than the current MTU is dropped on receive): well-formed blocks no larger than the maximum packet size are lost")
				}
			}
			c.Decide(okCb, "R11.3", "frame-handed-up-synchronously:"+core.FuncName(fn), c.Pos(ci), "the frame goes to linkService.handleIncomingFrame in the callback itself and nowhere else", core.FuncName(fn)+": "+why+": the slice points into the stream buffer, which is overwritten by the next read")
		}
	}
	if rs != nil {
		c.Floor("R11.3", "readTlvStream call sites", nSites, 2)
	}
}

// sameVal: two integer expressions are the same value (provenance identity, through
// structurally equal sums).
func sameVal(a, b ssa.Value) bool {
	a, b = core.Resolve(a), core.Resolve(b)
	if a == b || core.Same(a, b) {
		return true
	}
	x, ok1 := a.(*ssa.BinOp)
	y, ok2 := b.(*ssa.BinOp)
	if ok1 && ok2 && x.Op == y.Op {
		if sameVal(x.X, y.X) && sameVal(x.Y, y.Y) {
			return true
		}
		if x.Op == token.ADD && sameVal(x.X, y.Y) && sameVal(x.Y, y.X) {
			return true
		}
	}
	return false
}

// addends flattens a sum.
func addends(v ssa.Value) []ssa.Value { return addendsD(v, 0) }

func addendsD(v ssa.Value, d int) []ssa.Value {
	v = core.Resolve(v)
	if b, ok := v.(*ssa.BinOp); ok && b.Op == token.ADD {
		return append(addendsD(b.X, d), addendsD(b.Y, d)...)
	}
	// a component handed up by a helper that also has "not yet" returns (0, 0, false):
	// the one non-constant value it returns there
	if d < 2 {
		inner := core.StripConv(v)
		switch inner.(type) {
		case *ssa.Extract, *ssa.Call:
			var nonConst []ssa.Value
			rvs := core.ReturnedValues(inner)
			for _, rv := range rvs {
				if _, isC := core.ConstInt(rv); !isC {
					nonConst = append(nonConst, rv)
				}
			}
			if len(nonConst) == 1 && !(len(rvs) == 1 && rvs[0] == inner) {
				return addendsD(nonConst[0], d+1)
			}
		}
	}
	return []ssa.Value{v}
}

func isEncLenOf(v, num ssa.Value) bool {
	cl, ok := core.Strip(v).(*ssa.Call)
	if !ok {
		return false
	}
	id, ok := core.Callee(&cl.Call)
	if !ok || id.Pkg != "std/encoding" || id.Name != "EncodingLength" {
		return false
	}
	r, _ := core.CallArgs(&cl.Call)
	return core.Strip(r) == core.Strip(num)
}

// blockSizeOf: v == len(T) + len(L) + int(L) for the numbers t and l.
func blockSizeOf(v, t, l ssa.Value) bool {
	// the size may come out of a helper that also has "not yet" returns (0, false, nil):
	// the one non-constant value it returns is the size
	var nonConst []ssa.Value
	for _, rv := range core.ReturnedValues(core.Resolve(v)) {
		if _, isC := core.ConstInt(rv); !isC {
			nonConst = append(nonConst, rv)
		}
	}
	if len(nonConst) == 1 {
		v = nonConst[0]
	}
	as := addends(v)
	if len(as) == 2 {
		// equivalent form: position of the header reader after L + int(L)
		var hp, hv int
		for _, a := range as {
			if cl, ok := core.Strip(a).(*ssa.Call); ok {
				if id, ok := core.Callee(&cl.Call); ok && id.Name == "Pos" {
					r, _ := core.CallArgs(&cl.Call)
					lt, isE := core.Strip(l).(*ssa.Extract)
					if isE {
						_, ra := core.CallArgs(&lt.Tuple.(*ssa.Call).Call)
						if len(ra) == 1 && core.Strip(ra[0]) == core.Strip(r) {
							hp++
						}
					}
				}
			} else if core.StripConv(a) == core.Strip(l) {
				hv++
			}
		}
		return hp == 1 && hv == 1
	}
	// (the three-addend form T.EncodingLength() + L.EncodingLength() + L, which an earlier
	// version of this table accepted as equivalent, is NOT: ReadTLNum accepts a number
	// written in a longer than shortest form, so the size of the header cannot be derived
	// from the values — a block with such a header was split and every later block lost)
	_ = t
	return false
}

func c11Forwarder(c *core.Ctx) {
	p := c.P
	fn := c.Fn("R11.1", "fw/face", "", "readTlvStream")
	if fn == nil {
		return
	}
	pos := p.Pos(fn.Pos())
	defer core.WithRoot(fn)()
	// the Read call and the write cursor
	var rd ssa.CallInstruction
	core.InstrsDeep(fn, func(in ssa.Instruction) {
		if ci, ok := in.(ssa.CallInstruction); ok && ci.Common().IsInvoke() && ci.Common().Method.Name() == "Read" && core.Same(ci.Common().Value, fn.Params[0]) {
			rd = ci
		}
	})
	if rd == nil {
		c.Und("R11.1", "read-call", pos, "no reader.Read call found")
		return
	}
	tgt, ok := core.Strip(rd.Common().Args[0]).(*ssa.Slice)
	if !ok || tgt.Low == nil || tgt.High != nil {
		c.Viol("R11.1", "read-at-write-cursor", c.Pos(rd), "Read is not given buffer[writeCursor:]: received bytes do not land behind the bytes already buffered")
		return
	}
	buf := tgt.X
	W, isPhi := core.Resolve(tgt.Low).(*ssa.Phi)
	var n ssa.Value
	for _, r := range core.Refs(rd.Value()) {
		if e, ok := r.(*ssa.Extract); ok && e.Index == 0 {
			n = e
		}
	}
	// W' = W + n, used by everything after the read
	var W2 ssa.Value
	if isPhi && n != nil {
		for _, r := range core.Refs(W) {
			if b, ok := r.(*ssa.BinOp); ok && b.Op == token.ADD && ((core.Resolve(b.X) == ssa.Value(W) && b.Y == n) || (core.Resolve(b.Y) == ssa.Value(W) && b.X == n)) {
				W2 = b
			}
		}
	}
	c.Decide(isPhi && W2 != nil, "R11.1", "read-at-write-cursor", c.Pos(rd), "Read(buffer[w:]) and w advances by the count Read returned", "the write cursor is not advanced by exactly the number of bytes Read returned (or Read does not write at the cursor): bytes are lost or stale bytes are parsed when a read ends inside a block")
	if !isPhi || W2 == nil {
		return
	}
	// the two numbers
	var nums []ssa.Value
	var rdrs []ssa.Value
	core.InstrsDeep(fn, func(in ssa.Instruction) {
		if e, ok := in.(*ssa.Extract); ok && e.Index == 0 && isCallTo(e.Tuple, core.CalleeID{Pkg: "std/encoding", Name: "ReadTLNum"}) {
			nums = append(nums, e)
			_, a := core.CallArgs(&e.Tuple.(*ssa.Call).Call)
			rdrs = append(rdrs, a[0])
		}
	})
	if len(nums) != 2 {
		c.Und("R11.1", "type-and-length", pos, fmt.Sprintf("expected two ReadTLNum calls (T then L), found %d", len(nums)))
		return
	}
	// the frame hand-up
	var up *ssa.Call
	core.InstrsDeep(fn, func(in ssa.Instruction) {
		if cl, ok := in.(*ssa.Call); ok && core.Same(cl.Call.Value, fn.Params[1]) {
			up = cl
		}
	})
	if up == nil {
		c.Und("R11.1", "frame-hand-up", pos, "no onFrame call found")
		return
	}
	fr, ok := core.Strip(up.Call.Args[0]).(*ssa.Slice)
	// The framing loop may have been moved into a worker that is handed the unread window
	// buffer[p0:w] and walks it with a cursor of its own, returning how far it got
	// ("re-based" form): the frame is then window[q : q+size], the completeness test is
	// len(window)-q >= size, and the caller advances p0 by what the worker returns.
	var window *ssa.Slice // buffer[p0:w] as the worker's parameter resolves to it
	var Pout *ssa.Phi    // the parse cursor of the receive loop (p0)
	if ok && fr.Low != nil && fr.High != nil && !sameVal(fr.X, buf) && up.Parent() != fn {
		if w0, isSl := core.Resolve(fr.X).(*ssa.Slice); isSl && w0.Low != nil && w0.High != nil && sameVal(w0.X, buf) && sameVal(w0.High, W2) {
			if p0, isP0 := core.Resolve(w0.Low).(*ssa.Phi); isP0 {
				window, Pout = w0, p0
			}
		}
	}
	if !ok || fr.Low == nil || fr.High == nil || (!sameVal(fr.X, buf) && window == nil) {
		c.Viol("R11.1", "frame-is-the-block", c.Pos(up), "the frame handed up is not a [low:high] slice of the receive buffer")
		return
	}
	P, isPhiP := core.Resolve(fr.Low).(*ssa.Phi)
	hi := addends(fr.High)
	var size ssa.Value
	if isPhiP && len(hi) >= 2 {
		// high = P + size
		if b, ok := core.Strip(fr.High).(*ssa.BinOp); ok && b.Op == token.ADD {
			if core.Resolve(b.X) == ssa.Value(P) {
				size = b.Y
			} else if core.Resolve(b.Y) == ssa.Value(P) {
				size = b.X
			}
		}
	}
	c.Decide(isPhiP && size != nil, "R11.1", "frame-is-the-block", c.Pos(up), "the frame is buffer[p : p+size] for the parse cursor p", "the frame handed up does not start at the parse cursor or does not end at cursor+size: blocks are split or merged")
	if !isPhiP || size == nil {
		return
	}
	c.Decide(blockSizeOf(size, nums[0], nums[1]), "R11.1", "block-size-is-T+L+value", c.Pos(up), "size = len(T) + len(L) + L of the two numbers just parsed", "the block size is not len(T)+len(L)+L of the type and length just parsed: every following block boundary is wrong")
	// the parse cursor advances by the same size after the hand-up
	adv := false
	for i, e := range P.Edges {
		pred := P.Block().Preds[i]
		if b, ok := core.Strip(e).(*ssa.BinOp); ok && b.Op == token.ADD {
			if (core.Resolve(b.X) == ssa.Value(P) && sameVal(b.Y, size)) || (core.Resolve(b.Y) == ssa.Value(P) && sameVal(b.X, size)) {
				// this edge is taken after the hand-up, on every path from it
				if pred == up.Block() || up.Block().Dominates(pred) {
					adv = true
				}
			}
		}
	}
	// and no edge back to the parse loop from the hand-up leaves the cursor unchanged
	stale := false
	for i, e := range P.Edges {
		pred := P.Block().Preds[i]
		if (pred == up.Block() || up.Block().Dominates(pred)) && core.Resolve(e) == ssa.Value(P) {
			stale = true
		}
	}
	c.Decide(adv && !stale, "R11.1", "cursor-advances-by-frame-size", c.Pos(up), "after the hand-up the parse cursor is p+size with the same size", "after handing a block up the parse cursor does not advance by exactly that block's size: the block is delivered again, or the next one starts at the wrong byte")
	// completeness gate
	isPending := func(v ssa.Value) bool {
		b, ok := core.StripConv(v).(*ssa.BinOp)
		if !ok || b.Op != token.SUB || core.Resolve(b.Y) != ssa.Value(P) {
			return false
		}
		if window != nil {
			l, isLen := core.LenOf(b.X)
			return isLen && core.Strip(l) == core.Strip(fr.X)
		}
		return sameVal(b.X, W2)
	}
	complete := &core.Atom{Name: "pending>=size", Match: func(cond ssa.Value) (int, int) {
		op, x, y, ok := core.Cmp(cond)
		if !ok {
			return 0, 0
		}
		if isPending(y) && sameVal(x, size) {
			x, y = y, x
			op = core.Swap(op)
		}
		if !isPending(x) || !sameVal(y, size) {
			return 0, 0
		}
		switch op {
		case token.GEQ:
			return 1, -1
		case token.LSS:
			return -1, 1
		}
		return 0, 0
	}}
	g := core.GateDeep(fn, []ssa.Instruction{up}, pos2(complete))
	c.Decide(g.OK && g.PassEdges > 0, "R11.1", "hand-up-only-when-complete", c.Pos(up), "the hand-up is reachable only on the edge asserting writeCursor-parseCursor ≥ size", "a block can be handed up before all of its bytes have arrived (or the completeness test is off by one): the frame contains stale bytes")
	// parse window
	okWin := len(rdrs) == 2
	for _, r := range rdrs {
		cl, ok := core.Strip(r).(*ssa.Call)
		if !ok || !isCallTo(cl, core.CalleeID{Pkg: "std/encoding", Name: "NewBufferReader"}) {
			okWin = false
			continue
		}
		sl, ok := unwrapBytes(core.Resolve(unwrapBytes(cl.Call.Args[0]))).(*ssa.Slice)
		if window != nil {
			// window[q:]: the window ends at the write cursor
			if !ok || sl.Low == nil || core.Resolve(sl.Low) != ssa.Value(P) || core.Strip(sl.X) != core.Strip(fr.X) || (sl.High != nil && func() bool { l, isLen := core.LenOf(sl.High); return !isLen || core.Strip(l) != core.Strip(fr.X) }()) {
				okWin = false
			}
			continue
		}
		if !ok || sl.Low == nil || sl.High == nil || core.Resolve(sl.Low) != ssa.Value(P) || !sameVal(sl.High, W2) || !sameVal(sl.X, buf) {
			okWin = false
		}
	}
	if okWin {
		// both numbers come from one reader (L is read right after T)
		okWin = core.Strip(rdrs[0]) == core.Strip(rdrs[1])
	}
	c.Decide(okWin, "R11.1", "header-parsed-from-unread-window", pos, "T and L are read consecutively from buffer[p:w]", "the type and length are not parsed consecutively from exactly the unread window buffer[parseCursor:writeCursor]: a header split across reads is misparsed")
	if window != nil {
		// the worker returns its cursor, and the receive loop advances its parse cursor by
		// exactly that
		w := up.Parent()
		retQ := true
		core.Instrs(w, func(in ssa.Instruction) {
			if r, isR := in.(*ssa.Return); isR && len(r.Results) >= 1 {
				v := core.Resolve(r.Results[0])
				if k, isC := core.ConstInt(v); isC && k == 0 {
					return
				}
				if v != ssa.Value(P) && !phiFeeds(v, P) && !phiFeeds(P, v) {
					retQ = false
				}
			}
		})
		adv := false
		for _, e := range Pout.Edges {
			if bo, isB := core.Strip(e).(*ssa.BinOp); isB && bo.Op == token.ADD {
				for _, pair := range [][2]ssa.Value{{bo.X, bo.Y}, {bo.Y, bo.X}} {
					if core.Resolve(pair[0]) == ssa.Value(Pout) {
						if ex, isEx := core.Strip(pair[1]).(*ssa.Extract); isEx && ex.Index == 0 {
							if cl, isCl := ex.Tuple.(*ssa.Call); isCl && cl.Call.StaticCallee() == w {
								adv = true
							}
						}
					}
				}
			}
		}
		// (the sum may reach the header phi through a join phi)
		if !adv {
			for _, ph := range phisOf(fn) {
				if !phiFeeds(ph, Pout) {
					continue
				}
				for _, e := range ph.Edges {
					if bo, isB := core.Strip(e).(*ssa.BinOp); isB && bo.Op == token.ADD {
						if ex, isEx := core.Strip(bo.Y).(*ssa.Extract); isEx && ex.Index == 0 {
							if cl, isCl := ex.Tuple.(*ssa.Call); isCl && cl.Call.StaticCallee() == w {
								adv = true
							}
						}
					}
				}
			}
		}
		c.Decide(retQ && adv, "R11.1", "worker-cursor-handed-back", c.Pos(up), "the worker returns its cursor and the receive loop adds it to the parse cursor", "the framing worker does not return how far it parsed, or the receive loop does not advance its parse cursor by exactly that: delivered blocks are parsed again or bytes are skipped")
		P = Pout
	}
	// compaction
	var cp *ssa.Call
	dstWhole := false
	core.InstrsDeep(fn, func(in ssa.Instruction) {
		cl, ok := isBuiltinCall(in, "copy")
		if !ok {
			return
		}
		if sameVal(cl.Call.Args[0], buf) {
			cp, dstWhole = cl, true
			return
		}
		// a re-slice of the buffer as destination
		if sl, ok := core.Strip(cl.Call.Args[0]).(*ssa.Slice); ok && sameVal(sl.X, buf) && cp == nil {
			cp = cl
			dstWhole = sl.High == nil && (sl.Low == nil || func() bool { k, isC := core.ConstInt(sl.Low); return isC && k == 0 }())
		}
	})
	if cp == nil {
		c.Und("R11.1", "compaction", pos, "no copy(buffer, …) found")
		return
	}
	c.Decide(dstWhole, "R11.1", "compaction-destination-is-buffer-start", c.Pos(cp), "the unread window is copied to the start of the whole buffer", "compaction copies into a truncated or shifted part of the buffer: only some of the unread bytes are moved while the cursors are reset for all of them — the partially received block is delivered with corrupted bytes")
	src, ok := core.Strip(cp.Call.Args[1]).(*ssa.Slice)
	okSrc := ok && src.Low != nil && src.High != nil && sameVal(src.X, buf) && sameVal(src.High, W2)
	// the parse cursor at the compaction point: P or the outer phi it feeds
	var pAt ssa.Value
	if okSrc {
		pAt = core.Resolve(src.Low)
		okSrc = pAt == ssa.Value(P) || phiFeeds(pAt, P) || phiFeeds(P, pAt)
	}
	c.Decide(okSrc, "R11.1", "compaction-moves-unread-window", c.Pos(cp), "copy(buffer, buffer[p:w])", "compaction does not move exactly the unread window buffer[parseCursor:writeCursor] to the front: the partially received block is corrupted when the buffer wraps")
	if okSrc {
		// cursor reset on the edges leaving the copy's block: W := w-p, P(outer) := 0
		okW, okP := false, false
		// the value a cursor takes on the way out of the copy's block — also when the
		// compaction's join point (an `if` without else, followed by more code of the
		// iteration) puts a phi between the copy and the loop header
		var viaCopy func(v ssa.Value, pred *ssa.BasicBlock, d int) (ssa.Value, bool)
		viaCopy = func(v ssa.Value, pred *ssa.BasicBlock, d int) (ssa.Value, bool) {
			if pred == cp.Block() || cp.Block().Dominates(pred) {
				if ph, isPh := core.Strip(v).(*ssa.Phi); isPh && d < 4 && !cp.Block().Dominates(ph.Block()) {
					for j, e2 := range ph.Edges {
						if r, ok := viaCopy(e2, ph.Block().Preds[j], d+1); ok {
							return r, true
						}
					}
				}
				return v, true
			}
			if ph, isPh := core.Strip(v).(*ssa.Phi); isPh && d < 4 {
				for j, e2 := range ph.Edges {
					if r, ok := viaCopy(e2, ph.Block().Preds[j], d+1); ok {
						return r, true
					}
				}
			}
			return nil, false
		}
		for i, e := range W.Edges {
			if v, ok := viaCopy(e, W.Block().Preds[i], 0); ok {
				b, okB := core.Strip(v).(*ssa.BinOp)
				okW = okB && b.Op == token.SUB && sameVal(b.X, W2) && core.Resolve(b.Y) == pAt
			}
		}
		// the phi through which the parse cursor re-enters the receive loop
		for _, ph := range phisOf(fn) {
			if ph == W || !phiFeeds(ph, P) && ssa.Value(ph) != ssa.Value(P) {
				continue
			}
			for i, e := range ph.Edges {
				if v, ok := viaCopy(e, ph.Block().Preds[i], 0); ok {
					k, isC := core.ConstInt(v)
					if isC && k == 0 {
						okP = true
					} else {
						okP = false
					}
				}
			}
		}
		c.Decide(okW && okP, "R11.1", "compaction-resets-both-cursors", c.Pos(cp), "after the copy: writeCursor = w-p and parseCursor = 0", "after compaction the cursors are not reset together to (writeCursor-parseCursor, 0): the next read overwrites unread bytes or the parser resumes at the wrong offset")
	}
}

// pos2 avoids shadowing by local variables named pos.
func pos2(a *core.Atom) core.Lit { return core.Lit{A: a, Want: true} }

func phisOf(fn *ssa.Function) []*ssa.Phi {
	var out []*ssa.Phi
	core.InstrsDeep(fn, func(in ssa.Instruction) {
		if ph, ok := in.(*ssa.Phi); ok {
			out = append(out, ph)
		}
	})
	return out
}

// phiFeeds: a is (transitively, through phis only) an incoming value of phi b.
func phiFeeds(a ssa.Value, b ssa.Value) bool {
	seen := map[ssa.Value]bool{}
	var walk func(v ssa.Value) bool
	walk = func(v ssa.Value) bool {
		v = core.Resolve(v)
		if v == core.Resolve(a) {
			return true
		}
		ph, ok := v.(*ssa.Phi)
		if !ok || seen[v] {
			return false
		}
		seen[v] = true
		for _, e := range ph.Edges {
			if walk(e) {
				return true
			}
		}
		return false
	}
	ph, ok := core.Resolve(b).(*ssa.Phi)
	if !ok {
		return false
	}
	seen[ph] = true
	for _, e := range ph.Edges {
		if walk(e) {
			return true
		}
	}
	return false
}

// c11ReadBytesBeforeError — R11.1: bytes that Read returns together with an error are
// framed like any others (io.Reader allows (n > 0, err), io.EOF included): from the Read
// call the parse of the next block is reachable, in the same iteration, also on the edges
// asserting err != nil.
func c11ReadBytesBeforeError(c *core.Ctx) {
	fn := c.P.Func("fw/face", "", "readTlvStream")
	if fn == nil {
		return
	}
	var rd *ssa.Call
	var parse ssa.Instruction
	core.InstrsDeep(fn, func(in ssa.Instruction) {
		if cl, ok := in.(*ssa.Call); ok {
			if cl.Call.IsInvoke() && cl.Call.Method.Name() == "Read" && rd == nil {
				rd = cl
			}
			if id, okID := core.Callee(&cl.Call); okID && id.Name == "ReadTLNum" && parse == nil {
				parse = in
			}
		}
	})
	if rd == nil || parse == nil || rd.Parent() != parse.Parent() {
		return
	}
	var errv ssa.Value
	for _, r := range core.Refs(rd) {
		if ex, ok := r.(*ssa.Extract); ok && ex.Index == 1 {
			errv = ex
		}
	}
	if errv == nil {
		return
	}
	okErr := atomNonNil("Read error", errv)
	cut := map[core.Edge]bool{}
	for _, f := range core.EdgeFacts(fn, okErr) {
		if !f.Holds { // err == nil
			cut[f.E] = true
		}
	}
	reach := core.ReachInstrFrom(core.After(rd), parse, cut, func(x ssa.Instruction) bool { return x == ssa.Instruction(rd) }) != nil
	c.Decide(reach, "R11.1", "bytes-returned-with-an-error-are-framed", c.Pos(rd), "the parse of the next block is reachable from Read in the same iteration also when Read reported an error", "readTlvStream looks at the error of Read before it parses the bytes returned with it: a final (n > 0, io.EOF) result loses the complete blocks of that chunk, and a chunk returned with an ignored error is parsed only after a later successful read (lost if the stream ends first)")
}

func c11AppFace(c *core.Ctx) {
	p := c.P
	fn := c.Fn("R11.2", "std/engine/face", "StreamFace", "Run")
	if fn == nil {
		return
	}
	var nums []ssa.Value
	core.InstrsDeep(fn, func(in ssa.Instruction) {
		if e, ok := in.(*ssa.Extract); ok && e.Index == 0 && isCallTo(e.Tuple, core.CalleeID{Pkg: "std/encoding", Name: "ReadTLNum"}) {
			nums = append(nums, e)
		}
	})
	if len(nums) != 2 {
		c.Und("R11.2", "type-and-length", p.Pos(fn.Pos()), fmt.Sprintf("expected two ReadTLNum calls, found %d", len(nums)))
		return
	}
	t, l := nums[0], nums[1]
	// both from the same reader
	r0, _ := core.CallArgs(&t.(*ssa.Extract).Tuple.(*ssa.Call).Call)
	_ = r0
	var mk *ssa.MakeSlice
	core.InstrsDeep(fn, func(in ssa.Instruction) {
		if m, ok := in.(*ssa.MakeSlice); ok {
			if bt, ok := m.Type().Underlying().(*types.Slice); ok {
				if b, ok := bt.Elem().Underlying().(*types.Basic); ok && b.Kind() == types.Uint8 {
					mk = m
				}
			}
		}
	})
	if mk == nil {
		c.Und("R11.2", "block-buffer", p.Pos(fn.Pos()), "no []byte allocation found in StreamFace.Run")
		return
	}
	// The block is handed up AS RECEIVED: its header octets are the ones that were read (a
	// number written in a longer than shortest form is legal and every parser accepts it;
	// re-encoding the header changes the bytes — and with them the implicit digest the
	// engine computes over a bare Data). So: buffer = make(len(header read) + L); the header
	// octets are copied to its start; the value is read in full behind them; T and L are
	// NOT encoded into the buffer again.
	var hdr ssa.Value // the slice holding the header octets that were read
	for _, a := range addends(mk.Len) {
		if h, isLen := core.LenOf(core.StripConv(a)); isLen {
			if _, isSl := h.Type().Underlying().(*types.Slice); isSl {
				hdr = h
			}
		}
	}
	okSize := false
	if hdr != nil {
		as := addends(mk.Len)
		if len(as) == 2 {
			for k := 0; k < 2; k++ {
				// (the allocation may sit in a private helper that is given the header and L)
				if h, isLen := core.LenOf(core.StripConv(as[k])); isLen && core.Same(h, hdr) && (core.StripConv(as[1-k]) == l || core.StripConv(core.Resolve(core.StripConv(as[1-k]))) == l) {
					okSize = true
				}
			}
		}
	}
	perBlock := core.InLoop(mk.Block())
	if !perBlock && mk.Parent() != fn {
		if cs := p.Callers(mk.Parent()); len(cs) == 1 && core.InLoop(cs[0].Block()) {
			perBlock = true
		}
	}
	c.Decide(okSize && perBlock, "R11.2", "buffer-is-header+value-per-block", c.Pos(mk), "a fresh buffer of len(header octets read)+L bytes for every block", "the block buffer is not a fresh allocation of (header octets read)+L bytes per block: blocks are truncated, padded, or overwrite each other while the engine still parses them — or the header is sized from the shortest encoding of T and L instead of from the octets that were read")
	okT, okV, reenc := false, false, ""
	var full ssa.CallInstruction
	core.InstrsDeep(fn, func(in ssa.Instruction) {
		if cl, ok := isBuiltinCall(in, "copy"); ok && hdr != nil {
			if unwrapBytes(cl.Call.Args[0]) == ssa.Value(mk) && core.Same(unwrapBytes(cl.Call.Args[1]), hdr) {
				okT = true
			}
		}
		ci, ok := in.(ssa.CallInstruction)
		if !ok {
			return
		}
		id, ok := core.Callee(ci.Common())
		if !ok {
			return
		}
		switch {
		case id.Pkg == "std/encoding" && id.Name == "EncodeInto":
			_, a := core.CallArgs(ci.Common())
			dst := unwrapBytes(a[0])
			if sl, isSl := dst.(*ssa.Slice); isSl {
				dst = sl.X
			}
			if dst == ssa.Value(mk) {
				reenc = c.Pos(in)
			}
		case id.Pkg == "io" && id.Name == "ReadFull":
			full = ci
			_, a := core.CallArgs(ci.Common())
			if sl, ok := unwrapBytes(a[1]).(*ssa.Slice); ok && sl.X == ssa.Value(mk) && sl.Low != nil && sl.High == nil && hdr != nil {
				if h, isLen := core.LenOf(core.StripConv(sl.Low)); isLen && core.Same(h, hdr) {
					okV = true
				}
			}
		}
	})
	c.Decide(okT && reenc == "", "R11.2", "header-kept-as-received", c.Pos(mk), "the header octets that were read are copied to the start of the buffer; T and L are not encoded again", "the block's header is not the one that was received (T and L are re-encoded into the buffer"+func() string {
		if reenc != "" {
			return " at " + reenc
		}
		return ""
	}()+", or the octets read are not copied to its start): a type or length written in a longer form reaches the engine in the shortest form — the block is not byte-identical, and the implicit digest computed over it differs from the sender's")
	c.Decide(full != nil && okV, "R11.2", "value-read-in-full", c.Pos(mk), "io.ReadFull reads the value into buffer[len(header):], i.e. exactly L bytes", "the value is not read with io.ReadFull into buffer[len(header octets):]: a short read (any chunking of the stream) hands up a partly filled block, or the next block starts at the wrong byte")
	// hand-up: onPkt(NewBufferReader(buf))
	okUp := false
	core.InstrsDeep(fn, func(in ssa.Instruction) {
		cl, ok := in.(*ssa.Call)
		if !ok || cl.Call.IsInvoke() || cl.Call.StaticCallee() != nil {
			return
		}
		if _, okF := core.FieldOf(cl.Call.Value, "onPkt"); !okF || len(cl.Call.Args) != 1 {
			return
		}
		if nb, ok := core.Strip(cl.Call.Args[0]).(*ssa.Call); ok && isCallTo(nb, core.CalleeID{Pkg: "std/encoding", Name: "NewBufferReader"}) {
			okUp = unwrapBytes(nb.Call.Args[0]) == ssa.Value(mk) || unwrapBytes(core.Resolve(unwrapBytes(nb.Call.Args[0]))) == ssa.Value(mk)
		}
	})
	c.Decide(okUp, "R11.2", "whole-block-handed-up", c.Pos(mk), "onPkt receives a reader over the whole buffer", "the engine is not given a reader over the whole block buffer")

	// ---- R11.12 "each no larger than the maximum packet size … delivered": a size limit of
	// the receive loop refuses only blocks that are LARGER than the maximum packet size. Every
	// comparison of the announced length (alone, or plus the octets of the header) with a
	// constant K refuses e > T with T = K for `>` / `<=` and T = K-1 for `>=` / `<`; e never
	// exceeds the size of the block, so a block of at most the maximum is certainly kept
	// iff T ≥ maximum. (That a limit exists at all is C04's rule.)
	maxPkt := int64(8800)
	if dp := p.Pkgs[core.ModPath+"/fw/defn"]; dp != nil {
		if o, okO := dp.Types.Scope().Lookup("MaxNDNPacketSize").(*types.Const); okO {
			if v, okV := constInt64(o); okV {
				maxPkt = v
			}
		}
	}
	var derived func(v ssa.Value, d int) bool
	derived = func(v ssa.Value, d int) bool {
		if d > 5 {
			return false
		}
		v = core.StripConv(v)
		if v == l {
			return true
		}
		if b, isB := v.(*ssa.BinOp); isB && b.Op == token.ADD {
			return derived(b.X, d+1) || derived(b.Y, d+1)
		}
		return false
	}
	nLim, tight := 0, ""
	core.InstrsDeep(fn, func(in ssa.Instruction) {
		iff, isIf := in.(*ssa.If)
		if !isIf {
			return
		}
		var conds []ssa.Value
		conds = append(conds, iff.Cond)
		for _, cond := range conds {
			op, x, y, okC := core.Cmp(cond)
			if !okC || !derived(x, 0) {
				continue
			}
			k, isK := core.ConstInt(y)
			if !isK {
				continue
			}
			t := k
			switch op {
			case token.GTR, token.LEQ:
			case token.GEQ, token.LSS:
				t = k - 1
			default:
				continue
			}
			nLim++
			if t < maxPkt {
				tight = fmt.Sprintf("%s (refuses sizes above %d)", c.Pos(iff), t)
			}
		}
	})
	c.Decide(tight == "", "R11.12", "size-limit-keeps-a-maximum-size-block", c.Pos(mk), fmt.Sprintf("%d size limit(s) on the announced length, none refuses a block of %d octets or fewer", nLim, maxPkt), "StreamFace.Run refuses a block that is not larger than the maximum packet size at "+tight+": a block of exactly the maximum size stops the face, and it and everything behind it on the stream is lost")
	c.Floor("R11.12", "size limits on the announced length in StreamFace.Run", nLim, 1)
}

// unwrapBytes strips the type changes between []byte and its named forms.
func unwrapBytes(v ssa.Value) ssa.Value {
	for i := 0; i < 6; i++ {
		v = core.Strip(v)
		switch x := v.(type) {
		case *ssa.ChangeType:
			v = x.X
		case *ssa.Convert:
			v = x.X
		default:
			return v
		}
	}
	return v
}
