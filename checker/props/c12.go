package props

import (
	"fmt"
	"go/ast"
	"go/token"
	"go/types"
	"sort"
	"strings"

	"ndndcheck/core"

	"golang.org/x/tools/go/ssa"
)

// cryptoPkgs returns the crypto packages called from fn, following static callees
// inside the repository up to depth levels.
func cryptoPkgs(fn *ssa.Function, depth int, seen map[*ssa.Function]bool, out map[string]bool) {
	if fn == nil || fn.Blocks == nil || seen[fn] {
		return
	}
	seen[fn] = true
	core.Instrs(fn, func(in ssa.Instruction) {
		ci, ok := in.(ssa.CallInstruction)
		if !ok {
			return
		}
		cc := ci.Common()
		if cc.IsInvoke() {
			return
		}
		sc := cc.StaticCallee()
		if sc == nil {
			// function values such as sha256.New passed to hmac.New
			return
		}
		path := ""
		if sc.Pkg != nil {
			path = sc.Pkg.Pkg.Path()
		} else if o := sc.Object(); o != nil && o.Pkg() != nil {
			path = o.Pkg().Path()
		}
		if strings.HasPrefix(path, "crypto/") {
			out[path] = true
		} else if strings.HasPrefix(path, core.ModPath) && depth > 0 {
			cryptoPkgs(sc, depth-1, seen, out)
		}
	})
}

var sigTypeByCrypto = []struct {
	pkg  string
	typ  int64
	name string
}{
	{"crypto/rsa", 1, "SignatureSha256WithRsa"},
	{"crypto/ecdsa", 3, "SignatureSha256WithEcdsa"},
	{"crypto/ed25519", 5, "SignatureEd25519"},
	{"crypto/hmac", 4, "SignatureHmacWithSha256"},
	{"crypto/sha256", 0, "SignatureDigestSha256"},
}

func expectedSigType(pkgs map[string]bool) (int64, string, bool) {
	for _, e := range sigTypeByCrypto {
		if pkgs[e.pkg] {
			return e.typ, e.name, true
		}
	}
	return 0, "", false
}

func pkgList(m map[string]bool) string {
	var out []string
	for k := range m {
		out = append(out, k)
	}
	sort.Strings(out)
	return strings.Join(out, ",")
}

// C12 — Signed packets verify iff untampered; signer and parser cover the same bytes.
func C12(c *core.Ctx) {
	c.Explain = "Bit-flip detection is a cryptographic/value statement and is NOT decided. Decided structural necessary conditions: (R12.1) for every ndn.Signer implementation in std/security (discovered through the type checker) the SigType constant announced by SigInfo agrees with the crypto primitive used by ComputeSigValue (crypto/rsa→Rsa, ecdsa→Ecdsa, ed25519→Ed25519, hmac→Hmac, sha256 only→DigestSha256), every signer hashes all covered buffers, and a validator expecting that (type, primitive) pair exists; (R12.2) every *Validate function returns a non-false verdict only on the edge asserting the SigType it is for, only from its verify primitive, after feeding every buffer of sigCovered; (R12.3) ReadInterest/ReadPacket/ReadData return a packet only through the structural checks (checkInterest == nil, Name present), checkInterest accepts parameters only with a ParametersSha256Digest last component AND a matching sha256 over the parser's digestCovered, rejects a signature without parameters, and MakeInterest computes and stores the digest on every successful path when parameters are present; (R12.4) for each model with a signature field the marker/covered names of the definition are the ones the generated encoder and parser assign, in the same field order."
	c.RuleText = "instances: ndn.Signer implementations, *Validate functions, Read* entry points, checkInterest returns, models with a signature field. Non-trivial = has a constant pair, branch edge or path to decide."
	p := c.P
	sl := &core.Slicer{P: p}

	signerI := p.Named("std/ndn", "Signer")
	if signerI == nil {
		c.Und("R12.1", "anchor:ndn.Signer", "-", "interface not found")
		return
	}
	frozen := map[string]string{"emptySigner": "test signer: announces SignatureEmptyTest and signs nothing"}
	signerTypes := map[int64]bool{}
	nS := 0
	for _, t := range p.Implementations(signerI) {
		if t.Obj().Pkg().Path() != core.ModPath+"/std/security" {
			continue
		}
		tn := t.Obj().Name()
		nS++
		si := p.MethodOf(t, "SigInfo")
		cs := p.MethodOf(t, "ComputeSigValue")
		if si == nil || cs == nil || si.Blocks == nil || cs.Blocks == nil {
			c.Und("R12.1", "signer:"+tn, "-", "SigInfo/ComputeSigValue not found")
			continue
		}
		c.Funcs[core.FuncName(si)] = true
		c.Funcs[core.FuncName(cs)] = true
		typs := map[int64]bool{}
		core.Instrs(si, func(in ssa.Instruction) {
			if _, v, ok := storeToField(in, "SigConfig", "Type"); ok {
				if k, isC := core.ConstInt(v); isC {
					typs[k] = true
				} else {
					typs[-999] = true
				}
			}
		})
		pk := map[string]bool{}
		cryptoPkgs(cs, 2, map[*ssa.Function]bool{}, pk)
		// hmac.New(sha256.New, …): the function value counts as use of hmac only
		var tl []string
		for k := range typs {
			tl = append(tl, fmt.Sprint(k))
		}
		sort.Strings(tl)
		key := "signer-type-vs-primitive:" + tn
		if why, ok := frozen[tn]; ok {
			c.Ok("R12.1", key, p.Pos(si.Pos()), "frozen exception: "+why)
			continue
		}
		want, wname, ok := expectedSigType(pk)
		if !ok {
			c.Viol("R12.1", key, p.Pos(cs.Pos()), tn+".ComputeSigValue uses no known crypto primitive ("+pkgList(pk)+")")
			continue
		}
		good := len(typs) == 1 && typs[want]
		c.Decide(good, "R12.1", key, p.Pos(si.Pos()),
			fmt.Sprintf("announces %s (%d) and signs with %s", wname, want, pkgList(pk)),
			fmt.Sprintf("%s.SigInfo announces SigType %s but ComputeSigValue signs with %s (expected %s=%d): every packet it signs is rejected by the matching validator", tn, strings.Join(tl, ","), pkgList(pk), wname, want))
		signerTypes[want] = true
		// all covered buffers are fed
		covered := ssa.Value(cs.Params[len(cs.Params)-1])
		fedAll := false
		core.Instrs(cs, func(in ssa.Instruction) {
			ci, ok := in.(ssa.CallInstruction)
			if !ok || ci.Common().Method == nil || ci.Common().Method.Name() != "Write" {
				return
			}
			a := ci.Common().Args
			if len(a) == 1 {
				ls := sl.Leaves(a[0])
				if len(ls) == 1 && ls[0].Val == covered && strings.Join(ls[0].Via, "") == "[]" {
					h := loopHeader(in.Block())
					if h != nil && everyIterationPasses(cs, h, func(x ssa.Instruction) bool { return x == in }) {
						fedAll = true
					}
				}
			}
		})
		if !fedAll {
			// delegation to another signer's ComputeSigValue with the same argument
			core.Instrs(cs, func(in ssa.Instruction) {
				if ci, ok := in.(ssa.CallInstruction); ok {
					if id, ok := core.Callee(ci.Common()); ok && id.Name == "ComputeSigValue" {
						_, a := core.CallArgs(ci.Common())
						if len(a) == 1 && a[0] == covered {
							fedAll = true
						}
					}
				}
			})
		}
		if !fedAll {
			// … or to a worker of the package that is handed the covered wire and feeds
			// every buffer of it (hmacSha256(key, wire))
			core.Instrs(cs, func(in ssa.Instruction) {
				ci, ok := in.(ssa.CallInstruction)
				if !ok {
					return
				}
				g := ci.Common().StaticCallee()
				if g == nil || g.Blocks == nil || g.Pkg != cs.Pkg {
					return
				}
				for i, a := range ci.Common().Args {
					if a != covered || i >= len(g.Params) {
						continue
					}
					gcov := ssa.Value(g.Params[i])
					core.Instrs(g, func(in2 ssa.Instruction) {
						c2, ok2 := in2.(ssa.CallInstruction)
						if !ok2 || c2.Common().Method == nil || c2.Common().Method.Name() != "Write" || len(c2.Common().Args) != 1 {
							return
						}
						ls := sl.Leaves(c2.Common().Args[0])
						if len(ls) == 1 && ls[0].Val == gcov && strings.Join(ls[0].Via, "") == "[]" {
							h := loopHeader(in2.Block())
							if h != nil && everyIterationPasses(g, h, func(x ssa.Instruction) bool { return x == in2 }) {
								fedAll = true
							}
						}
					})
				}
			})
		}
		c.Decide(fedAll, "R12.1", "signer-covers-all-buffers:"+tn, p.Pos(cs.Pos()), "every buffer of the covered wire is written to the hash", tn+".ComputeSigValue does not feed every buffer of the covered wire to its hash (multi-buffer packets are signed over a subset of the signed portion)")
	}
	c.Floor("R12.1", "Signer implementations in std/security", nS, 7)
	c12SignatureOwnStorage(c)

	// ---- validators
	valTypes := map[int64]string{}
	nV := 0
	for _, fn := range p.FuncsIn(core.ModPath + "/std/security") {
		if fn.Parent() != nil || fn.Signature.Recv() != nil || !strings.HasSuffix(fn.Name(), "Validate") || len(fn.Params) < 2 {
			continue
		}
		res := fn.Signature.Results()
		if res.Len() != 1 || !types.Identical(res.At(0).Type(), types.Typ[types.Bool]) {
			continue
		}
		fn = core.Forwarded(fn) // (a validator split into wrapper + worker is analysed at the worker)
		nV++
		c.Funcs[core.FuncName(fn)] = true
		sig := ssa.Value(fn.Params[1])
		var want int64 = -999
		typeEq := &core.Atom{Name: "sig.SigType()==T", Match: func(cond ssa.Value) (int, int) {
			op, x, y, ok := core.Cmp(cond)
			if !ok || (op != token.EQL && op != token.NEQ) {
				return 0, 0
			}
			k, isC := core.ConstInt(y)
			cl, isCall := core.Strip(x).(*ssa.Call)
			if !isC || !isCall {
				return 0, 0
			}
			if _, ok := core.IsCall(cl, core.CalleeID{Pkg: "std/ndn", Recv: "Signature", Name: "SigType"}); !ok {
				return 0, 0
			}
			if r, _ := core.CallArgs(&cl.Call); r != sig {
				return 0, 0
			}
			want = k
			return core.Iff(op == token.EQL)
		}}
		var accepts []ssa.Instruction
		core.Instrs(fn, func(in ssa.Instruction) {
			if r, ok := in.(*ssa.Return); ok {
				if b, isC := core.ConstBool(r.Results[0]); !(isC && !b) {
					accepts = append(accepts, r)
				}
			}
		})
		g := core.GateDeep(fn, accepts, pos(typeEq))
		c.Decide(len(accepts) > 0 && g.OK && g.PassEdges > 0, "R12.2", "validator-type-gate:"+fn.Name(), p.Pos(fn.Pos()),
			"a non-false verdict is reachable only on the edge asserting the expected SigType",
			fn.Name()+" can accept a signature whose announced SigType is not the one it verifies")
		pk := map[string]bool{}
		cryptoPkgs(fn, 2, map[*ssa.Function]bool{}, pk)
		exp, ename, ok := expectedSigType(pk)
		c.Decide(ok && exp == want, "R12.2", "validator-type-vs-primitive:"+fn.Name(), p.Pos(fn.Pos()),
			fmt.Sprintf("expects SigType %d and verifies with %s", want, pkgList(pk)),
			fmt.Sprintf("%s tests SigType %d but verifies with %s (which is %s=%d)", fn.Name(), want, pkgList(pk), ename, exp))
		valTypes[want] = fn.Name()
		// the verdict comes from the verify primitive
		for i, r := range accepts {
			ls := sl.Leaves(r.(*ssa.Return).Results[0])
			okV := len(ls) > 0
			for _, l := range ls {
				cl, isC := l.Val.(*ssa.Call)
				if !isC {
					if b, ok := l.Val.(*ssa.BinOp); ok { // rsa: err == nil
						if x, isX := core.Strip(b.X).(*ssa.Call); isX {
							cl = x
							isC = true
						}
					}
				}
				if !isC {
					okV = false
					continue
				}
				id, _ := core.Callee(&cl.Call)
				good := (strings.HasPrefix(id.Pkg, "crypto/") && strings.HasPrefix(id.Name, "Verify")) ||
					(id.Pkg == "bytes" && id.Name == "Equal") || (id.Pkg == "crypto/hmac" && id.Name == "Equal") ||
					(id.Pkg == "std/security" && id.Name == "CheckHmacSig")
				if !good {
					okV = false
				}
			}
			c.Decide(okV, "R12.2", fmt.Sprintf("validator-verdict-source:%s#%d", fn.Name(), i), c.Pos(r), "verdict is the result of the verify/compare primitive", fn.Name()+" returns a verdict that is not the result of its verify primitive: "+core.LeafSet(ls))
		}
	}
	c.Floor("R12.2", "validators", nV, 5)
	for t := range signerTypes {
		_, ok := valTypes[t]
		c.Decide(ok, "R12.1", fmt.Sprintf("validator-exists-for-type:%d", t), "-", "a validator expecting this SigType exists: "+valTypes[t], fmt.Sprintf("no validator in std/security expects SigType %d although a shipped signer produces it", t))
	}

	// ---- R12.3
	if ck := c.Fn("R12.3", "std/ndn/spec_2022", "", "checkInterest"); ck != nil {
		val, ctx := ssa.Value(ck.Params[0]), ssa.Value(ck.Params[1])
		var okRets []ssa.Instruction
		// accepting returns: `return nil`, also inside a helper whose result checkInterest
		// returns as its own (return helper(...))
		var collect func(f *ssa.Function, depth int)
		collect = func(f *ssa.Function, depth int) {
			core.Instrs(f, func(in ssa.Instruction) {
				r, ok := in.(*ssa.Return)
				if !ok || len(r.Results) == 0 {
					return
				}
				last := r.Results[len(r.Results)-1]
				if core.IsNilConst(last) {
					okRets = append(okRets, r)
					return
				}
				if cl, isCall := core.Strip(last).(*ssa.Call); isCall && depth < 3 {
					if cal := cl.Call.StaticCallee(); cal != nil && cal.Blocks != nil {
						for _, g := range core.Reach(ck) {
							if g == cal {
								collect(cal, depth+1)
							}
						}
					}
				}
			})
		}
		collect(ck, 0)
		c.Floor("R12.3", "accepting returns of checkInterest", len(okRets), 1)
		appNonNil := atomFieldNonNil("AppParams!=nil", val, "ApplicationParameters")
		// ---- R12.7 a parameters-digest component vouches for an ApplicationParameters
		// element: on the side on which that element is absent, a name component of type
		// ParametersSha256Digest cannot lead to acceptance (otherwise altering the type
		// octet of the parameters element, which makes the parser skip it as unknown, goes
		// unnoticed although the digest is still in the name)
		if digT, okT := lookupConst(p, "std/encoding", "TypeParametersSha256DigestComponent"); okT {
			isDig := &core.Atom{Name: "component is a parameters digest", Match: func(cond ssa.Value) (int, int) {
				op, x, y, ok := core.Cmp(cond)
				if !ok || (op != token.EQL && op != token.NEQ) {
					return 0, 0
				}
				if _, isC := core.ConstInt(x); isC {
					x, y = y, x
				}
				k, isC := core.ConstInt(y)
				if !isC || k != digT {
					return 0, 0
				}
				if _, isTyp := core.FieldOf(core.StripConv(x), "Typ"); !isTyp {
					return 0, 0
				}
				return core.Iff(op == token.EQL)
			}}
			nTests, bad := 0, ""
			for _, nf := range core.EdgeFactsDeep(ck, appNonNil) {
				if nf.Holds || len(nf.E.To.Preds) != 1 {
					continue // only the side asserting that the parameters are absent
				}
				for _, df := range core.EdgeFactsDeep(ck, isDig) {
					if !df.Holds || df.E.From.Parent() != nf.E.To.Parent() {
						continue
					}
					if !(nf.E.To == df.E.From || nf.E.To.Dominates(df.E.From)) {
						continue
					}
					nTests++
					for _, r := range okRets {
						if r.Parent() == df.E.To.Parent() && core.ReachInstrFrom(core.Point{Block: df.E.To, Idx: 0}, r, nil, nil) != nil {
							bad = c.Pos(r)
						}
					}
				}
			}
			c.Decide(nTests > 0 && bad == "", "R12.7", "digest-component-needs-parameters", p.Pos(ck.Pos()), "without ApplicationParameters, a ParametersSha256Digest component in the name leads to rejection", "checkInterest accepts an Interest whose name carries a ParametersSha256Digest component although no ApplicationParameters element was decoded (the digest is only compared when the element is present): flipping a bit of the element's type octet makes the parser skip it as unknown, and the Interest decodes with its parameters gone")
		}
		sigNonNil := atomFieldNonNil("SignatureValue!=nil", val, "SignatureValue")
		nameNonNil := atomFieldNonNil("Name!=nil", val, "NameV")
		isLastComp := func(v ssa.Value, field string) bool {
			b, ok := core.FieldOf(v, field)
			if !ok {
				return false
			}
			// the component may have been copied into a local first (last := name[len-1])
			if al, isAl := core.Strip(b).(*ssa.Alloc); isAl {
				if v, once := core.StoredOnce(al); once {
					b = v
				}
			}
			if u, isLoad := core.Strip(b).(*ssa.UnOp); isLoad && u.Op == token.MUL {
				b = u.X
			}
			ia, ok := core.Strip(b).(*ssa.IndexAddr)
			if !ok || !isFieldLoad(ia.X, val, "NameV") {
				return false
			}
			sub, ok := core.StripConv(ia.Index).(*ssa.BinOp)
			if !ok || sub.Op != token.SUB {
				return false
			}
			k, isC := core.ConstInt(sub.Y)
			l, isL := core.LenOf(sub.X)
			return isC && k == 1 && isL && isFieldLoad(l, val, "NameV")
		}
		digestTyp := int64(2)
		if o, ok := p.Pkgs[core.ModPath+"/std/encoding"].Types.Scope().Lookup("TypeParametersSha256DigestComponent").(*types.Const); ok {
			if v, ok := constInt64(o); ok {
				digestTyp = v
			}
		}
		typOK := &core.Atom{Name: "last.Typ==ParametersSha256Digest", Match: func(cond ssa.Value) (int, int) {
			op, x, y, ok := core.Cmp(cond)
			if !ok || (op != token.EQL && op != token.NEQ) {
				return 0, 0
			}
			k, isC := core.ConstInt(y)
			if !isC || k != digestTyp || !isLastComp(x, "Typ") {
				return 0, 0
			}
			return core.Iff(op == token.EQL)
		}}
		digOK := &core.Atom{Name: "bytes.Equal(last.Val, sha256(digestCovered))", Match: func(cond ssa.Value) (int, int) {
			cl, ok := core.Strip(cond).(*ssa.Call)
			if !ok {
				return 0, 0
			}
			if _, ok := core.IsCall(cl, idBytesEqual); !ok {
				return 0, 0
			}
			a, b := cl.Call.Args[0], cl.Call.Args[1]
			if !isLastComp(a, "Val") {
				a, b = b, a
			}
			if !isLastComp(a, "Val") {
				return 0, 0
			}
			for _, rv := range core.ReturnedValues(b) {
				if sum, ok := core.Strip(rv).(*ssa.Call); ok && sum.Call.Method != nil && sum.Call.Method.Name() == "Sum" {
					return 1, -1
				}
			}
			return 0, 0
		}}
		for _, a := range []*core.Atom{typOK, digOK} {
			g := core.GateDeep(ck, okRets, neg(appNonNil), pos(a))
			c.Decide(g.OK && g.PerLit[0] > 0 && g.PerLit[1] > 0, "R12.3", "params-digest-gate:"+a.Name, p.Pos(ck.Pos()),
				"with parameters present, acceptance is reachable only through "+a.Name,
				"an Interest carrying ApplicationParameters can be accepted without "+a.Name+" having been established (a tampered parameters block or digest is not rejected on decode)")
		}
		g := core.GateDeep(ck, okRets, neg(sigNonNil), pos(appNonNil))
		c.Decide(g.OK && g.PerLit[0] > 0, "R12.3", "signature-needs-params", p.Pos(ck.Pos()), "a SignatureValue without ApplicationParameters is rejected", "a signed Interest without ApplicationParameters is accepted")
		g = core.GateDeep(ck, okRets, pos(nameNonNil))
		c.Decide(g.OK && g.PassEdges > 0, "R12.3", "name-required", p.Pos(ck.Pos()), "acceptance requires a Name", "an Interest without Name is accepted")
		// the hash is fed from context.digestCovered, every buffer
		fed := false
		slCk := &core.Slicer{P: p, Root: ck}
		core.InstrsDeep(ck, func(in ssa.Instruction) {
			ci, ok := in.(ssa.CallInstruction)
			if !ok || ci.Common().Method == nil || ci.Common().Method.Name() != "Write" {
				return
			}
			ls := slCk.Leaves(ci.Common().Args[0])
			if len(ls) == 1 && ls[0].Val == ctx && strings.Join(ls[0].Via, "") == ".digestCovered[]" {
				h := loopHeader(in.Block())
				fed = h != nil && everyIterationPasses(in.Parent(), h, func(x ssa.Instruction) bool { return x == in })
			}
		})
		c.Decide(fed, "R12.3", "digest-over-parsed-range", p.Pos(ck.Pos()), "the digest is computed over every buffer of the parser's digestCovered", "checkInterest does not hash every buffer of the parser's digestCovered range")
	}
	// entry points
	for _, ep := range []struct{ recv, name string }{{"Spec", "ReadInterest"}, {"", "ReadPacket"}, {"Spec", "ReadData"}} {
		fn := c.Fn("R12.3", "std/ndn/spec_2022", ep.recv, ep.name)
		if fn == nil {
			continue
		}
		var rets []ssa.Instruction
		core.Instrs(fn, func(in ssa.Instruction) {
			if r, ok := in.(*ssa.Return); ok && len(r.Results) > 0 && !core.IsNilConst(r.Results[0]) {
				rets = append(rets, r)
			}
		})
		fieldNonNil := func(f string) *core.Atom {
			return atomValNonNil("."+f+"!=nil", func(v ssa.Value) bool {
				_, ok := core.FieldOf(v, f)
				if !ok {
					return false
				}
				_, path := core.FieldPath(v)
				return len(path) == 1 || (len(path) > 0 && path[len(path)-1] == f)
			})
		}
		intr, data := fieldNonNil("Interest"), fieldNonNil("Data")
		ckOK := &core.Atom{Name: "checkInterest()==nil", Match: func(cond ssa.Value) (int, int) {
			op, x, y, ok := core.Cmp(cond)
			if !ok || (op != token.EQL && op != token.NEQ) || !core.IsNilConst(y) {
				return 0, 0
			}
			if isCallTo(x, core.CalleeID{Pkg: "std/ndn/spec_2022", Name: "checkInterest"}) {
				return core.Iff(op == token.EQL)
			}
			return 0, 0
		}}
		parseOK := &core.Atom{Name: "Parse err==nil", Match: func(cond ssa.Value) (int, int) {
			op, x, y, ok := core.Cmp(cond)
			if !ok || (op != token.EQL && op != token.NEQ) || !core.IsNilConst(y) {
				return 0, 0
			}
			if e, isE := core.Strip(x).(*ssa.Extract); isE && e.Index == 1 && isCallTo(e.Tuple, core.CalleeID{Pkg: "std/ndn/spec_2022", Recv: "PacketParsingContext", Name: "Parse"}) {
				return core.Iff(op == token.EQL)
			}
			return 0, 0
		}}
		g := core.GateDeep(fn, rets, pos(parseOK))
		c.Decide(len(rets) > 0 && g.OK && g.PassEdges > 0, "R12.3", "entry-parse-error-gate:"+ep.name, p.Pos(fn.Pos()), "a packet is returned only when Parse returned no error", ep.name+" can return a packet although decoding failed")
		switch ep.name {
		case "ReadInterest", "ReadPacket":
			// (the presence of a Data in the same buffer is no excuse: callers look at the
			// Interest first — a former version of this rule accepted the Data branch as a
			// pass and missed exactly that bypass)
			_ = data
			g := core.GateDeep(fn, rets, neg(intr), pos(ckOK))
			c.Decide(g.OK && g.PerLit[1] > 0, "R12.3", "entry-checkInterest-gate:"+ep.name, p.Pos(fn.Pos()), "an Interest is returned only through checkInterest == nil", ep.name+" can return an Interest that did not pass checkInterest (parameters digest unchecked)")
		case "ReadData":
			nm := atomValNonNil("Data.Name!=nil", func(v ssa.Value) bool {
				_, path := core.FieldPath(v)
				return len(path) >= 2 && path[len(path)-1] == "NameV" && path[len(path)-2] == "Data"
			})
			g := core.GateDeep(fn, rets, pos(data))
			g2 := core.GateDeep(fn, rets, pos(nm))
			c.Decide(g.OK && g.PassEdges > 0 && g2.OK && g2.PassEdges > 0, "R12.3", "entry-data-gates", p.Pos(fn.Pos()), "Data is returned only when present and named", "ReadData can return a nil or name-less Data")
		}
	}
	// MakeInterest writes the digest when parameters are present
	if mk := c.Fn("R12.3", "std/ndn/spec_2022", "Spec", "MakeInterest"); mk != nil {
		app := ssa.Value(mk.Params[3])
		need := &core.Atom{Name: "appParam!=nil", Match: func(cond ssa.Value) (int, int) {
			op, x, y, ok := core.Cmp(cond)
			if ok && (op == token.EQL || op == token.NEQ) && core.IsNilConst(y) && core.Strip(x) == app {
				return core.Iff(op == token.NEQ)
			}
			return 0, 0
		}}
		isDigestCopy := func(in ssa.Instruction) bool {
			cl, ok := isBuiltinCall(in, "copy")
			if !ok {
				return false
			}
			s, ok := core.Strip(cl.Call.Args[1]).(*ssa.Call)
			return ok && s.Call.Method != nil && s.Call.Method.Name() == "Sum"
		}
		isFailReturn := func(in ssa.Instruction) bool {
			r, ok := in.(*ssa.Return)
			if !ok || len(r.Results) == 0 {
				return false
			}
			if len(r.Results) >= 2 && core.IsNilConst(r.Results[0]) {
				return true // MakeInterest itself: (nil, err)
			}
			// a helper split off it that returns only an error: a non-nil error fails
			last := r.Results[len(r.Results)-1]
			if n, isN := last.Type().(*types.Named); isN && n.Obj().Name() == "error" && !core.IsNilConst(last) {
				if _, isConst := last.(*ssa.Const); !isConst {
					return in.Parent() != mk
				}
			}
			return false
		}
		okAll, n := true, 0
		cut, _ := core.CutEdgesDeep(mk, neg(need))
		for _, f := range core.EdgeFactsDeep(mk, need) {
			if !f.Holds {
				continue
			}
			n++
			// the encode/sign/digest tail may be a worker split off MakeInterest
			if !core.MustFollowCutDeep(mk, core.Point{Block: f.E.To, Idx: 0}, isDigestCopy, isFailReturn, cut).OK {
				okAll = false
			}
		}
		c.Decide(okAll && n > 0, "R12.3", "make-interest-writes-digest", p.Pos(mk.Pos()), "with parameters present every successful path stores sha256 into the digest component", "MakeInterest can succeed with ApplicationParameters without computing the ParametersSha256Digest component")
	}

	// ---- R12.6 (shared with C03 R3.4) the post-signing length fix-up keeps the header
	// inside the buffer that replaces the wire segment
	// ---- R12.8 a validator checks the WHOLE signature value: the bytes handed to the
	// verification primitive (ecdsa.VerifyASN1, rsa.VerifyPKCS1v15, hmac.Equal, bytes.Equal,
	// ed25519.Verify) are the result of Signature.SigValue() itself — not a slice of it. A
	// validator that cuts the value down to what it understands (the first DER element)
	// accepts a packet whose remaining signature octets were altered: a bit flipped inside the
	// signature value must make decoding fail or the validator reject.
	{
		nV := 0
		for _, fn := range p.FuncsIn(core.ModPath + "/std/security") {
			if strings.HasSuffix(p.File(fn.Pos()), "_test.go") {
				continue
			}
			core.Instrs(fn, func(in ssa.Instruction) {
				ci, ok := in.(ssa.CallInstruction)
				if !ok {
					return
				}
				id, okID := core.Callee(ci.Common())
				if !okID {
					return
				}
				sigIdx := -1
				switch {
				case id.Pkg == "crypto/ecdsa" && id.Name == "VerifyASN1":
					sigIdx = 2
				case id.Pkg == "crypto/rsa" && (id.Name == "VerifyPKCS1v15" || id.Name == "VerifyPSS"):
					sigIdx = 3
				case id.Pkg == "crypto/ed25519" && id.Name == "Verify":
					sigIdx = 2
				case (id.Pkg == "crypto/hmac" || id.Pkg == "bytes") && id.Name == "Equal":
					sigIdx = 1
				}
				if sigIdx < 0 || sigIdx >= len(ci.Common().Args) {
					return
				}
				// the signature argument, back to SigValue() or to the parameter it arrived in
				cut := ""
				fromSig := false
				seen := map[ssa.Value]bool{}
				var walk func(v ssa.Value, d int)
				walk = func(v ssa.Value, d int) {
					v = core.Strip(v)
					if d > 6 || seen[v] {
						return
					}
					seen[v] = true
					switch y := v.(type) {
					case *ssa.Slice:
						cut = c.Pos(y)
						walk(y.X, d+1)
					case *ssa.Phi:
						for _, e := range y.Edges {
							walk(e, d+1)
						}
					case *ssa.Call:
						if y.Call.IsInvoke() && y.Call.Method.Name() == "SigValue" {
							fromSig = true
						}
					case *ssa.Parameter:
						// CheckHmacSig(sigCovered, sigValue, key): the callers pass SigValue()
						for _, cs := range p.Callers(y.Parent()) {
							for i, q := range y.Parent().Params {
								if q == y && i < len(cs.Common().Args) {
									walk(cs.Common().Args[i], d+1)
								}
							}
						}
					}
				}
				walk(ci.Common().Args[sigIdx], 0)
				if !fromSig {
					return // not a comparison against a packet's signature value
				}
				nV++
				c.Funcs[core.FuncName(fn)] = true
				c.Decide(cut == "", "R12.8", fmt.Sprintf("validator-checks-whole-signature-value:%s:%s", core.FuncName(fn), id.Name), c.Pos(in), "the verification primitive receives SigValue() as it is", core.FuncName(fn)+" hands "+id.Pkg+"."+id.Name+" a slice of the packet's signature value (cut at "+cut+"), not the value itself: the octets outside the slice are covered by nothing, so flipping a bit of them leaves a packet that decodes and that the validator still accepts")
			})
		}
		c.Floor("R12.8", "verification primitives applied to a packet's signature value", nV, 4)
	}
	// ---- R12.10 the two packet builders accept the same signers. "For every signer type
	// shipped … Data and Interest variants": a refusal that depends on nothing but the
	// signer's size estimate (EstimateSize() compared with a constant, the asserted side
	// returning an error) sits in both of MakeData / MakeInterest or in neither — a signer
	// that can sign Data (RSA: 256 octets) must not be refused for Interests by its size alone
	{
		refusals := map[string]string{}
		for _, name := range []string{"MakeData", "MakeInterest"} {
			fn := c.Fn("R12.10", "std/ndn/spec_2022", "Spec", name)
			if fn == nil {
				continue
			}
			core.InstrsDeep(fn, func(in ssa.Instruction) {
				iff, ok := in.(*ssa.If)
				if !ok {
					return
				}
				_, x, y, okC := core.Cmp(iff.Cond)
				if !okC {
					return
				}
				if _, isC := core.ConstInt(y); !isC {
					return
				}
				// x derives from signer.EstimateSize()
				fromEst := false
				var walk func(v ssa.Value, d int)
				walk = func(v ssa.Value, d int) {
					if d > 5 || fromEst {
						return
					}
					switch z := core.StripConv(v).(type) {
					case *ssa.Call:
						if z.Call.IsInvoke() && z.Call.Method.Name() == "EstimateSize" {
							fromEst = true
						}
					case *ssa.Phi:
						for _, e := range z.Edges {
							walk(e, d+1)
						}
					case *ssa.UnOp:
						walk(z.X, d+1)
					}
				}
				walk(x, 0)
				if !fromEst {
					return
				}
				for _, succ := range iff.Block().Succs {
					if r, isR := succ.Instrs[len(succ.Instrs)-1].(*ssa.Return); isR && len(r.Results) == 2 && !core.IsNilConst(r.Results[1]) {
						refusals[name] = c.Pos(iff)
					}
				}
			})
		}
		_, d := refusals["MakeData"]
		at, i := refusals["MakeInterest"]
		if d && !i {
			at = refusals["MakeData"]
		}
		c.Decide(d == i, "R12.10", "builders-accept-the-same-signers", at, "neither builder (or both) refuses a signer by its size estimate alone", "one of MakeData / MakeInterest refuses a signer by its size estimate alone (at "+at+") and the other does not: the shipped RSA signer (256-octet signatures with a 2048-bit key) signs Data but no Interest can be built with it, so for that signer and packet kind no packet exists that the matching validator could accept")
	}
	// ---- R12.9 (shared with C13 R13.13) the digest and signature ranges the parser
	// reconstructs end where the encoder's end: an element of a known type that arrives
	// behind the field cursor must not run the cursor past the range markers (that closes
	// the parameters-digest range at this element instead of at the end of the Interest)
	c.Import(C13, "R12.9", "the ordered parser of the packet closes its covered ranges early at an element that arrives behind the field cursor: bytes appended behind an Interest's parameters or signature escape the parameters digest, and the Interest is accepted although its digest does not match", 2, func(k string) bool {
		return strings.HasPrefix(k, "R13.13:ordered-element-consumed-or-refused:std/ndn/spec_2022.")
	})
	c.Import(C03, "R12.6", "the outer length fix-up after signing corrupts the header of a packet whose Length shrinks to a shorter encoding: the packet sent is not the packet signed", 2, func(k string) bool {
		return strings.HasPrefix(k, "R3.4:")
	})

	// ---- R12.5 once the parameters digest has been computed, no byte of the encoded wire
	// is written any more (only the outer header may be shrunk): signer, digest and parser
	// must see the same bytes
	if mk := c.Fn("R12.5", "std/ndn/spec_2022", "Spec", "MakeInterest"); mk != nil {
		var digestCopy ssa.Instruction
		core.InstrsDeep(mk, func(in ssa.Instruction) {
			if cl, ok := isBuiltinCall(in, "copy"); ok {
				if sm, ok := core.Strip(cl.Call.Args[1]).(*ssa.Call); ok && sm.Call.Method != nil && sm.Call.Method.Name() == "Sum" {
					digestCopy = in
				}
			}
		})
		if digestCopy == nil {
			c.Und("R12.5", "digest-copy", p.Pos(mk.Pos()), "cannot find the digest store in MakeInterest")
		} else {
			late := ""
			n := 0
			core.InstrsDeep(mk, func(in ssa.Instruction) {
				// a number encoder writing into a wire buffer (the signature length is
				// patched with TLNum.EncodeInto) is a write like a byte store
				if ci, isCI := in.(ssa.CallInstruction); isCI {
					if id, okID := core.Callee(ci.Common()); okID && id.Pkg == "std/encoding" && id.Name == "EncodeInto" && (id.Recv == "TLNum" || id.Recv == "Nat") {
						n++
						if core.ReachableAfterDeep(mk, digestCopy, in) {
							late = c.Pos(in)
						}
					}
					return
				}
				st, ok := in.(*ssa.Store)
				if !ok {
					return
				}
				ia, ok := st.Addr.(*ssa.IndexAddr)
				if !ok {
					return
				}
				// a store into a byte buffer that is an element of the encoded wire
				elemT, isSl := ia.X.Type().Underlying().(*types.Slice)
				if !isSl {
					return
				}
				if b, isB := elemT.Elem().Underlying().(*types.Basic); !isB || b.Kind() != types.Uint8 {
					return
				}
				n++
				if core.ReachableAfterDeep(mk, digestCopy, in) {
					late = c.Pos(in)
				}
			})
			c.Decide(late == "" && n > 0, "R12.5", "no-wire-write-after-digest", c.Pos(digestCopy), fmt.Sprintf("%d byte stores into wire buffers all happen before the digest is computed", n), "MakeInterest writes into the encoded wire (at "+late+") after the ParametersSha256Digest was computed over it: the digest (and the decoder's check) covers bytes that differ from the ones sent")
		}
	}

	// ---- R12.4 definition-level covered-range agreement
	models, _ := discoverModels(p)
	nSig := 0
	for _, m := range models {
		// find "+field:signature:<marker>:<covered>"
		defFile, _ := p.FileAST(strings.TrimPrefix(p.Fset.Position(m.Pos).Filename, p.Dir+"/"))
		if defFile == nil {
			continue
		}
		marker, covered, sigField := sigAnnotation(defFile, m.Name)
		if sigField == "" {
			continue
		}
		nSig++
		mk := strings.TrimPrefix(m.Pkg.PkgPath, core.ModPath+"/") + "." + m.Name
		idx := func(name string) int {
			for i, f := range m.Fields {
				if f == name {
					return i
				}
			}
			return -1
		}
		im, is := idx(marker), idx(sigField)
		okOrder := im >= 0 && is > im && idx(covered) >= 0
		c.Decide(okOrder, "R12.4", "signature-annotation:"+mk, p.Pos(m.Pos), fmt.Sprintf("marker %s (field %d) precedes signature %s (field %d); covered=%s", marker, im, sigField, is, covered), "signature annotation of "+mk+" names a marker/covered field that does not exist or does not precede the signature field")
		// generated code assigns exactly these names
		for _, side := range []struct{ recv, fn, obj string }{{m.Name + "Encoder", "Init", "encoder"}, {m.Name + "ParsingContext", "Parse", "context"}} {
			fd := findMethodDecl(m.Pkg, side.recv, side.fn)
			has := map[string]bool{}
			if fd != nil {
				astAssignedSelectors(fd, side.obj, has)
			}
			c.Decide(has[marker] && (has[covered] || side.fn == "Init"), "R12.4", "covered-range-names:"+mk+":"+side.recv, p.Pos(m.Pos), side.recv+"."+side.fn+" assigns "+marker+" / "+covered, side.recv+"."+side.fn+" does not assign the marker/covered variables named by the definition ("+marker+", "+covered+"): signer and parser cover different bytes")
		}
	}
	c.Floor("R12.4", "models with a signature field", nSig, 4)
}

// sigAnnotation finds "+field:signature:<marker>:<covered>" in the struct named model.
func sigAnnotation(file *ast.File, model string) (marker, covered, field string) {
	for _, d := range file.Decls {
		gd, ok := d.(*ast.GenDecl)
		if !ok || gd.Tok != token.TYPE || len(gd.Specs) == 0 {
			continue
		}
		ts, ok := gd.Specs[0].(*ast.TypeSpec)
		if !ok || ts.Name.Name != model {
			continue
		}
		st, ok := ts.Type.(*ast.StructType)
		if !ok {
			continue
		}
		for _, f := range st.Fields.List {
			if f.Doc == nil || len(f.Names) == 0 {
				continue
			}
			for _, cm := range f.Doc.List {
				t := strings.TrimSpace(strings.TrimPrefix(cm.Text, "//"))
				parts := strings.Split(t, ":")
				if len(parts) >= 4 && parts[0] == "+field" && parts[1] == "signature" {
					return parts[2], parts[3], f.Names[0].Name
				}
			}
		}
	}
	return "", "", ""
}

// astAssignedSelectors records the field names X of obj.X = … assignments in fd.
func astAssignedSelectors(fd *ast.FuncDecl, obj string, out map[string]bool) {
	ast.Inspect(fd.Body, func(n ast.Node) bool {
		as, ok := n.(*ast.AssignStmt)
		if !ok {
			return true
		}
		for _, l := range as.Lhs {
			if se, ok := l.(*ast.SelectorExpr); ok {
				if id, ok := se.X.(*ast.Ident); ok && id.Name == obj {
					out[se.Sel.Name] = true
				}
			}
		}
		return true
	})
}

// c12SignatureOwnStorage — R12.11 "the matching validator accepts it": the packet builders
// place the slice a signer returns into the packet's wire without copying it. A signature
// value therefore lives in storage made for that call: the result of ComputeSigValue does not
// trace to a field of the signer (a scratch buffer handed to Sum / append and reused) — the
// next packet signed by the same signer would overwrite the signature of the previous one,
// which is still held (queued, cached, being validated).
func c12SignatureOwnStorage(c *core.Ctx) {
	p := c.P
	n, bad := 0, ""
	for _, fn := range p.FuncsIn(core.ModPath + "/std/security") {
		if fn.Name() != "ComputeSigValue" || fn.Signature.Recv() == nil || fn.Blocks == nil || strings.HasSuffix(p.File(fn.Pos()), "_test.go") {
			continue
		}
		n++
		core.InstrsDeep(fn, func(in ssa.Instruction) {
			r, ok := in.(*ssa.Return)
			if !ok || len(r.Results) == 0 || in.Parent() != fn {
				return
			}
			seen := map[ssa.Value]bool{}
			var walk func(v ssa.Value, d int)
			walk = func(v ssa.Value, d int) {
				v = core.Strip(v)
				if v == nil || seen[v] || d > 8 {
					return
				}
				seen[v] = true
				switch x := v.(type) {
				case *ssa.Phi:
					for _, e := range x.Edges {
						walk(e, d+1)
					}
				case *ssa.Slice:
					walk(x.X, d+1)
				case *ssa.Extract:
					walk(x.Tuple, d+1)
				case *ssa.Call:
					// Sum(b) and append(b, …) extend their first argument
					if x.Call.IsInvoke() && x.Call.Method.Name() == "Sum" && len(x.Call.Args) == 1 {
						walk(x.Call.Args[0], d+1)
						return
					}
					if b, isB := x.Call.Value.(*ssa.Builtin); isB && b.Name() == "append" {
						walk(x.Call.Args[0], d+1)
						return
					}
					if g := x.Call.StaticCallee(); g != nil && g.Blocks != nil && strings.HasPrefix(core.PkgPathOf(g), core.ModPath) {
						core.Instrs(g, func(ri ssa.Instruction) {
							if rr, okR := ri.(*ssa.Return); okR && len(rr.Results) > 0 && ri.Block() != g.Recover {
								walk(rr.Results[0], d+1)
							}
						})
					}
				default:
					if _, path := core.FieldPath(v); len(path) > 0 {
						if _, isSl := v.Type().Underlying().(*types.Slice); isSl {
							bad = fmt.Sprintf("%s returns storage of its field %s (at %s)", core.FuncName(fn), strings.Join(path, "."), c.Pos(in))
						}
					}
				}
			}
			walk(r.Results[0], 0)
		})
	}
	c.Decide(bad == "", "R12.11", "signature-value-has-storage-of-its-own", "-", fmt.Sprintf("%d signers, none returns a signature that lives in a field of the signer", n), "a signer returns its signature value in storage it keeps and reuses ("+bad+"): MakeData / MakeInterest place that slice in the packet without copying, so signing the next packet overwrites the signature of the previous one — an untampered packet that is still held is then rejected by the matching validator")
	c.Floor("R12.11", "ComputeSigValue implementations in std/security", n, 6)
}
