package props

import (
	"fmt"
	"go/ast"
	"go/token"
	"go/types"
	"reflect"
	"sort"
	"strconv"
	"strings"

	"ndndcheck/core"

	"golang.org/x/tools/go/packages"
	"golang.org/x/tools/go/ssa"
)

type genModel struct {
	Pkg     *packages.Package
	Name    string
	Ordered bool
	Pos     token.Pos
	Tags    []int64       // tags of fields with a TLV number, definition order
	Index   map[int64]int // tag → index among all +field fields
	Fields  []string
	Extra   []int64 // value-element type numbers of map fields
	// element fields (every +field kind except the three that write no element of their
	// own: procedureArgument, offsetMarker, rangeMarker) that carry no TLV type number
	Untagged []string
	NElem    int
}

// discoverModels scans the non-generated files of every package that has a
// zz_generated.go for structs annotated "+tlv-model".
func discoverModels(p *core.Prog) (models []*genModel, genFiles int) {
	for _, pk := range p.All {
		hasGen := false
		for _, f := range pk.CompiledGoFiles {
			if strings.HasSuffix(f, "zz_generated.go") {
				hasGen = true
				genFiles++
			}
		}
		if !hasGen {
			continue
		}
		for i, file := range pk.Syntax {
			if i < len(pk.CompiledGoFiles) && strings.HasSuffix(pk.CompiledGoFiles[i], "zz_generated.go") {
				continue
			}
			for _, d := range file.Decls {
				gd, ok := d.(*ast.GenDecl)
				if !ok || gd.Tok != token.TYPE || len(gd.Specs) == 0 {
					continue
				}
				opts := ""
				if gd.Doc != nil {
					for _, cm := range gd.Doc.List {
						t := strings.TrimSpace(strings.TrimPrefix(cm.Text, "//"))
						if strings.HasPrefix(t, "+tlv-model") {
							opts = t
						}
					}
				}
				ts, ok := gd.Specs[0].(*ast.TypeSpec)
				if !ok {
					continue
				}
				st, ok := ts.Type.(*ast.StructType)
				if !ok {
					continue
				}
				m := &genModel{Pkg: pk, Name: ts.Name.Name, Pos: ts.Pos(), Index: map[int64]int{}}
				if j := strings.Index(opts, ":"); j >= 0 {
					for _, o := range strings.Split(opts[j+1:], ",") {
						if strings.TrimSpace(o) == "ordered" {
							m.Ordered = true
						}
					}
				}
				idx := 0
				for _, f := range st.Fields.List {
					if len(f.Names) == 0 || f.Doc == nil {
						continue
					}
					isField := false
					kind := ""
					for _, cm := range f.Doc.List {
						t := strings.TrimSpace(strings.TrimPrefix(cm.Text, "//"))
						if strings.HasPrefix(t, "+field:") {
							isField = true
							if ps := strings.Split(t, ":"); len(ps) >= 2 {
								kind = ps[1]
							}
							// map fields carry the TLV type of their value element in the annotation
							parts := strings.Split(t, ":")
							if len(parts) >= 5 && parts[1] == "map" {
								if n, err := strconv.ParseInt(parts[4], 0, 64); err == nil && n != 0 {
									m.Extra = append(m.Extra, n)
								}
							}
						}
					}
					if !isField {
						continue
					}
					tagged := false
					if f.Tag != nil {
						tag, _ := strconv.Unquote(f.Tag.Value)
						if v, ok := reflect.StructTag(tag).Lookup("tlv"); ok {
							if n, err := strconv.ParseInt(v, 0, 64); err == nil && n != 0 {
								m.Tags = append(m.Tags, n)
								m.Index[n] = idx
								tagged = true
							}
						}
					}
					if kind != "procedureArgument" && kind != "offsetMarker" && kind != "rangeMarker" {
						m.NElem++
						if !tagged {
							m.Untagged = append(m.Untagged, f.Names[0].Name+" ("+kind+")")
						}
					}
					m.Fields = append(m.Fields, f.Names[0].Name)
					idx++
				}
				if len(m.Fields) == 0 {
					continue // not a TLV model: no '+field:' annotated field
				}
				models = append(models, m)
			}
		}
	}
	sort.Slice(models, func(i, j int) bool {
		if models[i].Pkg.PkgPath != models[j].Pkg.PkgPath {
			return models[i].Pkg.PkgPath < models[j].Pkg.PkgPath
		}
		return models[i].Name < models[j].Name
	})
	return
}

func findMethodDecl(pk *packages.Package, recv, name string) *ast.FuncDecl {
	for _, f := range pk.Syntax {
		for _, d := range f.Decls {
			fd, ok := d.(*ast.FuncDecl)
			if ok && fd.Name.Name == name && recvName(fd) == recv {
				return fd
			}
		}
	}
	return nil
}

func sortedSet(xs []int64) []int64 {
	m := map[int64]bool{}
	for _, x := range xs {
		m[x] = true
	}
	var out []int64
	for x := range m {
		out = append(out, x)
	}
	sort.Slice(out, func(i, j int) bool { return out[i] < out[j] })
	return out
}

// C13 — Every generated TLV model round-trips exactly and matches its generator.
func C13(c *core.Ctx) {
	c.Explain = "Value round-trips and 'the checked-in generated code is what the generator produces' are NOT decided (the latter needs the generator to be run, which is outside static analysis). Decided structural necessary conditions for every generated model, discovered at check time by scanning all packages for '+tlv-model' definitions next to a zz_generated.go: (R13.1) the TLV type numbers of the definition's struct tags = the case labels of the generated parser's type switch = the type numbers the generated encoder writes, and for ordered models each case tests progress+1 against that field's definition index; (R13.2) in every generated parser the ErrUnrecognizedField return is enter-gated by ¬ignoreCritical and by (typ ≤ 31 ∨ typ&1 == 1) with exactly these constants, each alternative alone suffices, and every non-rejected unknown element is skipped with reader.Skip(int(l)); (R13.3) ordered-parse progress invariant: on the path through the unknown-element branch the field cursor 'progress' is decremented before the loop's post-increment (net change 0), otherwise an unknown non-critical element shifts the cursor and all later fields are lost; (R13.4) the size tables of the generated encoders are decided under C03 R3.3 and re-run here."
	c.RuleText = "instances: every '+tlv-model' struct discovered (floor 79), its parser and encoder in zz_generated.go. Non-trivial = a model with ≥1 tagged field (table rows to compare) or a parser with a default branch."
	p := c.P
	defer c13GeneratorOrder(c)
	models, genFiles := discoverModels(p)
	// ---- R13.14 skipping an unknown element depends only on its length: every reader's Skip
	// refuses (returns an error) only behind a test of the number of bytes it was asked to
	// skip. A refusal decided by the position alone ("already at the end") rejects a
	// zero-length unknown element that is the last of its block — an unknown non-critical
	// element must be skipped at ANY position.
	// ---- R13.15 (shared with C03 R3.2) the number primitives the generated code calls
	{
		nSkip := 0
		if pr := p.Named("std/encoding", "ParseReader"); pr != nil {
			for _, t := range p.Implementations(pr) {
				fn := p.MethodOf(t, "Skip")
				if fn == nil || fn.Blocks == nil || len(fn.Params) < 2 || strings.HasSuffix(p.File(fn.Pos()), "_test.go") {
					continue
				}
				nSkip++
				c.Funcs[core.FuncName(fn)] = true
				n := fn.Params[1]
				derives := func(v ssa.Value) bool {
					found := false
					var walk func(v ssa.Value, d int)
					seen := map[ssa.Value]bool{}
					walk = func(v ssa.Value, d int) {
						if d > 6 || found || v == nil || seen[v] {
							return
						}
						seen[v] = true
						if v == ssa.Value(n) {
							found = true
							return
						}
						switch y := v.(type) {
						case *ssa.BinOp:
							walk(y.X, d+1)
							walk(y.Y, d+1)
						case *ssa.UnOp:
							walk(y.X, d+1)
						case *ssa.Convert:
							walk(y.X, d+1)
						case *ssa.Phi:
							for _, e := range y.Edges {
								walk(e, d+1)
							}
						}
					}
					walk(v, 0)
					return found
				}
				bad := ""
				core.Instrs(fn, func(in ssa.Instruction) {
					r, ok := in.(*ssa.Return)
					if !ok || len(r.Results) != 1 || core.IsNilConst(r.Results[0]) {
						return
					}
					guarded := false
					for d := r.Block().Idom(); d != nil; d = d.Idom() {
						if iff, isIf := d.Instrs[len(d.Instrs)-1].(*ssa.If); isIf && derives(iff.Cond) {
							guarded = true
						}
					}
					if iff, isIf := r.Block().Instrs[len(r.Block().Instrs)-1].(*ssa.If); isIf && derives(iff.Cond) {
						guarded = true
					}
					if !guarded {
						bad = c.Pos(r)
					}
				})
				c.Decide(bad == "", "R13.14", "skip-refuses-only-by-length:"+core.FuncName(fn), p.Pos(fn.Pos()), "every error return of Skip lies behind a test of the number of bytes to skip", core.FuncName(fn)+" can refuse to skip without having looked at the number of bytes (error return at "+bad+"): an unknown non-critical element with an empty value at the end of a block is rejected by every generated parser although it must be skipped at any position")
			}
		}
		c.Floor("R13.14", "Skip implementations of enc.ParseReader", nSkip, 2)

		// ---- R13.16 "inserted at any position": the two operations of the segmented reader
		// that advance by a length without reading — Skip (an unknown element) and Delegate
		// (a known one) — move to the next segment under the same comparison of the position
		// with the segment's length. A Skip that also moves on when it ends exactly at the end
		// of a segment runs past the last segment and reports EOF for an element that ends
		// where the wire ends: an unknown non-critical element at the END of a packet fails
		// every parser, while the same element anywhere else is skipped.
		ops := map[string]string{}
		for _, name := range []string{"Skip", "Delegate"} {
			fn := c.Fn("R13.16", "std/encoding", "WireReader", name)
			if fn == nil {
				continue
			}
			// (the loop may sit in a helper the two share: then they agree by construction)
			core.InstrsDeep(fn, func(in ssa.Instruction) {
				iff, ok := in.(*ssa.If)
				if !ok || !core.InLoop(iff.Block()) {
					return
				}
				op, x, y, ok := core.Cmp(iff.Cond)
				if !ok {
					return
				}
				isPos := func(v ssa.Value) bool {
					_, path := core.FieldPath(core.StripConv(v))
					return len(path) > 0 && path[len(path)-1] == "pos"
				}
				isSegLen := func(v ssa.Value) bool {
					l, ok := core.LenOf(core.StripConv(v))
					if !ok {
						return false
					}
					ld, ok := core.Strip(l).(*ssa.UnOp)
					if !ok {
						return false
					}
					_, isIdx := ld.X.(*ssa.IndexAddr)
					return isIdx
				}
				if isPos(y) && isSegLen(x) {
					x, y, op = y, x, core.Swap(op)
				}
				if isPos(x) && isSegLen(y) {
					ops[name] = op.String()
				}
			})
		}
		if len(ops) == 2 {
			c.Decide(ops["Skip"] == ops["Delegate"], "R13.16", "skip-and-delegate-change-segment-alike", "-", "both move to the next segment when pos "+ops["Skip"]+" len(segment)", "WireReader.Skip moves to the next segment when pos "+ops["Skip"]+" len(segment) but WireReader.Delegate when pos "+ops["Delegate"]+" len(segment): a skip that ends exactly at the end of the last segment steps past it and reports EOF — an unknown non-critical element at the end of a packet read from a segmented wire makes the parser fail, although the same element is skipped at every other position")
		} else {
			c.Und("R13.16", "anchor:segment-change loops of WireReader.Skip and Delegate", "-", fmt.Sprintf("found %d of 2 loops that compare the position with the segment length", len(ops)))
		}
	}
	c.Import(C03, "R13.15", "a number primitive that the generated encoders and parsers call deviates from the TLV number code: what one side writes the other side does not read back", 4, func(k string) bool {
		return strings.HasPrefix(k, "R3.2:table:")
	})
	// ---- R13.12 (shared with C03 R3.1) generated encoders size a Name field by summing
	// Component.EncodingLength and write it with Component.EncodeInto (hand-written in
	// std/encoding): both use the TLV length code for the component's length, or the encoder
	// writes a different number of bytes than it announced
	c.Import(C03, "R13.12", "the component sizer and writer that every generated Name encoder calls disagree about the length code: the encoder yields a different number of bytes than it announced", 2, func(k string) bool {
		return strings.HasPrefix(k, "R3.1:length-as-tlnum:Component.") || strings.HasPrefix(k, "R3.1:length-as-nat:std/encoding.Component.")
	})
	// ---- R13.18 (shared with C03 R3.16 / R3.20) the shortcut of the component sizer and
	// writer for one-octet headers stops at 252
	c.Import(C03, "R13.18", "the component sizer or writer that every generated Name encoder calls takes its one-octet shortcut for a number above 252: a name field announces one size and writes another", 2, func(k string) bool {
		return strings.HasPrefix(k, "R3.20:one-octet-threshold-is-252:std/encoding.Component.") || strings.HasPrefix(k, "R3.16:single-header-octet-below-253:std/encoding.Component.")
	})
	c.Floor("R13.1", "generated files", genFiles, 11)
	c.Floor("R13.1", "tlv models discovered", len(models), 79)
	// ---- R13.7 in a map field the value element is looked for in a loop that treats the
	// elements between key and value like any other position of the block (skip unless
	// critical): the comparison of the element type with the value's type number sits in a
	// `for` inside the key's case that also calls reader.Skip
	{
		nMaps := 0
		for _, m := range models {
			if len(m.Extra) == 0 {
				continue
			}
			fd := findMethodDecl(m.Pkg, m.Name+"ParsingContext", "Parse")
			if fd == nil {
				continue
			}
			rel := strings.TrimPrefix(m.Pkg.PkgPath, core.ModPath+"/")
			isExtra := func(k int64) bool {
				for _, x := range m.Extra {
					if x == k {
						return true
					}
				}
				return false
			}
			var stack []ast.Node
			found, inLoopWithSkip := 0, 0
			ast.Inspect(fd.Body, func(n ast.Node) bool {
				if n == nil {
					stack = stack[:len(stack)-1]
					return true
				}
				stack = append(stack, n)
				be, ok := n.(*ast.BinaryExpr)
				if !ok || (be.Op != token.EQL && be.Op != token.NEQ) {
					return true
				}
				id, ok := be.X.(*ast.Ident)
				if !ok || id.Name != "typ" {
					return true
				}
				k, ok := constOf(m.Pkg, be.Y)
				if !ok || !isExtra(k) {
					return true
				}
				found++
				// nearest enclosing for-statement below the switch on typ
				for i := len(stack) - 1; i >= 0; i-- {
					if _, isSw := stack[i].(*ast.SwitchStmt); isSw {
						break
					}
					if fs, isFor := stack[i].(*ast.ForStmt); isFor {
						hasSkip := false
						ast.Inspect(fs.Body, func(x ast.Node) bool {
							if ce, ok := x.(*ast.CallExpr); ok {
								if se, ok := ce.Fun.(*ast.SelectorExpr); ok && se.Sel.Name == "Skip" {
									hasSkip = true
								}
							}
							return true
						})
						if hasSkip {
							inLoopWithSkip++
						}
						break
					}
				}
				return true
			})
			if found == 0 {
				continue
			}
			nMaps++
			c.Decide(inLoopWithSkip == found, "R13.7", "map-value-found-past-unknown-elements:"+rel+"."+m.Name, p.Pos(m.Pos), "the value element of the map field is looked for in a loop that skips unrecognised non-critical elements", "the generated parser of "+rel+"."+m.Name+" demands the value element of a map entry immediately after its key: an unrecognised non-critical element between the two (or a critical one with ignoreCritical) makes the whole message fail to decode, although it is skipped at every other position")
		}
		c.Floor("R13.7", "models with a map field", nMaps, 2)
	}
	// ---- R13.8 a no-copy encoder announces 0 buffers for a value with every field absent:
	// its EncodeInto does not index the first buffer of the wire plan unconditionally
	{
		nNC := 0
		for _, m := range models {
			fn := p.Func(m.Pkg.PkgPath, m.Name+"Encoder", "EncodeInto")
			if fn == nil || fn.Blocks == nil || len(fn.Params) < 3 {
				continue
			}
			wire := fn.Params[2]
			if nt, ok := wire.Type().(*types.Named); !ok || nt.Obj().Name() != "Wire" {
				continue
			}
			rel := strings.TrimPrefix(m.Pkg.PkgPath, core.ModPath+"/")
			for _, sk := range core.IndexSinks(fn) {
				if core.Strip(sk.Container) != ssa.Value(wire) {
					continue
				}
				if k, isC := core.ConstInt(core.StripConv(sk.Index)); !isC || k != 0 {
					continue
				}
				nNC++
				v := core.IndexGuarded(fn, sk, nil)
				c.Decide(v.OK, "R13.8", "nocopy-first-buffer-guarded:"+rel+"."+m.Name, c.Pos(sk.Instr), "wire[0] is read only when the wire plan is not empty", "the no-copy encoder of "+rel+"."+m.Name+" reads wire[0] unconditionally: for a value with every field absent the wire plan is empty (Init announces 0 bytes) and EncodeInto panics instead of yielding those 0 bytes")
			}
		}
		c.Floor("R13.8", "first-buffer reads of no-copy encoders", nNC, 5)
	}
	// ---- R13.9 a natural number is decoded from 1, 2, 4 or 8 octets: in every generated
	// parser, the accumulation `v = v<<8 | octet` over the announced length is reachable only
	// on an edge asserting that the length is at most 8 — otherwise a ninth octet shifts the
	// first one out and 2^64 decodes as 0 (an advertised cost, a lifetime, a sequence number)
	{
		nAcc, bad := 0, ""
		seenFn := map[*ssa.Function]bool{}
		for _, m := range models {
			fn := p.Func(m.Pkg.PkgPath, m.Name+"ParsingContext", "Parse")
			if fn == nil || fn.Blocks == nil || seenFn[fn] {
				continue
			}
			seenFn[fn] = true
			core.Instrs(fn, func(in ssa.Instruction) {
				b, ok := in.(*ssa.BinOp)
				if !ok || b.Op != token.SHL || !core.InLoop(b.Block()) {
					return
				}
				if k, isC := core.ConstInt(b.Y); !isC || k != 8 {
					return
				}
				if bt, isB := b.Type().Underlying().(*types.Basic); !isB || bt.Kind() != types.Uint64 {
					return
				}
				nAcc++
				short := &core.Atom{Name: "announced length <= 8", Match: func(cond ssa.Value) (int, int) {
					op, x, y, okC := core.Cmp(cond)
					if !okC {
						return 0, 0
					}
					if nt, isN := core.StripConv(x).Type().(*types.Named); !isN || nt.Obj().Name() != "TLNum" {
						return 0, 0
					}
					k, isC := core.ConstInt(core.StripConv(y))
					if !isC || k < 0 {
						return 0, 0
					}
					switch {
					case op == token.EQL && k <= 8:
						return 1, 0
					case op == token.NEQ && k <= 8:
						return 0, 1
					case op == token.LEQ && k <= 8, op == token.LSS && k <= 9:
						return 1, -1
					case op == token.GTR && k <= 8, op == token.GEQ && k <= 9:
						return -1, 1
					}
					return 0, 0
				}}
				g := core.Gate(fn, []ssa.Instruction{in}, pos(short))
				if !(g.OK && g.PassEdges > 0) {
					bad = core.FuncName(fn) + " at " + c.Pos(in)
				}
			})
		}
		c.Decide(bad == "", "R13.9", "natural-number-length-bounded", "-", fmt.Sprintf("%d natural-number accumulations in generated parsers, each behind a test of the announced length", nAcc), "a generated parser accumulates a natural number over as many octets as the element announces ("+bad+"): with nine octets the first is shifted out — 01 00 00 00 00 00 00 00 00 decodes as 0 — and the value re-encodes differently; the hand-written ParseNat accepts 1, 2, 4 or 8 octets only")
		c.Floor("R13.9", "natural-number accumulations in generated parsers", nAcc, 20)
	}
	// ---- R13.11 a one-octet element is read only when it announces one octet: in every
	// generated parser, a ReadByte or Skip(1) that consumes the value of an element (not one
	// of a byte loop over the announced length) is reachable only on the edge asserting
	// l == 1 — with another length the reader stays inside the element or lands in the
	// next one (HopLimit 22 00: the pointer kept for the in-place decrement addressed the
	// type octet of the element that follows)
	{
		nOne, bad := 0, ""
		seenFn := map[*ssa.Function]bool{}
		for _, m := range models {
			fn := p.Func(m.Pkg.PkgPath, m.Name+"ParsingContext", "Parse")
			if fn == nil || fn.Blocks == nil || seenFn[fn] {
				continue
			}
			seenFn[fn] = true
			elemLoops := map[*ssa.BasicBlock]bool{}
			core.Instrs(fn, func(in ssa.Instruction) {
				if cl, ok := in.(*ssa.Call); ok {
					if id, okID := core.Callee(&cl.Call); okID && id.Name == "ReadTLNum" {
						if h := loopHeader(cl.Block()); h != nil {
							elemLoops[h] = true
						}
					}
				}
			})
			core.Instrs(fn, func(in ssa.Instruction) {
				cl, ok := in.(*ssa.Call)
				if !ok || !cl.Call.IsInvoke() {
					return
				}
				switch cl.Call.Method.Name() {
				case "ReadByte":
				case "Skip":
					if k, isC := core.ConstInt(cl.Call.Args[0]); !isC || k != 1 {
						return
					}
				default:
					return
				}
				// a read inside a byte loop over the announced length (R13.9) feeds the
				// accumulation v<<8 | octet
				accum := false
				seenV := map[ssa.Value]bool{}
				var follow func(v ssa.Value, d int)
				follow = func(v ssa.Value, d int) {
					if d > 4 || seenV[v] {
						return
					}
					seenV[v] = true
					for _, r := range core.Refs(v) {
						switch y := r.(type) {
						case *ssa.Extract:
							if y.Index == 0 {
								follow(y, d+1)
							}
						case *ssa.Convert:
							follow(y, d+1)
						case *ssa.Phi:
							follow(y, d+1)
						case *ssa.BinOp:
							if y.Op == token.OR {
								accum = true
							}
						}
					}
				}
				follow(cl, 0)
				if accum {
					return
				}
				_ = elemLoops
				nOne++
				one := &core.Atom{Name: "announced length == 1", Match: func(cond ssa.Value) (int, int) {
					op, x, y, okC := core.Cmp(cond)
					if !okC || (op != token.EQL && op != token.NEQ) {
						return 0, 0
					}
					if nt, isN := core.StripConv(x).Type().(*types.Named); !isN || nt.Obj().Name() != "TLNum" {
						return 0, 0
					}
					if k, isC := core.ConstInt(core.StripConv(y)); !isC || k != 1 {
						return 0, 0
					}
					return core.Iff(op == token.EQL)
				}}
				g := core.Gate(fn, []ssa.Instruction{in}, pos(one))
				if !(g.OK && g.PassEdges > 0) {
					bad = core.FuncName(fn) + " at " + c.Pos(in)
				}
			})
		}
		c.Decide(bad == "", "R13.11", "one-octet-element-announces-one-octet", "-", fmt.Sprintf("%d one-octet reads in generated parsers, each behind l == 1", nOne), "a generated parser consumes one octet for a one-octet field whatever length the element announces ("+bad+"): with TLV-LENGTH 0 the octet belongs to the next element (HopLimit 22 00 followed by 24 ..: the in-place decrement of the hop limit rewrites the type octet of ApplicationParameters in the forwarded wire), with a longer one the rest is parsed as elements")
		c.Floor("R13.11", "one-octet element reads in generated parsers", nOne, 1)
	}
	// ---- R13.10 in a map field every key element is followed by its value element: the
	// generated encoders hand the entry's value to the (optional-field) value template only
	// when it is not nil — a nil slice is replaced by an empty one, an entry with a nil
	// pointer is left out — because that template writes nothing for nil, and a key without
	// a value is rejected by the model's own parser
	{
		nSt, bad := 0, ""
		for _, m := range models {
			for _, meth := range []string{"Init", "EncodeInto"} {
				fn := p.Func(m.Pkg.PkgPath, m.Name+"Encoder", meth)
				if fn == nil || fn.Blocks == nil {
					continue
				}
				facts := map[ssa.Value][]core.EdgeFact{}
				var neverNil func(v ssa.Value, at ssa.Instruction, d int) bool
				neverNil = func(v ssa.Value, at ssa.Instruction, d int) bool {
					if d > 4 {
						return false
					}
					switch x := core.Strip(v).(type) {
					case *ssa.Alloc, *ssa.MakeSlice, *ssa.MakeInterface, *ssa.MakeMap:
						return true
					case *ssa.Slice:
						if _, isAl := core.Strip(x.X).(*ssa.Alloc); isAl {
							return true
						}
					case *ssa.Const:
						return !x.IsNil()
					case *ssa.Phi:
						for i, e := range x.Edges {
							pred := x.Block().Preds[i]
							es := core.Strip(e)
							if _, ok := facts[es]; !ok {
								facts[es] = core.EdgeFacts(fn, atomNonNil("value != nil", es))
							}
							okE := false
							for _, f := range facts[es] {
								if f.Holds && f.E.From == pred && f.E.To == x.Block() {
									okE = true
								}
							}
							if !okE && !neverNil(e, pred.Instrs[len(pred.Instrs)-1], d+1) {
								return false
							}
						}
						return true
					}
					g := core.Gate(fn, []ssa.Instruction{at}, pos(atomNonNil("value != nil", core.Strip(v))))
					return g.OK && g.PassEdges > 0
				}
				core.Instrs(fn, func(in ssa.Instruction) {
					st, ok := in.(*ssa.Store)
					if !ok {
						return
					}
					fa, ok := st.Addr.(*ssa.FieldAddr)
					if !ok {
						return
					}
					al, isLocal := core.Strip(fa.X).(*ssa.Alloc)
					if !isLocal {
						return
					}
					_, fname := core.FieldAddrName(fa)
					if !strings.HasSuffix(fname, "_v") {
						return
					}
					// the entry as it is encoded (key and value), not the value-only
					// struct that initialises nested encoders
					hasKey := false
					if stt, okS := core.Deref(al.Type()).Underlying().(*types.Struct); okS {
						for i := 0; i < stt.NumFields(); i++ {
							if strings.HasSuffix(stt.Field(i).Name(), "_k") {
								hasKey = true
							}
						}
					}
					if !hasKey {
						return
					}
					switch st.Val.Type().Underlying().(type) {
					case *types.Slice, *types.Pointer, *types.Interface:
					default:
						return
					}
					nSt++
					if !neverNil(st.Val, in, 0) {
						bad = core.FuncName(fn) + " at " + c.Pos(in)
					}
				})
			}
		}
		c.Decide(bad == "", "R13.10", "map-key-always-followed-by-value", "-", fmt.Sprintf("%d hand-overs of a map entry's value to the value template, none of a possibly nil value", nSt), "a generated map encoder hands a possibly nil entry value to the value template ("+bad+"), which writes nothing for nil: the key element is written without a value element and the model's own parser rejects the encoding (EOF, or 'unrecognized critical type' when another entry follows) — the whole message is lost")
		c.Floor("R13.10", "map entry values handed to the value template", nSt, 4)
	}
	// ---- R13.6 every element field of every model has a TLV type number of its own: a field
	// without a tag is written as type 0, which every generated parser — its own included —
	// treats as an unrecognised critical element
	{
		nElem := 0
		for _, m := range models {
			nElem += m.NElem
			if len(m.Untagged) > 0 {
				rel := strings.TrimPrefix(m.Pkg.PkgPath, core.ModPath+"/")
				c.Viol("R13.6", "element-field-has-type-number:"+rel+"."+m.Name, p.Pos(m.Pos), fmt.Sprintf("model %s.%s: field(s) %s have no tlv type number: the generated encoder writes them as TLV type 0 and the generated parser rejects type 0 as an unrecognised critical element, so a value with the field set does not decode", rel, m.Name, strings.Join(m.Untagged, ", ")))
			}
		}
		c.Decide(true, "R13.6", "element-field-has-type-number", "-", fmt.Sprintf("%d element fields in %d models, each with a non-zero tlv tag (unless reported)", nElem, len(models)), "")
		c.Floor("R13.6", "element fields", nElem, 200)
	}
	c.Extra["models"] = len(models)

	nOrdered := 0
	nParsers := 0
	for _, m := range models {
		rel := strings.TrimPrefix(m.Pkg.PkgPath, core.ModPath+"/")
		mk := rel + "." + m.Name
		// ---- parser case labels
		var parse *ast.FuncDecl
		if fd := findMethodDecl(m.Pkg, m.Name+"ParsingContext", "Parse"); fd != nil {
			parse = fd
		}
		if parse == nil {
			c.Und("R13.1", "parser:"+mk, p.Pos(m.Pos), "generated parser (*"+m.Name+"ParsingContext).Parse not found: zz_generated.go is stale with respect to the definitions")
			continue
		}
		var cases []int64
		caseIdx := map[int64]int64{}
		ast.Inspect(parse.Body, func(n ast.Node) bool {
			sw, ok := n.(*ast.SwitchStmt)
			if !ok {
				return true
			}
			id, ok := sw.Tag.(*ast.Ident)
			if !ok || id.Name != "typ" {
				return true
			}
			for _, st := range sw.Body.List {
				cc := st.(*ast.CaseClause)
				for _, e := range cc.List {
					if k, ok := constOf(m.Pkg, e); ok {
						cases = append(cases, k)
						// ordered: if progress+1 == K
						for _, s := range cc.Body {
							if ifs, ok := s.(*ast.IfStmt); ok {
								if be, ok := ifs.Cond.(*ast.BinaryExpr); ok && be.Op == token.EQL {
									if kk, ok := constOf(m.Pkg, be.Y); ok {
										caseIdx[k] = kk
									}
								}
							}
						}
					}
				}
			}
			return false
		})
		// ---- encoder type numbers
		var encNums []int64
		if fd := findMethodDecl(m.Pkg, m.Name+"Encoder", "EncodeInto"); fd != nil {
			ast.Inspect(fd.Body, func(n ast.Node) bool {
				switch x := n.(type) {
				case *ast.AssignStmt:
					if len(x.Lhs) == 1 && len(x.Rhs) == 1 {
						if _, isIdx := x.Lhs[0].(*ast.IndexExpr); isIdx {
							if ce, ok := x.Rhs[0].(*ast.CallExpr); ok && len(ce.Args) == 1 {
								if id, ok := ce.Fun.(*ast.Ident); ok && id.Name == "byte" {
									if _, isLit := ce.Args[0].(*ast.BasicLit); isLit {
										if k, ok := constOf(m.Pkg, ce.Args[0]); ok && k != 0 {
											encNums = append(encNums, k)
										}
									}
								}
							}
						}
					}
				case *ast.CallExpr:
					if se, ok := x.Fun.(*ast.SelectorExpr); ok && strings.HasPrefix(se.Sel.Name, "PutUint") && len(x.Args) == 2 {
						if ce, ok := x.Args[1].(*ast.CallExpr); ok && len(ce.Args) == 1 {
							if _, isLit := ce.Args[0].(*ast.BasicLit); isLit {
								if k, ok := constOf(m.Pkg, ce.Args[0]); ok {
									encNums = append(encNums, k)
								}
							}
						}
					}
				}
				return true
			})
		} else {
			c.Und("R13.1", "encoder:"+mk, p.Pos(m.Pos), "generated encoder not found")
			continue
		}
		// map value elements: the parser tests them with typ != K
		ast.Inspect(parse.Body, func(n ast.Node) bool {
			if be, ok := n.(*ast.BinaryExpr); ok && (be.Op == token.NEQ || be.Op == token.EQL) {
				if id, ok := be.X.(*ast.Ident); ok && id.Name == "typ" {
					if k, ok := constOf(m.Pkg, be.Y); ok {
						// `typ != K → error` (value must follow the key) or, in the form that
						// skips unknown elements between key and value, `typ == K → value found`;
						// the equality form counts only for a value type of the definition
						isExtra := false
						for _, x := range m.Extra {
							if x == k {
								isExtra = true
							}
						}
						if be.Op == token.NEQ || isExtra {
							cases = append(cases, k)
						}
					}
				}
			}
			return true
		})
		want := sortedSet(append(append([]int64{}, m.Tags...), m.Extra...))
		gotP := sortedSet(cases)
		gotE := sortedSet(encNums)
		ok := fmt.Sprint(want) == fmt.Sprint(gotP) && fmt.Sprint(want) == fmt.Sprint(gotE)
		c.Decide(ok, "R13.1", "type-numbers:"+mk, p.Pos(m.Pos),
			fmt.Sprintf("definition tags = parser cases = encoder type numbers = %v", want),
			fmt.Sprintf("model %s: definition tags %v, parser case labels %v, encoder type numbers %v disagree: an element is written under one type number and read under another (or never read)", mk, want, gotP, gotE))
		if m.Ordered {
			bad := ""
			for _, t := range m.Tags {
				if k, ok := caseIdx[t]; !ok || int(k) != m.Index[t] {
					bad = fmt.Sprintf("type %d: case tests progress+1 == %d, field index is %d", t, k, m.Index[t])
				}
			}
			c.Decide(bad == "", "R13.1", "ordered-case-index:"+mk, p.Pos(m.Pos), "each case tests progress+1 against its field's definition index", "ordered model "+mk+": "+bad)
		}

		// ---- R13.5 flag/field agreement inside the parser: a block that sets handled_F
		// (or runs under !handled_F) assigns only value.F
		{
			bad := ""
			nBlocks := 0
			checkBlock := func(flag string, body []ast.Stmt) {
				nBlocks++
				for _, st := range body {
					ast.Inspect(st, func(n ast.Node) bool {
						// nested case/if bodies with their own flag are handled separately
						if _, ok := n.(*ast.CaseClause); ok {
							return false
						}
						as, ok := n.(*ast.AssignStmt)
						if !ok {
							return true
						}
						for _, l := range as.Lhs {
							if se, ok := l.(*ast.SelectorExpr); ok {
								if id, ok := se.X.(*ast.Ident); ok && id.Name == "value" && se.Sel.Name != flag && !strings.HasPrefix(se.Sel.Name, flag+"_") {
									bad = fmt.Sprintf("block for field %s assigns value.%s (%s)", flag, se.Sel.Name, p.Pos(as.Pos()))
								}
							}
						}
						return true
					})
				}
			}
			flagOfBody := func(body []ast.Stmt) string {
				for _, st := range body {
					if as, ok := st.(*ast.AssignStmt); ok && len(as.Lhs) == 1 {
						if id, ok := as.Lhs[0].(*ast.Ident); ok && strings.HasPrefix(id.Name, "handled_") {
							return strings.TrimPrefix(id.Name, "handled_")
						}
					}
				}
				return ""
			}
			ast.Inspect(parse.Body, func(n ast.Node) bool {
				switch x := n.(type) {
				case *ast.CaseClause:
					body := x.Body
					// "case T: if cond { handled = true; handled_F = true; … }"
					if len(body) == 1 {
						if ifs, ok := body[0].(*ast.IfStmt); ok {
							body = ifs.Body.List
						}
					}
					if f := flagOfBody(body); f != "" {
						checkBlock(f, body)
					}
				case *ast.IfStmt:
					// "if !handled_F && err == nil { … }"
					flag := ""
					ast.Inspect(x.Cond, func(m ast.Node) bool {
						if u, ok := m.(*ast.UnaryExpr); ok && u.Op == token.NOT {
							if id, ok := u.X.(*ast.Ident); ok && strings.HasPrefix(id.Name, "handled_") {
								flag = strings.TrimPrefix(id.Name, "handled_")
							}
						}
						return true
					})
					if flag != "" {
						checkBlock(flag, x.Body.List)
					}
				}
				return true
			})
			c.Decide(bad == "" && nBlocks >= len(m.Fields), "R13.5", "flag-field-agreement:"+mk, p.Pos(m.Pos),
				fmt.Sprintf("%d per-field blocks of the parser assign only their own field", nBlocks),
				"generated parser of "+mk+": "+bad+" — the per-field block of one field writes another field (hand-edited or stale generated code): a present field is lost or an absent one keeps a stale value"+func() string {
					if nBlocks < len(m.Fields) {
						return fmt.Sprintf(" [only %d blocks for %d fields]", nBlocks, len(m.Fields))
					}
					return ""
				}())
		}

		// ---- SSA rules on the parser
		fn := p.Func(m.Pkg.PkgPath, m.Name+"ParsingContext", "Parse")
		if fn == nil || fn.Blocks == nil {
			c.Und("R13.2", "parser-ssa:"+mk, p.Pos(m.Pos), "parser not found in SSA")
			continue
		}
		nParsers++
		c.Funcs[core.FuncName(fn)] = true
		ignore := ssa.Value(fn.Params[2])
		// typ and l: the two ReadTLNum results of the main loop; typ is the one compared with constants
		var typV, lenV ssa.Value
		var tlReads []ssa.Value
		core.Instrs(fn, func(in ssa.Instruction) {
			if e, ok := in.(*ssa.Extract); ok && e.Index == 0 && isCallTo(e.Tuple, core.CalleeID{Pkg: "std/encoding", Name: "ReadTLNum"}) {
				tlReads = append(tlReads, e)
			}
		})
		for _, v := range tlReads {
			for _, r := range core.Refs(v) {
				if b, ok := r.(*ssa.BinOp); ok && b.Op == token.EQL {
					if _, isC := core.ConstInt(b.Y); isC && typV == nil {
						typV = v
					}
				}
			}
		}
		var rejects []ssa.Instruction
		core.Instrs(fn, func(in ssa.Instruction) {
			r, ok := in.(*ssa.Return)
			if !ok || len(r.Results) != 2 {
				return
			}
			if mi, ok := r.Results[1].(*ssa.MakeInterface); ok {
				if strings.HasSuffix(mi.X.Type().String(), "encoding.ErrUnrecognizedField") {
					rejects = append(rejects, r)
				}
			}
		})
		if len(rejects) == 0 || typV == nil {
			if len(m.Tags) == 0 && len(rejects) > 0 {
				// model without tagged fields: typ is never compared; take the first read
				if len(tlReads) > 0 {
					typV = tlReads[0]
				}
			}
			if len(rejects) == 0 || typV == nil {
				c.Viol("R13.2", "critical-rule:"+mk, p.Pos(fn.Pos()), "parser has no ErrUnrecognizedField rejection (or no type switch): unrecognised critical elements are silently accepted")
				continue
			}
		}
		// l = the ReadTLNum result dominated by typ's read in the same loop
		for _, v := range tlReads {
			if v != typV && lenV == nil && typV.(ssa.Instruction).Block().Dominates(v.(ssa.Instruction).Block()) {
				lenV = v
			}
		}
		// the type of the element under test: the main loop's typ, or the first read of a later
		// (typ, l) pair (the inner loop of a map field reads the elements between key and value)
		isTypRead := func(v ssa.Value) bool {
			if v == typV {
				return true
			}
			sorted := append([]ssa.Value{}, tlReads...)
			sort.Slice(sorted, func(i, j int) bool { return readPos(sorted[i]) < readPos(sorted[j]) })
			for i := 0; i < len(sorted); i += 2 {
				if sorted[i] == v {
					return true
				}
			}
			return false
		}
		ign := &core.Atom{Name: "ignoreCritical", Match: func(cond ssa.Value) (int, int) {
			if core.Strip(cond) == ignore {
				return 1, -1
			}
			return 0, 0
		}}
		le31 := &core.Atom{Name: "typ<=31", Match: func(cond ssa.Value) (int, int) {
			op, x, y, ok := core.Cmp(cond)
			if !ok || !isTypRead(core.StripConv(x)) {
				return 0, 0
			}
			k, isC := core.ConstInt(y)
			if !isC {
				return 0, 0
			}
			switch {
			case op == token.LEQ && k == 31, op == token.LSS && k == 32:
				return 1, -1
			case op == token.GTR && k == 31, op == token.GEQ && k == 32:
				return -1, 1
			}
			return 0, 0
		}}
		odd := &core.Atom{Name: "typ&1==1", Match: func(cond ssa.Value) (int, int) {
			op, x, y, ok := core.Cmp(cond)
			if !ok || (op != token.EQL && op != token.NEQ) {
				return 0, 0
			}
			b, isB := core.StripConv(x).(*ssa.BinOp)
			k, isC := core.ConstInt(y)
			if !isB || !isC || b.Op != token.AND || !isTypRead(core.StripConv(b.X)) {
				return 0, 0
			}
			if m1, ok := core.ConstInt(b.Y); !ok || m1 != 1 {
				return 0, 0
			}
			switch {
			case k == 1:
				return core.Iff(op == token.EQL)
			case k == 0:
				return core.Iff(op == token.NEQ)
			}
			return 0, 0
		}}
		r1 := core.GateDeep(fn, rejects, neg(ign))
		r2 := core.GateDeep(fn, rejects, pos(le31), pos(odd))
		okCrit := r1.OK && r1.PassEdges > 0 && r2.OK && r2.PerLit[0] > 0 && r2.PerLit[1] > 0
		// each alternative alone rejects
		if okCrit {
			for _, a := range []*core.Atom{le31, odd} {
				other := odd
				if a == odd {
					other = le31
				}
				cut, _ := core.CutEdges(fn, pos(other))
				reach := false
				for _, r := range rejects {
					if core.ReachInstr(fn, r, cut, nil) != nil {
						reach = true
					}
				}
				if !reach {
					okCrit = false
				}
			}
		}
		c.Decide(okCrit, "R13.2", "critical-rule:"+mk, c.Pos(rejects[0]),
			"rejection ⇔ ¬ignoreCritical ∧ (typ ≤ 31 ∨ typ odd)",
			fmt.Sprintf("parser of %s rejects unknown elements by a rule other than NDN's critical-type rule ¬ignoreCritical ∧ (typ ≤ 31 ∨ typ&1 == 1) (ignore atoms=%d, ≤31 atoms=%d, odd atoms=%d)", mk, r1.PassEdges, r2.PerLit[0], r2.PerLit[1]))
		// non-rejected unknown elements are skipped by exactly l bytes
		var skipDefault ssa.Instruction
		// type and length are read in pairs (typ, l), in program order: the main loop's pair,
		// and the pair of an inner loop that looks for a map value after its key. A site is
		// decided against the nearest pair that dominates it.
		pairLen := map[ssa.Value]bool{lenV: true}
		{
			sorted := append([]ssa.Value{}, tlReads...)
			sort.Slice(sorted, func(i, j int) bool { return readPos(sorted[i]) < readPos(sorted[j]) })
			for i := 1; i < len(sorted); i += 2 {
				pairLen[sorted[i]] = true
			}
		}
		lenFor := func(b *ssa.BasicBlock) ssa.Value {
			var best ssa.Value
			for v := range pairLen {
				if v == nil {
					continue
				}
				vb := v.(ssa.Instruction).Block()
				if (vb == b || vb.Dominates(b)) && (best == nil || readPos(v) > readPos(best)) {
					best = v
				}
			}
			return best
		}
		curLen := lenV
		isSkipL := func(in ssa.Instruction) bool {
			cc, ok := core.IsCall(in, core.CalleeID{Pkg: "std/encoding", Recv: "ParseReader", Name: "Skip"})
			if !ok || curLen == nil {
				return false
			}
			_, a := core.CallArgs(cc)
			return core.StripConv(a[0]) == curLen
		}
		okSkip := true
		nEdges := 0
		isReject := func(in ssa.Instruction) bool {
			for _, r := range rejects {
				if r == in {
					return true
				}
			}
			// any return of an error rejects the message (the inner loop of a map field wraps
			// the unrecognised-field error into a parse failure of the field)
			if r, ok := in.(*ssa.Return); ok && len(r.Results) == 2 && !core.IsNilConst(core.Strip(r.Results[1])) {
				if _, isMI := r.Results[1].(*ssa.MakeInterface); isMI {
					return true
				}
			}
			return false
		}
		for _, f := range core.EdgeFacts(fn, ign) {
			if !f.Holds {
				continue
			}
			// from the start of the critical-type test (whatever the order of its operands):
			// every path either rejects or skips l bytes
			nEdges++
			if l := lenFor(f.E.From); l != nil {
				curLen = l
			}
			fr := core.MustFollowDeep(fn, core.Point{Block: f.E.From, Idx: 0}, isSkipL, isReject)
			curLen = lenV
			if !fr.OK {
				okSkip = false
			}
		}
		core.Instrs(fn, func(in ssa.Instruction) {
			if isSkipL(in) && skipDefault == nil {
				for _, f := range core.EdgeFacts(fn, ign) {
					if f.Holds && (in.Block() == f.E.To || f.E.From.Dominates(in.Block())) {
						skipDefault = in
					}
				}
			}
		})
		// every skip of an element by its announced length — also the one in the inner loop
		// that looks for a map value after its key — is reachable only for an element that
		// may be skipped: ignoreCritical, or a type above 31 that is even
		{
			okGate, nSk := true, 0
			core.Instrs(fn, func(in ssa.Instruction) {
				cc, ok := core.IsCall(in, core.CalleeID{Pkg: "std/encoding", Recv: "ParseReader", Name: "Skip"})
				if !ok {
					return
				}
				_, a := core.CallArgs(cc)
				if len(a) != 1 || !pairLen[core.StripConv(a[0])] {
					return
				}
				nSk++
				g1 := core.Gate(fn, []ssa.Instruction{in}, pos(ign), neg(le31))
				g2 := core.Gate(fn, []ssa.Instruction{in}, pos(ign), neg(odd))
				if !(g1.OK && g1.PassEdges > 0 && g2.OK && g2.PassEdges > 0) {
					okGate = false
				}
			})
			if nSk > 0 {
				c.Decide(okGate, "R13.2", "skip-only-non-critical:"+mk, p.Pos(fn.Pos()), fmt.Sprintf("%d skips by the announced length, each reachable only with ignoreCritical or for a non-critical type", nSk), "the generated parser of "+mk+" skips an element by its announced length on a path on which neither ignoreCritical holds nor the type was found non-critical (> 31 and even): an unrecognised CRITICAL element — e.g. between a map key and its value — is silently accepted")
			}
		}
		c.Decide(okSkip && nEdges > 0, "R13.2", "unknown-element-skipped:"+mk, p.Pos(fn.Pos()), "an accepted unknown element is skipped with reader.Skip(int(l))", "an accepted unknown element is not skipped by its announced length: the bytes of its value are parsed as further elements")

		// ---- R13.3 ordered progress invariant
		if !m.Ordered {
			continue
		}
		nOrdered++
		// the field cursor: a loop variable that is stepped by one per iteration and compared
		// with field positions — as `progress+1 == i` (cursor = last position passed, starts
		// at -1) or as `progress == i` (cursor = next position expected, starts at 0)
		var P *ssa.Phi
		delta := int64(-1)
		mixed := false
		nForm := map[int64]int{}
		isCursor := func(phi *ssa.Phi) bool {
			for _, e := range phi.Edges {
				if bo, ok := e.(*ssa.BinOp); ok && bo.Op == token.ADD {
					if k, isC := core.ConstInt(bo.Y); isC && k == 1 {
						return true
					}
				}
			}
			return false
		}
		core.Instrs(fn, func(in ssa.Instruction) {
			bo, ok := in.(*ssa.BinOp)
			if !ok || bo.Op != token.EQL {
				return
			}
			if _, isC := core.ConstInt(bo.Y); !isC {
				return
			}
			var phi *ssa.Phi
			d := int64(0)
			switch x := bo.X.(type) {
			case *ssa.Phi:
				phi = x
			case *ssa.BinOp:
				if k, isC := core.ConstInt(x.Y); x.Op == token.ADD && isC && k == 1 {
					phi, _ = x.X.(*ssa.Phi)
					d = 1
				}
			}
			if phi == nil || !isCursor(phi) {
				return
			}
			if P != nil && P != phi {
				mixed = true
			}
			nForm[d]++
			P = phi
		})
		// the same cursor may also be switched over for the absent-field actions (progress ==
		// k): the form that decides field positions is the one used more often
		if nForm[1] >= nForm[0] && nForm[1] > 0 {
			delta = 1
		} else if nForm[0] > 0 {
			delta = 0
		}
		key := "ordered-progress-invariant:" + mk
		if P != nil && skipDefault != nil && !P.Block().Dominates(skipDefault.Block()) {
			// the invariant is about the unknown-element branch INSIDE the field loop (a skip
			// made before the loop is entered never meets the loop's post-increment)
			var inLoop ssa.Instruction
			core.Instrs(fn, func(in ssa.Instruction) {
				if inLoop == nil && isSkipL(in) && P.Block().Dominates(in.Block()) {
					for _, f := range core.EdgeFacts(fn, ign) {
						if f.Holds && (in.Block() == f.E.To || f.E.From.Dominates(in.Block())) {
							inLoop = in
						}
					}
				}
			})
			skipDefault = inLoop
		}
		if P == nil || skipDefault == nil || mixed {
			c.Und("R13.3", key, p.Pos(fn.Pos()), fmt.Sprintf("cannot identify the field cursor (progress) or the unknown-element branch of the ordered parser (cursor found=%v, branch found=%v, two cursor forms=%v)", P != nil, skipDefault != nil, mixed))
			continue
		}
		// R13.3b: the ordered loop runs while the position the cursor stands for (cursor +
		// delta) is at most the number of fields, and the cursor starts at position 0
		okBound := false
		nf := int64(len(m.Fields))
		core.Instrs(fn, func(in ssa.Instruction) {
			bo, ok := in.(*ssa.BinOp)
			if !ok || bo.X != ssa.Value(P) {
				return
			}
			k, isC := core.ConstInt(bo.Y)
			if !isC {
				return
			}
			if (bo.Op == token.LSS && k == nf+1-delta) || (bo.Op == token.LEQ && k == nf-delta) {
				for _, r := range core.Refs(bo) {
					if _, isIf := r.(*ssa.If); isIf {
						okBound = true
					}
				}
			}
		})
		// the initial value: follow the non-stepping edges of the header phis outwards
		okInit := false
		{
			var v ssa.Value = P
			for i := 0; i < 4; i++ {
				phi, isPhi := v.(*ssa.Phi)
				if !isPhi {
					break
				}
				var next ssa.Value
				for j, e := range phi.Edges {
					if phi.Block().Dominates(phi.Block().Preds[j]) {
						continue // a back edge
					}
					next = e
				}
				if next == nil {
					break
				}
				v = next
			}
			if k, isC := core.ConstInt(v); isC && k == -delta {
				okInit = true
			}
		}
		c.Decide(okBound && okInit, "R13.3", "ordered-loop-bound:"+mk, p.Pos(fn.Pos()), fmt.Sprintf("the field loop starts at position 0 and runs while the cursor's position is at most %d (the number of fields)", len(m.Fields)), fmt.Sprintf("ordered parser of %s: the field loop does not cover positions 0..%d (number of fields of the definition; start ok=%v, bound ok=%v): an element arriving at the last position is neither handled nor skipped", mk, len(m.Fields), okInit, okBound))
		// post-increment feeding the back edge of P
		var X ssa.Value
		for _, e := range P.Edges {
			if b, ok := e.(*ssa.BinOp); ok && b.Op == token.ADD {
				if k, isC := core.ConstInt(b.Y); isC && k == 1 {
					X = b.X
				}
			}
		}
		okInv := false
		detail := "the unknown-element branch leaves the cursor unchanged, so the loop's post-increment advances it by one"
		if mphi, ok := X.(*ssa.Phi); ok && X != ssa.Value(P) {
			D := skipDefault.Block()
			found := false
			okInv = true
			for i, e := range mphi.Edges {
				pred := mphi.Block().Preds[i]
				if pred == D || D.Dominates(pred) {
					found = true
					b, isB := e.(*ssa.BinOp)
					if !isB || b.Op != token.SUB || b.X != ssa.Value(P) {
						okInv = false
						continue
					}
					if k, isC := core.ConstInt(b.Y); !isC || k != 1 {
						okInv = false
					}
				}
			}
			if !found {
				okInv = false
			}
		}
		c.Decide(okInv, "R13.3", key, c.Pos(skipDefault), "unknown-element branch decrements progress before the post-increment (net 0)", "ordered parser of "+mk+": "+detail+"; every field after an unrecognised non-critical element is then matched against the wrong position and silently dropped")
		// ---- R13.13 every element the ordered parser reads is consumed or refused. The field
		// loop runs the cursor forward until the element's field is reached; for an element
		// whose field lies BEHIND the cursor (a known type arriving late, e.g. a second
		// ApplicationParameters after the signature) the cursor runs off the end: every
		// remaining field's absent-action fires (the digest and signature ranges are closed at
		// this element), the value is not skipped but parsed as further elements, and nothing
		// after it is interpreted any more. Accepted: (i) the exhaustion exit of the field
		// loop skips the value or returns before the next element is read, or (ii) the field
		// loop is entered only behind a test, per known type, that the cursor has not passed
		// that type's position, whose failing side consumes or refuses the element.
		{
			k13 := "ordered-element-consumed-or-refused:" + mk
			var typRead *ssa.Call
			core.Instrs(fn, func(in ssa.Instruction) {
				if cl, ok := in.(*ssa.Call); ok && typRead == nil {
					if id, ok := core.Callee(&cl.Call); ok && id.Pkg == "std/encoding" && id.Name == "ReadTLNum" {
						typRead = cl
					}
				}
			})
			var typVal ssa.Value
			if typRead != nil {
				for _, r := range core.Refs(typRead) {
					if ex, ok := r.(*ssa.Extract); ok && ex.Index == 0 {
						typVal = ex
					}
				}
			}
			var bif *ssa.If
			core.Instrs(fn, func(in ssa.Instruction) {
				bo, ok := in.(*ssa.BinOp)
				if !ok || bo.X != ssa.Value(P) || (bo.Op != token.LSS && bo.Op != token.LEQ) {
					return
				}
				if _, isC := core.ConstInt(bo.Y); !isC {
					return
				}
				for _, r := range core.Refs(bo) {
					if iff, isIf := r.(*ssa.If); isIf {
						bif = iff
					}
				}
			})
			if typRead == nil || typVal == nil || bif == nil {
				c.Und("R13.13", k13, p.Pos(fn.Pos()), "cannot identify the element read or the bound test of the field loop")
			} else {
				isConsume := func(in ssa.Instruction) bool {
					ci, ok := in.(ssa.CallInstruction)
					if !ok {
						return false
					}
					cc := ci.Common()
					return cc.IsInvoke() && cc.Method.Name() == "Skip"
				}
				hin := P.Block()
				exhaust := bif.Block().Succs[1]
				formI := core.ReachInstrFrom(core.Point{Block: exhaust, Idx: 0}, typRead, nil, isConsume) == nil
				// the type under whose case a block lies
				caseOf := func(b *ssa.BasicBlock) (int64, bool) {
					for d := b; d != nil; d = d.Idom() {
						id := d.Idom()
						if id == nil {
							break
						}
						iff, ok := id.Instrs[len(id.Instrs)-1].(*ssa.If)
						if !ok || id.Succs[0] != d || len(d.Preds) != 1 {
							continue
						}
						bo, ok := iff.Cond.(*ssa.BinOp)
						if !ok || bo.Op != token.EQL || core.StripConv(bo.X) != core.StripConv(typVal) {
							continue
						}
						if k, isC := core.ConstInt(bo.Y); isC {
							return k, true
						}
					}
					return 0, false
				}
				// the cursor as the field loop sees it (P) and as it is before the loop is
				// entered (the value P starts from: the outer loop's copy of the variable)
				cursors := map[ssa.Value]bool{P: true}
				for j, e := range P.Edges {
					if !P.Block().Dominates(P.Block().Preds[j]) {
						cursors[e] = true
					}
				}
				posOf := func(v ssa.Value) bool { // v denotes the cursor's position (cursor + delta)
					if delta == 0 {
						return cursors[v]
					}
					b, ok := v.(*ssa.BinOp)
					if !ok || b.Op != token.ADD || !cursors[b.X] {
						return false
					}
					k, isC := core.ConstInt(b.Y)
					return isC && k == delta
				}
				inPairs := map[[2]int64]bool{}
				guardPairs := map[[2]int64]bool{}
				var guardCmps []*ssa.BinOp
				core.Instrs(fn, func(in ssa.Instruction) {
					bo, ok := in.(*ssa.BinOp)
					if !ok || !posOf(bo.X) {
						return
					}
					k, isC := core.ConstInt(bo.Y)
					if !isC {
						return
					}
					t, under := caseOf(bo.Block())
					if !under {
						return
					}
					inner := hin.Dominates(bo.Block())
					switch {
					case bo.Op == token.EQL && inner:
						inPairs[[2]int64{t, k}] = true
					case bo.Op == token.GTR && !inner:
						guardPairs[[2]int64{t, k}] = true
						guardCmps = append(guardCmps, bo)
					case bo.Op == token.GEQ && !inner:
						guardPairs[[2]int64{t, k - 1}] = true
						guardCmps = append(guardCmps, bo)
					}
				})
				formII := false
				if len(guardCmps) > 0 {
					covers := true
					for pr := range inPairs {
						if !guardPairs[pr] {
							covers = false
						}
					}
					// the flag that collects the tests, and the branch on it
					var flag *ssa.Phi
					for _, r := range core.Refs(guardCmps[0]) {
						if ph, ok := r.(*ssa.Phi); ok {
							flag = ph
						}
					}
					if flag != nil && covers {
						for _, r := range core.Refs(flag) {
							iff, ok := r.(*ssa.If)
							if !ok || !iff.Block().Dominates(hin) {
								continue
							}
							behindSucc := iff.Block().Succs[0]
							skipsLoop := core.ReachInstrFrom(core.Point{Block: behindSucc, Idx: 0}, hin.Instrs[0], nil, func(x ssa.Instruction) bool { return x == ssa.Instruction(typRead) }) == nil
							consumes := core.ReachInstrFrom(core.Point{Block: behindSucc, Idx: 0}, typRead, nil, isConsume) == nil
							if skipsLoop && consumes {
								formII = true
							}
						}
					}
				}
				c.Decide(formI || formII, "R13.13", k13, c.Pos(bif), fmt.Sprintf("an element behind the cursor is consumed or refused (exhaustion exit handled=%v; entry test per known type=%v over %d positioned types)", formI, formII, len(inPairs)), "ordered parser of "+mk+": for an element of a known field type that arrives after that field's position the field loop runs the cursor past every remaining field and goes on to the next element without skipping the value or refusing it — the remaining fields' absent-actions fire early (a signature or digest range is closed at this element: bytes appended behind an Interest's parameters escape the parameters digest), the value is parsed as further elements, and nothing behind it is interpreted or checked for criticality")
			}
		}
	}
	genSizeSwitches(c, "R13.4")
	c.Floor("R13.2", "generated parsers analysed", nParsers, 79)
	c.Floor("R13.3", "ordered parsers", nOrdered, 5)
}

// readPos: the source position of a (value, error) read whose first component v is.
func readPos(v ssa.Value) token.Pos {
	if e, ok := v.(*ssa.Extract); ok {
		if cl, ok := e.Tuple.(*ssa.Call); ok {
			return cl.Pos()
		}
	}
	return v.Pos()
}
