package props

import (
	"fmt"
	"go/types"
	"path/filepath"
	"sort"
	"strings"

	"ndndcheck/core"

	"golang.org/x/tools/go/ssa"
)

// c13GeneratorOrder — R13.17 (conditional) "the checked-in generated code is exactly what the
// checked-in generator produces from the checked-in definitions": the generator's output
// order is the order in which it meets the definitions. Premise: the generator command
// walks the files of a package in the iteration order of a Go map (parser.ParseDir's
// Files) without sorting. Obligation: then every package with generated code declares all
// its models in ONE file — with models in two files the order of the generated blocks
// changes from run to run, and the checked-in file matches only by chance.
func c13GeneratorOrder(c *core.Ctx) {
	p := c.P
	premise := ""
	for _, fn := range p.FuncsIn(core.ModPath + "/std/cmd/gondn_tlv_gen") {
		sorted := false
		var rng ssa.Instruction
		core.InstrsDeep(fn, func(in ssa.Instruction) {
			if r, ok := in.(*ssa.Range); ok {
				if m, isMap := r.X.Type().Underlying().(*types.Map); isMap && strings.HasSuffix(m.Elem().String(), "ast.File") {
					rng = in
				}
			}
			if cl, ok := in.(ssa.CallInstruction); ok {
				if cal := cl.Common().StaticCallee(); cal != nil && cal.Pkg != nil && (cal.Pkg.Pkg.Path() == "sort" || cal.Pkg.Pkg.Path() == "slices") {
					sorted = true
				}
			}
		})
		if rng != nil && !sorted {
			premise = c.Pos(rng)
		}
	}
	if premise == "" {
		c.Ok("R13.17", "models-of-a-package-in-one-file", "-", "premise absent: the generator command does not walk a package's files in map order (or sorts)")
		return
	}
	n := 0
	for _, pk := range p.All {
		gen := ""
		for _, f := range pk.CompiledGoFiles {
			if strings.HasSuffix(f, "zz_generated.go") {
				gen = f
			}
		}
		if gen == "" || pk.Types == nil {
			continue
		}
		files := map[string][]string{}
		sc := pk.Types.Scope()
		for _, name := range sc.Names() {
			enc := sc.Lookup(name + "Encoder")
			obj := sc.Lookup(name)
			if enc == nil || obj == nil || p.Fset.Position(enc.Pos()).Filename != gen {
				continue
			}
			f := filepath.Base(p.Fset.Position(obj.Pos()).Filename)
			files[f] = append(files[f], name)
		}
		if len(files) == 0 {
			continue
		}
		n++
		var fs []string
		for f, ms := range files {
			fs = append(fs, fmt.Sprintf("%s (%d models)", f, len(ms)))
		}
		sort.Strings(fs)
		rel := strings.TrimPrefix(pk.PkgPath, core.ModPath+"/")
		c.Decide(len(files) == 1, "R13.17", "models-of-a-package-in-one-file:"+rel, rel, "all models of the package are declared in "+fs[0], "the models of "+rel+" are declared in "+strings.Join(fs, ", ")+" while the generator walks the files of a package in Go map order ("+premise+", unsorted): the order of the generated encoders and parsers differs from run to run, so the checked-in zz_generated.go is not what the generator produces")
	}
	c.Floor("R13.17", "packages with generated code", n, 5)
}
