package props

import (
	"fmt"
	"go/token"
	"go/types"
	"strings"

	"ndndcheck/core"

	"golang.org/x/tools/go/ssa"
)

// paramSide returns the index of the parameter of fn the value is (only) derived from,
// or -1.
func paramSide(sl *core.Slicer, fn *ssa.Function, v ssa.Value) int {
	var ls []core.Leaf
	if al, ok := core.Strip(v).(*ssa.Alloc); ok {
		// a spilled local (value receiver, or a variable assigned in branches)
		for _, r := range core.Refs(al) {
			if st, ok := r.(*ssa.Store); ok && st.Addr == al {
				ls = append(ls, sl.Leaves(st.Val)...)
			}
		}
	} else {
		ls = sl.Leaves(v)
	}
	if len(ls) == 0 {
		return -1
	}
	side := -1
	for _, l := range ls {
		p, ok := l.Val.(*ssa.Parameter)
		if !ok {
			if l.Kind == "const" {
				continue
			}
			return -1
		}
		idx := -1
		for i, q := range fn.Params {
			if q == p {
				idx = i
			}
		}
		if side != -1 && side != idx {
			return -1
		}
		side = idx
	}
	return side
}

// C14 — Name order, equality, prefix, hash and URI form are mutually consistent.
func C14(c *core.Ctx) {
	c.Explain = "Algebraic laws over all names (total order, round trips) are NOT decided. Decided structural necessary conditions: (R14.1) Component.Compare decides by Typ, then len(Val), then bytes.Compare(lhs.Val, rhs.Val): the byte comparison is reachable only on the edges asserting equal types and equal lengths, the constant -1 is returned only under 'lhs smaller' tests and +1 never under them; Component.Equal tests the same three criteria; Name.Compare/Equal/IsPrefix compare component i with component i, stop at the first difference and break ties by length with the right sign; HashInto feeds the 8-byte type before the value, Name.Hash and Name.PrefixHash reset once and feed every component in order, PrefixHash records a sum after each component; (R14.2) in the URI parsers every constant or len-1 or loop-variable index into the input string or into a strings.Split result is under a dominating length guard in the function or at every caller; (R14.3) component types 0 and > 0xffff are rejected."
	c.RuleText = "instances: the comparison/equality/hash functions of enc.Component and enc.Name, every index operation in the 10 URI-parsing functions. Non-trivial = has a branch edge, operand pair or index form to decide."
	p := c.P
	c14Round4(c)
	c14DecimalTextLimit(c)
	c14ArrayIndexedByOctet(c)
	// ---- R14.9 (shared with C15 R15.4) containers keyed by a string form of a name use one
	// form for insert, find and remove: two forms that disagree for some component types
	// give the container a notion of name identity different from Name.Equal
	// ---- R14.10 (shared with C03 R3.16 / R3.20) "equality agrees with the encodings": two
	// unequal names have different encodings only if the sizer does not cut a value short
	c.Import(C03, "R14.10", "the component or name sizer takes its one-octet shortcut for a number above 252: the buffer is two octets short, the value is silently truncated, and two unequal names get identical (undecodable) encodings", 2, func(k string) bool {
		return strings.HasPrefix(k, "R3.20:one-octet-threshold-is-252:") || strings.HasPrefix(k, "R3.16:single-header-octet-below-253:std/encoding.Component.")
	})
	c.Import(C15, "R14.9", "a name-keyed container derives its keys from different string forms on different operations: its name identity disagrees with Name.Equal", 1, func(k string) bool {
		return k == "R15.4:memory-store-key-agreement"
	})
	sl := &core.Slicer{P: p}

	// ---- R14.1 Component.Compare / Equal
	for _, fnm := range []string{"Compare", "Equal"} {
		fn := c.Fn("R14.1", "std/encoding", "Component", fnm)
		if fn == nil {
			continue
		}
		fieldSide := func(v ssa.Value, field string) int { // 0 = receiver, 1 = rhs
			u, ok := core.StripConv(v).(*ssa.UnOp)
			var base ssa.Value
			if ok {
				if fa, ok := u.X.(*ssa.FieldAddr); ok {
					if _, f := core.FieldAddrName(fa); f == field {
						base = fa.X
					}
				}
			}
			if f, ok := core.StripConv(v).(*ssa.Field); ok {
				if _, path := core.FieldPath(f); len(path) > 0 && path[len(path)-1] == field {
					base = f.X
				}
			}
			if base == nil {
				return -1
			}
			return paramSide(sl, fn, base)
		}
		// cmpAtom2: like cmpAtom but with independent facts for the true and the false edge
		cmpAtom2 := func(name, field string, viaLen bool, ops map[token.Token][2]int) *core.Atom {
			return &core.Atom{Name: name, Match: func(cond ssa.Value) (int, int) {
				op, x, y, ok := core.Cmp(cond)
				if !ok {
					return 0, 0
				}
				if viaLen {
					lx, ok1 := core.LenOf(x)
					ly, ok2 := core.LenOf(y)
					if !ok1 || !ok2 {
						return 0, 0
					}
					x, y = lx, ly
				}
				sx, sy := fieldSide(x, field), fieldSide(y, field)
				if sx == 1 && sy == 0 {
					op = core.Swap(op)
					sx, sy = sy, sx
				}
				if sx != 0 || sy != 1 {
					return 0, 0
				}
				if r, ok := ops[op]; ok {
					return r[0], r[1]
				}
				return 0, 0
			}}
		}
		// lhs <= rhs and lhs >= rhs as what each comparison's outcome establishes
		leqOps := map[token.Token][2]int{token.EQL: {1, 0}, token.NEQ: {0, 1}, token.LSS: {1, 0}, token.LEQ: {1, -1}, token.GTR: {-1, 1}, token.GEQ: {0, 1}}
		geqOps := map[token.Token][2]int{token.EQL: {1, 0}, token.NEQ: {0, 1}, token.GTR: {1, 0}, token.GEQ: {1, -1}, token.LSS: {-1, 1}, token.LEQ: {0, 1}}
		cmpAtom := func(name, field string, viaLen bool, ops map[token.Token]int) *core.Atom {
			return &core.Atom{Name: name, Match: func(cond ssa.Value) (int, int) {
				op, x, y, ok := core.Cmp(cond)
				if !ok {
					return 0, 0
				}
				if viaLen {
					lx, ok1 := core.LenOf(x)
					ly, ok2 := core.LenOf(y)
					if !ok1 || !ok2 {
						return 0, 0
					}
					x, y = lx, ly
				}
				sx, sy := fieldSide(x, field), fieldSide(y, field)
				if sx == 1 && sy == 0 {
					op = core.Swap(op)
					sx, sy = sy, sx
				}
				if sx != 0 || sy != 1 {
					return 0, 0
				}
				if r, ok := ops[op]; ok {
					return r, -r
				}
				return 0, 0
			}}
		}
		typEq := cmpAtom("lhs.Typ==rhs.Typ", "Typ", false, map[token.Token]int{token.EQL: 1, token.NEQ: -1})
		lenEq := cmpAtom("len(lhs.Val)==len(rhs.Val)", "Val", true, map[token.Token]int{token.EQL: 1, token.NEQ: -1})
		typLt := cmpAtom("lhs.Typ<rhs.Typ", "Typ", false, map[token.Token]int{token.LSS: 1, token.GEQ: -1})
		lenLt := cmpAtom("len(lhs.Val)<len(rhs.Val)", "Val", true, map[token.Token]int{token.LSS: 1, token.GEQ: -1})
		prim := "Compare"
		if fnm == "Equal" {
			prim = "Equal"
		}
		var finals []ssa.Instruction
		core.Instrs(fn, func(in ssa.Instruction) {
			r, ok := in.(*ssa.Return)
			if !ok {
				return
			}
			res := core.Strip(r.Results[0])
			var final ssa.Instruction = r
			// `return a.Typ == b.Typ && len(a.Val) == len(b.Val) && bytes.Equal(…)`: the
			// value is a join of constant false (the conjuncts that failed) and the call,
			// which is made only behind the conjuncts — the call is the decision
			if ph, isPhi := res.(*ssa.Phi); isPhi && fnm == "Equal" {
				var only *ssa.Call
				okPhi := true
				for _, e := range ph.Edges {
					if b, isC := core.ConstBool(core.Strip(e)); isC && !b {
						continue
					}
					if cl, isCall := core.Strip(e).(*ssa.Call); isCall && only == nil {
						only = cl
						continue
					}
					okPhi = false
				}
				if okPhi && only != nil {
					res, final = only, only
				}
			}
			if cl, ok := res.(*ssa.Call); ok {
				if _, ok := core.IsCall(cl, core.CalleeID{Pkg: "bytes", Name: prim}); ok {
					finals = append(finals, final)
					a, b := cl.Call.Args[0], cl.Call.Args[1]
					okArgs := fieldSide(a, "Val") == 0 && fieldSide(b, "Val") == 1
					if fnm == "Equal" {
						okArgs = okArgs || (fieldSide(a, "Val") == 1 && fieldSide(b, "Val") == 0)
					}
					c.Decide(okArgs, "R14.1", "component-"+fnm+"-bytes-operands", c.Pos(r), "bytes."+prim+"(lhs.Val, rhs.Val)", "Component."+fnm+" compares the value bytes of the wrong operands or in the wrong order")
				}
			}
		})
		if len(finals) != 1 {
			c.Viol("R14.1", "component-"+fnm+"-value-criterion", p.Pos(fn.Pos()), fmt.Sprintf("Component.%s must end in exactly one bytes.%s of the two values (found %d): the value bytes do not take part in the decision", fnm, prim, len(finals)))
		} else {
			for _, a := range []*core.Atom{typEq, lenEq} {
				g := core.GateDeep(fn, finals, pos(a))
				if !(g.OK && g.PassEdges > 0) {
					// equality may also be established as "not smaller and not greater"
					fld, viaLen := "Typ", false
					if a == lenEq {
						fld, viaLen = "Val", true
					}
					g1 := core.GateDeep(fn, finals, pos(cmpAtom2(a.Name+"[<=]", fld, viaLen, leqOps)))
					g2 := core.GateDeep(fn, finals, pos(cmpAtom2(a.Name+"[>=]", fld, viaLen, geqOps)))
					if g1.OK && g1.PassEdges > 0 && g2.OK && g2.PassEdges > 0 {
						g = g1
					}
				}
				c.Decide(g.OK && g.PassEdges > 0, "R14.1", "component-"+fnm+"-criterion:"+a.Name, p.Pos(fn.Pos()), "the byte comparison is reached only on the edge asserting "+a.Name, "Component."+fnm+" reaches the byte comparison without "+a.Name+" having been established: the "+strings.Split(a.Name, "=")[0]+" criterion is missing, so names that differ only in it compare equal/ordered by bytes alone")
			}
		}
		if fnm == "Compare" {
			var neg1, pos1 []ssa.Instruction
			core.Instrs(fn, func(in ssa.Instruction) {
				if r, ok := in.(*ssa.Return); ok {
					if k, isC := core.ConstInt(r.Results[0]); isC {
						if k < 0 {
							neg1 = append(neg1, r)
						} else if k > 0 {
							pos1 = append(pos1, r)
						}
					}
				}
			})
			// +1 is never returned on a path that asserted lhs < rhs in type or length
			g := core.GateDeep(fn, pos1, neg(typLt), neg(lenLt))
			okPos := len(pos1) > 0 && g.OK && g.PerLit[0] > 0 && g.PerLit[1] > 0
			// -1: either a 'smaller' test held, or rhs is not a Component (pattern)
			notComp := &core.Atom{Name: "rhs-is-component", Match: func(cond ssa.Value) (int, int) {
				if e, ok := core.Strip(cond).(*ssa.Extract); ok && e.Index == 1 {
					if _, ok := e.Tuple.(*ssa.TypeAssert); ok {
						return 1, -1
					}
				}
				return 0, 0
			}}
			g2 := core.GateDeep(fn, neg1, pos(typLt), pos(lenLt), neg(notComp))
			okNeg := len(neg1) > 0 && g2.OK && g2.PerLit[0] > 0 && g2.PerLit[1] > 0
			// 0 is returned only as the outcome of the byte comparison (no shortcut that
			// declares two components equal before type, length and bytes were compared)
			{
				zero := ""
				core.Instrs(fn, func(in ssa.Instruction) {
					if r, ok := in.(*ssa.Return); ok {
						if k, isC := core.ConstInt(r.Results[0]); isC && k == 0 {
							zero = c.Pos(r)
						}
						if ph, isPhi := core.Strip(r.Results[0]).(*ssa.Phi); isPhi {
							for _, e := range ph.Edges {
								if k, isC := core.ConstInt(e); isC && k == 0 {
									zero = c.Pos(r)
								}
							}
						}
					}
				})
				c.Decide(zero == "", "R14.1", "component-Compare-zero-only-from-bytes", p.Pos(fn.Pos()), "Compare returns 0 only as the result of the byte comparison", "Component.Compare returns the constant 0 (at "+zero+") on a path that has not compared type, length and bytes: two components that Equal, Bytes and Hash tell apart (a value and its truncation in the same buffer) compare as equal")
			}
			c.Decide(okPos && okNeg, "R14.1", "component-Compare-sign", p.Pos(fn.Pos()), "-1 only under 'lhs smaller' (or non-component rhs), +1 only when no 'lhs smaller' test held", "Component.Compare returns the wrong sign for a type or length difference (canonical order reversed for that criterion)")
			// the type criterion is decided before the length criterion
			typLeq := cmpAtom2("typ<=", "Typ", false, leqOps)
			typGeq := cmpAtom2("typ>=", "Typ", false, geqOps)
			lenAny := cmpAtom2("len-compared", "Val", true, map[token.Token][2]int{token.EQL: {1, 1}, token.NEQ: {1, 1}, token.LSS: {1, 1}, token.LEQ: {1, 1}, token.GTR: {1, 1}, token.GEQ: {1, 1}})
			cutLe, _ := core.CutEdges(fn, pos(typLeq))
			cutGe, _ := core.CutEdges(fn, pos(typGeq))
			reachLen := false
			for _, f := range core.EdgeFacts(fn, lenAny) {
				for _, cut := range []map[core.Edge]bool{cutLe, cutGe} {
					if core.ReachAvoiding(fn, fn.Blocks[0], map[*ssa.BasicBlock]bool{f.E.From: true}, cut) != nil {
						reachLen = true
					}
				}
			}
			c.Decide(!reachLen, "R14.1", "component-Compare-type-before-length", p.Pos(fn.Pos()), "the length test is reached only after the types were found equal", "Component.Compare looks at the value length before the type is known to be equal")
		}
	}

	// ---- Name.Compare / Equal / IsPrefix
	for _, fnm := range []string{"Compare", "Equal", "IsPrefix"} {
		fn := c.Fn("R14.1", "std/encoding", "Name", fnm)
		if fn == nil {
			continue
		}
		n, rhs := ssa.Value(fn.Params[0]), ssa.Value(fn.Params[1])
		// component-wise call with the same index on both sides
		var calls []ssa.CallInstruction
		calls = core.FindCallsDeep(fn, core.CalleeID{Pkg: "std/encoding", Recv: "Component", Name: map[string]string{"Compare": "Compare", "Equal": "Equal", "IsPrefix": "Equal"}[fnm]})
		okIdx := len(calls) == 1
		if okIdx {
			recv, a := core.CallArgs(calls[0].Common())
			li, ri := elemIndexOf(recv, n), elemIndexOf(a[0], rhs)
			okIdx = li != nil && ri != nil && li == ri && core.InLoop(calls[0].Block())
		}
		c.Decide(okIdx, "R14.1", "name-"+fnm+"-componentwise", p.Pos(fn.Pos()), "n[i] is compared with rhs[i] in a loop", "Name."+fnm+" does not compare component i of the receiver with component i of the argument")
		if !okIdx {
			continue
		}
		call := calls[0]
		lenCmp := func(name string, ops map[token.Token]int) *core.Atom {
			return &core.Atom{Name: name, Match: func(cond ssa.Value) (int, int) {
				op, x, y, ok := core.Cmp(cond)
				if !ok {
					return 0, 0
				}
				lx, ok1 := core.LenOf(x)
				ly, ok2 := core.LenOf(y)
				if !ok1 || !ok2 {
					return 0, 0
				}
				if lx == rhs && ly == n {
					op = core.Swap(op)
					lx, ly = ly, lx
				}
				if lx != n || ly != rhs {
					return 0, 0
				}
				if r, ok := ops[op]; ok {
					return r, -r
				}
				return 0, 0
			}}
		}
		switch fnm {
		case "Compare":
			var neg1, pos1 []ssa.Instruction
			var nz []ssa.Instruction
			core.Instrs(fn, func(in ssa.Instruction) {
				if r, ok := in.(*ssa.Return); ok {
					if k, isC := core.ConstInt(r.Results[0]); isC {
						if k < 0 {
							neg1 = append(neg1, r)
						} else if k > 0 {
							pos1 = append(pos1, r)
						}
					} else if core.Strip(r.Results[0]) == call.Value() {
						nz = append(nz, r)
					}
				}
			})
			lt := lenCmp("len(n)<len(rhs)", map[token.Token]int{token.LSS: 1, token.GEQ: -1})
			gt := lenCmp("len(n)>len(rhs)", map[token.Token]int{token.GTR: 1, token.LEQ: -1})
			g1 := core.GateDeep(fn, neg1, pos(lt))
			g2 := core.GateDeep(fn, pos1, pos(gt))
			c.Decide(len(neg1) > 0 && len(pos1) > 0 && g1.OK && g1.PassEdges > 0 && g2.OK && g2.PassEdges > 0, "R14.1", "name-Compare-length-tiebreak", p.Pos(fn.Pos()), "-1 only under len(n)<len(rhs), +1 only under len(n)>len(rhs): a proper prefix sorts first", "Name.Compare breaks ties between a name and its proper prefix with the wrong sign")
			// first difference decides: the component result is returned when non-zero
			nonzero := &core.Atom{Name: "component-result!=0", Match: func(cond ssa.Value) (int, int) {
				op, x, y, ok := core.Cmp(cond)
				if ok && (op == token.EQL || op == token.NEQ) && core.Strip(x) == call.Value() {
					if k, isC := core.ConstInt(y); isC && k == 0 {
						return core.Iff(op == token.NEQ)
					}
				}
				return 0, 0
			}}
			g3 := core.GateDeep(fn, nz, pos(nonzero))
			okFirst := len(nz) > 0 && g3.OK && g3.PassEdges > 0
			// and the loop continues only on result == 0
			for _, f := range core.EdgeFacts(fn, nonzero) {
				if f.Holds {
					if fr := core.MustFollowDeep(fn, core.Point{Block: f.E.To, Idx: 0}, func(in ssa.Instruction) bool {
						r, ok := in.(*ssa.Return)
						return ok && core.Strip(r.Results[0]) == call.Value()
					}, nil); !fr.OK {
						okFirst = false
					}
				}
			}
			c.Decide(okFirst, "R14.1", "name-Compare-first-difference-decides", p.Pos(fn.Pos()), "a non-zero component comparison is returned immediately", "Name.Compare does not return the first non-zero component comparison")
		case "Equal", "IsPrefix":
			var trues []ssa.Instruction
			core.Instrs(fn, func(in ssa.Instruction) {
				if r, ok := in.(*ssa.Return); ok {
					if b, isC := core.ConstBool(r.Results[0]); isC && b {
						trues = append(trues, r)
					}
				}
			})
			var la *core.Atom
			if fnm == "Equal" {
				la = lenCmp("len(n)==len(rhs)", map[token.Token]int{token.EQL: 1, token.NEQ: -1})
			} else {
				la = lenCmp("len(n)<=len(rhs)", map[token.Token]int{token.LEQ: 1, token.GTR: -1})
			}
			g := core.GateDeep(fn, trues, pos(la))
			c.Decide(len(trues) > 0 && g.OK && g.PassEdges > 0, "R14.1", "name-"+fnm+"-length-criterion", p.Pos(fn.Pos()), "true only under "+la.Name, "Name."+fnm+" can return true without "+la.Name)
			// per-iteration: the loop continues only on Equal()==true
			eq := &core.Atom{Name: "components-equal", Match: func(cond ssa.Value) (int, int) {
				if core.Strip(cond) == call.Value() {
					return 1, -1
				}
				return 0, 0
			}}
			cut, per := core.CutEdges(fn, pos(eq))
			h := loopHeader(call.Block())
			okIter := h != nil && per[0] > 0
			if okIter {
				for _, s := range h.Succs {
					if core.ReachAvoiding(fn, s, map[*ssa.BasicBlock]bool{h: true}, nil) == nil {
						continue
					}
					if core.ReachAvoiding(fn, s, map[*ssa.BasicBlock]bool{h: true}, cut) != nil {
						okIter = false
					}
				}
				// and 'true' is not reachable from a not-equal edge
				for _, f := range core.EdgeFacts(fn, eq) {
					if !f.Holds {
						for _, t := range trues {
							if core.ReachInstrFrom(core.Point{Block: f.E.To, Idx: 0}, t, nil, nil) != nil {
								okIter = false
							}
						}
					}
				}
			}
			c.Decide(okIter, "R14.1", "name-"+fnm+"-all-components", p.Pos(fn.Pos()), "every compared component must be equal for a true result", "Name."+fnm+" can return true although some compared component differs")
		}
	}

	// ---- hashes
	if hi := c.Fn("R14.1", "std/encoding", "Component", "HashInto"); hi != nil {
		var writes []ssa.CallInstruction
		core.Instrs(hi, func(in ssa.Instruction) {
			if ci, ok := in.(ssa.CallInstruction); ok && ci.Common().IsInvoke() && ci.Common().Method.Name() == "Write" {
				writes = append(writes, ci)
			}
		})
		ok := len(writes) == 2
		if ok {
			// first write: 8-byte buffer filled by PutUint64(uint64(c.Typ)); second: c.Val
			put := core.FindCallsDeep(hi, core.CalleeID{Pkg: "encoding/binary", Recv: "bigEndian", Name: "PutUint64"})
			okPut := false
			for _, pc := range put {
				_, a := core.CallArgs(pc.Common())
				if len(a) == 2 {
					if _, path := core.FieldPath(core.StripConv(a[1])); len(path) > 0 && path[len(path)-1] == "Typ" {
						okPut = core.PrecedesDeep(hi, writes[0], func(in ssa.Instruction) bool { return in == ssa.Instruction(pc) })
					}
				}
			}
			_, path := core.FieldPath(writes[1].Common().Args[0])
			okVal := len(path) > 0 && path[len(path)-1] == "Val"
			ok = okPut && okVal && core.PrecedesDeep(hi, writes[1], func(in ssa.Instruction) bool { return in == ssa.Instruction(writes[0]) })
		}
		c.Decide(ok, "R14.1", "hash-feeds-type-then-value", p.Pos(hi.Pos()), "HashInto writes the 8-byte big-endian type, then the value", "Component.HashInto does not feed the 8-byte type followed by the value bytes: equal names may hash differently or different types collide systematically")
	}
	// the pooled hasher protocol: a hasher is clean when it is used — because its user
	// resets it after taking it (checked per user below), or because EVERY hand-back to the
	// pool resets it first (then no user needs to)
	putsClean, nPuts := true, 0
	for _, g := range p.FuncsIn(core.ModPath + "/std/encoding") {
		core.Instrs(g, func(in ssa.Instruction) {
			ci, isC := in.(ssa.CallInstruction)
			if !isC {
				return
			}
			id, okID := core.Callee(ci.Common())
			if !okID || id.Pkg != "sync" || id.Recv != "Pool" || id.Name != "Put" {
				return
			}
			nPuts++
			if _, isDefer := in.(*ssa.Defer); isDefer {
				putsClean = false // runs at exit, after the hasher was written to
				return
			}
			_, a := core.CallArgs(ci.Common())
			isResetOf := func(x ssa.Instruction) bool {
				c2, ok := x.(ssa.CallInstruction)
				if !ok || !c2.Common().IsInvoke() || c2.Common().Method.Name() != "Reset" {
					return false
				}
				for _, l := range (&core.Slicer{P: p}).Leaves(a[0]) {
					for _, l2 := range (&core.Slicer{P: p}).Leaves(c2.Common().Value) {
						if l.Val == l2.Val {
							return true
						}
					}
				}
				return false
			}
			if !core.Precedes(g, in, isResetOf) {
				putsClean = false
			}
		})
	}
	if nPuts == 0 {
		putsClean = false
	}
	for _, fnm := range []string{"Hash", "PrefixHash"} {
		fn := c.Fn("R14.1", "std/encoding", "Name", fnm)
		if fn == nil {
			continue
		}
		n := ssa.Value(fn.Params[0])
		var feed ssa.CallInstruction
		for _, ci := range core.FindCallsDeep(fn, core.CalleeID{Pkg: "std/encoding", Recv: "Component", Name: "HashInto"}) {
			recv, _ := core.CallArgs(ci.Common())
			if elemIndexOf(recv, n) != nil {
				feed = ci
			}
			// the loop over the components in a worker that is handed the name
			// (n.hashInto(h)): the worker's parameter stands for the name
			if g := ci.Parent(); g != fn && feed == nil {
				restore := core.WithRoot(fn)
				for _, prm := range g.Params {
					if core.Strip(core.Resolve(prm)) == n && elemIndexOf(recv, prm) != nil {
						feed = ci
					}
				}
				restore()
			}
		}
		ok := feed != nil
		var resets []ssa.Instruction
		// (the Reset may sit in a small helper that hands out the hasher: acquireHasher())
		// … but not in a helper that only runs deferred (a release helper resets AFTER the
		// components were fed: that is the hand-back protocol, judged by putsClean)
		deferredOnly := map[*ssa.Function]bool{}
		core.Instrs(fn, func(in ssa.Instruction) {
			if d, isD := in.(*ssa.Defer); isD {
				if cal := d.Call.StaticCallee(); cal != nil {
					deferredOnly[cal] = true
				}
			}
		})
		core.Instrs(fn, func(in ssa.Instruction) {
			if cl, isC := in.(*ssa.Call); isC {
				if cal := cl.Call.StaticCallee(); cal != nil {
					delete(deferredOnly, cal)
				}
			}
		})
		core.InstrsDeep(fn, func(in ssa.Instruction) {
			if ci, isC := in.(ssa.CallInstruction); isC && ci.Common().IsInvoke() && ci.Common().Method.Name() == "Reset" && !deferredOnly[in.Parent()] {
				if _, isDefer := in.(*ssa.Defer); !isDefer {
					resets = append(resets, in)
				}
			}
		})
		if ok {
			h := loopHeader(feed.Block())
			ok = h != nil && everyIterationPasses(feed.Parent(), h, func(in ssa.Instruction) bool { return in == ssa.Instruction(feed) })
			switch {
			case len(resets) == 1:
				ok = ok && !core.InLoop(resets[0].Block()) && core.PrecedesDeep(fn, feed, func(in ssa.Instruction) bool { return in == resets[0] })
			case len(resets) == 0:
				ok = ok && putsClean // nobody hands a used hasher back without resetting it
			default:
				ok = false
			}
		}
		c.Decide(ok, "R14.1", "name-"+fnm+"-feeds-every-component", p.Pos(fn.Pos()), "one Reset, then HashInto of every component in order", "Name."+fnm+" does not reset once and then feed every component: the hash is not a function of the name (or of the prefix)")
		if fnm == "Hash" {
			// every result of Name.Hash is the sum of the hasher that was fed this way: a
			// second route to a result (a fast path for short names through another
			// routine) must produce, for the same name, what PrefixHash records — which
			// holds by construction only if it is the same computation
			otherRoute := ""
			core.Instrs(fn, func(in ssa.Instruction) {
				r, isR := in.(*ssa.Return)
				if !isR || len(r.Results) != 1 {
					return
				}
				var chk func(v ssa.Value, d int)
				chk = func(v ssa.Value, d int) {
					v = core.Strip(v)
					if d > 4 {
						return
					}
					switch y := v.(type) {
					case *ssa.Phi:
						for _, e := range y.Edges {
							chk(e, d+1)
						}
					case *ssa.Call:
						if y.Call.IsInvoke() && y.Call.Method.Name() == "Sum64" {
							return
						}
						// a helper of the package that computes the sum the same way: it
						// feeds through Component.HashInto and returns the hasher's Sum64
						if g := y.Call.StaticCallee(); g != nil && g.Blocks != nil && g.Pkg == fn.Pkg && len(core.FindCalls(g, core.CalleeID{Pkg: "std/encoding", Recv: "Component", Name: "HashInto"})) > 0 {
							same := true
							core.Instrs(g, func(in2 ssa.Instruction) {
								if r2, isR2 := in2.(*ssa.Return); isR2 && len(r2.Results) == 1 {
									v2 := core.Strip(r2.Results[0])
									if u, isU := v2.(*ssa.UnOp); isU {
										if al, isAl := u.X.(*ssa.Alloc); isAl {
											for _, ref := range core.Refs(al) {
												if st, isSt := ref.(*ssa.Store); isSt && st.Addr == ssa.Value(al) {
													v2 = core.Strip(st.Val)
												}
											}
										}
									}
									if cl2, isC2 := v2.(*ssa.Call); !isC2 || !cl2.Call.IsInvoke() || cl2.Call.Method.Name() != "Sum64" {
										same = false
									}
								}
							})
							if same {
								return
							}
						}
						otherRoute = c.Pos(y)
					case *ssa.UnOp: // a spilled result (defer)
						if al, isAl := y.X.(*ssa.Alloc); isAl {
							for _, ref := range core.Refs(al) {
								if st, isSt := ref.(*ssa.Store); isSt && st.Addr == ssa.Value(al) {
									chk(st.Val, d+1)
								}
							}
							return
						}
						otherRoute = c.Pos(r)
					default:
						otherRoute = c.Pos(r)
					}
				}
				chk(r.Results[0], 0)
			})
			c.Decide(otherRoute == "", "R14.1", "name-Hash-single-route", p.Pos(fn.Pos()), "every result of Name.Hash is the Sum64 of the hasher the components were fed into", "Name.Hash has a second route to its result (at "+otherRoute+") that does not go through the hasher the components are fed into: for the names taking that route the hash of the i-component prefix need not be what PrefixHash records at slot i — Interests and the Data that answers them are then dispatched to different forwarding threads")
		}
		if fnm == "PrefixHash" && ok {
			// ret[i+1] = h.Sum64() after each component; ret[0] before the loop
			nStore, okStore := 0, true
			core.Instrs(fn, func(in ssa.Instruction) {
				st, isS := in.(*ssa.Store)
				if !isS {
					return
				}
				ia, isI := st.Addr.(*ssa.IndexAddr)
				if !isI {
					return
				}
				cl, isC := core.Strip(st.Val).(*ssa.Call)
				if !isC || cl.Call.Method == nil || cl.Call.Method.Name() != "Sum64" {
					return
				}
				nStore++
				if core.InLoop(st.Block()) {
					// after the feed of this iteration, index = i+1
					if !core.PrecedesDeep(fn, st, func(x ssa.Instruction) bool { return x == ssa.Instruction(feed) }) {
						okStore = false
					}
					b, isB := core.StripConv(ia.Index).(*ssa.BinOp)
					if !isB || b.Op != token.ADD {
						okStore = false
					} else if k, isK := core.ConstInt(b.Y); !isK || k != 1 {
						okStore = false
					}
				} else if k, isK := core.ConstInt(ia.Index); !isK || k != 0 {
					okStore = false
				}
			})
			c.Decide(okStore && nStore == 2, "R14.1", "prefix-hash-slots", p.Pos(fn.Pos()), "ret[0] before the loop, ret[i+1] after feeding component i", "Name.PrefixHash does not record the running hash at slot i+1 after component i (the i-th prefix hash is not the hash of the i-component prefix)")
		}
	}

	// ---- R14.4 the escape predicate of the URI form is a pure ASCII table: it may only
	// compare its byte with constants < 128 and call enc.IsAlphabet
	if lg := c.Fn("R14.4", "std/encoding", "", "isLegalCompText"); lg != nil {
		bad := ""
		nCmp := 0
		for _, fn := range []*ssa.Function{lg, p.Func("std/encoding", "", "IsAlphabet")} {
			if fn == nil {
				bad = "IsAlphabet missing"
				continue
			}
			core.Instrs(fn, func(in ssa.Instruction) {
				switch x := in.(type) {
				case ssa.CallInstruction:
					id, ok := core.Callee(x.Common())
					nCmp++
					if ok && id.Pkg == "unicode" && id.Name != "IsDigit" {
						// a Unicode classifier is an ASCII table only behind a test that the
						// rune is ASCII (case r > unicode.MaxASCII: return false)
						ascii := &core.Atom{Name: "rune<=127", Match: func(cond ssa.Value) (int, int) {
							op, _, y, okC := core.Cmp(cond)
							k, isK := core.ConstInt(y)
							if !okC || !isK {
								return 0, 0
							}
							switch {
							case (op == token.LEQ && k == 127) || (op == token.LSS && k == 128):
								return 1, -1
							case (op == token.GTR && k == 127) || (op == token.GEQ && k == 128):
								return -1, 1
							}
							return 0, 0
						}}
						if g := core.Gate(fn, []ssa.Instruction{in}, core.Lit{A: ascii, Want: true}); g.OK && g.PassEdges > 0 {
							return
						}
						bad = "calls " + id.String() + " on a rune that was not shown to be ASCII"
						return
					}
					if !ok || !(id.Pkg == "std/encoding" && id.Name == "IsAlphabet") && !(id.Pkg == "strings" && id.Name == "IndexByte") && !(id.Pkg == "strings" && id.Name == "ContainsRune") &&
						!(id.Pkg == "unicode" && id.Name == "IsDigit") { // frozen: the only Nd code points below U+0100 are '0'..'9'

						bad = "calls " + id.String()
					}
				case *ssa.BinOp:
					if k, isC := core.ConstInt(x.Y); isC {
						nCmp++
						if k < 0 || k > 127 {
							bad = fmt.Sprintf("compares with %d", k)
						}
					}
				}
			})
		}
		c.Decide(bad == "" && nCmp >= 2, "R14.4", "legal-text-is-ascii-table", p.Pos(lg.Pos()), fmt.Sprintf("isLegalCompText is %d comparisons with ASCII constants and ASCII-only classifier calls", nCmp), "isLegalCompText is no longer a pure ASCII table ("+bad+"): bytes ≥ 0x80 can be written unescaped and do not parse back to the same value")
	}
	// ---- R14.5 the hash functions keep their scratch state local (no package-level buffer)
	for _, hf := range [][2]string{{"Component", "HashInto"}, {"Component", "Hash"}, {"Name", "Hash"}, {"Name", "PrefixHash"}} {
		fn := c.Fn("R14.5", "std/encoding", hf[0], hf[1])
		if fn == nil {
			continue
		}
		bad := ""
		core.Instrs(fn, func(in ssa.Instruction) {
			for _, op := range in.Operands(nil) {
				if g, ok := (*op).(*ssa.Global); ok && g.Pkg != nil && g.Pkg.Pkg.Path() == core.ModPath+"/std/encoding" && g.Name() != "hashPool" {
					if _, isErr := g.Type().Underlying().(*types.Pointer).Elem().Underlying().(*types.Interface); !isErr {
						bad = g.Name()
					}
				}
			}
		})
		c.Decide(bad == "", "R14.5", "hash-state-is-local:"+hf[0]+"."+hf[1], p.Pos(fn.Pos()), "no package-level scratch state besides the hasher pool", hf[0]+"."+hf[1]+" uses the package-level variable "+bad+" as scratch state: concurrent hashing of different names interleaves their bytes, so equal names hash differently")
	}

	// ---- R14.2 index guards in the URI parsers
	type target struct{ recv, name string }
	targets := []target{{"", "NameFromStr"}, {"", "NamePatternFromStr"}, {"", "ComponentFromStr"}, {"", "ComponentPatternFromStr"}, {"", "componentFromStrInto"}, {"", "parseCompTypeFromStr"},
		{"compValFmtText", "FromString"}, {"compValFmtDec", "FromString"}, {"compValFmtHex", "FromString"}, {"compValFmtInvalid", "FromString"}}
	isSplit := func(v ssa.Value) bool {
		return isCallTo(v, core.CalleeID{Pkg: "strings", Name: "Split"})
	}
	nSinks, nDecided := 0, 0
	for _, t := range targets {
		fn := c.Fn("R14.2", "std/encoding", t.recv, t.name)
		if fn == nil {
			continue
		}
		for i, s := range core.IndexSinks(fn) {
			nSinks++
			v := core.IndexGuarded(fn, s, isSplit)
			if !v.Decided {
				continue
			}
			nDecided++
			key := fmt.Sprintf("index-guard:%s:%s#%d", core.FuncName(fn), v.Form, i)
			if v.OK {
				c.Ok("R14.2", key, c.Pos(s.Instr), v.Form+" is under a dominating guard "+v.Need)
				continue
			}
			// parameter container: every caller must establish the guard
			if par, isP := core.Strip(s.Container).(*ssa.Parameter); isP {
				idx := -1
				for j, q := range fn.Params {
					if q == par {
						idx = j
					}
				}
				callers := p.Callers(fn)
				var unguarded []string
				for _, ci := range callers {
					cc := ci.Common()
					if cc.IsInvoke() || idx >= len(cc.Args) {
						unguarded = append(unguarded, core.FuncName(ci.Parent()))
						continue
					}
					arg := cc.Args[idx]
					k := int64(0)
					if kk, ok := core.ConstInt(core.StripConv(s.Index)); ok {
						k = kk
					}
					g := core.GateDeep(ci.Parent(), []ssa.Instruction{ci}, core.Lit{A: lenGreaterAtom(arg, k), Want: true})
					if !(g.OK && g.PassEdges > 0) {
						unguarded = append(unguarded, core.FuncName(ci.Parent()))
					}
				}
				if len(callers) > 0 && len(unguarded) == 0 {
					c.Ok("R14.2", key, c.Pos(s.Instr), v.Form+" guarded at every caller")
					continue
				}
				c.Viol("R14.2", key, c.Pos(s.Instr), fmt.Sprintf("%s indexes its string parameter as %s without %s, and callers %v pass a possibly shorter string: the parser panics on some input", core.FuncName(fn), v.Form, v.Need, unguarded))
				continue
			}
			c.Viol("R14.2", key, c.Pos(s.Instr), fmt.Sprintf("%s: %s on a value derived from the input string has no dominating guard %s: the parser panics on some input", core.FuncName(fn), v.Form, v.Need))
		}
	}
	c.Extra["index_sinks_seen"] = nSinks
	c.Extra["index_sinks_decided"] = nDecided
	c.Floor("R14.2", "decidable index operations in the URI parsers", nDecided, 5)

	// ---- R14.3 type range
	if fn := c.Fn("R14.3", "std/encoding", "", "componentFromStrInto"); fn != nil {
		var accepts []ssa.Instruction
		core.Instrs(fn, func(in ssa.Instruction) {
			if r, ok := in.(*ssa.Return); ok && len(r.Results) > 0 && core.IsNilConst(r.Results[0]) {
				accepts = append(accepts, r)
			}
		})
		isTyp := func(v ssa.Value) bool { _, ok := core.FieldOf(v, "Typ"); return ok }
		hasEq := &core.Atom{Name: "has-type-part", Match: func(cond ssa.Value) (int, int) {
			if phi, ok := core.Strip(cond).(*ssa.Phi); ok && phi.Comment == "hasEq" {
				return 1, -1
			}
			return 0, 0
		}}
		lo := &core.Atom{Name: "typ>0", Match: func(cond ssa.Value) (int, int) {
			op, x, y, ok := core.Cmp(cond)
			if !ok || !isTyp(x) {
				return 0, 0
			}
			k, isC := core.ConstInt(y)
			if !isC {
				return 0, 0
			}
			switch {
			case op == token.LEQ && k == 0, op == token.LSS && k == 1, op == token.EQL && k == 0:
				return -1, 1
			case op == token.GTR && k == 0, op == token.GEQ && k == 1, op == token.NEQ && k == 0:
				return 1, -1
			}
			return 0, 0
		}}
		hi := &core.Atom{Name: "typ<=0xffff", Match: func(cond ssa.Value) (int, int) {
			op, x, y, ok := core.Cmp(cond)
			if !ok || !isTyp(x) {
				return 0, 0
			}
			k, isC := core.ConstInt(y)
			if !isC {
				return 0, 0
			}
			switch {
			case op == token.GTR && k == 0xffff, op == token.GEQ && k == 0x10000:
				return -1, 1
			case op == token.LEQ && k == 0xffff, op == token.LSS && k == 0x10000:
				return 1, -1
			}
			return 0, 0
		}}
		_ = hasEq
		// from every store of a type that was parsed from the string (not the constant
		// default) no accepting return is reachable except through the edges asserting
		// typ > 0 and typ <= 0xffff
		cutLo, perLo := core.CutEdges(fn, pos(lo))
		cutHi, perHi := core.CutEdges(fn, pos(hi))
		nParsed, okRange := 0, true
		core.Instrs(fn, func(in ssa.Instruction) {
			fa, v, ok := storeToField(in, "Component", "Typ")
			if !ok || fa == nil {
				return
			}
			if _, isC := core.ConstInt(v); isC {
				return
			}
			nParsed++
			for _, acc := range accepts {
				if core.ReachInstrFrom(core.After(in), acc, cutLo, nil) != nil || core.ReachInstrFrom(core.After(in), acc, cutHi, nil) != nil {
					okRange = false
				}
			}
		})
		g1 := core.GateResult{OK: okRange && nParsed > 0, PerLit: []int{0, perLo[0]}}
		g2 := core.GateResult{OK: okRange && nParsed > 0, PerLit: []int{0, perHi[0]}}
		c.Decide(len(accepts) > 0 && g1.OK && g1.PerLit[1] > 0 && g2.OK && g2.PerLit[1] > 0, "R14.3", "component-type-range", p.Pos(fn.Pos()), "a typed component is accepted only with 0 < type ≤ 0xffff", "componentFromStrInto accepts a component type outside 1..65535")
	}
}

// elemIndexOf: v is container[i] (value or address load) for the given container; the
// index value is returned.
func elemIndexOf(v, container ssa.Value) ssa.Value {
	v = core.Strip(v)
	// container itself, or a prefix container[:k] of it (`for i, c := range n[:common]`):
	// element i of the prefix is element i of the container
	isCont := func(x ssa.Value) bool {
		x = core.Strip(x)
		if x == container {
			return true
		}
		if sl, ok := x.(*ssa.Slice); ok && core.Strip(sl.X) == container {
			if sl.Low == nil {
				return true
			}
			if k, isC := core.ConstInt(sl.Low); isC && k == 0 {
				return true
			}
		}
		return false
	}
	if u, ok := v.(*ssa.UnOp); ok && u.Op == token.MUL {
		// a local copy of the element (range value variable whose address is taken)
		if al, isAl := u.X.(*ssa.Alloc); isAl {
			if sv, once := core.StoredOnce(al); once {
				return elemIndexOf(sv, container)
			}
		}
		if ia, ok := u.X.(*ssa.IndexAddr); ok && isCont(ia.X) {
			return core.StripConv(ia.Index)
		}
	}
	if ix, ok := v.(*ssa.Index); ok && core.Strip(ix.X) == container {
		return core.StripConv(ix.Index)
	}
	return nil
}

func lenGreaterAtom(x ssa.Value, k int64) *core.Atom { return core.AtomLenGreater(x, k) }

// c14Round4 — rules added for defects a bug-hunting agent demonstrated on the unmodified tree.
//
// R14.10 the URI form of a pattern agrees with the URI form of a name: NamePattern.String
// applies the trailing-"/" rule (a final empty generic component) to every dynamic type the
// pattern parsers put into a pattern — they store Component by value, so a type assertion
// on *Component alone never fires and "/a//" prints as "/a/" (one component when parsed back).
//
// R14.11 the name a string parser returns is used only when parsing succeeded: no use of
// the result of NameFromStr / ComponentFromStr / NamePatternFromStr / ComponentPatternFromStr
// sits on the edge asserting err != nil (an inverted test stores the nil name for every
// malformed string and refuses every well-formed one).
func c14Round4(c *core.Ctx) {
	p := c.P
	// ---- R14.10
	stored := map[string]bool{}
	for _, name := range []string{"NamePatternFromStr", "ComponentPatternFromStr"} {
		fn := c.Fn("R14.10", "std/encoding", "", name)
		if fn == nil {
			continue
		}
		core.InstrsDeep(fn, func(in ssa.Instruction) {
			if mi, ok := in.(*ssa.MakeInterface); ok {
				if nt, isN := mi.Type().(*types.Named); isN && nt.Obj().Name() == "ComponentPattern" {
					t := mi.X.Type().String()
					if strings.HasSuffix(t, "encoding.Component") {
						stored[strings.TrimPrefix(t, core.ModPath+"/")] = true
					}
				}
			}
		})
	}
	if ps := c.Fn("R14.10", "std/encoding", "NamePattern", "String"); ps != nil {
		asserted := map[string]bool{}
		core.InstrsDeep(ps, func(in ssa.Instruction) {
			if ta, ok := in.(*ssa.TypeAssert); ok {
				t := ta.AssertedType.String()
				if strings.HasSuffix(t, "encoding.Component") {
					asserted[strings.TrimPrefix(t, core.ModPath+"/")] = true
				}
			}
		})
		missing := ""
		for t := range stored {
			if !asserted[t] {
				missing = t
			}
		}
		c.Decide(len(stored) > 0 && missing == "", "R14.10", "pattern-uri-trailing-empty-component", p.Pos(ps.Pos()), fmt.Sprintf("NamePattern.String inspects the last element under every dynamic type the pattern parsers store (%d)", len(stored)), "NamePattern.String applies the trailing-\"/\" rule only to other dynamic types than the one the pattern parsers store ("+missing+"): a pattern ending in the empty generic component prints without its trailing slash and parses back with one component fewer (\"/a//\" → \"/a/\")")
	}
	// ---- R14.11
	parsers := map[string]bool{"NameFromStr": true, "ComponentFromStr": true, "NamePatternFromStr": true, "ComponentPatternFromStr": true}
	nCalls := 0
	for _, pk := range p.All {
		for _, fn := range p.FuncsIn(pk.PkgPath) {
			if strings.HasSuffix(p.File(fn.Pos()), "_test.go") {
				continue
			}
			core.Instrs(fn, func(in ssa.Instruction) {
				cl, ok := in.(*ssa.Call)
				if !ok {
					return
				}
				id, ok := core.Callee(&cl.Call)
				if !ok || id.Pkg != "std/encoding" || !parsers[id.Name] {
					return
				}
				var res, errv ssa.Value
				for _, r := range core.Refs(cl) {
					if ex, isE := r.(*ssa.Extract); isE {
						if ex.Index == 0 {
							res = ex
						} else {
							errv = ex
						}
					}
				}
				if res == nil || errv == nil {
					return
				}
				nCalls++
				failed := atomNonNil("parse error", errv)
				bad := ""
				for _, f := range core.EdgeFacts(fn, failed) {
					if !f.Holds || len(f.E.To.Preds) != 1 {
						continue
					}
					for _, u := range core.Refs(res) {
						if _, isPhi := u.(*ssa.Phi); isPhi {
							continue
						}
						if u.Block() == f.E.To || f.E.To.Dominates(u.Block()) {
							bad = c.Pos(u)
						}
					}
				}
				if bad != "" {
					c.Viol("R14.11", "parsed-name-used-only-on-success:"+core.FuncName(fn)+":"+id.Name, bad, core.FuncName(fn)+" uses the value returned by "+id.Name+" on the path on which it reported an error (inverted test): every malformed string is accepted as the nil name and every well-formed URI is refused")
				}
			})
		}
	}
	c.Decide(true, "R14.11", "parsed-name-used-only-on-success", "-", fmt.Sprintf("%d string-parser calls with a checked error inspected", nCalls), "")
	c.Floor("R14.11", "string-parser calls with a checked error", nCalls, 10)
}

// c14DecimalTextLimit — R14.11 "URI round trip": every number a numeric component can hold
// (up to 2^64-1, twenty decimal digits) is printed by String and must parse back. A limit on
// the length of the decimal text in compValFmtDec.FromString refuses only texts longer than
// twenty characters: `len(s) > K` needs K ≥ 20, `len(s) >= K` needs K ≥ 21. (No limit at
// all is fine: strconv refuses what does not fit.)
func c14DecimalTextLimit(c *core.Ctx) {
	p := c.P
	var fn *ssa.Function
	for _, f := range p.FuncsIn(core.ModPath + "/std/encoding") {
		if id := core.FuncID(f); id.Recv == "compValFmtDec" && id.Name == "FromString" {
			fn = f
		}
	}
	if fn == nil || len(fn.Params) == 0 {
		c.Und("R14.11", "anchor:compValFmtDec.FromString", "-", "function not found")
		return
	}
	s := ssa.Value(fn.Params[len(fn.Params)-1])
	n, bad := 0, ""
	core.InstrsDeep(fn, func(in ssa.Instruction) {
		iff, ok := in.(*ssa.If)
		if !ok {
			return
		}
		op, x, y, okC := core.CmpOrient(iff.Cond, core.IsLen)
		if !okC {
			return
		}
		l, isLen := core.LenOf(x)
		if !isLen || core.Strip(l) != s {
			return
		}
		k, isK := core.ConstInt(y)
		if !isK {
			return
		}
		t := k // texts longer than t are refused (or, for the mirrored forms, only texts up to t pass)
		switch op {
		case token.GTR, token.LEQ:
		case token.GEQ, token.LSS:
			t = k - 1
		default:
			return
		}
		n++
		if t < 20 {
			bad = fmt.Sprintf("%s (texts longer than %d characters)", c.Pos(iff), t)
		}
	})
	c.Decide(bad == "", "R14.11", "decimal-text-limit-admits-twenty-digits", p.Pos(fn.Pos()), fmt.Sprintf("%d length limit(s) on the decimal text, none below twenty digits", n), "compValFmtDec.FromString refuses decimal texts at "+bad+": 2^64-1 has twenty digits — seg / off / v / t / seq components with values of 10^19 and more are printed by String but no longer parse back")
}

// c14ArrayIndexedByOctet — R14.12 "parsing never panics on any string": a fixed-size table
// (an array of N < 256 elements, e.g. a [128]int8 of ASCII digit values) indexed by an octet
// of the input is indexed only behind a test that the octet is below N. An octet ≥ 0x80 —
// any non-ASCII text in a URI — indexes past a 128-entry table and panics.
func c14ArrayIndexedByOctet(c *core.Ctx) {
	p := c.P
	n, bad := 0, ""
	for _, fn := range p.FuncsIn(core.ModPath + "/std/encoding") {
		if strings.HasSuffix(p.File(fn.Pos()), "_test.go") || strings.HasPrefix(filepathBase(p.File(fn.Pos())), "zz_generated") {
			continue
		}
		core.Instrs(fn, func(in ssa.Instruction) {
			var cont, idx ssa.Value
			switch x := in.(type) {
			case *ssa.IndexAddr:
				cont, idx = x.X, x.Index
			case *ssa.Index:
				cont, idx = x.X, x.Index
			default:
				return
			}
			arr, isArr := core.Deref(cont.Type()).Underlying().(*types.Array)
			if !isArr || arr.Len() >= 256 {
				return
			}
			iv := core.StripConv(idx)
			bt, isB := iv.Type().Underlying().(*types.Basic)
			if !isB || bt.Kind() != types.Uint8 {
				return
			}
			if _, isK := core.ConstInt(iv); isK {
				return
			}
			n++
			N := arr.Len()
			below := &core.Atom{Name: "octet < N", Match: func(cond ssa.Value) (int, int) {
				op, x, y, ok := core.Cmp(cond)
				if !ok || core.StripConv(x) != iv {
					return 0, 0
				}
				k, isK := core.ConstInt(y)
				if !isK {
					return 0, 0
				}
				switch {
				case op == token.LSS && k <= N, op == token.LEQ && k < N:
					return 1, -1
				case op == token.GEQ && k <= N, op == token.GTR && k < N:
					return -1, 1
				}
				return 0, 0
			}}
			// a masked index (b & 0x7f) cannot exceed the mask
			if b, isBin := iv.(*ssa.BinOp); isBin && b.Op == token.AND {
				if k, isK := core.ConstInt(b.Y); isK && k < N {
					return
				}
			}
			g := core.Gate(fn, []ssa.Instruction{in}, core.Lit{A: below, Want: true})
			if !(g.OK && g.PassEdges > 0) {
				bad = fmt.Sprintf("%s at %s ([%d] indexed by an octet)", core.FuncName(fn), c.Pos(in), N)
			}
		})
	}
	c.Decide(bad == "", "R14.12", "table-indexed-by-an-octet-is-guarded", "-", fmt.Sprintf("%d tables of fewer than 256 entries indexed by an octet, each behind a test that the octet is below the table's size", n), "a table is indexed by an octet of the input without a test that the octet is below its size ("+bad+"): a byte ≥ the size — any non-ASCII character of a URI — panics with index out of range; parsing must never panic on any string")
}

func filepathBase(s string) string {
	if i := strings.LastIndexByte(s, '/'); i >= 0 {
		return s[i+1:]
	}
	return s
}
